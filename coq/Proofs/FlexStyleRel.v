(* C04 -- every resolution the flexbox algorithm performs on a style (its own or a child's) is homogeneous: `fstyle_rel k` (every length of
   the style scaled) implies the weak relation `fstyle_wrel k` of Model/FlexAlgRel.v, which is all the relational theorem about the flex
   resumption (Proofs/FlexAlgRel.v) uses of a style.  One lemma per site:
     rel_styled_known_dimensions   compute_flexbox_layout l.164-223 (size / min / max of the container, box-sizing adjustment, aspect ratio)
     rel_flex_constants            compute_constants (margin / padding / border / gap / min / max, the scrollbar gutter in the inset)
     rel_child_info                generate_anonymous_flex_items (a child's size / min / max / margin / padding / border)
     rel_base_env                  determine_flex_base_size (cross-axis available space, known dimensions, the resolved flex-basis)
     rel_used_cross_size           determine_used_cross_size (stretch: max_size ignoring the aspect ratio)
     rel_abs_style                 the absolute pass: the adapter to Model/AbsPosBase.v preserves the style relation; the translated
                                   `flex_resolve` is Proofs/ScaleAbsProofs.v rel_flex_resolve (C04_abs_styles) *)
From Coq Require Import QArith Qabs Lqa Bool List ZArith Lia.
From TV Require Import Num.Num Num.QNum Model.Common Model.Leaf Gen.FlexGen Model.Flex Model.FlexLines Model.FlexBase Model.FlexContainer.
From TV Require Import Model.FiltersBase Gen.FiltersGen Model.ItemFilters Model.FlexAlgBase Model.FlexAlgAbs Model.FlexAlg Model.FlexAlgT.
From TV Require Import Model.Scale Model.ScaleFlex Model.Engine Model.EngineRel Model.FlexAlgRel.
From TV Require Model.AbsPosBase Gen.AbsPosEnums Gen.AbsPosGen Model.ScaleAbs Proofs.ScaleAbsProofs.
From TV Require Import Proofs.ScaleProofs.
Import ListNotations.
Close Scope Z_scope.

Ltac unfold_axes :=
  cbv beta delta [s_main s_cross s_with_main s_with_cross s_of_mc r_main_start r_main_end r_cross_start r_cross_end
                  main_axis_sum cross_axis_sum] in *.

Section Sites.
  Variable k : Q.
  Hypothesis Hk : 0 < k.
  Notation L := (sc k).
  Notation O := (op_rel (sc k)).
  Notation A := (av_rel (sc k)).

  Lemma rel_resolved_min_max d d' p p' ar ar' adj adj' :
    sz_rel (lpa_rel k) d d' -> sz_rel O p p' -> op_rel dl ar ar' -> sz_rel L adj adj' ->
    sz_rel O (resolved_min_max d p ar adj) (resolved_min_max d' p' ar' adj').
  Proof.
    intros Hd Hp Har Hadj. unfold resolved_min_max.
    assert (H1 : sz_rel O (maybe_apply_aspect_ratio (size_maybe_resolve_dim d p) ar) (maybe_apply_aspect_ratio (size_maybe_resolve_dim d' p') ar')).
    { apply (rel_maybe_apply_aspect_ratio k Hk); [|exact Har]. unfold_lifts. hm k Hk. }
    revert H1. generalize (maybe_apply_aspect_ratio (size_maybe_resolve_dim d p) ar), (maybe_apply_aspect_ratio (size_maybe_resolve_dim d' p') ar').
    intros x x' Hx. unfold_lifts. hm k Hk.
  Qed.

  Lemma rel_rect_lp r r' c c' : rc_rel (lp_rel k) r r' -> O c c' -> rc_rel L (rect_resolve_or_zero_lp r c) (rect_resolve_or_zero_lp r' c').
  Proof. intros Hr Hc. unfold_lifts. hm k Hk. Qed.
  Lemma rel_rect_lpa r r' c c' : rc_rel (lpa_rel k) r r' -> O c c' -> rc_rel L (rect_resolve_or_zero_lpa r c) (rect_resolve_or_zero_lpa r' c').
  Proof. intros Hr Hc. unfold_lifts. hm k Hk. Qed.
  Lemma rel_rect_lp_size r r' c c' :
    rc_rel (lp_rel k) r r' -> sz_rel O c c' -> rc_rel L (rect_resolve_or_zero_lp_size r c) (rect_resolve_or_zero_lp_size r' c').
  Proof. intros Hr Hc. unfold_lifts. hm k Hk. Qed.
  Lemma rel_sum_axes r r' : rc_rel L r r' -> sz_rel L (sum_axes r) (sum_axes r').
  Proof. intros Hr. unfold_lifts. hm k Hk. Qed.
  Lemma rel_rect_add a a' b b' : rc_rel L a a' -> rc_rel L b b' -> rc_rel L (rect_add a b) (rect_add a' b').
  Proof. intros Ha Hb. unfold_lifts. hm k Hk. Qed.
  Lemma rel_size_add a a' b b' : sz_rel L a a' -> sz_rel L b b' -> sz_rel L (size_add a b) (size_add a' b').
  Proof. intros Ha Hb. unfold_lifts. hm k Hk. Qed.
  Lemma rel_size_ZERO : sz_rel L size_ZERO size_ZERO.
  Proof. unfold_lifts. hm k Hk. Qed.

  Ltac style_open H :=
    destruct H as (Edisp & Epos & Ebs & Eov & Hsw & Hsize & Hmin & Hmax & Har & Hmargin & Hpad & Hbor).
  Ltac fstyle_open H :=
    destruct H as (Hcore & Hinset & Erow & Erev & Ewrap & Ewr & Eai & Eas & Eac & Ejc & Hgap & Hbasis & Hgrow & Hshrink).

  (* ---- compute_flexbox_layout: the container's own size *)
  Lemma rel_styled_known_dimensions s s' kd kd' ps ps' sm :
    fstyle_rel k s s' -> sz_rel O kd kd' -> sz_rel O ps ps' ->
    sz_rel O (styled_known_dimensions (to_cstyle s) kd ps sm) (styled_known_dimensions (to_cstyle s') kd' ps' sm).
  Proof.
    intros Hs Hkd Hps. fstyle_open Hs. style_open Hcore. unfold styled_known_dimensions, to_cstyle.
    cbn [cs_row cs_reverse cs_wrap cs_wrap_reverse cs_justify cs_align_content cs_align_items cs_size cs_min cs_max cs_margin cs_padding
         cs_border cs_gap cs_box_sizing cs_aspect].
    rewrite Ebs.
    pose proof (proj1 Hps) as Hpw.
    pose proof (rel_rect_lp _ _ _ _ Hpad Hpw) as Rpad. pose proof (rel_rect_lp _ _ _ _ Hbor Hpw) as Rbor.
    pose proof (rel_size_add _ _ _ _ (rel_sum_axes _ _ Rpad) (rel_sum_axes _ _ Rbor)) as Rpb.
    set (pb := size_add (sum_axes (rect_resolve_or_zero_lp (padding (fs_core s)) (width ps)))
                        (sum_axes (rect_resolve_or_zero_lp (border (fs_core s)) (width ps)))) in *.
    set (pb' := size_add (sum_axes (rect_resolve_or_zero_lp (padding (fs_core s')) (width ps')))
                         (sum_axes (rect_resolve_or_zero_lp (border (fs_core s')) (width ps')))) in *.
    assert (Radj : sz_rel L (match box_sizing (fs_core s) with ContentBox => pb | BorderBox => size_ZERO end)
                            (match box_sizing (fs_core s) with ContentBox => pb' | BorderBox => size_ZERO end))
      by (destruct (box_sizing (fs_core s)); [apply rel_size_ZERO|exact Rpb]).
    set (adj := match box_sizing (fs_core s) with ContentBox => pb | BorderBox => size_ZERO end) in *.
    set (adj' := match box_sizing (fs_core s) with ContentBox => pb' | BorderBox => size_ZERO end) in *.
    pose proof (rel_resolved_min_max _ _ _ _ _ _ _ _ Hmin Hps Har Radj) as Rmin.
    pose proof (rel_resolved_min_max _ _ _ _ _ _ _ _ Hmax Hps Har Radj) as Rmax.
    pose proof (rel_resolved_min_max _ _ _ _ _ _ _ _ Hsize Hps Har Radj) as Rsize.
    set (mn := resolved_min_max (min_size (fs_core s)) ps (aspect_ratio (fs_core s)) adj) in *.
    set (mn' := resolved_min_max (min_size (fs_core s')) ps' (aspect_ratio (fs_core s')) adj') in *.
    set (mx := resolved_min_max (max_size (fs_core s)) ps (aspect_ratio (fs_core s)) adj) in *.
    set (mx' := resolved_min_max (max_size (fs_core s')) ps' (aspect_ratio (fs_core s')) adj') in *.
    set (sz := resolved_min_max (size (fs_core s)) ps (aspect_ratio (fs_core s)) adj) in *.
    set (sz' := resolved_min_max (size (fs_core s')) ps' (aspect_ratio (fs_core s')) adj') in *.
    clearbody mn mn' mx mx' sz sz' pb pb' adj adj'.
    destruct sm; unfold_lifts; hm k Hk.
  Qed.

  Lemma rel_scrollbar_gutter s s' :
    overflow (fs_core s') = overflow (fs_core s) -> L (scrollbar_width (fs_core s)) (scrollbar_width (fs_core s')) ->
    pt_rel L (scrollbar_gutter s) (scrollbar_gutter s').
  Proof.
    intros Eov Hsw. unfold scrollbar_gutter. rewrite Eov. unfold_lifts.
    split; match goal with |- context [if ?b then _ else _] => destruct b end; auto using sc_zero.
  Qed.

  (* ---- compute_constants *)
  Lemma rel_flex_constants s s' kd kd' ps ps' :
    fstyle_rel k s s' -> sz_rel O kd kd' -> sz_rel O ps ps' -> kconst_rel k (flex_constants s kd ps) (flex_constants s' kd' ps').
  Proof.
    intros Hs Hkd Hps. pose proof Hs as Hs0. fstyle_open Hs. style_open Hcore.
    pose proof (rel_scrollbar_gutter s s' Eov Hsw) as [Hgx Hgy].
    unfold flex_constants, container_align_items, to_cstyle, kconst_rel.
    cbn [cs_row cs_reverse cs_wrap cs_wrap_reverse cs_justify cs_align_content cs_align_items cs_size cs_min cs_max cs_margin cs_padding
         cs_border cs_gap cs_box_sizing cs_aspect
         k_row k_reverse k_wrap k_wrap_reverse k_min k_max k_margin k_border k_gap k_inset k_align_items k_align_content k_justify k_outer k_inner].
    rewrite Ebs, Erow, Erev, Ewrap, Ewr, Eai, Eac, Ejc.
    pose proof (proj1 Hps) as Hpw.
    pose proof (rel_rect_lp _ _ _ _ Hpad Hpw) as Rpad. pose proof (rel_rect_lp _ _ _ _ Hbor Hpw) as Rbor.
    pose proof (rel_rect_lpa _ _ _ _ Hmargin Hpw) as Rmar.
    pose proof (rel_size_add _ _ _ _ (rel_sum_axes _ _ Rpad) (rel_sum_axes _ _ Rbor)) as Rpb.
    set (pad := rect_resolve_or_zero_lp (padding (fs_core s)) (width ps)) in *.
    set (pad' := rect_resolve_or_zero_lp (padding (fs_core s')) (width ps')) in *.
    set (bor := rect_resolve_or_zero_lp (border (fs_core s)) (width ps)) in *.
    set (bor' := rect_resolve_or_zero_lp (border (fs_core s')) (width ps')) in *.
    set (pb := size_add (sum_axes pad) (sum_axes bor)) in *. set (pb' := size_add (sum_axes pad') (sum_axes bor')) in *.
    assert (Radj : sz_rel L (match box_sizing (fs_core s) with ContentBox => pb | BorderBox => size_ZERO end)
                            (match box_sizing (fs_core s) with ContentBox => pb' | BorderBox => size_ZERO end))
      by (destruct (box_sizing (fs_core s)); [apply rel_size_ZERO|exact Rpb]).
    pose proof (rel_resolved_min_max _ _ _ _ _ _ _ _ Hmin Hps Har Radj) as Rmin.
    pose proof (rel_resolved_min_max _ _ _ _ _ _ _ _ Hmax Hps Har Radj) as Rmax.
    clearbody pb pb'.
    assert (Rin : rc_rel L (mkRect (r_left (rect_add pad bor)) (r_right (rect_add pad bor) + px (scrollbar_gutter s))%num (r_top (rect_add pad bor))
                                   (r_bottom (rect_add pad bor) + py (scrollbar_gutter s))%num)
                           (mkRect (r_left (rect_add pad' bor')) (r_right (rect_add pad' bor') + px (scrollbar_gutter s'))%num (r_top (rect_add pad' bor'))
                                   (r_bottom (rect_add pad' bor') + py (scrollbar_gutter s'))%num)).
    { pose proof (rel_rect_add _ _ _ _ Rpad Rbor) as (R1 & R2 & R3 & R4). unfold rc_rel. cbn [r_left r_right r_top r_bottom].
      repeat split; try assumption; apply sc_add; assumption. }
    set (inset := mkRect _ _ _ _) in *. set (inset' := mkRect _ _ _ _) in Rin |- *.
    assert (Rinner : sz_rel O (size_maybe_sub_of kd (sum_axes inset)) (size_maybe_sub_of kd' (sum_axes inset'))).
    { pose proof (rel_sum_axes _ _ Rin) as Rs. clearbody inset inset'. unfold_lifts. hm k Hk. }
    clearbody inset inset' pad pad' bor bor'.
    repeat match goal with |- _ /\ _ => split end; try reflexivity; try assumption.
    - set (ni := size_maybe_sub_of kd (sum_axes inset)) in *. set (ni' := size_maybe_sub_of kd' (sum_axes inset')) in *.
      clearbody ni ni'. unfold size_resolve_or_zero_lp, size_or_zero. unfold_lifts. hm k Hk.
  Qed.

  (* ---- generate_anonymous_flex_items *)
  Lemma rel_child_info s s' c c' : fstyle_rel k s s' -> kconst_rel k c c' -> ci_rel k (child_info c (to_child s)) (child_info c' (to_child s')).
  Proof.
    intros Hs Hc. fstyle_open Hs. style_open Hcore.
    destruct Hc as (Ekr & Ekrev & Ekw & Ekwr & Hkmin & Hkmax & Hkmar & Hkbor & Hkgap & Hkin & Ekai & Ekac & Ekj & Hko & Hki).
    unfold child_info, to_child, ci_rel.
    cbn [ch_style ch_flex_basis ch_grow ch_shrink ch_align_self ci_size ci_min ci_max ci_margin ci_margin_auto ci_padding ci_border ci_align].
    rewrite Ebs, Eas, Ekai.
    pose proof (proj1 Hki) as Hiw.
    pose proof (rel_rect_lp _ _ _ _ Hpad Hiw) as Rpad. pose proof (rel_rect_lp _ _ _ _ Hbor Hiw) as Rbor.
    pose proof (rel_rect_lpa _ _ _ _ Hmargin Hiw) as Rmar.
    pose proof (rel_sum_axes _ _ (rel_rect_add _ _ _ _ Rpad Rbor)) as Rpb.
    assert (Radj : sz_rel L (match box_sizing (fs_core s) with ContentBox => sum_axes (rect_add (rect_resolve_or_zero_lp (padding (fs_core s)) (width (k_inner c))) (rect_resolve_or_zero_lp (border (fs_core s)) (width (k_inner c)))) | BorderBox => size_ZERO end)
                            (match box_sizing (fs_core s) with ContentBox => sum_axes (rect_add (rect_resolve_or_zero_lp (padding (fs_core s')) (width (k_inner c'))) (rect_resolve_or_zero_lp (border (fs_core s')) (width (k_inner c')))) | BorderBox => size_ZERO end))
      by (destruct (box_sizing (fs_core s)); [apply rel_size_ZERO|exact Rpb]).
    repeat match goal with |- _ /\ _ => split end; try reflexivity; try assumption;
      try (apply rel_resolved_min_max; assumption).
    destruct Hmargin as (M1 & M2 & M3 & M4). unfold rect_map, lpa_is_auto.
    destruct (r_left (margin (fs_core s))), (r_left (margin (fs_core s'))); cbn [lpa_rel] in M1; try contradiction;
    destruct (r_right (margin (fs_core s))), (r_right (margin (fs_core s'))); cbn [lpa_rel] in M2; try contradiction;
    destruct (r_top (margin (fs_core s))), (r_top (margin (fs_core s'))); cbn [lpa_rel] in M3; try contradiction;
    destruct (r_bottom (margin (fs_core s))), (r_bottom (margin (fs_core s'))); cbn [lpa_rel] in M4; try contradiction; reflexivity.
  Qed.

  Ltac kconst_open H :=
    destruct H as (Ekr & Ekrev & Ekw & Ekwr & Hkmin & Hkmax & Hkmar & Hkbor & Hkgap & Hkin & Ekai & Ekac & Ekj & Hko & Hki).
  Ltac ci_open H := destruct H as (Hcsz & Hcmin & Hcmax & Hcmar & Ecma & Hcpad & Hcbor & Ecal).

  (* ---- determine_flex_base_size: the environment of the two measurements and the resolved flex-basis *)
  Lemma rel_base_env_common c c' av av' ch ch' ci ci' :
    kconst_rel k c c' -> sz_rel A av av' -> ci_rel k ci ci' ->
    A (be_cross_avail (base_env c av ch ci)) (be_cross_avail (base_env c' av' ch' ci')) /\
    sz_rel O (be_known (base_env c av ch ci)) (be_known (base_env c' av' ch' ci')) /\
    sz_rel O (be_parent (base_env c av ch ci)) (be_parent (base_env c' av' ch' ci')).
  Proof.
    intros Hc Hav Hci. kconst_open Hc. ci_open Hci. unfold base_env. cbn [be_cross_avail be_known be_parent be_style_basis].
    rewrite Ekr, Ecal.
    assert (Hca : A (match s_cross (k_row c) av with
                     | Definite val => Definite (maybe_clamp_fo (opt_unwrap_or (s_cross (k_row c) (k_inner c)) val)
                                                   (maybe_add_of (s_cross (k_row c) (ci_min ci)) (cross_axis_sum (k_row c) (k_margin c)))
                                                   (maybe_add_of (s_cross (k_row c) (ci_max ci)) (cross_axis_sum (k_row c) (k_margin c))))
                     | MinContent => match maybe_add_of (s_cross (k_row c) (ci_min ci)) (cross_axis_sum (k_row c) (k_margin c)) with
                                     | Some mn => Definite mn | None => MinContent end
                     | MaxContent => match maybe_add_of (s_cross (k_row c) (ci_max ci)) (cross_axis_sum (k_row c) (k_margin c)) with
                                     | Some mx => Definite mx | None => MaxContent end
                     end)
                    (match s_cross (k_row c) av' with
                     | Definite val => Definite (maybe_clamp_fo (opt_unwrap_or (s_cross (k_row c) (k_inner c')) val)
                                                   (maybe_add_of (s_cross (k_row c) (ci_min ci')) (cross_axis_sum (k_row c) (k_margin c')))
                                                   (maybe_add_of (s_cross (k_row c) (ci_max ci')) (cross_axis_sum (k_row c) (k_margin c'))))
                     | MinContent => match maybe_add_of (s_cross (k_row c) (ci_min ci')) (cross_axis_sum (k_row c) (k_margin c')) with
                                     | Some mn => Definite mn | None => MinContent end
                     | MaxContent => match maybe_add_of (s_cross (k_row c) (ci_max ci')) (cross_axis_sum (k_row c) (k_margin c')) with
                                     | Some mx => Definite mx | None => MaxContent end
                     end)).
    { assert (Hmn : O (maybe_add_of (s_cross (k_row c) (ci_min ci)) (cross_axis_sum (k_row c) (k_margin c)))
                      (maybe_add_of (s_cross (k_row c) (ci_min ci')) (cross_axis_sum (k_row c) (k_margin c'))))
        by (destruct (k_row c); unfold_axes; unfold_lifts; hm k Hk).
      assert (Hmx : O (maybe_add_of (s_cross (k_row c) (ci_max ci)) (cross_axis_sum (k_row c) (k_margin c)))
                      (maybe_add_of (s_cross (k_row c) (ci_max ci')) (cross_axis_sum (k_row c) (k_margin c'))))
        by (destruct (k_row c); unfold_axes; unfold_lifts; hm k Hk).
      assert (Hcav : A (s_cross (k_row c) av) (s_cross (k_row c) av')) by (destruct (k_row c); unfold_axes; apply Hav).
      assert (Hcp : O (s_cross (k_row c) (k_inner c)) (s_cross (k_row c) (k_inner c'))) by (destruct (k_row c); unfold_axes; apply Hki).
      revert Hmn Hmx Hcav Hcp.
      generalize (maybe_add_of (s_cross (k_row c) (ci_min ci)) (cross_axis_sum (k_row c) (k_margin c))),
                 (maybe_add_of (s_cross (k_row c) (ci_min ci')) (cross_axis_sum (k_row c) (k_margin c'))),
                 (maybe_add_of (s_cross (k_row c) (ci_max ci)) (cross_axis_sum (k_row c) (k_margin c))),
                 (maybe_add_of (s_cross (k_row c) (ci_max ci')) (cross_axis_sum (k_row c) (k_margin c'))),
                 (s_cross (k_row c) av), (s_cross (k_row c) av'), (s_cross (k_row c) (k_inner c)), (s_cross (k_row c) (k_inner c')).
      intros mn mn' mx mx' a a' p p' Hmn Hmx Ha Hp.
      destruct a, a'; cbn [av_rel] in Ha; try contradiction.
      - cbn [av_rel]. hm k Hk.
      - destruct mn, mn'; cbn [op_rel] in Hmn; try contradiction; cbn [av_rel]; auto.
      - destruct mx, mx'; cbn [op_rel] in Hmx; try contradiction; cbn [av_rel]; auto. }
    split; [exact Hca|].
    set (ca := match s_cross (k_row c) av with Definite _ => _ | MinContent => _ | MaxContent => _ end) in *.
    set (ca' := match s_cross (k_row c) av' with Definite _ => _ | MinContent => _ | MaxContent => _ end) in *.
    clearbody ca ca'.
    split.
    - assert (Hkd0 : sz_rel O (s_with_main (k_row c) (ci_size ci) None) (s_with_main (k_row c) (ci_size ci') None))
        by (destruct (k_row c); unfold_axes; destruct Hcsz; split; cbn [width height op_rel]; auto).
      set (kd0 := s_with_main (k_row c) (ci_size ci) None) in *. set (kd0' := s_with_main (k_row c) (ci_size ci') None) in *.
      assert (Ecr : match s_cross (k_row c) kd0' with None => true | Some _ => false end =
                    match s_cross (k_row c) kd0 with None => true | Some _ => false end).
      { assert (Hx : O (s_cross (k_row c) kd0) (s_cross (k_row c) kd0')) by (destruct (k_row c); unfold_axes; apply Hkd0).
        destruct (s_cross (k_row c) kd0), (s_cross (k_row c) kd0'); cbn [op_rel] in Hx; try contradiction; reflexivity. }
      rewrite Ecr. destruct (align_self_eqb (ci_align ci) AS_Stretch && _)%bool; [|exact Hkd0].
      clearbody kd0 kd0'. destruct (k_row c); unfold_axes; unfold_lifts; hm k Hk.
    - destruct (k_row c); unfold_axes; split; cbn [width height op_rel]; try exact I; apply Hki.
  Qed.

  Lemma rel_base_env s s' c c' av av' ci ci' :
    fstyle_rel k s s' -> kconst_rel k c c' -> sz_rel A av av' -> ci_rel k ci ci' ->
    benv_rel k (base_env c av (to_child s) ci) (base_env c' av' (to_child s') ci').
  Proof.
    intros Hs Hc Hav Hci. destruct (rel_base_env_common c c' av av' (to_child s) (to_child s') ci ci' Hc Hav Hci) as (H1 & H2 & H3).
    unfold benv_rel. split; [exact H1|]. split; [exact H2|]. split; [exact H3|].
    fstyle_open Hs. style_open Hcore. kconst_open Hc.
    unfold base_env, to_child. cbn [be_style_basis ch_style ch_flex_basis]. rewrite Ebs, Ekr.
    assert (Hcw : O (s_main (k_row c) (k_inner c)) (s_main (k_row c) (k_inner c'))) by (destruct (k_row c); unfold_axes; apply Hki).
    set (cw := s_main (k_row c) (k_inner c)) in *. set (cw' := s_main (k_row c) (k_inner c')) in *. clearbody cw cw'.
    pose proof (rel_sum_axes _ _ (rel_rect_add _ _ _ _ (rel_rect_lp _ _ _ _ Hpad Hcw) (rel_rect_lp _ _ _ _ Hbor Hcw))) as Rpb.
    assert (Radj : sz_rel L (match box_sizing (fs_core s) with ContentBox => sum_axes (rect_add (rect_resolve_or_zero_lp (padding (fs_core s)) cw) (rect_resolve_or_zero_lp (border (fs_core s)) cw)) | BorderBox => size_ZERO end)
                            (match box_sizing (fs_core s) with ContentBox => sum_axes (rect_add (rect_resolve_or_zero_lp (padding (fs_core s')) cw') (rect_resolve_or_zero_lp (border (fs_core s')) cw')) | BorderBox => size_ZERO end))
      by (destruct (box_sizing (fs_core s)); [apply rel_size_ZERO|exact Rpb]).
    set (adj := match box_sizing (fs_core s) with ContentBox => _ | BorderBox => _ end) in *.
    set (adj' := match box_sizing (fs_core s) with ContentBox => sum_axes (rect_add (rect_resolve_or_zero_lp (padding (fs_core s')) cw') _) | BorderBox => _ end) in *.
    clearbody adj adj'. destruct (k_row c); unfold_axes; hm k Hk.
  Qed.

  (* ---- determine_used_cross_size *)
  Lemma rel_used_cross_size s s' c c' lc lc' ci ci' fi fi' h h' :
    fstyle_rel k s s' -> kconst_rel k c c' -> L lc lc' -> ci_rel k ci ci' -> L h h' ->
    L (used_cross_size c lc (mkWork (to_child s) ci fi) h) (used_cross_size c' lc' (mkWork (to_child s') ci' fi') h').
  Proof.
    intros Hs Hc Hlc Hci Hh. fstyle_open Hs. style_open Hcore. kconst_open Hc. ci_open Hci.
    unfold used_cross_size, to_child. cbn [w_child w_info w_item ch_style]. rewrite Ebs, Ekr, Ecal, Ecma.
    assert (Eauto : lp_is_auto_dim (s_cross (k_row c) (size (fs_core s'))) = lp_is_auto_dim (s_cross (k_row c) (size (fs_core s)))).
    { assert (Hx : lpa_rel k (s_cross (k_row c) (size (fs_core s))) (s_cross (k_row c) (size (fs_core s'))))
        by (destruct (k_row c); unfold_axes; apply Hsize).
      destruct (s_cross (k_row c) (size (fs_core s))), (s_cross (k_row c) (size (fs_core s'))); cbn [lpa_rel] in Hx; try contradiction; reflexivity. }
    rewrite Eauto.
    match goal with |- context [if ?b then _ else _] => destruct b end; [|exact Hh].
    pose proof (rel_sum_axes _ _ (rel_rect_add _ _ _ _ (rel_rect_lp_size _ _ _ _ Hpad Hki) (rel_rect_lp_size _ _ _ _ Hbor Hki))) as Rpb.
    assert (Radj : sz_rel L (match box_sizing (fs_core s) with ContentBox => sum_axes (rect_add (rect_resolve_or_zero_lp_size (padding (fs_core s)) (k_inner c)) (rect_resolve_or_zero_lp_size (border (fs_core s)) (k_inner c))) | BorderBox => size_ZERO end)
                            (match box_sizing (fs_core s) with ContentBox => sum_axes (rect_add (rect_resolve_or_zero_lp_size (padding (fs_core s')) (k_inner c')) (rect_resolve_or_zero_lp_size (border (fs_core s')) (k_inner c'))) | BorderBox => size_ZERO end))
      by (destruct (box_sizing (fs_core s)); [apply rel_size_ZERO|exact Rpb]).
    set (adj := match box_sizing (fs_core s) with ContentBox => _ | BorderBox => _ end) in *.
    set (adj' := match box_sizing (fs_core s) with ContentBox => sum_axes (rect_add (rect_resolve_or_zero_lp_size (padding (fs_core s')) (k_inner c')) _) | BorderBox => _ end) in *.
    clearbody adj adj'. destruct (k_row c); unfold_axes; unfold_lifts; hm k Hk.
  Qed.

  (* ---- the absolute pass: the adapter to the vocabulary of Model/AbsPosBase.v *)
  Lemma a_lpa_rel d d' : lpa_rel k d d' -> ScaleAbs.dim_rel k (a_lpa d) (a_lpa d').
  Proof. destruct d, d'; cbn; auto. Qed.
  Lemma a_lp_rel d d' : lp_rel k d d' -> ScaleAbs.dim_rel k (a_lp d) (a_lp d').
  Proof. destruct d, d'; cbn; auto. Qed.
  Lemma a_size_rel {X Y} (R : X -> X -> Prop) (R' : Y -> Y -> Prop) (f : X -> Y) s s' :
    (forall x x', R x x' -> R' (f x) (f x')) -> sz_rel R s s' -> ScaleAbs.asz_rel R' (a_size (size_map f s)) (a_size (size_map f s')).
  Proof. intros Hf [H1 H2]. split; cbn; apply Hf; assumption. Qed.
  Lemma a_rect_rel {X Y} (R : X -> X -> Prop) (R' : Y -> Y -> Prop) (f : X -> Y) r r' :
    (forall x x', R x x' -> R' (f x) (f x')) -> rc_rel R r r' -> ScaleAbs.arc_rel R' (a_rect (rect_map f r)) (a_rect (rect_map f r')).
  Proof. intros Hf (H1 & H2 & H3 & H4). repeat split; cbn; apply Hf; assumption. Qed.

  Lemma rel_abs_style s s' : fstyle_rel k s s' -> ScaleAbs.absstyle_rel k (abs_style s) (abs_style s').
  Proof.
    intros Hs. fstyle_open Hs. style_open Hcore. unfold ScaleAbs.absstyle_rel, abs_style.
    cbn [AbsPosBase.st_size AbsPosBase.st_min_size AbsPosBase.st_max_size AbsPosBase.st_inset AbsPosBase.st_margin
         AbsPosBase.st_padding AbsPosBase.st_border AbsPosBase.st_aspect_ratio AbsPosBase.st_box_sizing AbsPosBase.st_align_self
         AbsPosBase.st_justify_self AbsPosBase.st_position].
    rewrite Ebs, Eas.
    repeat match goal with |- _ /\ _ => split end; try reflexivity; try assumption;
      first [apply (a_size_rel (lpa_rel k)); [apply a_lpa_rel|assumption]
            |apply (a_rect_rel (lpa_rel k)); [apply a_lpa_rel|assumption]
            |apply (a_rect_rel (lp_rel k)); [apply a_lp_rel|assumption]].
  Qed.

  (* ---- every length scaled => everything the flex algorithm reads is related *)
  Theorem fwrel_of_rel r s s' : fstyle_rel k s s' -> fstyle_wrel k r s s'.
  Proof.
    intros Hs. pose proof Hs as Hs0. fstyle_open Hs. style_open Hcore. unfold fstyle_wrel.
    repeat match goal with |- _ /\ _ => split end; try assumption.
    - intros. apply rel_styled_known_dimensions; assumption.
    - intros. apply rel_flex_constants; assumption.
    - intros. apply rel_child_info; assumption.
    - intros. apply rel_base_env; assumption.
    - intros. apply rel_used_cross_size; assumption.
    - intros ac ac' Hac. apply (ScaleAbsProofs.rel_flex_resolve k Hk); [exact Hac|apply rel_abs_style; exact Hs0].
  Qed.
End Sites.
