(* An ENGINE of block containers, flex containers and leaves with per-node measure functions, for the whole-tree theorems of C04 and C12
   (Proofs/BlockFlexRel.v): the instance of the engine skeleton (Model/Engine.v) over the complete tree interface (Model/FlexAlgBase.v FIn /
   Model/Leaf.v LayoutOutput / FLay) whose
     - childless nodes run compute_leaf_layout (Model/Leaf.v, all of leaf.rs) on the CoreStyle part of their style with their own measure function,
     - nodes with children and display:flex run `flex_alg_t tau` (Model/FlexAlgT.v: ALL of compute_flexbox_layout as a resumption, the floor of
       the scaled shrink factor being `tau`; `tau = one` is Model/FlexAlg.v flex_alg, tied bit for bit by `vh flexalg`),
     - every other node with children runs the block algorithm (Model/BlockAlg.v block_alg, transported to the complete interface with
       Model/EngineLift.v lift as in Model/BlockFlexEngine.v: block_alg_bf) with the REAL preprocessing and absolute routine as defaults
       (Model/BlockEngine.v block_pre, Model/BlockAbs.v abs_child_block).
   TaffyView::compute_child_layout's dispatch is on (display, has children); grid containers are not modelled (a display:grid node with
   children is laid out by the block algorithm here, as in Model/BlockEngine.v).  `Num`-generic, definitions only. *)
From Coq Require Import ZArith Bool List.
From TV Require Import Num.Num Model.Common Model.Leaf Model.FlexAlgBase Model.FlexAlg Model.FlexAlgT Model.BoxSizing Model.FlexBoxSizing.
From TV Require Gen.BlockGen Model.Block Model.BlockAlg Model.BlockEngine Model.BlockAbs Model.Engine.
From TV Require Import Model.EngineLift Model.BlockFlexEngine.
Import ListNotations.
Close Scope Z_scope.

(* a node: its style and its measure function *)
Record BFNode (T : Type) := mkBFN { bfn_style : BFStyle T; bfn_measure : MeasureFn T }.
Arguments mkBFN {T}. Arguments bfn_style {T}. Arguments bfn_measure {T}.

Section BlockFlexK.
  Context {T : Type} `{Num T}.
  Notation Out := (LayoutOutput T).
  Notation Alg := (Engine.Alg (FIn T) Out (FLay T)).

  Definition bfn_flex (n : BFNode T) : FStyle T := bf_flex (bfn_style n).
  Definition bfn_core (n : BFNode T) : Style T := fs_core (bfn_flex n).

  (* the leaf: compute_leaf_layout of the node (the engine answers hidden-mode inputs itself) *)
  Definition bf_leaf_input (i : FIn T) : LayoutInput T :=
    mkInput (BlockEngine.cv_mode (qi_mode i)) (qi_sizing i) (qi_known i) (qi_parent i) (qi_avail i).
  Definition bf_leaf_out (n : BFNode T) (i : FIn T) : Out :=
    match compute_leaf_layout (bf_leaf_input i) (bfn_core n) (bfn_measure n) with
    | Some (o, _) => o
    | None => output_HIDDEN
    end.

  Definition is_flex (n : BFNode T) : bool := match display (bfn_core n) with DFlex => true | _ => false end.

  Definition bfn_algo (tau : T) (pre : Block.BStyle T -> BlockAlg.BIn T -> BlockAlg.BIn T) (abs_child : @BlockAlg.AbsChild T)
             (n : BFNode T) (kids : list (BFNode T)) (i : FIn T) : Alg :=
    match kids with
    | [] => Engine.Ret (FIn T) Out (FLay T) (bf_leaf_out n i)
    | _ => if is_flex n then flex_alg_t tau (bfn_flex n) (map bfn_flex kids) i
           else block_alg_bf pre abs_child (bfn_style n) (map bfn_style kids) i
    end.

  (* ---- the engine's parameters *)
  Definition bfn_is_none (n : BFNode T) : bool := f_is_none (bfn_flex n).
  Definition f_zero_lay : FLay T := f_with_order 0.

  Definition sizing_eqb (a b : SizingMode) : bool :=
    match a, b with InherentSize, InherentSize | ContentSize, ContentSize => true | _, _ => false end.
  Definition axis_eqb (a b : ReqAxis) : bool :=
    match a, b with AxHorizontal, AxHorizontal | AxVertical, AxVertical | AxBoth, AxBoth => true | _, _ => false end.
  Definition fo_eqb (a b : option T) : bool := match a, b with Some x, Some y => eqb x y | None, None => true | _, _ => false end.
  Definition fav_eqb (a b : AvailableSpace T) : bool :=
    match a, b with
    | Definite x, Definite y => eqb x y
    | MinContent, MinContent | MaxContent, MaxContent => true
    | _, _ => false
    end.
  (* the exact memo key: every field of the LayoutInput, numbers compared as numbers *)
  Definition fin_eqb (a b : FIn T) : bool :=
    BlockEngine.mode_eqb (qi_mode a) (qi_mode b) && sizing_eqb (qi_sizing a) (qi_sizing b) && axis_eqb (qi_axis a) (qi_axis b)
    && fo_eqb (width (qi_known a)) (width (qi_known b)) && fo_eqb (height (qi_known a)) (height (qi_known b))
    && fo_eqb (width (qi_parent a)) (width (qi_parent b)) && fo_eqb (height (qi_parent a)) (height (qi_parent b))
    && fav_eqb (width (qi_avail a)) (width (qi_avail b)) && fav_eqb (height (qi_avail a)) (height (qi_avail b))
    && Bool.eqb (l_start (qi_collapsible a)) (l_start (qi_collapsible b)) && Bool.eqb (l_end (qi_collapsible a)) (l_end (qi_collapsible b)).

  Definition bfk_memo tau pre abs_child :=
    Engine.memo (BFNode T) (FIn T) Out (FLay T) qi_mode fin_eqb bfn_is_none output_HIDDEN f_zero_lay (bfn_algo tau pre abs_child).
  Definition bfk_plain tau pre abs_child :=
    Engine.plain (BFNode T) (FIn T) Out (FLay T) qi_mode bfn_is_none output_HIDDEN (bfn_algo tau pre abs_child).
  Definition bfk_fresh := Engine.fresh (BFNode T) (FIn T) Out (FLay T) f_zero_lay.

  (* the engine of the implementation: floor 1.0, the real block preprocessing and absolute routine *)
  Definition bf_memo := bfk_memo one BlockEngine.block_pre BlockAbs.abs_child_block.
  Definition bf_memo_t tau := bfk_memo tau BlockEngine.block_pre BlockAbs.abs_child_block.

  (* the input compute_root_layout hands to the root *)
  Definition root_fin (known : Size (option T)) (avail : Size (AvailableSpace T)) : FIn T :=
    mkFIn Engine.PerformLayout InherentSize AxBoth known (size_map avail_into_option avail) avail (mkLine false false).

  (* ---- C12: the direction-free rewrite on a node (flex_basis not a length: nothing depends on the parent's direction) *)
  Definition bf_to_border_box (s : BFStyle T) : BFStyle T := mkBF (f_to_border_box (bf_flex s)) (bf_is_table s) (bf_text_align s).
  Definition bfn_eligibleb (n : BFNode T) : bool := f_eligible_anyb (bfn_flex n).
  Definition bfn_tb (n : BFNode T) : BFNode T := mkBFN (bf_to_border_box (bfn_style n)) (bfn_measure n).
  Definition bfn_to_border_box (n : BFNode T) : BFNode T := if bfn_eligibleb n then bfn_tb n else n.
End BlockFlexK.
