(* C17 -- the high-level tree and the documented low-level API agree.
   Two dispatchers over the same engine types and the same public building blocks (container functions [calgo], leaf
   function [lalgo], compute_hidden_layout, compute_cached_layout):
     memo      (Model/Engine.v)     TaffyView::compute_child_layout: hidden-mode short-circuit in front of the cache, then
                                    compute_cached_layout around match (display, has_children);
     memo_doc  (Model/EngineDoc.v)  the pattern of src/tree/traits.rs / examples/custom_tree_*.rs: compute_cached_layout
                                    around a dispatch on the user's node kind [kind_of], with an optional hidden-mode line
                                    [guard] inside the closure.
   The algorithms are shared code on both sides, hence arbitrary parameters; trees are arbitrary (any cache contents, any
   stored layouts), so the statements cover relayouts after any history, not only fresh trees.  The bit-level agreement
   of the real TaffyTree with a real user tree (layouts, rounding on/off) is the K/search part (harness/src/c17.rs). *)
From Coq Require Import List Bool Arith NArith.
From TV Require Import Model.Engine Model.EngineToy Model.EngineDoc Proofs.EngineMemo Proofs.EngineDirty Proofs.EngineDoc.
Import ListNotations.

(* If the user's dispatcher (Hk) maps display:none to compute_hidden_layout, childless nodes to compute_leaf_layout and
   the others to their container function, AND (Hg) sends every hidden-mode input to compute_hidden_layout whatever the
   node, then it computes what TaffyView computes: same LayoutOutput, same tree afterwards (every node's cache and stored
   layout).  Same fuel suffices one way; the documented tree recurses through compute_child_layout below hidden nodes,
   so it needs more fuel the other way. *)
Theorem C17_dispatch_equiv :
  forall (S In Out Lay : Type) (mode : In -> RunMode) (in_eqb : In -> In -> bool) (is_none : S -> bool)
         (hidden_out : Out) (zero_lay : Lay) (hidden_in : In)
         (calgo : S -> list S -> In -> Alg In Out Lay) (lalgo : S -> In -> Out)
         (kind_of : S -> nat -> kind) (guard : In -> bool),
    mode hidden_in = PerformHiddenLayout ->
    (forall i, guard i = true <-> mode i = PerformHiddenLayout) ->
    (forall s n, kind_of s n = kind_taffy S is_none s n) ->
    forall t i r,
      (forall f, memo_doc S In Out Lay mode in_eqb hidden_out zero_lay hidden_in calgo lalgo kind_of guard f t i = Some r ->
                 memo S In Out Lay mode in_eqb is_none hidden_out zero_lay (taffy_algo S In Out Lay calgo lalgo) f t i = Some r) /\
      (forall f, memo S In Out Lay mode in_eqb is_none hidden_out zero_lay (taffy_algo S In Out Lay calgo lalgo) f t i = Some r ->
                 exists f', memo_doc S In Out Lay mode in_eqb hidden_out zero_lay hidden_in calgo lalgo kind_of guard f' t i = Some r).
Proof.
  intros until guard. intros Hh Hg Hk t i r. split; intros f H.
  - eapply doc_to_taffy; eauto.
  - eapply taffy_to_doc; eauto.
Qed.

(* the same without fuel bookkeeping: whenever both terminate they agree *)
Theorem C17_dispatch_same_result :
  forall (S In Out Lay : Type) (mode : In -> RunMode) (in_eqb : In -> In -> bool) (is_none : S -> bool)
         (hidden_out : Out) (zero_lay : Lay) (hidden_in : In)
         (calgo : S -> list S -> In -> Alg In Out Lay) (lalgo : S -> In -> Out)
         (kind_of : S -> nat -> kind) (guard : In -> bool),
    mode hidden_in = PerformHiddenLayout ->
    (forall i, guard i = true <-> mode i = PerformHiddenLayout) ->
    (forall s n, kind_of s n = kind_taffy S is_none s n) ->
    forall f f' t i r r',
      memo_doc S In Out Lay mode in_eqb hidden_out zero_lay hidden_in calgo lalgo kind_of guard f t i = Some r ->
      memo S In Out Lay mode in_eqb is_none hidden_out zero_lay (taffy_algo S In Out Lay calgo lalgo) f' t i = Some r' ->
      r = r'.
Proof. intros until guard. intros Hh Hg Hk. intros. eapply doc_equals_taffy; eauto. Qed.

(* The documentation-level trap.  A tree that follows the examples literally (no hidden-mode line: guard = fun _ => false)
   and maps display:none to compute_hidden_layout -- (Hk) holds, (Hg) does not -- diverges from TaffyView as soon as a
   display:none node has a container below it.  root > A > B (container) > C, laid out, then A set to display:none and
   laid out again.  TaffyView: B and C end with zero layouts and cleared caches.  Literal pattern: the hidden-mode query
   reaches B's container algorithm, so B keeps its old layout and its old cache entries and C receives a non-zero layout
   computed under a hidden-mode input.  With the hidden-mode line the two trees are identical again. *)
Theorem C17_hidden_dispatch_note :
  (forall s n, t_kind s n = kind_taffy TS t_is_none s n) /\
  (* TaffyView *)
  probe (trap_run toy_taffy) [0; 0] = Some (0%N, true) /\ probe (trap_run toy_taffy) [0; 0; 0] = Some (0%N, true) /\
  (* examples followed literally *)
  (exists l, probe (trap_run toy_literal) [0; 0] = Some (l, false) /\ l <> 0%N) /\
  (exists l, probe (trap_run toy_literal) [0; 0; 0] = Some (l, false) /\ l <> 0%N) /\
  (* with `if inputs.run_mode == PerformHiddenLayout { return compute_hidden_layout(..) }` *)
  trap_run toy_guarded = trap_run toy_taffy.
Proof.
  destruct trap_taffy as [_ [B C]]. destruct trap_literal as [_ [B' C']].
  split; [reflexivity|]. split; [exact B|]. split; [exact C|]. split; [exact B'|]. split; [exact C'|exact trap_guarded].
Qed.

(* The other side of the note: the examples exactly as written (no hidden-mode line at all) agree with TaffyView on every
   tree WITHOUT a display:none node and every non-hidden input, with the same fuel, provided the container functions never
   issue hidden-mode queries themselves (WF; trace-validated for the real algorithms on every run of ./check C01). *)
Theorem C17_literal_pattern_ok_without_display_none :
  forall (S In Out Lay : Type) (mode : In -> RunMode) (in_eqb : In -> In -> bool) (is_none : S -> bool)
         (hidden_out : Out) (zero_lay : Lay) (hidden_in : In)
         (calgo : S -> list S -> In -> Alg In Out Lay) (lalgo : S -> In -> Out) (kind_of : S -> nat -> kind),
    (forall s n, kind_of s n = kind_taffy S is_none s n) ->
    (forall s st i, WFAlg In Out Lay mode (calgo s st i)) ->
    forall f t i,
      NoNone S In Out Lay is_none t -> mode i <> PerformHiddenLayout ->
      memo_doc S In Out Lay mode in_eqb hidden_out zero_lay hidden_in calgo lalgo kind_of (fun _ => false) f t i =
      memo S In Out Lay mode in_eqb is_none hidden_out zero_lay (taffy_algo S In Out Lay calgo lalgo) f t i.
Proof.
  intros until kind_of. intros Hk HWF f t i HN Hm.
  exact (proj1 (literal_without_none S In Out Lay mode in_eqb is_none hidden_out zero_lay hidden_in calgo lalgo kind_of Hk HWF f t i HN Hm)).
Qed.

(* With an exact (full-input) key the memoised evaluation returns what the cache-free evaluation of the same shape, styles
   and measure data returns, keeps every cache entry valid and never changes the shape (= EngineMemo.memo_sound); on a
   freshly built tree in particular (= memo_agrees_with_fresh). *)
Theorem C17_memo_exact :
  forall (S In Out Lay : Type) (mode : In -> RunMode) (in_eqb : In -> In -> bool) (is_none : S -> bool)
         (hidden_out : Out) (zero_lay : Lay) (algo : S -> list S -> In -> Alg In Out Lay),
    (forall a b, in_eqb a b = true -> a = b) ->
    (forall f t i o t',
       Valid S In Out Lay mode is_none hidden_out algo t ->
       memo S In Out Lay mode in_eqb is_none hidden_out zero_lay algo f t i = Some (o, t') ->
       (exists f', plain S In Out Lay mode is_none hidden_out algo f' (skel S In Out Lay t) i = Some o) /\
       Valid S In Out Lay mode is_none hidden_out algo t' /\ skel S In Out Lay t' = skel S In Out Lay t) /\
    (forall f f' t i o o' t1 t2,
       Valid S In Out Lay mode is_none hidden_out algo t ->
       memo S In Out Lay mode in_eqb is_none hidden_out zero_lay algo f t i = Some (o, t1) ->
       memo S In Out Lay mode in_eqb is_none hidden_out zero_lay algo f' (fresh S In Out Lay zero_lay (skel S In Out Lay t)) i = Some (o', t2) ->
       o = o') /\
    (forall k, Valid S In Out Lay mode is_none hidden_out algo (fresh S In Out Lay zero_lay k)).
Proof.
  intros until algo. intros Hkey. split; [|split].
  - intros. eapply memo_sound; eauto.
  - intros. eapply memo_agrees_with_fresh; eauto.
  - intros. apply Valid_fresh.
Qed.

(* ... and so does the documented tree: exact key + (Hg) + (Hk) => the user's tree returns the cache-free value *)
Theorem C17_doc_exact :
  forall (S In Out Lay : Type) (mode : In -> RunMode) (in_eqb : In -> In -> bool) (is_none : S -> bool)
         (hidden_out : Out) (zero_lay : Lay) (hidden_in : In)
         (calgo : S -> list S -> In -> Alg In Out Lay) (lalgo : S -> In -> Out)
         (kind_of : S -> nat -> kind) (guard : In -> bool),
    mode hidden_in = PerformHiddenLayout ->
    (forall i, guard i = true <-> mode i = PerformHiddenLayout) ->
    (forall s n, kind_of s n = kind_taffy S is_none s n) ->
    (forall a b, in_eqb a b = true -> a = b) ->
    forall f t i o t',
      Valid S In Out Lay mode is_none hidden_out (taffy_algo S In Out Lay calgo lalgo) t ->
      memo_doc S In Out Lay mode in_eqb hidden_out zero_lay hidden_in calgo lalgo kind_of guard f t i = Some (o, t') ->
      (exists f', plain S In Out Lay mode is_none hidden_out (taffy_algo S In Out Lay calgo lalgo) f' (skel S In Out Lay t) i = Some o) /\
      Valid S In Out Lay mode is_none hidden_out (taffy_algo S In Out Lay calgo lalgo) t' /\
      skel S In Out Lay t' = skel S In Out Lay t.
Proof. intros until guard. intros Hh Hg Hk Hkey. intros. eapply doc_exact; eauto. Qed.

(* the premises are satisfiable: the toy instance with the hidden-mode line *)
Example C17_hypotheses_satisfiable :
  t_mode t_hidden_in = PerformHiddenLayout /\
  (forall i, t_guard i = true <-> t_mode i = PerformHiddenLayout) /\
  (forall s n, t_kind s n = kind_taffy TS t_is_none s n).
Proof. exact toy_hyps. Qed.

Print Assumptions C17_dispatch_equiv.
Print Assumptions C17_dispatch_same_result.
Print Assumptions C17_hidden_dispatch_note.
Print Assumptions C17_literal_pattern_ok_without_display_none.
Print Assumptions C17_memo_exact.
Print Assumptions C17_doc_exact.
