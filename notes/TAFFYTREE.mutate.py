#!/usr/bin/env python3
"""Mutation experiments for the whole-tree correspondence of the complete engine (notes/TAFFYTREE.md).  Never touches /repo: every
mutant is applied to a scratch worktree /tmp/w6a-repo which is removed afterwards; `VERIF_REPO=<scratch> ./check <P>` is run for the
checks named on the command line (default C01) and what reported is printed (TT = `vh taffytree cases` vs Model/TaffyEngineRun.v).
usage: python3 notes/TAFFYTREE.mutate.py [-c C01,C07,...] [name ...]"""
import json
import os
import subprocess
import sys
import time

ROOT = os.path.dirname(os.path.dirname(os.path.abspath(__file__)))
WT = '/tmp/w6a-repo'

TT = 'src/tree/taffy_tree.rs'
CM = 'src/compute/mod.rs'
MUT = {
    # ---- glue the per-container ties never execute (they call compute_*_layout on the harness's own tree type)
    'T1_dispatch_single_child_flex_container_as_block': (TT, [(
        "                (Display::Flex, true) => compute_flexbox_layout(tree, node, inputs),",
        "                (Display::Flex, true) if tree.child_count(node) == 1 => compute_block_layout(tree, node, inputs),\n"
        "                (Display::Flex, true) => compute_flexbox_layout(tree, node, inputs),")]),
    'T2_dispatch_has_children_means_two_or_more_for_grid': (TT, [(
        "                (Display::Grid, true) => compute_grid_layout(tree, node, inputs),",
        "                (Display::Grid, true) if tree.child_count(node) > 1 => compute_grid_layout(tree, node, inputs),\n"
        "                (Display::Grid, true) => compute_flexbox_layout(tree, node, inputs),")]),
    'T3_root_stretch_fit_for_every_root_with_children': (CM, [(
        "        let style = tree.get_core_container_style(root);\n\n        if style.is_block() {",
        "        let has_kids = tree.child_count(root) > 0;\n        let style = tree.get_core_container_style(root);\n\n        if style.is_block() || has_kids {")]),
    'T4_flex_item_parent_size_is_container_size': ('src/compute/flexbox.rs', [(
        "        item.target_size.map(|s| s.into()),\n        node_inner_size,\n        container_size.map(|s| s.into()),\n        SizingMode::ContentSize,",
        "        item.target_size.map(|s| s.into()),\n        container_size.map(Some),\n        container_size.map(|s| s.into()),\n        SizingMode::ContentSize,")]),
    'T5_leaf_arm_forces_inherent_size': (TT, [(
        "                    compute_leaf_layout(inputs, style, |_, _| 0.0, measure_function)",
        "                    compute_leaf_layout(LayoutInput { sizing_mode: crate::tree::SizingMode::InherentSize, ..inputs }, style, |_, _| 0.0, measure_function)")]),
    'T6_root_query_parent_size_none_unless_block': (CM, [(
        "    let output = tree.perform_child_layout(\n        root,\n        known_dimensions,\n        available_space.into_options(),",
        "    let root_is_block = tree.get_core_container_style(root).is_block();\n"
        "    let output = tree.perform_child_layout(\n        root,\n        known_dimensions,\n"
        "        if root_is_block { available_space.into_options() } else { Size::NONE },")]),
    'T8_size_queries_are_never_cached': (CM, [(
        "    tree.cache_store(node, known_dimensions, available_space, run_mode, computed_size_and_baselines);",
        "    if run_mode != crate::tree::RunMode::ComputeSize {\n        tree.cache_store(node, known_dimensions, available_space, run_mode, computed_size_and_baselines);\n    }")]),
    'T9_hidden_mode_applies_to_direct_children_only': (CM, [(
        "        tree.compute_child_layout(child_id, LayoutInput::HIDDEN);",
        "        tree.cache_clear(child_id);\n        tree.set_unrounded_layout(child_id, &Layout::with_order(0));")]),
    'T10_leaf_arm_before_display_none_arm': (TT, [(
        "                (Display::None, _) => compute_hidden_layout(tree, node),",
        "                (Display::None, true) => compute_hidden_layout(tree, node),")]),
    # ---- nested only: a grid container that is not the root is laid out by the flexbox algorithm
    'T20_nested_grid_container_as_flex': (TT, [(
        "                (Display::Grid, true) => compute_grid_layout(tree, node, inputs),",
        "                (Display::Grid, true) if tree.taffy.parents[node.into()].is_some() => compute_flexbox_layout(tree, node, inputs),\n"
        "                (Display::Grid, true) => compute_grid_layout(tree, node, inputs),")]),
    # ---- composition: an output field of one algorithm that only ANOTHER algorithm reads (block's ChildOut has no baseline; the flex / grid
    #      ties replay recorded answers)
    'T18_block_container_reports_a_first_baseline': ('src/compute/block.rs', [(
        "        first_baselines: Point::NONE,\n        top_margin: if own_margins_collapse_with_children.start {",
        "        first_baselines: Point { x: None, y: Some(final_outer_size.height * 0.5) },\n        top_margin: if own_margins_collapse_with_children.start {")]),
    # ---- must stay silent
    'H1_dispatch_arms_reordered_has_children_by_len': (TT, [(
        "            let has_children = tree.child_count(node) > 0;",
        "            let has_children = tree.taffy.children[node.into()].len() != 0;")]),
    'H2_root_known_dimensions_or_order': (CM, [(
        "                .or(min_max_definite_size)\n                .or(clamped_style_size)\n                .or(available_space_based_size)",
        "                .or(clamped_style_size)\n                .or(min_max_definite_size)\n                .or(available_space_based_size)")]),
    'H3_hidden_layout_sets_layout_before_clearing_cache': (CM, [(
        "    tree.cache_clear(node);\n    tree.set_unrounded_layout(node, &Layout::with_order(0));",
        "    tree.set_unrounded_layout(node, &Layout::with_order(0));\n    tree.cache_clear(node);")]),
}


def sh(cmd, **kw):
    return subprocess.run(cmd, shell=True, stdout=subprocess.PIPE, stderr=subprocess.STDOUT, text=True, **kw)


def main():
    args = sys.argv[1:]
    checks = ['C01']
    if args and args[0] == '-c':
        checks = args[1].split(',')
        args = args[2:]
    names = args or list(MUT)
    for name in names:
        rel, edits = MUT[name]
        sh('git -C /repo worktree remove --force %s' % WT)
        r = sh('git -C /repo worktree add --detach %s HEAD' % WT)
        if r.returncode != 0:
            print(r.stdout)
            sys.exit(1)
        try:
            p = os.path.join(WT, rel)
            s = open(p).read()
            for old, new in edits:
                assert s.count(old) == 1, (name, 'pattern not unique / not found', s.count(old))
                s = s.replace(old, new)
            open(p, 'w').write(s)
            for chk in checks:
                t0 = time.time()
                env = dict(os.environ, VERIF_REPO=WT)
                r = sh('timeout 2400 ./check %s' % chk, cwd=ROOT, env=env)
                lines = [l for l in r.stdout.split('\n') if l.startswith('VIOLATION')]
                try:
                    ev = json.load(open(os.path.join(ROOT, '.work', 'evidence-alt', chk + '.json')))
                except Exception as ex:
                    print('== %s %s: exit %d, no evidence (%r)\n%s' % (name, chk, r.returncode, ex, r.stdout[-600:]))
                    continue
                cov = ev['coverage']
                tt = cov.get('taffytree', {})
                kinds = sorted(set('%s:%s' % (b['kind'], str(b['name'])[:60]) for b in cov.get('broken', [])))
                print('== %s %s: exit %d, %.0fs, %d VIOLATION; TT trees %s disagreements %s first %s' % (
                    name, chk, r.returncode, time.time() - t0, len(lines), tt.get('trees'), tt.get('disagreements'),
                    (tt.get('first_disagreements') or [''])[0]))
                print('    broken: %s' % kinds)
                for l in lines[:3]:
                    print('    %s' % l[:220])
                sys.stdout.flush()
        finally:
            sh('git -C /repo worktree remove --force %s' % WT)


if __name__ == '__main__':
    main()
