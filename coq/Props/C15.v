(* C15 -- relayout is lazy, dirtiness is exact.  Engine-skeleton theorems, every algorithm satisfying WF and H1. *)
From Coq Require Import List Bool Arith NArith.
From TV Require Import Model.Engine Model.EngineToy Proofs.EngineMemo Proofs.EngineDirty Proofs.EngineHistory
  Proofs.EngineFrame Proofs.EngineToyProofs Proofs.EngineTotal.
Import ListNotations.

(* recomputing the layout of an unchanged tree with the same input is answered by the root's cache entry: the tree is
   returned as it is -- nothing below is evaluated (so no measure function runs), no cache or layout is written.
   Holds for any reflexive key, in particular the real one whenever known dimensions are not NaN and definite
   available space is finite (C02_store_hit) *)
Theorem C15_second_pass_silent :
  forall (S In Out Lay : Type) (mode : In -> RunMode) (in_eqb : In -> In -> bool) (is_none : S -> bool)
         (hidden_out : Out) (zero_lay : Lay) (algo : S -> list S -> In -> Alg In Out Lay),
    (forall a, in_eqb a a = true) ->
    forall f g t i o t',
      mode i = PerformLayout ->
      memo S In Out Lay mode in_eqb is_none hidden_out zero_lay algo f t i = Some (o, t') ->
      memo S In Out Lay mode in_eqb is_none hidden_out zero_lay algo (Datatypes.S g) t' i = Some (o, t').
Proof. intros until algo. intros Hr. intros. eapply second_pass_silent; eauto. Qed.

(* after a layout pass no box-generating node under the root is dirty: every node outside display:none regions has a
   final-layout entry (Full), and a display:none node itself has a non-empty cache *)
Theorem C15_clean_after_pass :
  forall (S In Out Lay : Type) (mode : In -> RunMode) (in_eqb : In -> In -> bool) (is_none : S -> bool)
         (hidden_out : Out) (zero_lay : Lay) (algo : S -> list S -> In -> Alg In Out Lay),
    (forall s st i, WFAlg In Out Lay mode (algo s st i)) ->
    (forall s st i, mode i = PerformLayout -> Visits In Out Lay mode (seq 0 (length st)) (algo s st i)) ->
    forall f t i o t',
      mode i = PerformLayout -> J S In Out Lay is_none t -> B S In Out Lay is_none t ->
      memo S In Out Lay mode in_eqb is_none hidden_out zero_lay algo f t i = Some (o, t') ->
      Full S In Out Lay is_none t' /\ J S In Out Lay is_none t' /\ B S In Out Lay is_none t'.
Proof. intros until algo. intros HWF HH1. intros. eapply pass_clean; eauto. Qed.

Theorem C15_full_means_not_dirty :
  forall (S In Out Lay : Type) (is_none : S -> bool) s c l kids,
    Full S In Out Lay is_none (Node S In Out Lay s c l kids) -> is_empty In Out c = false.
Proof.
  intros S In Out Lay is_none s c l kids HF. inversion HF; subst; [assumption|].
  eapply Full_not_dirty; eauto.
Qed.

(* a mutation (which ends in mark_dirty of the mutated node) at a node without display:none ancestor makes that node and
   each of its ancestors dirty and leaves the cache of every other node, and every style and stored layout, unchanged:
   with the boundary invariants the early exit of mark_dirty loses nothing *)
Theorem C15_mark_exact :
  forall (S In Out Lay : Type) (is_none : S -> bool) t p,
    J S In Out Lay is_none t -> B S In Out Lay is_none t -> visible_path S In Out Lay is_none t p ->
    (exists u, subtree S In Out Lay t p = Some u) ->
    let t' := mark_dirty S In Out Lay t p in
    (forall q, is_prefix q p = true -> cache_at S In Out Lay t' q = Some (cempty In Out)) /\
    (forall q, is_prefix q p = false -> cache_at S In Out Lay t' q = cache_at S In Out Lay t q) /\
    (forall q, style_at S In Out Lay t' q = style_at S In Out Lay t q) /\
    (forall q, lay_at S In Out Lay t' q = lay_at S In Out Lay t q).
Proof.
  intros S In Out Lay is_none t p HJ HB Hv Hu t'.
  assert (E : t' = clear_path S In Out Lay t p).
  { unfold t', mark_dirty. rewrite (md_spec S In Out Lay is_none p t HJ HB Hv). reflexivity. }
  rewrite E. split; [intros q Hq; apply clear_path_on; assumption|].
  split; [intros q Hq; apply clear_path_off; assumption|].
  split; [intros q; apply clear_path_style | intros q; apply clear_path_lay].
Qed.

(* the boundary invariants J and B hold in every state reachable by mutators and layout passes *)
Theorem C15_invariants_reachable :
  forall (S In Out Lay : Type) (mode : In -> RunMode) (in_eqb : In -> In -> bool) (is_none : S -> bool)
         (hidden_out : Out) (zero_lay : Lay) (algo : S -> list S -> In -> Alg In Out Lay),
    (forall a b, in_eqb a b = true -> a = b) ->
    (forall s st i, WFAlg In Out Lay mode (algo s st i)) ->
    (forall s st i, mode i = PerformLayout -> Visits In Out Lay mode (seq 0 (length st)) (algo s st i)) ->
    forall ops t,
      Inv S In Out Lay mode is_none hidden_out algo t ->
      run_ok S In Out Lay mode in_eqb is_none hidden_out zero_lay algo t ops ->
      Inv S In Out Lay mode is_none hidden_out algo (run_ops S In Out Lay mode in_eqb is_none hidden_out zero_lay algo t ops).
Proof. intros until algo. intros Hk HWF HH1. intros. eapply history_inv; eauto. Qed.

(* non-vacuity: the concrete history of Proofs/EngineToyProofs.v ends with no dirty node outside the hidden region *)
Example C15_example :
  map (fun t => dirty TS TIn TOut TLay t) (ex_run :: kids_of _ _ _ _ ex_run) = [false; false; false].
Proof. exact ex_flags. Qed.

(* non-vacuity of the premises, on the 4-node toy tree (root 0; child 0 = node 1, display:none, with a child 3; child 1 =
   node 2): the fresh tree satisfies Inv (= Valid, J, B); its first pass SUCCEEDS (Some, not the out-of-fuel None) and
   changes the tree (caches filled); the second pass with a single unit of fuel returns the same output and the same tree
   (the instance of C15_second_pass_silent: one unit of fuel cannot reach any child, so nothing below the root is evaluated);
   after the pass no node outside the display:none region is dirty; path [1] is visible and marking it dirties exactly the
   root and node 2 (the instance of C15_mark_exact) *)
Definition ex_pass1 : ttree :=
  step TS TIn TOut TLay t_mode t_in_eqb t_is_none 0%N 0%N t_algo' ex_tree (OLayout _ _ _ _ 8 (PerformLayout, 5%N)).

Example C15_example_premises :
  Inv TS TIn TOut TLay t_mode t_is_none 0%N t_algo' ex_tree /\
  visible_path TS TIn TOut TLay t_is_none ex_pass1 [1] /\
  (exists o, memo TS TIn TOut TLay t_mode t_in_eqb t_is_none 0%N 0%N t_algo' 8 ex_tree (PerformLayout, 5%N) = Some (o, ex_pass1) /\
             ex_pass1 <> ex_tree /\
             memo TS TIn TOut TLay t_mode t_in_eqb t_is_none 0%N 0%N t_algo' 1 ex_pass1 (PerformLayout, 5%N) = Some (o, ex_pass1)) /\
  map (dirty TS TIn TOut TLay) (ex_pass1 :: kids_of _ _ _ _ ex_pass1) = [false; false; false] /\
  map (dirty TS TIn TOut TLay) (let t := mark_dirty TS TIn TOut TLay ex_pass1 [1] in t :: kids_of _ _ _ _ t) = [true; false; true].
Proof.
  split; [apply Inv_fresh|]. split; [cbn; auto|].
  split; [exists 2%N; split; [vm_compute; reflexivity|]; split; [vm_compute; discriminate | vm_compute; reflexivity]|].
  split; vm_compute; reflexivity.
Qed.

(* the premise `memo f t i = Some (o, t')` is never false for lack of fuel: for every algorithm that addresses only children
   that exist, fuel >= the height of the tree suffices, whatever the caches hold (so None means an out-of-range child index) *)
Theorem C15_pass_succeeds_with_enough_fuel :
  forall (S In Out Lay : Type) (mode : In -> RunMode) (in_eqb : In -> In -> bool) (is_none : S -> bool)
         (hidden_out : Out) (zero_lay : Lay) (algo : S -> list S -> In -> Alg In Out Lay),
    (forall s st i, Bounded In Out Lay (length st) (algo s st i)) ->
    forall f t i, height S In Out Lay t <= f ->
      exists o t', memo S In Out Lay mode in_eqb is_none hidden_out zero_lay algo f t i = Some (o, t').
Proof. intros until algo. intros HB f t i Hh. apply memo_total; assumption. Qed.

Print Assumptions C15_second_pass_silent.
Print Assumptions C15_clean_after_pass.
Print Assumptions C15_full_means_not_dirty.
Print Assumptions C15_mark_exact.
Print Assumptions C15_invariants_reachable.
Print Assumptions C15_pass_succeeds_with_enough_fuel.
