"""Mutation experiments for C05 / C06 (never touches /repo: a scratch worktree, /tmp/c05-repo or $MUT_REPO).
usage: python3 notes/C05.mutate.py [names...]     (creates /tmp/c05-repo if missing; remove it afterwards with
       git -C /repo worktree remove --force /tmp/c05-repo)"""
import json
import os
import subprocess
import sys
import time

R = os.environ.get('MUT_REPO', '/tmp/c05-repo')
W = os.path.dirname(os.path.dirname(os.path.abspath(__file__)))
FLEX = 'src/compute/flexbox.rs'
BLOCK = 'src/compute/block.rs'
GRID = 'src/compute/grid/mod.rs'
MOD = 'src/compute/mod.rs'


def reset():
    subprocess.run(['git', '-C', R, 'checkout', '--', '.'], check=True)


# name -> (checks expected to report, [(file, old, new)])
MUT = {
    'M1_revert_c05_fix_hidden_children_in_grid_estimate': (['C05'], [(GRID, """            .map(|child_node: NodeId| tree.get_grid_child_style(child_node))
            .filter(|style| style.box_generation_mode() != BoxGenerationMode::None)
    };""", """            .map(|child_node: NodeId| tree.get_grid_child_style(child_node))
    };""")]),
    'M2_flex_items_include_display_none_children': (['C05'], [(FLEX, """        .filter(|(_, _, style)| style.position() != Position::Absolute)
        .filter(|(_, _, style)| style.box_generation_mode() != BoxGenerationMode::None)
""", """        .filter(|(_, _, style)| style.position() != Position::Absolute)
""")]),
    'M3_hidden_layout_does_not_recurse': (['C05'], [(MOD, """    for index in 0..tree.child_count(node) {
        let child_id = tree.get_child_id(node, index);
        tree.compute_child_layout(child_id, LayoutInput::HIDDEN);
    }

    LayoutOutput::HIDDEN""", """    LayoutOutput::HIDDEN""")]),
    'M4_block_content_width_counts_absolute_children': (['C06'], [(BLOCK, """    for item in items.iter().filter(|item| item.position != Position::Absolute) {
        let known_dimensions = item.size.maybe_clamp(item.min_size, item.max_size);

        let width = known_dimensions.width.unwrap_or_else(|| {""", """    for item in items.iter() {
        let known_dimensions = item.size.maybe_clamp(item.min_size, item.max_size);

        let width = known_dimensions.width.unwrap_or_else(|| {""")]),
    'M5_flex_main_size_counts_absolute_children': (['C06'], [(FLEX, """        determine_container_main_size(tree, available_space, &mut flex_lines, &mut constants);
""", """        determine_container_main_size(tree, available_space, &mut flex_lines, &mut constants);
        {
            let dir = constants.dir;
            let mut extra = 0.0;
            for order in 0..tree.child_count(node) {
                let child = tree.get_child_id(node, order);
                let st = tree.get_flexbox_child_style(child);
                if st.position() == Position::Absolute && st.box_generation_mode() != BoxGenerationMode::None {
                    extra += st.size().main(dir).into_option().unwrap_or(0.0);
                }
            }
            let m = constants.container_size.main(dir) + extra;
            let i = constants.inner_container_size.main(dir) + extra;
            constants.container_size.set_main(dir, m);
            constants.inner_container_size.set_main(dir, i);
        }
""")]),
    'M6_grid_places_absolute_children': (['C06'], [(GRID, """            .filter(|(_, _, style)| {
                style.box_generation_mode() != BoxGenerationMode::None && style.position() != Position::Absolute
            })""", """            .filter(|(_, _, style)| style.box_generation_mode() != BoxGenerationMode::None)""")]),
    # extra ones
    'M7_hidden_layout_keeps_old_layout_of_the_node': (['C05'], [(MOD, """    tree.cache_clear(node);
    tree.set_unrounded_layout(node, &Layout::with_order(0));
""", """    tree.cache_clear(node);
""")]),
    'M8_block_items_include_display_none_children': (['C05'], [(BLOCK, """        .filter(|(_, style)| style.box_generation_mode() != BoxGenerationMode::None)
        .enumerate()""", """        .enumerate()""")]),
    'M9_flex_abs_child_shifts_in_flow_items': (['C06'], [(FLEX, """        .filter(|(_, _, style)| style.position() != Position::Absolute)
        .filter(|(_, _, style)| style.box_generation_mode() != BoxGenerationMode::None)
""", """        .filter(|(_, _, style)| style.box_generation_mode() != BoxGenerationMode::None)
""")]),
    # harmless rewrites: must stay silent
    'H1_harmless_refactors': ([], [
        (FLEX, """        .filter(|(_, _, style)| style.position() != Position::Absolute)
        .filter(|(_, _, style)| style.box_generation_mode() != BoxGenerationMode::None)
""", """        .filter(|(_, _, style)| {
            !(style.box_generation_mode() == BoxGenerationMode::None || style.position() == Position::Absolute)
        })
"""),
        (MOD, """    for index in 0..tree.child_count(node) {
        let child_id = tree.get_child_id(node, index);
        tree.compute_child_layout(child_id, LayoutInput::HIDDEN);
    }
""", """    let count = tree.child_count(node);
    let mut index = count;
    while index > 0 {
        index -= 1;
        let child_id = tree.get_child_id(node, index);
        let _ = tree.compute_child_layout(child_id, LayoutInput::HIDDEN);
    }
"""),
        (GRID, """            .map(|child_node: NodeId| tree.get_grid_child_style(child_node))
            .filter(|style| style.box_generation_mode() != BoxGenerationMode::None)
    };""", """            .map(|child_node: NodeId| tree.get_grid_child_style(child_node))
            .filter(|style| !matches!(style.box_generation_mode(), BoxGenerationMode::None))
    };"""),
        (BLOCK, """    for item in items.iter().filter(|item| item.position != Position::Absolute) {
        let known_dimensions = item.size.maybe_clamp(item.min_size, item.max_size);

        let width = known_dimensions.width.unwrap_or_else(|| {""", """    for item in items.iter() {
        if item.position == Position::Absolute {
            continue;
        }
        let known_dimensions = item.size.maybe_clamp(item.min_size, item.max_size);

        let width = known_dimensions.width.unwrap_or_else(|| {""")]),
}


def main():
    if not os.path.isdir(R):
        subprocess.run(['git', '-C', '/repo', 'worktree', 'add', R, 'HEAD'], check=True)
    names = sys.argv[1:] or list(MUT)
    for name in names:
        reset()
        expect, edits = MUT[name]
        for f, old, new in edits:
            p = os.path.join(R, f)
            s = open(p).read()
            assert s.count(old) == 1, (name, f, s.count(old))
            open(p, 'w').write(s.replace(old, new))
        for pid in ['C05', 'C06']:
            t0 = time.time()
            cmd = 'ulimit -v 4000000; exec timeout 900 ./check %s' % pid
            p = subprocess.run(['sh', '-c', cmd], cwd=W, env=dict(os.environ, VERIF_REPO=R), capture_output=True, text=True)
            dt = time.time() - t0
            tag = 'expected-to-report' if pid in expect else 'expected-silent'
            print('=====', name, pid, 'rc', p.returncode, '%.0fs' % dt, tag, 'OK' if (p.returncode != 0) == (pid in expect) else '*** UNEXPECTED ***', flush=True)
            for l in p.stdout.split('\n'):
                if l.strip():
                    print('   ', l[:220])
            ev = json.load(open(os.path.join(W, '.work', 'evidence-alt', pid + '.json')))
            c = ev['coverage']
            print('    fingerprints_changed', c.get('fingerprints_changed'), 'disagreements', c.get('disagreements'), 'broken', [b['kind'] + ':' + b['name'][:60] for b in c.get('broken', [])][:4])
            rd = os.path.join(W, '.work', 'evidence-alt', 'replay')
            for f in sorted(os.listdir(rd)):
                if f.startswith(pid + '-'):
                    d = json.load(open(os.path.join(rd, f)))
                    print('     ', f, '|', d['what'][:420])
                    print('        replay:', {k: v for k, v in d.get('replay', {}).items() if k in ('seed', 'idx', 'cmd')} or d.get('replay', {}).get('cmd'))
                    os.remove(os.path.join(rd, f))
    reset()
    # restore the evidence of the unmutated tree
    subprocess.run(['git', '-C', W, 'checkout', '--', 'evidence/C05.json', 'evidence/C06.json'])


main()
