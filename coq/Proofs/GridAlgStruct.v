(* Structure of the grid resumption (Model/GridAlg.v): the views of the child-style list, the initial items (their nodes are the
   in-flow children, each once), and the closure lemmas that turn a property of the sizing program (Proofs/GridAlgProg.v `PGood`)
   into a property of the resumption `run` builds from it.  No arithmetic fact is used. *)
From Coq Require Import ZArith Bool List Lia Permutation.
From TV Require Import Model.Common Model.Leaf Gen.GridTracksGen Model.GridTracks Model.GridIntrinsic.
From TV Require Import Model.FiltersBase Gen.FiltersGen Model.ItemFilters Model.GridAlgBase Model.GridAlg Proofs.GridAlgProg.
From TV Require Import Model.PlacementBase Gen.PlacementGen Model.Placement Proofs.PlacementTables Proofs.PlacementProofs Proofs.FlexAlgStruct.
Import ListNotations.
Close Scope Z_scope.
Close Scope N_scope.

Section Struct.
  Context {T : Type} `{Num T}.
  Notation GS := (GStyle T).
  Notation GItem := (@GItem T).
  Notation Out := (LayoutOutput T).
  Notation Alg := (Engine.Alg (GIn T) Out (GLay T)).
  Notation Query := (Engine.Query (GIn T) Out (GLay T)).
  Notation SetLayout := (Engine.SetLayout (GIn T) Out (GLay T)).
  Notation Ret := (Engine.Ret (GIn T) Out (GLay T)).

  (* ------------------------------------------------------------------------------------------------ classes of children *)

  Definition in_flow_at (st : list GS) (c : nat) : Prop := exists s, nth_error st c = Some s /\ g_in_flow s = true.
  Definition hidden_at (st : list GS) (c : nat) : Prop := exists s, nth_error st c = Some s /\ g_is_none s = true.
  Definition abs_at (st : list GS) (c : nat) : Prop := exists s, nth_error st c = Some s /\ g_visible_absolute s = true.

  Lemma classes (s : GS) :
    (g_in_flow s = true /\ g_is_none s = false /\ g_visible_absolute s = false) \/
    (g_in_flow s = false /\ g_is_none s = true /\ g_visible_absolute s = false) \/
    (g_in_flow s = false /\ g_is_none s = false /\ g_visible_absolute s = true).
  Proof.
    unfold g_in_flow, g_is_none, g_visible_absolute, s_in_flow, s_visible_absolute.
    destruct (s_hidden g_bgm s), (s_absolute g_position s); cbn; tauto.
  Qed.

  Lemma classes_cover st c : c < length st -> in_flow_at st c \/ hidden_at st c \/ abs_at st c.
  Proof.
    intros Hc. destruct (nth_error st c) as [s|] eqn:E; [|apply nth_error_None in E; lia].
    destruct (classes s) as [(A & _)|[(_ & A & _)|(_ & _ & A)]]; [left|right; left|right; right]; exists s; split; assumption.
  Qed.

  Lemma flags_in_flow (st : list GS) c : nth c (map g_in_flow st) false = true <-> in_flow_at st c.
  Proof.
    unfold in_flow_at. revert c. induction st as [|s st IH]; intros [|c]; cbn [map nth nth_error].
    - split; [discriminate|intros (s & E & _); discriminate].
    - split; [discriminate|intros (s & E & _); discriminate].
    - split; [intros E; exists s; split; [reflexivity|exact E]|intros (s' & E & A); injection E as <-; exact A].
    - apply IH.
  Qed.

  (* the tests of the final loop of Model/GridAlg.v (`oof_view`) ARE the conditions of the two `if`s of the source's final loop, and the
     translator checked the branches syntactically: the hidden branch is the canonical pair + `order += 1; return`, the absolute branch
     one align_and_position_item(tree, child, order, ..) + `order += 1`; every node-addressing call of the grid sources on `tree` is one of
     the sites the resumption turns into Query / SetLayout *)
  Lemma grid_loops_are_generated (s : GS) :
    oof_view s = (if grid_final_loop_hidden_test g_position g_bgm s then OHidden
                  else if grid_final_loop_absolute_test g_position g_bgm s then OAbs s else OSkip) /\
    grid_hidden_branch_is_canonical = true /\ grid_absolute_branch_is_local = true /\ grid_tree_calls_address_item_only = true.
  Proof.
    split; [|repeat split]. unfold oof_view, grid_final_loop_hidden_test, grid_final_loop_absolute_test, g_is_none, g_visible_absolute,
      s_visible_absolute, s_hidden, s_absolute, ItemFilters.g_is_none, g_is_absolute.
    destruct (g_bgm s), (g_position s); reflexivity.
  Qed.

  (* ------------------------------------------------------------------------------------------------ the in-flow iterator *)

  Lemma in_flow_styles_iff (st : list GS) c s : In (c, s) (in_flow_styles st) <-> nth_error st c = Some s /\ g_in_flow s = true.
  Proof.
    unfold in_flow_styles, grid_in_flow_children. rewrite in_map_iff. split.
    - intros [[[i ch] sty] [E Hin]]. cbn [fst snd] in E. injection E as <- <-.
      apply filter_In in Hin. destruct Hin as [Hin Hp]. apply in_map_iff in Hin. destruct Hin as [[i' ch'] [E2 Hin]].
      injection E2 as -> -> <-. apply In_enumerate_from_iff in Hin. destruct Hin as [_ Hn]. rewrite Nat.sub_0_r in Hn.
      split; [exact Hn|]. exact Hp.
    - intros [Hn Hf]. exists (c, s, s). split; [reflexivity|]. apply filter_In. split; [|exact Hf].
      apply in_map_iff. exists (c, s). split; [reflexivity|]. apply In_enumerate_from_iff. split; [lia|]. rewrite Nat.sub_0_r. exact Hn.
  Qed.

  Lemma in_flow_styles_fst (st : list GS) c : In c (map fst (in_flow_styles st)) <-> in_flow_at st c.
  Proof.
    unfold in_flow_at. rewrite in_map_iff. split.
    - intros [[c' s] [E Hin]]. cbn in E. subst c'. exists s. apply in_flow_styles_iff. exact Hin.
    - intros (s & Hs). exists (c, s). split; [reflexivity|]. apply in_flow_styles_iff. exact Hs.
  Qed.

  (* ------------------------------------------------------------------------------------------------ the initial items *)

  Lemma mapM_ok_inv {A B} (f : A -> res B) : forall l l', mapM f l = Ok l' -> Forall2 (fun x y => f x = Ok y) l l'.
  Proof.
    induction l as [|x l IH]; intros l' E; cbn [mapM] in E; [injection E as <-; constructor|].
    apply bind_ok in E. destruct E as [y [Ey E]]. apply bind_ok in E. destruct E as [ys [Eys E]]. injection E as <-.
    constructor; [exact Ey|apply IH; exact Eys].
  Qed.

  Lemma make_item_node (st : GS) inflow cc rc cols rows it g : make_item st inflow cc rc cols rows it = Ok g -> g_node g = Z.to_nat (i_index it).
  Proof.
    unfold make_item. cbv zeta. intros E. apply bind_ok in E. destruct E as [cix [_ E]]. apply bind_ok in E. destruct E as [rix [_ E]].
    injection E as <-. reflexivity.
  Qed.

  Lemma items0_nodes (st : GS) inflow cc rc cols rows placed items0 :
    mapM (make_item st inflow cc rc cols rows) placed = Ok items0 -> map g_node items0 = map (fun it => Z.to_nat (i_index it)) placed.
  Proof.
    intros E. apply mapM_ok_inv in E. induction E as [|it g l l' Hg _ IH]; cbn [map]; [reflexivity|].
    rewrite (make_item_node _ _ _ _ _ _ _ _ Hg), IH. reflexivity.
  Qed.

  Lemma place_nodes (st : GS) ec er est inflow m placed :
    place st ec er est inflow = Ok (m, placed) ->
    Permutation (map (fun it => Z.to_nat (i_index it)) placed) (map fst inflow).
  Proof.
    unfold place. intros E. apply bind_ok in E. destruct E as [[est_c est_r] [_ E]]. apply bind_ok in E. destruct E as [m0 [_ E]].
    pose proof (place_grid_items_indices _ _ _ _ _ E) as Hidx.
    set (cs := map (fun ic : nat * GS => (Z.of_nat (fst ic), g_child (snd ic))) inflow) in *.
    assert (Hp : Permutation (map i_index placed) (map fst cs)).
    { rewrite Hidx, <- !map_app. apply Permutation_map. apply phases_partition. }
    replace (map (fun it => Z.to_nat (i_index it)) placed) with (map Z.to_nat (map i_index placed)) by (rewrite map_map; reflexivity).
    replace (map fst inflow) with (map Z.to_nat (map fst cs)).
    - apply Permutation_map. exact Hp.
    - unfold cs. rewrite !map_map. apply map_ext. intros [c s]. cbn [fst]. apply Nat2Z.id.
  Qed.

  (* ------------------------------------------------------------------------------------------------ run *)

  Section Run.
    Variable N : nat -> Prop.
    Variable bl : bool.
    Variable ok : nat -> bool.
    Hypothesis N_ok : forall c, N c -> ok c = true.

    (* a property of resumptions that is closed under the two kinds of query the sizing phase issues *)
    Lemma run_closed (P : Alg -> Prop) :
      (forall c kn pa av ax k, N c -> (forall o, P (k o)) -> P (Query c (measure_input kn pa av ax) k)) ->
      (forall c pa k, N c -> bl = true -> (forall o, P (k o)) -> P (Query c (baseline_input pa) k)) ->
      forall A (Q : A -> Prop) (p : Prog A) (k : A -> Alg), PGood N bl Q p -> (forall a, Q a -> P (k a)) -> P (run ok p k).
    Proof.
      intros Hm Hb A Q p k Hp Hk. induction Hp as [a Ha|c kn pa av ax f Hc Hf IH|c pa f Hbl Hc Hf IH]; cbn [run].
      - apply Hk. exact Ha.
      - rewrite (N_ok c Hc). apply Hm; [exact Hc|]. intros o. apply IH.
      - rewrite (N_ok c Hc). apply Hb; [exact Hc|exact Hbl|]. intros o. apply IH.
    Qed.
  End Run.
End Struct.
