(* C04 -- homogeneity of the grid track kernels (Model/GridTracks.v) over XQ, k > 0.  Shape: related inputs give related
   outputs (Model/ScaleGrid.v).  No finiteness premise.
     explicit_grid_size / num_repetitions   the auto-repeat COUNT is invariant (floor / ceil of a length / length)
     initialize_grid_tracks                 structural
     initialize_track_sizes                 11.4
     distribute_space_up_to_limits_t, maximise_tracks_t      with the THRESHOLD scaled along (it is a length)
     find_size_of_fr (fuelled restart loop, same fuel), expand_flexible_tracks (all three branches), stretch_auto_tracks,
     align_tracks, track_sizing_algorithm_t with step 11.5 as a homogeneous argument
   Decisions: comparisons of two lengths (incl. `free == infinity`: infinity is a fixed point), of two dimensionless
   numbers (flex factor vs 1, sum of proportions vs 0), constructors, counts. *)
From Coq Require Import QArith Qabs Lqa Bool List ZArith NArith Lia.
From TV Require Import Num.Num Num.QNum Gen.GridTracksGen Model.GridTracks Model.ScaleGrid Proofs.ScaleKit.
Import ListNotations.
Local Open Scope Q_scope.

(* ---- the parametrised forms at tau = threshold are the definitions of Model/GridTracks.v (any number structure) *)
Lemma distribute_space_up_to_limits_t_threshold {T} `{Num T} :
  distribute_space_up_to_limits_t (T := T) threshold = distribute_space_up_to_limits.
Proof. reflexivity. Qed.
Lemma maximise_tracks_t_threshold {T} `{Num T} : maximise_tracks_t (T := T) threshold = maximise_tracks.
Proof. reflexivity. Qed.
Lemma distribute_item_space_to_base_size_t_threshold {T} `{Num T} :
  distribute_item_space_to_base_size_t (T := T) threshold base_threshold = distribute_item_space_to_base_size.
Proof. reflexivity. Qed.
Lemma track_sizing_algorithm_t_threshold {T} `{Num T} : track_sizing_algorithm_t (T := T) threshold = track_sizing_algorithm.
Proof. reflexivity. Qed.

Ltac sfn_cases :=
  repeat match goal with
  | H : sfn_rel _ ?a ?a' |- _ => is_var a; is_var a'; destruct a, a'; cbn [sfn_rel] in H; try contradiction
  | H : op_rel _ ?a ?a' |- _ => is_var a; is_var a'; destruct a, a'; cbn [op_rel] in H; try contradiction
  | H : gavail_rel _ ?a ?a' |- _ => is_var a; is_var a'; destruct a, a'; cbn [gavail_rel] in H; try contradiction
  end.
Ltac track_fields :=
  cbn [kind is_collapsed minf maxf offset base_size growth_limit incurred base_planned limit_planned infinitely_growable] in *.
Ltac track_open H :=
  let H' := fresh in
  pose proof H as H'; unfold track_rel in H';
  destruct H' as (?Ek & ?Ecol & ?Hmin & ?Hmax & ?Hoff & ?Hbase & ?Hgl & ?Hinc & ?Hbp & ?Hlp & ?Eig).

Section GridHomog.
  Variable k : Q.
  Hypothesis Hk : 0 < k.
  Notation L := (sc k).
  Notation O := (op_rel (sc k)).

  (* ---- sizing functions *)
  Lemma rel_sfn_pred (p : sfn XQ -> bool) f f' :
    (forall g g', sfn_rel k g g' -> p g' = p g) -> sfn_rel k f f' -> p f' = p f.
  Proof. auto. Qed.
  Ltac pred_tac := intros f f' Hf; sfn_cases; reflexivity.
  Lemma rel_is_fr f f' : sfn_rel k f f' -> is_fr f' = is_fr f. Proof. revert f f'. pred_tac. Qed.
  Lemma rel_is_auto f f' : sfn_rel k f f' -> is_auto f' = is_auto f. Proof. revert f f'. pred_tac. Qed.
  Lemma rel_is_min_content f f' : sfn_rel k f f' -> is_min_content f' = is_min_content f. Proof. revert f f'. pred_tac. Qed.
  Lemma rel_is_max_content f f' : sfn_rel k f f' -> is_max_content f' = is_max_content f. Proof. revert f f'. pred_tac. Qed.
  Lemma rel_is_fit_content f f' : sfn_rel k f f' -> is_fit_content f' = is_fit_content f. Proof. revert f f'. pred_tac. Qed.
  Lemma rel_is_intrinsic f f' : sfn_rel k f f' -> is_intrinsic f' = is_intrinsic f. Proof. revert f f'. pred_tac. Qed.
  Lemma rel_is_length_or_percentage f f' : sfn_rel k f f' -> is_length_or_percentage f' = is_length_or_percentage f.
  Proof. revert f f'. pred_tac. Qed.

  Lemma rel_definite_value p p' f f' : O p p' -> sfn_rel k f f' -> O (definite_value p f) (definite_value p' f').
  Proof. intros Hp Hf. sfn_cases; cbn [definite_value op_rel]; auto. apply (sc_dl_mul k); assumption. Qed.
  Lemma rel_definite_limit p p' f f' : O p p' -> sfn_rel k f f' -> O (definite_limit p f) (definite_limit p' f').
  Proof. intros Hp Hf. sfn_cases; cbn [definite_limit definite_value op_rel]; auto; apply (sc_dl_mul k); assumption. Qed.
  Lemma rel_has_fixed_component t t' : nrt_rel k t t' -> has_fixed_component t' = has_fixed_component t.
  Proof. intros [H1 H2]. unfold has_fixed_component. rewrite (rel_is_length_or_percentage _ _ H1), (rel_is_length_or_percentage _ _ H2). reflexivity. Qed.

  (* ---- tracks *)
  Ltac upd := intros Ht; intros; track_open Ht; unfold track_rel; track_fields; repeat split; assumption.
  Lemma rel_set_base t t' v v' : track_rel k t t' -> L v v' -> track_rel k (set_base t v) (set_base t' v').
  Proof. unfold set_base. upd. Qed.
  Lemma rel_set_limit t t' v v' : track_rel k t t' -> L v v' -> track_rel k (set_limit t v) (set_limit t' v').
  Proof. unfold set_limit. upd. Qed.
  Lemma rel_set_incurred t t' v v' : track_rel k t t' -> L v v' -> track_rel k (set_incurred t v) (set_incurred t' v').
  Proof. unfold set_incurred. upd. Qed.
  Lemma rel_set_offset t t' v v' : track_rel k t t' -> L v v' -> track_rel k (set_offset t v) (set_offset t' v').
  Proof. unfold set_offset. upd. Qed.

  Lemma rel_new_track kd mn mn' mx mx' : sfn_rel k mn mn' -> sfn_rel k mx mx' -> track_rel k (new_track kd mn mx) (new_track kd mn' mx').
  Proof. intros. unfold new_track, track_rel. track_fields. repeat split; try assumption; apply sc_zero. Qed.
  Lemma rel_gutter g g' : sfn_rel k g g' -> track_rel k (gutter g) (gutter g').
  Proof. intros. apply rel_new_track; assumption. Qed.
  Lemma rel_track_of t t' : nrt_rel k t t' -> track_rel k (track_of t) (track_of t').
  Proof. intros [? ?]. apply rel_new_track; assumption. Qed.
  Lemma rel_collapse t t' : track_rel k t t' -> track_rel k (collapse t) (collapse t').
  Proof. intros Ht. track_open Ht. unfold collapse, track_rel. track_fields. repeat split; try assumption; cbn [sfn_rel]; apply sc_zero. Qed.
  Lemma rel_auto_nrt : nrt_rel k auto_nrt auto_nrt.
  Proof. split; exact I. Qed.

  Lemma rel_flex_factor t t' : track_rel k t t' -> dl (flex_factor t) (flex_factor t').
  Proof. intros Ht. track_open Ht. unfold flex_factor. destruct (maxf t), (maxf t'); cbn [sfn_rel] in Hmax; try contradiction; auto using dl_zero. Qed.
  Lemma rel_is_flexible t t' : track_rel k t t' -> is_flexible t' = is_flexible t.
  Proof. intros Ht. track_open Ht. unfold is_flexible. apply rel_is_fr. assumption. Qed.
  Lemma rel_fit_content_limit a a' t t' : O a a' -> track_rel k t t' -> L (fit_content_limit a t) (fit_content_limit a' t').
  Proof.
    intros Ha Ht. track_open Ht. unfold fit_content_limit.
    destruct (maxf t), (maxf t'); cbn [sfn_rel] in Hmax; try contradiction; auto using sc_infinity.
    sfn_cases; [apply (sc_mul_dl k); assumption | apply sc_infinity].
  Qed.
  Lemma rel_fit_content_limited_growth_limit a a' t t' :
    O a a' -> track_rel k t t' -> L (fit_content_limited_growth_limit a t) (fit_content_limited_growth_limit a' t').
  Proof. intros Ha Ht. unfold fit_content_limited_growth_limit. apply (sc_min k); [exact Hk | track_open Ht; assumption | apply rel_fit_content_limit; assumption]. Qed.

  Lemma rel_base_sizes ts ts' : tracks_rel k ts ts' -> L (fsum (map base_size ts)) (fsum (map base_size ts')).
  Proof. intros Hts. apply rel_fsum. apply (rel_map (track_rel k) L); [|exact Hts]. intros t t' Ht. track_open Ht. assumption. Qed.

  (* ================================================================================================================
     explicit_grid.rs *)
  Lemma rel_shape_of e e' : tsf_rel k e e' -> shape_of e' = shape_of e.
  Proof.
    destruct e as [t|r ts], e' as [t'|r' ts']; cbn [tsf_rel]; try contradiction; [reflexivity|].
    intros [-> Hts]. cbn [shape_of]. rewrite (rel_length _ _ _ Hts). reflexivity.
  Qed.
  Lemma rel_map_shape (f : entry_shape -> N) tpl tpl' :
    Forall2 (tsf_rel k) tpl tpl' -> map (fun e => f (shape_of e)) tpl' = map (fun e => f (shape_of e)) tpl.
  Proof. intros Ht. induction Ht; cbn [map]; [reflexivity|]. rewrite (rel_shape_of _ _ H), IHHt. reflexivity. Qed.
  Lemma rel_non_auto_count_explicit tpl tpl' : Forall2 (tsf_rel k) tpl tpl' -> non_auto_count_explicit tpl' = non_auto_count_explicit tpl.
  Proof. intros Ht. unfold non_auto_count_explicit. rewrite (rel_map_shape _ _ _ Ht). reflexivity. Qed.
  Lemma rel_non_auto_count_init tpl tpl' : Forall2 (tsf_rel k) tpl tpl' -> non_auto_count_init tpl' = non_auto_count_init tpl.
  Proof. intros Ht. unfold non_auto_count_init. rewrite (rel_map_shape _ _ _ Ht). reflexivity. Qed.

  Lemma rel_is_auto_repetition e e' : tsf_rel k e e' -> is_auto_repetition e' = is_auto_repetition e.
  Proof. destruct e as [t|r ts], e' as [t'|r' ts']; cbn [tsf_rel]; try contradiction; [reflexivity|]. intros [-> _]. reflexivity. Qed.
  Lemma rel_has_empty_repetition e e' : tsf_rel k e e' -> has_empty_repetition e' = has_empty_repetition e.
  Proof.
    destruct e as [t|r ts], e' as [t'|r' ts']; cbn [tsf_rel]; try contradiction; [reflexivity|].
    intros [-> Hts]. destruct Hts; reflexivity.
  Qed.
  Lemma rel_entry_has_fixed_component e e' : tsf_rel k e e' -> entry_has_fixed_component e' = entry_has_fixed_component e.
  Proof.
    destruct e as [t|r ts], e' as [t'|r' ts']; cbn [tsf_rel entry_has_fixed_component]; try contradiction.
    - apply rel_has_fixed_component.
    - intros [_ Hts]. apply (rel_forallb (nrt_rel k)); [exact rel_has_fixed_component | exact Hts].
  Qed.
  Lemma rel_auto_repetition_count tpl tpl' : Forall2 (tsf_rel k) tpl tpl' -> auto_repetition_count tpl' = auto_repetition_count tpl.
  Proof.
    intros Ht. unfold auto_repetition_count.
    rewrite (rel_length _ _ _ (rel_filter (tsf_rel k) _ _ _ _ rel_is_auto_repetition Ht)). reflexivity.
  Qed.
  Lemma rel_template_is_valid tpl tpl' : Forall2 (tsf_rel k) tpl tpl' -> template_is_valid tpl' = template_is_valid tpl.
  Proof.
    intros Ht. unfold template_is_valid.
    rewrite (rel_auto_repetition_count _ _ Ht), (rel_forallb (tsf_rel k) _ _ _ _ rel_entry_has_fixed_component Ht). reflexivity.
  Qed.
  Lemma rel_repetition_definition tpl tpl' :
    Forall2 (tsf_rel k) tpl tpl' -> Forall2 (nrt_rel k) (repetition_definition tpl) (repetition_definition tpl').
  Proof.
    intros Ht. unfold repetition_definition. induction Ht as [|e e' l l' He Hl IH]; cbn [find]; [constructor|].
    rewrite (rel_is_auto_repetition _ _ He). destruct (is_auto_repetition e); [|exact IH].
    destruct e as [t|r ts], e' as [t'|r' ts']; cbn [tsf_rel] in He; try contradiction; [constructor|]. destruct He as [_ Hts]. exact Hts.
  Qed.

  Lemma rel_to_u16 x x' : dl x x' -> to_u16 x' = to_u16 x.
  Proof.
    intros Hx. unfold to_u16. rewrite (dl_is_nan _ _ Hx). destruct (is_nan x); [reflexivity|].
    generalize 16%nat at 1 2. generalize 0%N at 1 2. intros acc bits. revert acc.
    induction bits as [|b IH]; intros acc; cbn [to_u16_bits]; [reflexivity|].
    rewrite (dl_leb _ _ x x' (dl_refl _) Hx). destruct (leb _ x); apply IH.
  Qed.

  Lemma rel_track_definite_value p p' t t' : O p p' -> nrt_rel k t t' -> L (track_definite_value p t) (track_definite_value p' t').
  Proof.
    intros Hp [H1 H2]. unfold track_definite_value.
    pose proof (rel_definite_value _ _ _ _ Hp H2) as Hmx. pose proof (rel_definite_value _ _ _ _ Hp H1) as Hmn.
    destruct (definite_value p (snd t)), (definite_value p' (snd t')); cbn [op_rel] in Hmx; try contradiction;
    destruct (definite_value p (fst t)), (definite_value p' (fst t')); cbn [op_rel] in Hmn; try contradiction;
      auto using sc_zero. apply (sc_min k); assumption.
  Qed.
  Lemma rel_resolve_gap g g' i i' : sfn_rel k g g' -> L i i' -> L (resolve_gap g i) (resolve_gap g' i').
  Proof. intros Hg Hi. sfn_cases; cbn [resolve_gap]; auto using sc_zero. apply (sc_mul_dl k); assumption. Qed.

  Lemma rel_track_values p p' ts ts' :
    O p p' -> Forall2 (nrt_rel k) ts ts' -> L (fsum (map (track_definite_value p) ts)) (fsum (map (track_definite_value p') ts')).
  Proof. intros Hp Hts. apply rel_fsum. apply (rel_map (nrt_rel k) L); [|exact Hts]. intros. apply rel_track_definite_value; assumption. Qed.

  (* the number of repetitions of an auto-repeat is invariant *)
  Theorem num_repetitions_invariant tpl tpl' inner inner' gap gap' mx :
    Forall2 (tsf_rel k) tpl tpl' -> O inner inner' -> sfn_rel k gap gap' ->
    num_repetitions tpl' inner' gap' mx = num_repetitions tpl inner gap mx.
  Proof.
    intros Ht Hi Hg. unfold num_repetitions.
    destruct inner as [i|], inner' as [i'|]; cbn [op_rel] in Hi; try contradiction; [|reflexivity].
    assert (Hp : O (Some i) (Some i')) by exact Hi.
    pose proof (rel_repetition_definition _ _ Ht) as Hrep.
    pose proof (rel_track_values _ _ _ _ Hp Hrep) as Hpr.
    pose proof (rel_resolve_gap _ _ _ _ Hg Hi) as Hgs.
    rewrite (rel_non_auto_count_explicit _ _ Ht), (rel_length _ _ _ Hrep).
    set (rep := repetition_definition tpl) in *. set (rep' := repetition_definition tpl') in *.
    assert (Hnr : L (fsum (map (fun e => match e with
                                         | TSingle t => track_definite_value (Some i) t
                                         | TRepeat (RCount c) ts => (fsum (map (track_definite_value (Some i)) ts) * of_Z (Z.of_N c))%num
                                         | TRepeat _ _ => zero
                                         end) tpl))
                    (fsum (map (fun e => match e with
                                         | TSingle t => track_definite_value (Some i') t
                                         | TRepeat (RCount c) ts => (fsum (map (track_definite_value (Some i')) ts) * of_Z (Z.of_N c))%num
                                         | TRepeat _ _ => zero
                                         end) tpl'))).
    { apply rel_fsum. apply (rel_map (tsf_rel k) L); [|exact Ht]. intros e e' He.
      destruct e as [t|r ts], e' as [t'|r' ts']; cbn [tsf_rel] in He; try contradiction.
      - apply rel_track_definite_value; assumption.
      - destruct He as [-> Hts]. destruct r; try apply sc_zero.
        apply (sc_mul_dl k); [exact Hk | apply rel_track_values; assumption | apply dl_of_Z]. }
    set (nru := fsum (map _ tpl)) in *. set (nru' := fsum (map _ tpl')) in *.
    set (gs := resolve_gap gap i) in *. set (gs' := resolve_gap gap' i') in *.
    set (pr := fsum (map (track_definite_value (Some i)) rep)) in *. set (pr' := fsum (map (track_definite_value (Some i')) rep')) in *.
    set (n1 := of_Z (Z.of_N (non_auto_count_explicit tpl + N.of_nat (length rep) - 1)%N)).
    assert (Hfu : L (nru + pr + n1 * gs)%num (nru' + pr' + n1 * gs')%num).
    { apply sc_add; [apply sc_add; assumption|]. apply (sc_dl_mul k); [exact Hk | apply dl_of_Z | exact Hgs]. }
    rewrite (sc_ltb k _ _ _ _ Hk Hi Hfu). destruct (ltb i (nru + pr + n1 * gs)%num); [reflexivity|].
    assert (Hfit : dl ((i - (nru + pr + n1 * gs)) / (pr + of_Z (Z.of_N (N.of_nat (length rep))) * gs))%num
                      ((i' - (nru' + pr' + n1 * gs')) / (pr' + of_Z (Z.of_N (N.of_nat (length rep))) * gs'))%num).
    { apply (dl_div_sc k); [exact Hk | apply sc_sub; assumption|]. apply sc_add; [assumption|].
      apply (sc_dl_mul k); [exact Hk | apply dl_of_Z | exact Hgs]. }
    destruct mx; f_equal; apply rel_to_u16; [apply dl_ffloor | apply dl_fceil]; exact Hfit.
  Qed.

  Theorem explicit_grid_size_invariant tpl tpl' inner inner' gap gap' mx :
    Forall2 (tsf_rel k) tpl tpl' -> O inner inner' -> sfn_rel k gap gap' ->
    explicit_grid_size tpl' inner' gap' mx = explicit_grid_size tpl inner gap mx.
  Proof.
    intros Ht Hi Hg. unfold explicit_grid_size.
    rewrite (rel_existsb (tsf_rel k) _ _ _ _ rel_has_empty_repetition Ht), (rel_template_is_valid _ _ Ht),
            (rel_auto_repetition_count _ _ Ht), (rel_non_auto_count_explicit _ _ Ht),
            (rel_length _ _ _ (rel_repetition_definition _ _ Ht)), (num_repetitions_invariant _ _ _ _ _ _ mx Ht Hi Hg).
    destruct Ht; reflexivity.
  Qed.

  (* ---- initialize_grid_tracks *)
  Lemma rel_implicit_tracks n autos autos' pos gap gap' :
    Forall2 (nrt_rel k) autos autos' -> sfn_rel k gap gap' ->
    tracks_rel k (implicit_tracks n autos pos gap) (implicit_tracks n autos' pos gap').
  Proof.
    intros Ha Hg. revert pos. induction n as [|n IH]; intros pos; cbn [implicit_tracks]; [constructor|].
    constructor; [|constructor; [apply rel_gutter; exact Hg | apply IH]].
    apply rel_track_of. destruct Ha as [|a a' l l' Ha Hl]; [apply rel_auto_nrt|].
    rewrite (rel_length _ _ _ (Forall2_cons _ _ Ha Hl)). apply rel_nth; [constructor; assumption | apply rel_auto_nrt].
  Qed.

  Lemma rel_cycle_tracks n ts ts' pos gap gap' ce hi idx :
    Forall2 (nrt_rel k) ts ts' -> sfn_rel k gap gap' ->
    tracks_rel k (cycle_tracks n ts pos gap ce hi idx) (cycle_tracks n ts' pos gap' ce hi idx).
  Proof.
    intros Ha Hg. revert pos idx. induction n as [|n IH]; intros pos idx; cbn [cycle_tracks]; [constructor|].
    rewrite (rel_length _ _ _ Ha).
    assert (Ht : track_rel k (track_of (nth (Nat.modulo pos (length ts)) ts auto_nrt)) (track_of (nth (Nat.modulo pos (length ts)) ts' auto_nrt)))
      by (apply rel_track_of; apply rel_nth; [exact Ha | apply rel_auto_nrt]).
    pose proof (rel_gutter _ _ Hg) as Hgu.
    constructor; [|constructor; [|apply IH]]; destruct (ce && negb (hi idx))%bool; try assumption; apply rel_collapse; assumption.
  Qed.

  Lemma rel_explicit_tracks entries entries' whole whole' ce gap gap' hi idx :
    Forall2 (tsf_rel k) entries entries' -> Forall2 (tsf_rel k) whole whole' -> sfn_rel k gap gap' ->
    tracks_rel k (explicit_tracks entries whole ce gap hi idx) (explicit_tracks entries' whole' ce gap' hi idx).
  Proof.
    intros He Hw Hg. revert idx. induction He as [|e e' l l' He Hl IH]; intros idx; cbn [explicit_tracks]; [constructor|].
    rewrite (rel_non_auto_count_init _ _ Hw).
    match goal with |- tracks_rel k (?h ++ _) (?h' ++ _) => assert (Hh : tracks_rel k h h') end.
    { destruct e as [t|r ts], e' as [t'|r' ts']; cbn [tsf_rel] in He; try contradiction.
      - constructor; [apply rel_track_of; exact He | constructor; [apply rel_gutter; exact Hg | constructor]].
      - destruct He as [-> Hts]. pose proof (rel_length _ _ _ Hts) as El.
        destruct Hts as [|a a' m m' Ha Hm]; [destruct r; constructor|].
        assert (Hts : Forall2 (nrt_rel k) (a :: m) (a' :: m')) by (constructor; assumption).
        destruct r; cbn [length] in *; try rewrite El; apply rel_cycle_tracks; assumption. }
    apply rel_app; [exact Hh|]. rewrite (rel_length _ _ _ Hh). apply IH.
  Qed.

  Lemma rel_collapse_first ts ts' : tracks_rel k ts ts' -> tracks_rel k (collapse_first ts) (collapse_first ts').
  Proof. intros Hts. destruct Hts; cbn [collapse_first]; constructor; [apply rel_collapse|]; assumption. Qed.
  Lemma rel_collapse_last ts ts' : tracks_rel k ts ts' -> tracks_rel k (collapse_last ts) (collapse_last ts').
  Proof. intros Hts. unfold collapse_last. apply rel_rev. apply rel_collapse_first. apply rel_rev. exact Hts. Qed.

  Theorem initialize_grid_tracks_homog counts tpl tpl' autos autos' gap gap' hi :
    Forall2 (tsf_rel k) tpl tpl' -> Forall2 (nrt_rel k) autos autos' -> sfn_rel k gap gap' ->
    tracks_rel k (initialize_grid_tracks counts tpl autos gap hi) (initialize_grid_tracks counts tpl' autos' gap' hi).
  Proof.
    intros Ht Ha Hg. unfold initialize_grid_tracks.
    apply rel_collapse_last. apply rel_collapse_first. constructor; [apply rel_gutter; exact Hg|].
    apply rel_app; [|apply rel_app].
    - destruct Ha as [|a a' l l' Ha Hl]; [apply rel_implicit_tracks; [constructor | exact Hg]|].
      rewrite (rel_length _ _ _ (Forall2_cons _ _ Ha Hl)). apply rel_implicit_tracks; [constructor; assumption | exact Hg].
    - destruct (0 <? explicit counts)%N; [|constructor]. apply rel_explicit_tracks; assumption.
    - apply rel_implicit_tracks; assumption.
  Qed.

  (* ================================================================================================================
     track_sizing.rs *)
  (* 11.4 *)
  Theorem initialize_track_sizes_homog inner inner' ts ts' :
    O inner inner' -> tracks_rel k ts ts' -> tracks_rel k (initialize_track_sizes inner ts) (initialize_track_sizes inner' ts').
  Proof.
    intros Hi Hts. unfold initialize_track_sizes. apply (rel_map (track_rel k) (track_rel k)); [|exact Hts].
    intros t t' Ht. track_open Ht.
    pose proof (rel_definite_value _ _ _ _ Hi Hmin) as Hb. pose proof (rel_definite_value _ _ _ _ Hi Hmax) as Hg.
    assert (Hb' : L (match definite_value inner (minf t) with Some v => v | None => zero end)
                    (match definite_value inner' (minf t') with Some v => v | None => zero end))
      by (destruct (definite_value inner (minf t)), (definite_value inner' (minf t')); cbn [op_rel] in Hb; try contradiction; auto using sc_zero).
    assert (Hg' : L (match definite_value inner (maxf t) with Some v => v | None => infinity end)
                    (match definite_value inner' (maxf t') with Some v => v | None => infinity end))
      by (destruct (definite_value inner (maxf t)), (definite_value inner' (maxf t')); cbn [op_rel] in Hg; try contradiction; auto using sc_infinity).
    apply rel_set_limit; [apply rel_set_base; assumption|].
    rewrite (sc_ltb k _ _ _ _ Hk Hg' Hb'). match goal with |- context [if ?b then _ else _] => destruct b end; assumption.
  Qed.

  Lemma rel_min_by_first xs xs' : Forall2 L xs xs' -> L (min_by_first xs) (min_by_first xs').
  Proof.
    intros Hx. destruct Hx as [|x x' l l' Hx Hl]; cbn [min_by_first]; [apply sc_infinity|].
    apply (rel_fold_left L L); [|exact Hl | exact Hx]. intros b b' y y' Hb Hy.
    rewrite (sc_ltb k _ _ _ _ Hk Hy Hb). destruct (ltb y b); assumption.
  Qed.
  Lemma rel_max_by_last xs xs' : Forall2 L xs xs' -> L (max_by_last xs) (max_by_last xs').
  Proof.
    intros Hx. destruct Hx as [|x x' l l' Hx Hl]; cbn [max_by_last]; [apply sc_zero|].
    apply (rel_fold_left L L); [|exact Hl | exact Hx]. intros b b' y y' Hb Hy.
    rewrite (sc_ltb k _ _ _ _ Hk Hy Hb). destruct (ltb y b); assumption.
  Qed.

  (* ---- distribute_space_up_to_limits with the threshold scaled along *)
  Section Distribute.
    Variables tau tau' : XQ.
    Hypothesis Htau : L tau tau'.
    Variables (aff aff' : track XQ -> bool) (pr pr' pp pp' lim lim' : track XQ -> XQ).
    Hypothesis Haff : affected_inv k aff aff'.
    Hypothesis Hpr : tfun_dl k pr pr'.
    Hypothesis Hpp : tfun_sc k pp pp'.
    Hypothesis Hlim : tfun_sc k lim lim'.

    Lemma rel_growable t t' : track_rel k t t' -> growable aff' pp' lim' t' = growable aff pp lim t.
    Proof.
      intros Ht. unfold growable. rewrite (Haff _ _ Ht). f_equal. track_open Ht.
      apply (sc_ltb k); [exact Hk | apply sc_add; [apply Hpp; exact Ht | assumption] | apply Hlim; exact Ht].
    Qed.

    Lemma rel_apply_increase inc inc' sp sp' ts ts' :
      L inc inc' -> L sp sp' -> tracks_rel k ts ts' ->
      L (fst (apply_increase_t tau aff pr pp lim inc sp ts)) (fst (apply_increase_t tau' aff' pr' pp' lim' inc' sp' ts')) /\
      tracks_rel k (snd (apply_increase_t tau aff pr pp lim inc sp ts)) (snd (apply_increase_t tau' aff' pr' pp' lim' inc' sp' ts')).
    Proof.
      intros Hinc Hsp Hts. revert sp sp' Hsp. induction Hts as [|t t' l l' Ht Hl IH]; intros sp sp' Hsp; cbn [apply_increase_t].
      - split; [exact Hsp | constructor].
      - rewrite (Haff _ _ Ht).
        assert (Hi : L (inc * pr t)%num (inc' * pr' t')%num) by (apply (sc_mul_dl k); [exact Hk | exact Hinc | apply Hpr; exact Ht]).
        rewrite (sc_ltb k _ _ _ _ Hk (sc_zero k) Hi),
                (sc_leb k _ _ _ _ Hk (sc_add k _ _ _ _ (Hpp _ _ Ht) Hi) (sc_add k _ _ _ _ (Hlim _ _ Ht) Htau)).
        destruct (aff t); [destruct ((zero <? inc * pr t)%num && (pp t + inc * pr t <=? lim t + tau)%num)%bool|].
        + assert (Hs2 : L (sp - inc * pr t)%num (sp' - inc' * pr' t')%num) by (apply sc_sub; assumption).
          specialize (IH _ _ Hs2).
          destruct (apply_increase_t tau aff pr pp lim inc (sp - inc * pr t)%num l) as [s1 r1],
                   (apply_increase_t tau' aff' pr' pp' lim' inc' (sp' - inc' * pr' t')%num l') as [s1' r1'].
          cbn [fst snd] in *. destruct IH as [I1 I2]. split; [exact I1|]. constructor; [|exact I2].
          track_open Ht. apply rel_set_incurred; [exact Ht | apply sc_add; assumption].
        + specialize (IH _ _ Hsp).
          destruct (apply_increase_t tau aff pr pp lim inc sp l) as [s1 r1], (apply_increase_t tau' aff' pr' pp' lim' inc' sp' l') as [s1' r1'].
          cbn [fst snd] in *. destruct IH as [I1 I2]. split; [exact I1 | constructor; assumption].
        + specialize (IH _ _ Hsp).
          destruct (apply_increase_t tau aff pr pp lim inc sp l) as [s1 r1], (apply_increase_t tau' aff' pr' pp' lim' inc' sp' l') as [s1' r1'].
          cbn [fst snd] in *. destruct IH as [I1 I2]. split; [exact I1 | constructor; assumption].
    Qed.

    Definition step_rel (r r' : option (XQ * list (track XQ))) : Prop :=
      op_rel (fun p p' => L (fst p) (fst p') /\ tracks_rel k (snd p) (snd p')) r r'.

    Lemma rel_distribute_step sp sp' ts ts' :
      L sp sp' -> tracks_rel k ts ts' ->
      step_rel (distribute_step_t tau aff pr pp lim sp ts) (distribute_step_t tau' aff' pr' pp' lim' sp' ts').
    Proof.
      intros Hsp Hts. unfold distribute_step_t, step_rel.
      rewrite (sc_ltb k _ _ _ _ Hk Htau Hsp). destruct (ltb tau sp); [|exact I].
      pose proof (rel_filter (track_rel k) _ _ _ _ rel_growable Hts) as Hg.
      set (g := filter (growable aff pp lim) ts) in *. set (g' := filter (growable aff' pp' lim') ts') in *.
      assert (Hps : dl (fsum (map pr g)) (fsum (map pr' g'))) by (apply rel_fsum_dl; apply (rel_map (track_rel k) dl); [exact Hpr | exact Hg]).
      rewrite (dl_eqb _ _ zero zero Hps dl_zero). destruct (eqb (fsum (map pr g)) zero); [exact I|].
      cbn [op_rel]. apply rel_apply_increase; [|exact Hsp | exact Hts].
      apply (sc_min k); [exact Hk | | apply (sc_div_dl k); assumption].
      apply rel_min_by_first. apply (rel_map (track_rel k) L); [|exact Hg]. intros t t' Ht.
      apply (sc_div_dl k); [exact Hk | apply sc_sub; [apply Hlim | apply Hpp]; exact Ht | apply Hpr; exact Ht].
    Qed.

    Lemma rel_distribute_loop fuel sp sp' ts ts' :
      L sp sp' -> tracks_rel k ts ts' ->
      L (fst (distribute_loop_t tau aff pr pp lim fuel sp ts)) (fst (distribute_loop_t tau' aff' pr' pp' lim' fuel sp' ts')) /\
      tracks_rel k (snd (distribute_loop_t tau aff pr pp lim fuel sp ts)) (snd (distribute_loop_t tau' aff' pr' pp' lim' fuel sp' ts')).
    Proof.
      revert sp sp' ts ts'. induction fuel as [|f IH]; intros sp sp' ts ts' Hsp Hts; cbn [distribute_loop_t]; [split; assumption|].
      pose proof (rel_distribute_step _ _ _ _ Hsp Hts) as Hs. unfold step_rel in Hs.
      destruct (distribute_step_t tau aff pr pp lim sp ts) as [[s1 t1]|], (distribute_step_t tau' aff' pr' pp' lim' sp' ts') as [[s1' t1']|];
        cbn [op_rel fst snd] in Hs; try contradiction; [|split; assumption].
      destruct Hs as [H1 H2]. apply IH; assumption.
    Qed.

    Theorem distribute_space_up_to_limits_homog sp sp' ts ts' :
      L sp sp' -> tracks_rel k ts ts' ->
      L (fst (distribute_space_up_to_limits_t tau sp ts aff pr pp lim)) (fst (distribute_space_up_to_limits_t tau' sp' ts' aff' pr' pp' lim')) /\
      tracks_rel k (snd (distribute_space_up_to_limits_t tau sp ts aff pr pp lim))
                   (snd (distribute_space_up_to_limits_t tau' sp' ts' aff' pr' pp' lim')).
    Proof.
      intros Hsp Hts. unfold distribute_space_up_to_limits_t, distribute_fuel. rewrite (rel_length _ _ _ Hts).
      apply rel_distribute_loop; assumption.
    Qed.
  End Distribute.

  Lemma rel_compute_free_space a a' u u' : gavail_rel k a a' -> L u u' -> L (compute_free_space a u) (compute_free_space a' u').
  Proof. intros Ha Hu. sfn_cases; cbn [compute_free_space]; auto using sc_zero, sc_infinity, sc_sub. Qed.
  Lemma rel_is_definite a a' : gavail_rel k a a' -> is_definite a' = is_definite a.
  Proof. intros Ha. sfn_cases; reflexivity. Qed.

  Lemma rel_flush_incurred_to_base ts ts' : tracks_rel k ts ts' -> tracks_rel k (flush_incurred_to_base ts) (flush_incurred_to_base ts').
  Proof.
    intros Hts. apply (rel_map (track_rel k) (track_rel k)); [|exact Hts]. intros t t' Ht. track_open Ht.
    apply rel_set_incurred; [|apply sc_zero]. apply rel_set_base; [exact Ht | apply sc_add; assumption].
  Qed.

  (* 11.6 with the threshold scaled along *)
  Theorem maximise_tracks_homog tau tau' inner inner' a a' ts ts' :
    L tau tau' -> O inner inner' -> gavail_rel k a a' -> tracks_rel k ts ts' ->
    tracks_rel k (maximise_tracks_t tau inner a ts) (maximise_tracks_t tau' inner' a' ts').
  Proof.
    intros Htau Hi Ha Hts. unfold maximise_tracks_t.
    pose proof (rel_compute_free_space _ _ _ _ Ha (rel_base_sizes _ _ Hts)) as Hf.
    set (free := compute_free_space a _) in *. set (free' := compute_free_space a' _) in *.
    rewrite (sc_eqb_infinity k _ _ Hk Hf), (sc_ltb k _ _ _ _ Hk (sc_zero k) Hf).
    destruct (eqb free infinity).
    - apply (rel_map (track_rel k) (track_rel k)); [|exact Hts]. intros t t' Ht. track_open Ht. apply rel_set_base; assumption.
    - destruct (ltb zero free); [|exact Hts].
      pose proof (distribute_space_up_to_limits_homog tau tau' Htau (fun _ => true) (fun _ => true) (fun _ => one) (fun _ => one)
                    base_size base_size (fit_content_limited_growth_limit inner) (fit_content_limited_growth_limit inner')) as D.
      specialize (D (fun _ _ _ => eq_refl) (fun _ _ _ => dl_one)).
      assert (Hb : tfun_sc k base_size base_size) by (intros t t' Ht; track_open Ht; assumption).
      assert (Hl : tfun_sc k (fit_content_limited_growth_limit inner) (fit_content_limited_growth_limit inner'))
        by (intros t t' Ht; apply rel_fit_content_limited_growth_limit; assumption).
      specialize (D Hb Hl _ _ _ _ Hf Hts).
      destruct (distribute_space_up_to_limits_t tau free ts _ _ _ _) as [s1 t1],
               (distribute_space_up_to_limits_t tau' free' ts' _ _ _ _) as [s1' t1'].
      cbn [fst snd] in D. destruct D as [_ D2]. apply rel_flush_incurred_to_base. exact D2.
  Qed.

  (* ---- 11.5.1 distribute_item_space_to_base_size with both thresholds scaled along *)
  Lemma rel_is_max_or_fit_content f f' : sfn_rel k f f' -> is_max_or_fit_content f' = is_max_or_fit_content f.
  Proof. intros Hf. sfn_cases; reflexivity. Qed.
  Lemma rel_set_base_planned t t' v v' : track_rel k t t' -> L v v' -> track_rel k (set_base_planned t v) (set_base_planned t' v').
  Proof. unfold set_base_planned. intros Ht; intros; track_open Ht; unfold track_rel; track_fields; repeat split; assumption. Qed.

  Lemma rel_distribute_item_inner tau tau' tau2 tau2' sp sp' ts ts' aff aff' pr pr' lim lim' ct :
    L tau tau' -> L tau2 tau2' -> L sp sp' -> tracks_rel k ts ts' ->
    affected_inv k aff aff' -> tfun_dl k pr pr' -> tfun_sc k lim lim' ->
    tracks_rel k (distribute_item_space_to_base_size_inner_t tau tau2 sp ts aff pr lim ct)
                 (distribute_item_space_to_base_size_inner_t tau' tau2' sp' ts' aff' pr' lim' ct).
  Proof.
    intros Htau Htau2 Hsp Hts Haff Hpr Hlim. unfold distribute_item_space_to_base_size_inner_t.
    rewrite (sc_eqb k _ _ zero zero Hk Hsp (sc_zero k)), (rel_existsb (track_rel k) _ _ _ _ Haff Hts).
    destruct ((sp =? zero)%num || negb (existsb aff ts))%bool; [exact Hts|].
    assert (Hb : tfun_sc k base_size base_size) by (intros t t' Ht; track_open Ht; assumption).
    assert (Hex : L (fmax zero (sp - fsum (map base_size ts))%num) (fmax zero (sp' - fsum (map base_size ts'))%num))
      by (apply (sc_max k); [exact Hk | apply sc_zero | apply sc_sub; [exact Hsp | apply rel_base_sizes; exact Hts]]).
    pose proof (distribute_space_up_to_limits_homog tau tau' Htau aff aff' pr pr' base_size base_size lim lim' Haff Hpr Hb Hlim _ _ _ _ Hex Hts) as D.
    destruct (distribute_space_up_to_limits_t tau (fmax zero (sp - fsum (map base_size ts))%num) ts aff pr base_size lim) as [e1 t1],
             (distribute_space_up_to_limits_t tau' (fmax zero (sp' - fsum (map base_size ts'))%num) ts' aff' pr' base_size lim') as [e1' t1'].
    cbn [fst snd] in D. destruct D as [He1 Ht1].
    apply (rel_map (track_rel k) (track_rel k)).
    { intros t t' Ht. cbv zeta. track_open Ht. rewrite (sc_ltb k _ _ _ _ Hk Hbp Hinc).
      apply rel_set_incurred; [|apply sc_zero]. destruct (ltb (base_planned t) (incurred t)); [apply rel_set_base_planned|]; assumption. }
    rewrite (sc_ltb k _ _ _ _ Hk Htau2 He1). destruct (ltb tau2 e1); [|exact Ht1]. cbv zeta.
    set (f1 := match ct with CMinimum => fun t : track XQ => is_intrinsic (maxf t)
                           | CMaximum => fun t => (is_max_content (minf t) || is_max_or_fit_content (maxf t))%bool end).
    assert (Hf1 : affected_inv k f1 f1).
    { intros t t' Ht. track_open Ht. unfold f1. destruct ct;
        [apply rel_is_intrinsic; assumption | rewrite (rel_is_max_content _ _ Hmin), (rel_is_max_or_fit_content _ _ Hmax); reflexivity]. }
    assert (En : length (filter (fun t => (aff' t && f1 t)%bool) t1') = length (filter (fun t => (aff t && f1 t)%bool) t1)).
    { apply (rel_length (track_rel k)). apply (rel_filter (track_rel k)); [|exact Ht1].
      intros t t' Ht. rewrite (Haff _ _ Ht), (Hf1 _ _ Ht). reflexivity. }
    rewrite En. set (n := length (filter (fun t => (aff t && f1 t)%bool) t1)).
    assert (Hf2 : affected_inv k (match n with 0%nat => fun _ => true | S _ => f1 end) (match n with 0%nat => fun _ => true | S _ => f1 end))
      by (destruct n; [intros ? ? ?; reflexivity | exact Hf1]).
    apply (distribute_space_up_to_limits_homog tau tau' Htau _ _ pr pr' base_size base_size lim lim' Hf2 Hpr Hb Hlim); assumption.
  Qed.

  Theorem distribute_item_space_to_base_size_homog tau tau' tau2 tau2' flex uff sp sp' ts ts' aff aff' lim lim' ct :
    L tau tau' -> L tau2 tau2' -> L sp sp' -> tracks_rel k ts ts' -> affected_inv k aff aff' -> tfun_sc k lim lim' ->
    tracks_rel k (distribute_item_space_to_base_size_t tau tau2 flex uff sp ts aff lim ct)
                 (distribute_item_space_to_base_size_t tau' tau2' flex uff sp' ts' aff' lim' ct).
  Proof.
    intros Htau Htau2 Hsp Hts Haff Hlim. unfold distribute_item_space_to_base_size_t.
    assert (Hfl : affected_inv k (fun t => (is_flexible t && aff t)%bool) (fun t => (is_flexible t && aff' t)%bool))
      by (intros t t' Ht; rewrite (rel_is_flexible _ _ Ht), (Haff _ _ Ht); reflexivity).
    assert (H1 : tfun_dl k (fun _ => one) (fun _ => one)) by (intros ? ? ?; apply dl_one).
    destruct flex; [destruct uff|]; apply rel_distribute_item_inner; try assumption. exact rel_flex_factor.
  Qed.

  (* ---- 11.7.1 find_size_of_fr *)
  Lemma rel_flexible_at h h' t t' : L h h' -> track_rel k t t' -> flexible_at h' t' = flexible_at h t.
  Proof.
    intros Hh Ht. track_open Ht. unfold flexible_at.
    destruct (maxf t), (maxf t'); cbn [sfn_rel] in Hmax; try contradiction; cbn [is_fr sfn_value andb]; try reflexivity.
    apply (sc_leb k); [exact Hk | assumption | apply (sc_dl_mul k); assumption].
  Qed.
  Lemma rel_fr_value t t' : track_rel k t t' -> is_fr (maxf t) = true -> dl (sfn_value (maxf t)) (sfn_value (maxf t')).
  Proof.
    intros Ht. track_open Ht. destruct (maxf t), (maxf t'); cbn [sfn_rel] in Hmax; try contradiction; cbn [is_fr sfn_value]; try discriminate.
    intros _. exact Hmax.
  Qed.

  Lemma rel_fr_sums ts ts' h h' :
    tracks_rel k ts ts' -> L h h' -> L (fst (fr_sums ts h)) (fst (fr_sums ts' h')) /\ dl (snd (fr_sums ts h)) (snd (fr_sums ts' h')).
  Proof.
    intros Hts Hh. unfold fr_sums.
    apply (rel_fold_left (track_rel k) (fun p p' : XQ * XQ => L (fst p) (fst p') /\ dl (snd p) (snd p'))); [|exact Hts|split; [apply sc_zero | apply dl_zero]].
    intros [u s] [u' s'] t t' [Hu Hs] Ht. cbn [fst snd] in Hu, Hs. rewrite (rel_flexible_at _ _ _ _ Hh Ht).
    destruct (flexible_at h t) eqn:E; cbn [fst snd]; split; try assumption.
    - apply dl_add; [assumption|]. apply rel_fr_value; [exact Ht|]. unfold flexible_at in E. apply andb_prop in E. tauto.
    - apply sc_add; [assumption|]. track_open Ht. assumption.
  Qed.

  Lemma rel_fr_next ts ts' sp sp' h h' : tracks_rel k ts ts' -> L sp sp' -> L h h' -> L (fr_next ts sp h) (fr_next ts' sp' h').
  Proof.
    intros Hts Hsp Hh. unfold fr_next. pose proof (rel_fr_sums _ _ _ _ Hts Hh) as [H1 H2].
    destruct (fr_sums ts h) as [u s], (fr_sums ts' h') as [u' s']. cbn [fst snd] in H1, H2.
    apply (sc_div_dl k); [exact Hk | apply sc_sub; assumption | apply dl_max; [assumption | apply dl_one]].
  Qed.

  Lemma rel_fr_valid ts ts' hp hp' h h' : tracks_rel k ts ts' -> L hp hp' -> L h h' -> fr_valid ts' hp' h' = fr_valid ts hp h.
  Proof.
    intros Hts Hhp Hh. unfold fr_valid. apply (rel_forallb (track_rel k)); [|exact Hts]. intros t t' Ht. track_open Ht.
    destruct (maxf t), (maxf t'); cbn [sfn_rel] in Hmax; try contradiction; cbn [is_fr sfn_value]; try reflexivity.
    f_equal; [apply (sc_leb k) | apply (sc_ltb k)]; try assumption; apply (sc_dl_mul k); assumption.
  Qed.

  Lemma rel_fr_loop fuel ts ts' sp sp' hp hp' :
    tracks_rel k ts ts' -> L sp sp' -> L hp hp' ->
    L (fst (fst (fr_loop fuel ts sp hp))) (fst (fst (fr_loop fuel ts' sp' hp'))) /\
    L (snd (fst (fr_loop fuel ts sp hp))) (snd (fst (fr_loop fuel ts' sp' hp'))) /\
    snd (fr_loop fuel ts' sp' hp') = snd (fr_loop fuel ts sp hp).
  Proof.
    intros Hts Hsp. revert hp hp'. induction fuel as [|f IH]; intros hp hp' Hhp; cbn [fr_loop]; [cbn [fst snd]; auto|].
    pose proof (rel_fr_next _ _ _ _ _ _ Hts Hsp Hhp) as Hn. rewrite (rel_fr_valid _ _ _ _ _ _ Hts Hhp Hn).
    destruct (fr_valid ts hp (fr_next ts sp hp)); [cbn [fst snd]; auto | apply IH; exact Hn].
  Qed.

  Theorem find_size_of_fr_homog ts ts' sp sp' : tracks_rel k ts ts' -> L sp sp' -> L (find_size_of_fr ts sp) (find_size_of_fr ts' sp').
  Proof.
    intros Hts Hsp. unfold find_size_of_fr, fr_exit, fr_fuel. rewrite (sc_eqb k _ _ zero zero Hk Hsp (sc_zero k)), (rel_length _ _ _ Hts).
    destruct (eqb sp zero); [apply sc_zero|]. apply rel_fr_loop; auto using sc_infinity.
  Qed.

  (* ---- 11.7 *)
  Lemma rel_slice ts ts' s l : tracks_rel k ts ts' -> tracks_rel k (slice ts s l) (slice ts' s l).
  Proof. intros. unfold slice. apply rel_firstn. apply rel_skipn. assumption. Qed.

  Lemma rel_expand_value f f' t t' : L f f' -> track_rel k t t' ->
    L (if is_fr (maxf t) then fmax (base_size t) (sfn_value (maxf t) * f)%num else base_size t)
      (if is_fr (maxf t') then fmax (base_size t') (sfn_value (maxf t') * f')%num else base_size t').
  Proof.
    intros Hf Ht. track_open Ht. rewrite (rel_is_fr _ _ Hmax). destruct (is_fr (maxf t)) eqn:E; [|assumption].
    apply (sc_max k); [exact Hk | assumption|]. apply (sc_dl_mul k); [exact Hk | apply rel_fr_value; assumption | exact Hf].
  Qed.

  Theorem flex_fraction_homog mn mn' mx mx' a a' items items' ts ts' :
    O mn mn' -> O mx mx' -> gavail_rel k a a' -> Forall2 (fitem_rel k) items items' -> tracks_rel k ts ts' ->
    L (flex_fraction mn mx a items ts) (flex_fraction mn' mx' a' items' ts').
  Proof.
    intros Hmn Hmx Ha Hit Hts. unfold flex_fraction.
    destruct a as [v| |], a' as [v'| |]; cbn [gavail_rel] in Ha; try contradiction; [| apply sc_zero |].
    - assert (Hfree : L (v - fsum (map base_size ts))%num (v' - fsum (map base_size ts'))%num) by (apply sc_sub; [exact Ha | apply rel_base_sizes; exact Hts]).
      rewrite (sc_leb k _ _ zero zero Hk Hfree (sc_zero k)). match goal with |- context [if ?b then _ else _] => destruct b end; [apply sc_zero|].
      apply find_size_of_fr_homog; assumption.
    - assert (HA : L (max_by_last (map (fun t => let f := flex_factor t in if (one <? f)%num then (base_size t / f)%num else base_size t)
                                       (filter (fun t => is_fr (maxf t)) ts)))
                     (max_by_last (map (fun t => let f := flex_factor t in if (one <? f)%num then (base_size t / f)%num else base_size t)
                                       (filter (fun t => is_fr (maxf t)) ts')))).
      { apply rel_max_by_last. apply (rel_map (track_rel k) L).
        - intros t t' Ht. cbv zeta. pose proof (rel_flex_factor _ _ Ht) as Hf. rewrite (dl_ltb _ _ _ _ dl_one Hf). track_open Ht.
          destruct (ltb one (flex_factor t)); [apply (sc_div_dl k)|]; assumption.
        - apply (rel_filter (track_rel k)); [|exact Hts]. intros t t' Ht. track_open Ht. apply rel_is_fr. assumption. }
      assert (HB : L (max_by_last (map (fun '(s, l, c) => find_size_of_fr (slice ts s l) c) items))
                     (max_by_last (map (fun '(s, l, c) => find_size_of_fr (slice ts' s l) c) items'))).
      { apply rel_max_by_last. apply (rel_map (fitem_rel k) L); [|exact Hit].
        intros [[s l] c] [[s' l'] c'] [E Hc]. cbn [fst snd] in E, Hc. inversion E; subst. apply find_size_of_fr_homog; [apply rel_slice; exact Hts | exact Hc]. }
      set (A := max_by_last (map _ (filter _ ts))) in *. set (A' := max_by_last (map _ (filter _ ts'))) in *.
      set (B := max_by_last (map _ items)) in *. set (B' := max_by_last (map _ items')) in *.
      assert (Hfr : L (fmax A B) (fmax A' B')) by (apply (sc_max k); assumption).
      assert (Hhyp : L (fsum (map (fun t => if is_fr (maxf t) then fmax (base_size t) (sfn_value (maxf t) * fmax A B)%num else base_size t) ts))
                       (fsum (map (fun t => if is_fr (maxf t) then fmax (base_size t) (sfn_value (maxf t) * fmax A' B')%num else base_size t) ts'))).
      { apply rel_fsum. apply (rel_map (track_rel k) L); [|exact Hts]. intros t t' Ht. apply rel_expand_value; assumption. }
      assert (Hmn0 : L (match mn with Some v => v | None => zero end) (match mn' with Some v => v | None => zero end))
        by (destruct mn, mn'; cbn [op_rel] in Hmn; try contradiction; auto using sc_zero).
      assert (Hmx0 : L (match mx with Some v => v | None => infinity end) (match mx' with Some v => v | None => infinity end))
        by (destruct mx, mx'; cbn [op_rel] in Hmx; try contradiction; auto using sc_infinity).
      cbv zeta. rewrite (sc_ltb k _ _ _ _ Hk Hhyp Hmn0), (sc_ltb k _ _ _ _ Hk Hmx0 Hhyp).
      repeat match goal with |- context [if ?b then _ else _] => destruct b end; try assumption; apply find_size_of_fr_homog; assumption.
  Qed.

  Theorem expand_flexible_tracks_homog mn mn' mx mx' a a' items items' ts ts' :
    O mn mn' -> O mx mx' -> gavail_rel k a a' -> Forall2 (fitem_rel k) items items' -> tracks_rel k ts ts' ->
    tracks_rel k (expand_flexible_tracks mn mx a items ts) (expand_flexible_tracks mn' mx' a' items' ts').
  Proof.
    intros Hmn Hmx Ha Hit Hts. unfold expand_flexible_tracks, apply_flex_fraction.
    pose proof (flex_fraction_homog _ _ _ _ _ _ _ _ _ _ Hmn Hmx Ha Hit Hts) as Hf.
    apply (rel_map (track_rel k) (track_rel k)); [|exact Hts]. intros t t' Ht. unfold expand_one.
    pose proof (rel_expand_value _ _ _ _ Hf Ht) as Hv. track_open Ht. rewrite (rel_is_fr _ _ Hmax) in *.
    destruct (is_fr (maxf t)); [apply rel_set_base; assumption | exact Ht].
  Qed.

  (* ---- 11.8 *)
  Theorem stretch_auto_tracks_homog mn mn' a a' ts ts' :
    O mn mn' -> gavail_rel k a a' -> tracks_rel k ts ts' ->
    tracks_rel k (stretch_auto_tracks mn a ts) (stretch_auto_tracks mn' a' ts').
  Proof.
    intros Hmn Ha Hts. unfold stretch_auto_tracks.
    assert (Eauto : forall t t', track_rel k t t' -> is_auto (maxf t') = is_auto (maxf t)) by (intros t t' Ht; track_open Ht; apply rel_is_auto; assumption).
    rewrite (rel_length _ _ _ (rel_filter (track_rel k) _ _ _ _ Eauto Hts)).
    destruct (length (filter (fun t => is_auto (maxf t)) ts)) as [|n]; [exact Hts|].
    pose proof (rel_base_sizes _ _ Hts) as Hu.
    assert (Hf : L (if is_definite a then compute_free_space a (fsum (map base_size ts))
                    else match mn with Some s => (s - fsum (map base_size ts))%num | None => zero end)
                   (if is_definite a' then compute_free_space a' (fsum (map base_size ts'))
                    else match mn' with Some s => (s - fsum (map base_size ts'))%num | None => zero end)).
    { rewrite (rel_is_definite _ _ Ha). destruct (is_definite a); [apply rel_compute_free_space; assumption|].
      destruct mn, mn'; cbn [op_rel] in Hmn; try contradiction; auto using sc_zero, sc_sub. }
    set (free := if is_definite a then _ else _) in *. set (free' := if is_definite a' then _ else _) in *.
    rewrite (sc_ltb k _ _ _ _ Hk (sc_zero k) Hf). destruct (ltb zero free); [|exact Hts].
    apply (rel_map (track_rel k) (track_rel k)); [|exact Hts]. intros t t' Ht. rewrite (Eauto _ _ Ht).
    destruct (is_auto (maxf t)); [|exact Ht]. track_open Ht. apply rel_set_base; [exact Ht|].
    apply sc_add; [assumption|]. apply (sc_div_dl k); [exact Hk | exact Hf | apply dl_of_Z].
  Qed.

  (* ---- the whole of track_sizing_algorithm, threshold scaled along, step 11.5 any homogeneous function *)
  Theorem track_sizing_algorithm_homog tau tau' mn mn' mx mx' stretch a a' inner inner' intr intr' items items' ts ts' :
    L tau tau' -> O mn mn' -> O mx mx' -> gavail_rel k a a' -> O inner inner' ->
    (forall x x', tracks_rel k x x' -> tracks_rel k (intr x) (intr' x')) ->
    Forall2 (fitem_rel k) items items' -> tracks_rel k ts ts' ->
    tracks_rel k (track_sizing_algorithm_t tau mn mx stretch a inner intr items ts)
                 (track_sizing_algorithm_t tau' mn' mx' stretch a' inner' intr' items' ts').
  Proof.
    intros Htau Hmn Hmx Ha Hi Hintr Hit Hts. unfold track_sizing_algorithm_t.
    pose proof (initialize_track_sizes_homog _ _ _ _ Hi Hts) as H0.
    set (ts0 := initialize_track_sizes inner ts) in *. set (ts0' := initialize_track_sizes inner' ts') in *.
    assert (E : forallb (fun t => (base_size t =? growth_limit t)%num) ts0' = forallb (fun t => (base_size t =? growth_limit t)%num) ts0).
    { apply (rel_forallb (track_rel k)); [|exact H0]. intros t t' Ht. track_open Ht. apply (sc_eqb k); assumption. }
    rewrite E. destruct (forallb _ ts0); [exact H0|].
    pose proof (maximise_tracks_homog _ _ _ _ _ _ _ _ Htau Hi Ha (Hintr _ _ H0)) as H2.
    assert (Hae : gavail_rel k (match inner with Some s => Definite s | None => match a with MinContentA => MinContentA | _ => MaxContentA end end)
                               (match inner' with Some s => Definite s | None => match a' with MinContentA => MinContentA | _ => MaxContentA end end)).
    { destruct inner, inner'; cbn [op_rel] in Hi; try contradiction; [exact Hi|]. sfn_cases; exact I. }
    pose proof (expand_flexible_tracks_homog _ _ _ _ _ _ _ _ _ _ Hmn Hmx Hae Hit H2) as H3.
    destruct stretch; [apply stretch_auto_tracks_homog|]; assumption.
  Qed.

  (* ================================================================================================================
     alignment *)
  Lemma rel_apply_alignment_fallback f f' n mode safe : L f f' -> apply_alignment_fallback f' n mode safe = apply_alignment_fallback f n mode safe.
  Proof. intros Hf. unfold apply_alignment_fallback. rewrite (sc_leb k _ _ zero zero Hk Hf (sc_zero k)). reflexivity. Qed.

  Lemma rel_compute_alignment_offset f f' n mode first :
    L f f' -> L (compute_alignment_offset f n mode first) (compute_alignment_offset f' n mode first).
  Proof.
    intros Hf. unfold compute_alignment_offset.
    assert (D : forall a a' z, L a a' -> L (a / of_Z z)%num (a' / of_Z z)%num) by (intros; apply (sc_div_dl k); [exact Hk | assumption | apply dl_of_Z]).
    assert (D2 : forall a a', L a a' -> L (a / two)%num (a' / two)%num) by (intros; apply (sc_div_dl k); [exact Hk | assumption | apply dl_refl]).
    assert (M : L (fmax f zero) (fmax f' zero)) by (apply (sc_max k); [exact Hk | exact Hf | apply sc_zero]).
    rewrite (sc_leb k _ _ _ _ Hk (sc_zero k) Hf).
    destruct first; [destruct mode; try destruct (leb zero f); auto using sc_zero | destruct mode; apply sc_add; auto using sc_zero].
  Qed.

  Lemma rel_odd_elements ts ts' : tracks_rel k ts ts' -> tracks_rel k (odd_elements ts) (odd_elements ts').
  Proof.
    intros Hts.
    assert (G : tracks_rel k (odd_elements ts) (odd_elements ts') /\
                forall a a' : track XQ, tracks_rel k (odd_elements (a :: ts)) (odd_elements (a' :: ts'))); [|apply G].
    induction Hts as [|t t' l l' Ht Hl [IH1 IH2]].
    - split; [constructor | intros; constructor].
    - split; [apply IH2 | intros; cbn [odd_elements]; constructor; assumption].
  Qed.

  Lemma rel_assign_offsets f f' n mode i tot tot' ts ts' :
    L f f' -> L tot tot' -> tracks_rel k ts ts' ->
    tracks_rel k (assign_offsets f n mode i tot ts) (assign_offsets f' n mode i tot' ts').
  Proof.
    intros Hf Htot Hts. revert i tot tot' Htot. induction Hts as [|t t' l l' Ht Hl IH]; intros i tot tot' Htot; cbn [assign_offsets]; [constructor|].
    assert (Ho : L (if Nat.even i then zero else compute_alignment_offset f n mode (Nat.eqb i 1%nat))
                   (if Nat.even i then zero else compute_alignment_offset f' n mode (Nat.eqb i 1%nat)))
      by (destruct (Nat.even i); [apply sc_zero | apply rel_compute_alignment_offset; exact Hf]).
    constructor; [apply rel_set_offset; [exact Ht | apply sc_add; assumption]|].
    apply IH. track_open Ht. repeat apply sc_add; assumption.
  Qed.

  Theorem align_tracks_homog cb cb' ps ps' bs bs' ts ts' style :
    L cb cb' -> L ps ps' -> L bs bs' -> tracks_rel k ts ts' ->
    tracks_rel k (align_tracks cb ps bs ts style) (align_tracks cb' ps' bs' ts' style).
  Proof.
    intros Hcb Hps Hbs Hts. unfold align_tracks.
    assert (Hf : L (cb - fsum (map base_size ts))%num (cb' - fsum (map base_size ts'))%num) by (apply sc_sub; [exact Hcb | apply rel_base_sizes; exact Hts]).
    assert (Ec : forall t t', track_rel k t t' -> negb (is_collapsed t') = negb (is_collapsed t)) by (intros t t' Ht; track_open Ht; congruence).
    rewrite (rel_length _ _ _ (rel_filter (track_rel k) _ _ _ _ Ec (rel_odd_elements _ _ Hts))), (rel_apply_alignment_fallback _ _ _ _ _ Hf).
    apply rel_assign_offsets; [exact Hf | apply sc_add; assumption | exact Hts].
  Qed.
End GridHomog.

(* ------------------------------------------------------------------------------------------------------------ *)
(** * The scaled inputs are related to the originals *)
Lemma sfn_rel_scale k f : sfn_rel k f (sfn_scale k f).
Proof. destruct f; cbn; try exact I; try apply sc_self; apply dl_refl. Qed.
Lemma nrt_rel_scale k t : nrt_rel k t (nrt_scale k t).
Proof. split; apply sfn_rel_scale. Qed.
Lemma tsf_rel_scale k e : tsf_rel k e (tsf_scale k e).
Proof. destruct e; cbn [tsf_rel tsf_scale]; [apply nrt_rel_scale | split; [reflexivity | apply Forall2_self; apply nrt_rel_scale]]. Qed.
Lemma track_rel_scale k t : track_rel k t (track_scale k t).
Proof. unfold track_rel, track_scale. track_fields. repeat split; try apply sc_self; apply sfn_rel_scale. Qed.
Lemma tracks_rel_scale k ts : tracks_rel k ts (map (track_scale k) ts).
Proof. apply Forall2_self. apply track_rel_scale. Qed.
Lemma gavail_rel_scale k a : gavail_rel k a (gavail_scale k a).
Proof. destruct a; cbn; try exact I. apply sc_self. Qed.
Lemma fitems_rel_scale k l : Forall2 (fitem_rel k) l (map (fitem_scale k) l).
Proof. apply Forall2_self. intros [[s n] c]. split; cbn; [reflexivity | apply sc_self]. Qed.

(* the real threshold at the scaled inputs corresponds to the threshold divided by k at the original inputs *)
Lemma threshold_div_scale k : 0 < k -> sc k (Fin (DISTRIBUTE_THRESHOLD_Q / k)) (threshold (T := XQ)).
Proof. intros Hk. unfold sc, threshold. cbn. field. lra. Qed.

Lemma base_threshold_div_scale k : 0 < k -> sc k (Fin (BASE_SIZE_THRESHOLD_Q / k)) (base_threshold (T := XQ)).
Proof. intros Hk. unfold sc, base_threshold. cbn. field. lra. Qed.

Lemma distribute_item_space_to_base_size_scaled k flex uff sp ts aff aff' ct :
  0 < k -> affected_inv k aff aff' ->
  tracks_rel k (distribute_item_space_to_base_size_t (Fin (DISTRIBUTE_THRESHOLD_Q / k)) (Fin (BASE_SIZE_THRESHOLD_Q / k))
                                                      flex uff sp ts aff growth_limit ct)
               (distribute_item_space_to_base_size_t threshold base_threshold flex uff (x_scale k sp) (map (track_scale k) ts)
                                                      aff' growth_limit ct).
Proof.
  intros Hk Haff. apply (distribute_item_space_to_base_size_homog k Hk); try assumption.
  - apply threshold_div_scale; exact Hk.
  - apply base_threshold_div_scale; exact Hk.
  - apply sc_self.
  - apply tracks_rel_scale.
  - intros t t' Ht. track_open Ht. assumption.
Qed.

(* ------------------------------------------------------------------------------------------------------------ *)
(** * With the real, fixed THRESHOLD the two kernels are NOT homogeneous (known finding grid-track-threshold-absolute) *)

(* one column `minmax(0px, 1px)`, base size 0, growth limit 1, in a container 1/16 px wide; k = 1/8.
   Unscaled: free space 1/16 > 0.01, the track grows to 1/16.  Scaled: free space 1/128 <= 0.01, the loop does not run, the
   track stays at 0 (expected 1/128).  Replayed on the implementation through `vh c09 one` by lib/props/c04.py. *)
Definition thr_witness_track : track XQ :=
  mk_track KTrack false (SLength (Fin 0)) (SLength (Fin 1)) zero zero (Fin 1) zero zero zero false.

Lemma thr_witness_values :
  map (fun t => x_red (base_size t)) (maximise_tracks None (Definite (Fin (1#16))) [thr_witness_track]) = [Fin (1#16)] /\
  map (fun t => x_red (base_size t))
      (maximise_tracks (opt_scale (1#8) None) (gavail_scale (1#8) (Definite (Fin (1#16)))) (map (track_scale (1#8)) [thr_witness_track]))
    = [Fin 0].
Proof. split; vm_compute; reflexivity. Qed.

Lemma maximise_tracks_not_homogeneous :
  exists k inner a ts, 0 < k /\
    ~ tracks_rel k (maximise_tracks inner a ts) (maximise_tracks (opt_scale k inner) (gavail_scale k a) (map (track_scale k) ts)).
Proof.
  exists (1#8), None, (Definite (Fin (1#16))), [thr_witness_track]. split; [reflexivity|]. intros H.
  inversion H as [|? ? ? ? Ht _]; subst. track_open Ht. vm_compute in Hbase. discriminate Hbase.
Qed.

Lemma distribute_not_homogeneous :
  exists k sp ts, 0 < k /\
    ~ tracks_rel k (snd (distribute_space_up_to_limits sp ts (fun _ => true) (fun _ => one) base_size growth_limit))
                   (snd (distribute_space_up_to_limits (x_scale k sp) (map (track_scale k) ts) (fun _ => true) (fun _ => one) base_size growth_limit)).
Proof.
  exists (1#8), (Fin (1#16)), [thr_witness_track]. split; [reflexivity|]. intros H.
  inversion H as [|? ? ? ? Ht _]; subst. track_open Ht. vm_compute in Hinc. discriminate Hinc.
Qed.

(* the corollary: homogeneous whenever the unscaled run does not depend on the threshold between THRESHOLD / k and THRESHOLD *)
Lemma maximise_tracks_insensitive k inner a ts :
  0 < k -> maximise_tracks_t (Fin (DISTRIBUTE_THRESHOLD_Q / k)) inner a ts = maximise_tracks inner a ts ->
  tracks_rel k (maximise_tracks inner a ts) (maximise_tracks (opt_scale k inner) (gavail_scale k a) (map (track_scale k) ts)).
Proof.
  intros Hk E. rewrite <- E. change (maximise_tracks (T := XQ)) with (maximise_tracks_t (T := XQ) threshold).
  apply (maximise_tracks_homog k Hk); [apply threshold_div_scale; exact Hk | apply op_rel_scale | apply gavail_rel_scale | apply tracks_rel_scale].
Qed.

Lemma insensitive_premise_ok :
  maximise_tracks_t (Fin (DISTRIBUTE_THRESHOLD_Q / 2)) None (Definite (Fin 1)) [thr_witness_track]
  = maximise_tracks None (Definite (Fin 1)) [thr_witness_track].
Proof. vm_compute. reflexivity. Qed.
