(* Helper observations for the computed whole-tree Examples of Props/C10.v (audit, wave 7b).  Definitions only. *)
From Coq Require Import ZArith QArith Bool List.
From TV Require Import Num.Num Num.QNum Gen.BlockGen Model.Block Model.Engine Model.EngineRel Model.BlockAlg Model.BlockEngine
  Model.BlockAbs Model.BlockRoot Model.BlockTreeProps Model.BlockEngineExample Model.BlockAbsExample.
Import ListNotations.

(* (y, height) of a node's stored layout *)
Definition yh (t : xtree) : XQ * XQ := (bl_y (lay_of _ _ _ _ t), s_h (bl_size (lay_of _ _ _ _ t))).
Definition yh_eqb (a b : XQ * XQ) : bool := eqb (fst a) (fst b) && eqb (snd a) (snd b).
(* (y, height) of the in-flow children, in document order *)
Definition inflow_yh (kids : list xtree) : list (XQ * XQ) := map yh (filter (fun t => bn_inflow (style_of _ _ _ _ t)) kids).

(* the premises of C10_block_tree_fill_width on a child, with margins 0 / 0 *)
Definition fw_prem (tj : xtree) : Prop :=
  let sj := bn_style (style_of _ _ _ _ tj) in
  bn_inflow (style_of _ _ _ _ tj) = true /\ st_is_table sj = false /\ st_aspect_ratio sj = None /\
  s_w (st_size sj) = Auto /\ s_w (st_min_size sj) = Auto /\ s_w (st_max_size sj) = Auto /\
  r_left (st_margin sj) = Len (Fin 0) /\ r_right (st_margin sj) = Len (Fin 0).
(* (run mode, known width, returned width) of the child's final cache entry, and its stored width *)
Definition fw_vals (tj : xtree) :=
  (option_map (fun e => (bi_mode (fst e), s_w (bi_known (fst e)), s_w (co_size (snd e)))) (last_entry tj), s_w (bl_size (lay_of _ _ _ _ tj))).
