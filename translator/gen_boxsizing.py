"""C12: where does the layout code read a node's size / min_size / max_size / flex_basis, and is the box-sizing adjustment applied?

A purely syntactic scan (rustparse tokens) of every function under src/compute/**.rs (`#[cfg(test)]` modules skipped):

  adjustment sites   `let box_sizing_adjustment = if <style>.box_sizing() == BoxSizing::ContentBox { <pb> } else { Size::ZERO }`
                     (or `self.box_sizing == ...`), optionally followed by an axis projection `.main(dir)`.  For each one:
                       cond_ok   the condition is `== BoxSizing::ContentBox`, the else branch is `Size::ZERO`
                       pb_ok     <pb> is (through the `let`s of the function) padding + border summed per axis, in one of the three
                                 spellings of the source: `(padding + border).sum_axes()`, `x.sum_axes()` with `x = padding + border`,
                                 `padding.sum_axes() + border.sum_axes()`, where `padding` / `border` come from the style's
                                 `.padding()` / `.border()` (or `self.padding` / `self.border`)
                       proj      "" (a Size) or the name of the projection ("main", "cross", ...)
  uses               every `<e>.size()`, `.min_size()`, `.max_size()`, `.flex_basis()` accessor call and every field access
                     `self.size`, `self.min_size`, `self.max_size` (GridItem keeps raw copies) or `<e>.<field>` whose method chain
                     resolves a style length; classified by the method chain that follows:
                       Adjusted    exactly one `.maybe_add(box_sizing_adjustment)` on the chain (after `.get(axis)` on the raw value:
                                   `.maybe_add(box_sizing_adjustment.get(axis))`)
                       TestOnly    the chain ends in `.is_auto()` / `.is_some()` / `.is_none()`: only definiteness is observed
                       RawCopy     no method chain at all (the value is stored or passed on unresolved)
                       Unadjusted  resolved (`maybe_resolve`, `resolve_or_zero`, `resolve_to_option`, `into_option`) without the adjustment
                     anything else is refused.

Output (Gen/BoxSizingSites.v):
  box_sizing_sites : list SiteFn   every function containing at least one adjustment site, with its adjustments and its uses
  unsited_uses     : list Use      every use inside a function WITHOUT any adjustment (candidate omissions)
Fingerprints: the body of every function of either list."""
import glob
import os
from rustparse import *

FIELDS = ('size', 'min_size', 'max_size', 'flex_basis')
RESOLVERS = ('maybe_resolve', 'resolve_or_zero', 'resolve_to_option', 'into_option')
TESTS = ('is_auto', 'is_some', 'is_none')


class Refuse(Exception):
    pass


def txt(toks):
    return ' '.join(t[1] for t in toks)


def skip_test_modules(toks):
    """Token list with every `#[cfg(test)] mod x { .. }` removed."""
    out = []
    i = 0
    while i < len(toks):
        if seq_at(toks, i, ['#', '[', 'cfg', '(', 'test', ')', ']']):
            j = i + 7
            # further attributes
            while toks[j][1] == '#':
                j = match_brace(toks, j + 1) + 1
            if toks[j][1] == 'mod' or (toks[j][1] == 'pub' and toks[j + 1][1] == 'mod'):
                while toks[j][1] != '{':
                    if toks[j][1] == ';':
                        break
                    j += 1
                if toks[j][1] == '{':
                    i = match_brace(toks, j) + 1
                    continue
        out.append(toks[i])
        i += 1
    return out


def functions(toks):
    """All `fn name ... { body }` at any nesting depth: list of (name, body_open, body_close)."""
    fns = []
    i = 0
    while i < len(toks) - 1:
        if toks[i] == ('id', 'fn') and toks[i + 1][0] == 'id':
            name = toks[i + 1][1]
            j = i + 2
            depth = 0
            # to the parameter list (skipping generics)
            while not (toks[j][1] == '(' and depth == 0):
                if toks[j][1] == '<':
                    depth += 1
                elif toks[j][1] == '>':
                    depth -= 1
                elif toks[j][1] == '>>':
                    depth -= 2
                j += 1
            k = match_brace(toks, j)
            b = k + 1
            body = None
            while b < len(toks):
                if toks[b][1] == '{':
                    body = b
                    break
                if toks[b][1] == ';':
                    break
                if toks[b][1] in ('(', '['):
                    b = match_brace(toks, b)
                b += 1
            if body is not None:
                fns.append((name, body, match_brace(toks, body)))
                i = body      # nested functions are found too
                continue
        i += 1
    return fns


def owner_map(toks, fns):
    """Index of the innermost function containing each token (or None)."""
    owner = [None] * len(toks)
    for n, (name, b, e) in sorted(enumerate(fns), key=lambda x: x[1][1]):
        for i in range(b, e + 1):
            owner[i] = n          # later (inner) functions overwrite outer ones: sorted by start
    return owner


def chain_after(toks, i):
    """Postfix chain starting at toks[i] (expected '.'): list of (name, args_tokens_or_None); returns (chain, next index)."""
    chain = []
    while i < len(toks) and toks[i][1] == '.' and toks[i + 1][0] in ('id', 'num'):
        name = toks[i + 1][1]
        j = i + 2
        if j < len(toks) and toks[j][1] == '::':
            # turbofish
            j += 1
            depth = 0
            while True:
                w = toks[j][1]
                if w == '<':
                    depth += 1
                elif w == '>':
                    depth -= 1
                elif w == '>>':
                    depth -= 2
                j += 1
                if depth <= 0:
                    break
        if j < len(toks) and toks[j][1] == '(':
            k = match_brace(toks, j)
            chain.append((name, toks[j + 1:k]))
            i = k + 1
        else:
            chain.append((name, None))
            i = j
    return chain, i


def classify(field, chain, where):
    names = [c[0] for c in chain]
    # `.get(axis)` / `.get_abs(axis)` on the raw Size picks one component; then the adjustment must be projected the same way
    first_add = names.index('maybe_add') if 'maybe_add' in names else len(names)
    comp = [txt([('id', c[0]), ('op', '(')] + list(c[1]) + [('op', ')')]) for c in chain[:first_add]
            if c[0] in ('get', 'get_abs') and c[1] is not None]
    want = 'box_sizing_adjustment' if not comp else 'box_sizing_adjustment . ' + comp[0]
    adds = [c for c in chain if c[0] == 'maybe_add' and c[1] is not None and txt(c[1]) == want]
    other_adds = [c for c in chain if c[0] == 'maybe_add' and c not in adds]
    if other_adds:
        raise Refuse('%s: `%s` chain adds something else than box_sizing_adjustment: %s' % (where, field, txt(other_adds[0][1] or [])))
    if len(adds) == 1:
        if not any(n in RESOLVERS for n in names[:names.index('maybe_add')]):
            raise Refuse('%s: `%s` is adjusted before it is resolved' % (where, field))
        return 'Adjusted'
    if len(adds) > 1:
        return 'Unadjusted'       # adjusted twice is as wrong as not at all
    if not chain:
        return 'RawCopy'
    if names[-1] in TESTS:
        return 'TestOnly'
    if any(n in RESOLVERS for n in names):
        return 'Unadjusted'
    raise Refuse('%s: cannot classify the use of `%s`: .%s' % (where, field, ' .'.join(names)))


def find_let(toks, b, before, name):
    """RHS tokens of the last `let [mut] name [: T] =` in toks[b:before] (None when absent)."""
    best = None
    i = b
    while i < before:
        if toks[i] == ('id', 'let'):
            j = i + 1
            if toks[j][1] == 'mut':
                j += 1
            if toks[j] == ('id', name) and toks[j + 1][1] in ('=', ':'):
                while toks[j][1] != '=':
                    j += 1
                k = j + 1
                depth = 0
                while not (toks[k][1] == ';' and depth == 0):
                    if toks[k][0] == 'op' and toks[k][1] in '([{':
                        depth += 1
                    elif toks[k][0] == 'op' and toks[k][1] in ')]}':
                        depth -= 1
                    k += 1
                best = (toks[j + 1:k], i)
        i += 1
    return best


def comes_from(toks, b, before, name, what):
    """Is the local `name` the style's resolved `what` (padding / border) rect?"""
    d = find_let(toks, b, before, name)
    if d is None:
        return False
    rhs = d[0]
    t = txt(rhs)
    if ('. %s ( )' % what) in t or t.startswith('self . %s .' % what):
        return True
    # `let raw = style.padding(); let padding = raw.resolve_or_zero(..)`
    if len(rhs) > 2 and rhs[0][0] == 'id' and rhs[1][1] == '.' and rhs[0][1] != name:
        return comes_from(toks, b, d[1], rhs[0][1], what)
    return False


def pb_ok(toks, b, at, expr, depth=0):
    """Does `expr` (tokens) denote padding + border summed per axis?  `at`: token index bounding the `let` lookups."""
    if depth > 4 or not expr:
        return False
    if expr[0][1] == '{' and match_brace(expr, 0) == len(expr) - 1:
        # block: its tail expression (the lets inside precede `at_inner`)
        inner = expr[1:-1]
        last = 0
        d = 0
        for i, t_ in enumerate(inner):
            if t_[0] == 'op' and t_[1] in '([{':
                d += 1
            elif t_[0] == 'op' and t_[1] in ')]}':
                d -= 1
            elif t_[1] == ';' and d == 0:
                last = i + 1
        if last == 0:
            return pb_ok(toks, b, at, inner, depth + 1)       # `{ e }`
        # the lets of the block are searched in the block itself
        return pb_ok(inner, 0, last, inner[last:], depth + 1)
    if len(expr) == 1 and expr[0][0] == 'id':
        d = find_let(toks, b, at, expr[0][1])
        return d is not None and pb_ok(toks, b, d[1], d[0], depth + 1)
    w = [t_[1] for t_ in expr]

    def pair(p, q):
        return (comes_from(toks, b, at, p, 'padding') and comes_from(toks, b, at, q, 'border')) or \
               (comes_from(toks, b, at, p, 'border') and comes_from(toks, b, at, q, 'padding'))
    # ( P + B ) . sum_axes ( )
    if len(w) == 9 and w[0] == '(' and w[2] == '+' and w[4:] == [')', '.', 'sum_axes', '(', ')']:
        return pair(w[1], w[3])
    # X . sum_axes ( )   with  X = P + B
    if len(w) == 5 and w[1:] == ['.', 'sum_axes', '(', ')']:
        d = find_let(toks, b, at, w[0])
        if d is None:
            return False
        r = [t_[1] for t_ in d[0]]
        return len(r) == 3 and r[1] == '+' and pair(r[0], r[2])
    # P . sum_axes ( ) + B . sum_axes ( )
    if len(w) == 11 and w[1:5] == ['.', 'sum_axes', '(', ')'] and w[5] == '+' and w[7:] == ['.', 'sum_axes', '(', ')']:
        return pair(w[0], w[6])
    return False


def parse_adjustment_match(toks, b, i, rhs, where):
    """`match <x>.box_sizing() { BoxSizing::ContentBox => E, BoxSizing::BorderBox => Size::ZERO }` (arms in either order,
    exactly these two patterns: the enum has two variants and rustc checks exhaustiveness) -- the same table as the `if` form."""
    c = 1
    while rhs[c][1] != '{':
        c += 1
    scrut = [t_[1] for t_ in rhs[1:c]]
    if not (scrut[-3:] == ['box_sizing', '(', ')'] or scrut[-1:] == ['box_sizing']):
        raise Refuse('%s: box_sizing_adjustment matches on something else than box_sizing: %s' % (where, ' '.join(scrut)))
    end = match_brace(rhs, c)
    rest = rhs[end + 1:]
    proj = ''
    if rest:
        ch, nxt = chain_after(rest, 0)
        if nxt != len(rest) or len(ch) != 1 or ch[0][1] is None:
            raise Refuse('%s: unexpected tokens after the box_sizing_adjustment match: %s' % (where, txt(rest)))
        proj = ch[0][0]
    body = rhs[c + 1:end]
    arms, cur, depth = [], [], 0
    for t_ in body:
        if t_[0] == 'op' and t_[1] in '([{':
            depth += 1
        elif t_[0] == 'op' and t_[1] in ')]}':
            depth -= 1
        if t_[1] == ',' and depth == 0:
            if cur:
                arms.append(cur)
            cur = []
        else:
            cur.append(t_)
    if cur:
        arms.append(cur)
    table = {}
    for a in arms:
        w = [t_[1] for t_ in a]
        if len(w) < 5 or w[:2] != ['BoxSizing', '::'] or w[3] != '=>':
            raise Refuse('%s: arm of the box_sizing_adjustment match: %s' % (where, ' '.join(w)))
        if w[2] in table:
            raise Refuse('%s: duplicate arm %s' % (where, w[2]))
        table[w[2]] = a[4:]
    if set(table) != {'ContentBox', 'BorderBox'}:
        raise Refuse('%s: arms of the box_sizing_adjustment match: %s' % (where, sorted(table)))
    cond_ok = [t_[1] for t_ in table['BorderBox']] == ['Size', '::', 'ZERO']
    return cond_ok, pb_ok(toks, b, i, table['ContentBox']), proj


def parse_adjustment(toks, b, i, where):
    """toks[i:] = `let box_sizing_adjustment = ... ;`  ->  (cond_ok, pb_ok, proj)"""
    j = i + 3
    k = j
    depth = 0
    while not (toks[k][1] == ';' and depth == 0):
        if toks[k][0] == 'op' and toks[k][1] in '([{':
            depth += 1
        elif toks[k][0] == 'op' and toks[k][1] in ')]}':
            depth -= 1
        k += 1
    rhs = toks[j:k]
    if rhs[0][1] == 'match':
        return parse_adjustment_match(toks, b, i, rhs, where)
    if rhs[0][1] != 'if':
        raise Refuse('%s: box_sizing_adjustment is not an `if` expression' % where)
    # condition up to the first '{' at depth 0
    c = 1
    depth = 0
    while not (rhs[c][1] == '{' and depth == 0):
        if rhs[c][1] in ('(', '['):
            depth += 1
        elif rhs[c][1] in (')', ']'):
            depth -= 1
        c += 1
    cond = [t_[1] for t_ in rhs[1:c]]
    te = match_brace(rhs, c)
    then_e = rhs[c:te + 1]
    if rhs[te + 1][1] != 'else' or rhs[te + 2][1] != '{':
        raise Refuse('%s: box_sizing_adjustment has no else branch' % where)
    ee = match_brace(rhs, te + 2)
    else_e = [t_[1] for t_ in rhs[te + 3:ee]]
    rest = rhs[ee + 1:]
    proj = ''
    if rest:
        ch, nxt = chain_after(rest, 0)
        if nxt != len(rest) or len(ch) != 1 or ch[0][1] is None:
            raise Refuse('%s: unexpected tokens after the box_sizing_adjustment conditional: %s' % (where, txt(rest)))
        proj = ch[0][0]
    # `<x> . box_sizing ( ) == BoxSizing :: ContentBox`  |  `self . box_sizing == BoxSizing :: ContentBox`
    if len(cond) < 5 or cond[-3:-1] != ['BoxSizing', '::'] or cond[-4] not in ('==', '!='):
        raise Refuse('%s: condition of box_sizing_adjustment: %s' % (where, ' '.join(cond)))
    lhs = cond[:-4]
    if not (lhs[-3:] == ['box_sizing', '(', ')'] or lhs[-1:] == ['box_sizing']):
        raise Refuse('%s: condition of box_sizing_adjustment does not test box_sizing: %s' % (where, ' '.join(cond)))
    cond_ok = cond[-4] == '==' and cond[-1] == 'ContentBox' and else_e == ['Size', '::', 'ZERO']
    # `!= BorderBox` would be equivalent; accept it as such
    if cond[-4] == '!=' and cond[-1] == 'BorderBox' and else_e == ['Size', '::', 'ZERO']:
        cond_ok = True
    ok = pb_ok(toks, b, i, then_e)
    return cond_ok, ok, proj


def scan_file(repo, rel):
    toks = skip_test_modules(tokenize(open(os.path.join(repo, rel)).read()))
    fns = functions(toks)
    owner = owner_map(toks, fns)
    per_fn = {}    # fn index -> {'adjs': [...], 'uses': [...]}

    def rec(n):
        return per_fn.setdefault(n, {'adjs': [], 'uses': []})
    for i in range(len(toks) - 3):
        n = owner[i]
        if seq_at(toks, i, ['let', 'box_sizing_adjustment']):
            if n is None:
                raise Refuse('%s: box_sizing_adjustment outside a function' % rel)
            where = '%s::%s' % (rel, fns[n][0])
            if toks[i + 2][1] not in ('=', ':'):
                raise Refuse('%s: unexpected `let box_sizing_adjustment` form' % where)
            rec(n)['adjs'].append(parse_adjustment(toks, fns[n][1], i, where))
            continue
        if toks[i][1] == '.' and toks[i + 1][0] == 'id' and toks[i + 1][1] in FIELDS and i > 0 and toks[i - 1][1] != '.':
            field = toks[i + 1][1]
            is_call = seq_at(toks, i + 2, ['(', ')'])
            if toks[i + 2][1] == '(' and not is_call:
                continue          # a method of that name with arguments: not a style accessor
            chain, _ = chain_after(toks, i + 4 if is_call else i + 2)
            if not is_call:
                recv_self = toks[i - 1] == ('id', 'self')
                if not recv_self and not any(c[0] in RESOLVERS and c[0] != 'into_option' for c in chain):
                    continue      # a field of an already resolved item / layout (FlexItem.size, Layout.size, ...)
            if n is None:
                raise Refuse('%s: style length read outside a function' % rel)
            where = '%s::%s' % (rel, fns[n][0])
            rec(n)['uses'].append((field, classify(field, chain, where)))
    # functions that RECEIVE the adjustment as a parameter named box_sizing_adjustment (a helper split off a site function),
    # and every call in this file whose argument list forwards the caller's `box_sizing_adjustment` verbatim
    param_fns = set()
    for n, (name, b, e) in enumerate(fns):
        k = b - 1
        while k > 0 and not (toks[k] == ('id', 'fn') and toks[k + 1] == ('id', name)):
            k -= 1
        head = [t_[1] for t_ in toks[k:b]]
        for q in range(len(head) - 1):
            if head[q] == 'box_sizing_adjustment' and head[q + 1] == ':':
                param_fns.add(name)
    calls = []   # (callee name, caller fn name or None, forwards the adjustment as a bare argument)
    for i in range(1, len(toks) - 1):
        if toks[i][0] == 'id' and toks[i + 1][1] == '(' and toks[i - 1] != ('id', 'fn'):
            close = match_brace(toks, i + 1)
            args, cur, depth = [], [], 0
            for t_ in toks[i + 2:close]:
                if t_[0] == 'op' and t_[1] in '([{':
                    depth += 1
                elif t_[0] == 'op' and t_[1] in ')]}':
                    depth -= 1
                if t_[1] == ',' and depth == 0:
                    args.append(cur)
                    cur = []
                else:
                    cur.append(t_[1])
            if cur:
                args.append(cur)
            n = owner[i]
            calls.append((toks[i][1], fns[n][0] if n is not None else None, ['box_sizing_adjustment'] in args))
    out = []
    for n in sorted(set(per_fn) | {k for k, f in enumerate(fns) if f[0] in param_fns}):
        name, b, e = fns[n]
        d = per_fn.get(n, {'adjs': [], 'uses': []})
        out.append((rel, name, d['adjs'], d['uses'], norm_tokens(toks[b:e + 1]), name in param_fns, calls))
    return out


def coq_bool(x):
    return 'true' if x else 'false'


def generate(repo):
    base = os.path.join(repo, 'src', 'compute')
    files = sorted(os.path.relpath(p, repo) for p in glob.glob(base + '/**/*.rs', recursive=True))
    if not files:
        raise Refuse('no sources under src/compute')
    sites, unsited = [], []
    fps = {}
    all_calls = []
    scanned = []
    for rel in files:
        per_file_calls = None
        for (f, name, adjs, uses, body, takes_param, calls) in scan_file(repo, rel):
            scanned.append((f, name, adjs, uses, body, takes_param))
            per_file_calls = calls
        if per_file_calls is not None:
            for c in per_file_calls:
                all_calls.append((rel,) + c)
    wellformed = {(f, name) for (f, name, adjs, uses, body, tp) in scanned if adjs and all(c and p for (c, p, pr) in adjs)}
    for (f, name, adjs, uses, body, takes_param) in scanned:
        short = f[len('src/compute/'):]
        key = '%s::%s' % (short, name)
        if key in fps:
            raise Refuse('two functions named %s' % key)
        fps[key] = body
        if takes_param and not adjs:
            # a helper that receives the adjustment: it counts as a site exactly when it is called at least once and EVERY call
            # (same file) forwards the `box_sizing_adjustment` of a function whose own adjustment is well formed
            mine = [c for c in all_calls if c[0] == f and c[1] == name]
            ok = bool(mine) and all(c[3] and (f, c[2]) in wellformed for c in mine)
            adjs = [(ok, ok, '')]
        if adjs:
            sites.append((short, name, adjs, uses))
        else:
            for (field, kind) in uses:
                unsited.append((short, name, field, kind))
    if not sites:
        raise Refuse('no `let box_sizing_adjustment =` found at all')
    w = []
    w.append('(* GENERATED on every run by /verif/translator/gen_boxsizing.py from src/compute/**.rs -- do not edit. *)')
    w.append('From Coq Require Import String List Bool.')
    w.append('From TV Require Import Model.BoxSizingSiteTypes.')
    w.append('Import ListNotations.')
    w.append('Open Scope string_scope.')
    w.append('')
    w.append('(* every function with a `let box_sizing_adjustment = ..`: its adjustments (condition is `== ContentBox` / else Size::ZERO,')
    w.append('   then-branch is padding+border per axis, axis projection) and every style-length use in it *)')
    w.append('Definition box_sizing_sites : list SiteFn := [')
    rows = []
    for (f, name, adjs, uses) in sites:
        a = '; '.join('mkAdj %s %s "%s"' % (coq_bool(c), coq_bool(p), pr) for (c, p, pr) in adjs)
        u = '; '.join('("%s", %s)' % (fl, k) for (fl, k) in uses)
        rows.append('  mkSite "%s" "%s" [%s]\n     [%s]' % (f, name, a, u))
    w.append(';\n'.join(rows))
    w.append('].')
    w.append('')
    w.append('(* style-length uses in functions that have no box_sizing_adjustment at all *)')
    w.append('Definition unsited_uses : list Use := [')
    w.append(';\n'.join('  mkUse "%s" "%s" "%s" %s' % u for u in unsited))
    w.append('].')
    return '\n'.join(w) + '\n', fps


TARGETS = {'BoxSizingSites.v': generate}

if __name__ == '__main__':
    import sys
    text, fps = generate(sys.argv[1] if len(sys.argv) > 1 else '/repo')
    print(text)
    print(len(fps), 'fingerprints')
