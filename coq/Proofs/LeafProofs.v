(* Property C19, part 2: lemmas about Model/Leaf.v, Model/Root.v and Model/LeafSpec.v over the exact instance XQ. *)
From Coq Require Import QArith Lqa Lia Bool List ZArith.
From TV Require Import Num.QNum Model.Common Model.Leaf Model.Root Model.LeafSpec Proofs.LeafAxis.
Import ListNotations.

(* ------------------------------------------------------------------------------------------------------------ *)
(** * The model's resolved quantities and the spec's agree (different association of the sums, `+ 0` for border-box) *)

Lemma fin_xeq a b : finite a -> xeq a b -> finite b.
Proof. destruct a, b; cbn; auto. Qed.
Lemma fin_opt_xeq a b : fin_opt a -> opt_xeq a b -> fin_opt b.
Proof. destruct a, b; cbn; try tauto. apply fin_xeq. Qed.

Ltac opt_destruct :=
  repeat match goal with
  | H : fin_opt ?o |- _ =>
      first [ is_var o; destruct o; cbn [fin_opt] in H
            | let E := fresh "E" in destruct o eqn:E; cbn [fin_opt] in H ];
      try clear H
  end.

Ltac geom :=
  cbv [mq_pb mq_pbr mq_bsa mq_inset mq_gutter mq_stretch sp_pb sp_inset sp_padding_sum sp_margin_sum sp_gutter
       sum_axes horizontal_axis_sum vertical_axis_sum rect_add rect_zip_map size_add size_zip_map size_zip_map3
       size_maybe_add_of size_ZERO size_rel size_all rect_all is_scroll];
  cbn [width height r_left r_right r_top r_bottom px py].

Section Relate.
  Variable st : Style XQ.
  Variable av : Size (AvailableSpace XQ).
  Hypothesis Hst : fin_style st.
  Hypothesis Hav : size_all fin_avail av.

  Ltac resolved :=
    destruct (fin_sp_padding st av Hst Hav) as (?&?&?&?); destruct (fin_sp_border st av Hst Hav) as (?&?&?&?);
    destruct (fin_sp_margin st av Hst Hav) as (?&?&?&?).

  Lemma rel_pb : size_rel xeq (mq_pb st av) (sp_pb st av) /\ size_all finite (mq_pb st av).
  Proof. resolved. geom. fin_destruct. qauto. Qed.

  Lemma rel_inset : size_rel xeq (mq_inset st av) (sp_inset st av) /\ size_all finite (mq_inset st av).
  Proof.
    resolved. destruct Hst as (Hs & _). geom.
    destruct (py (overflow st)), (px (overflow st)); fin_destruct; qauto.
  Qed.

  Lemma rel_margin : finite (horizontal_axis_sum (sp_margin st av)) /\ finite (vertical_axis_sum (sp_margin st av)).
  Proof. resolved. geom. fin_destruct. qauto. Qed.

  Lemma rel_bb (r : Size (option XQ)) : size_all fin_opt r ->
    size_rel opt_xeq (size_maybe_add_of r (mq_bsa st av)) (sp_to_border_box st av r) /\
    size_all fin_opt (size_maybe_add_of r (mq_bsa st av)).
  Proof.
    intros [Hw Hh]. resolved. unfold sp_to_border_box. geom.
    destruct (box_sizing st); geom; destruct r as [[w|] [h|]]; cbn [fin_opt width height] in *;
      cbv [maybe_add_of option_map]; fin_destruct; qauto.
  Qed.

  Lemma rel_stretch : opt_xeq (width (mq_stretch st av)) (width (sp_avail_minus_margin st av)) /\
                      fin_opt (width (mq_stretch st av)).
  Proof.
    resolved. destruct Hav as [Ha _]. unfold sp_avail_minus_margin, sp_basis, size_into_options, size_map. geom.
    destruct (width av); cbn [fin_avail] in Ha; cbv [maybe_sub_of avail_into_option option_map]; fin_destruct; qauto.
  Qed.
End Relate.

(* ------------------------------------------------------------------------------------------------------------ *)
(** * C19_spec (no aspect ratio): the root layout of a one-node tree is leaf_spec *)

Definition nonneg_padding_border (st : Style XQ) (av : Size (AvailableSpace XQ)) : Prop :=
  rect_all nonneg (sp_padding st av) /\ rect_all nonneg (sp_border st av).

Ltac fin_side :=
  match goal with
  | H : opt_xeq ?a ?b |- fin_opt ?b => apply (fin_opt_xeq a b); [assumption | exact H]
  | H : xeq ?a ?b |- finite ?b => apply (fin_xeq a b); [assumption | exact H]
  end.

Section Spec.
  Variable st : Style XQ.
  Variable av : Size (AvailableSpace XQ).
  Hypothesis Hst : fin_style st.
  Hypothesis Hav : size_all fin_avail av.
  Hypothesis Hratio : aspect_ratio st = None.

  Lemma sp_size_noratio : sp_size st av = sp_to_border_box st av (size_maybe_resolve_dim (size st) (sp_basis av)).
  Proof. unfold sp_size. rewrite Hratio. reflexivity. Qed.
  Lemma sp_min_noratio : sp_min st av = sp_to_border_box st av (size_maybe_resolve_dim (min_size st) (sp_basis av)).
  Proof. unfold sp_min. rewrite Hratio. reflexivity. Qed.

  Lemma nonneg_mq_pb_h : nonneg_padding_border st av -> nonneg (height (mq_pb st av)).
  Proof.
    intros [(_&_&?&?) (_&_&?&?)].
    destruct (fin_sp_padding st av Hst Hav) as (?&?&?&?); destruct (fin_sp_border st av Hst Hav) as (?&?&?&?).
    geom. fin_destruct. qauto.
  Qed.

  Lemma root_size_spec m : size_all finite m -> nonneg_padding_border st av ->
    size_rel xeq (l_size (root_leaf_layout st av m)) (leaf_spec_size st av m).
  Proof.
    intros [Hmw Hmh] Hnn.
    destruct (rel_pb st av Hst Hav) as [[Pw Ph] [FPw FPh]].
    destruct (rel_inset st av Hst Hav) as [[Iw Ih] [FIw FIh]].
    destruct (rel_bb st av Hst Hav _ (fin_res_size st av Hst Hav)) as [[Sw Sh] [FSw FSh]].
    destruct (rel_bb st av Hst Hav _ (fin_res_min st av Hst Hav)) as [[Mw Mh] [FMw FMh]].
    destruct (rel_bb st av Hst Hav _ (fin_res_max st av Hst Hav)) as [[Xw Xh] [FXw FXh]].
    destruct (rel_stretch st av Hst Hav) as [Tw FTw].
    rewrite spec_size_eq, sp_size_noratio, sp_min_noratio. unfold sp_max.
    split; cbn [width height].
    - rewrite model_width_eq by assumption.
      apply axis_w; try assumption; fin_side.
    - rewrite model_height_eq by assumption.
      apply axis_h; try assumption; try exact I; try fin_side.
      apply nonneg_mq_pb_h; assumption.
  Qed.
End Spec.

Section Spec2.
  Variable st : Style XQ.
  Variable av : Size (AvailableSpace XQ).
  Hypothesis Hst : fin_style st.
  Hypothesis Hav : size_all fin_avail av.
  Hypothesis Hratio : aspect_ratio st = None.

  Lemma root_avail_spec : size_rel avail_xeq (root_leaf_avail st av) (leaf_spec_measure_avail st av).
  Proof.
    destruct (rel_pb st av Hst Hav) as [[Pw Ph] [FPw FPh]].
    destruct (rel_inset st av Hst Hav) as [[Iw Ih] [FIw FIh]].
    destruct (rel_bb st av Hst Hav _ (fin_res_size st av Hst Hav)) as [[Sw Sh] [FSw FSh]].
    destruct (rel_bb st av Hst Hav _ (fin_res_min st av Hst Hav)) as [[Mw Mh] [FMw FMh]].
    destruct (rel_bb st av Hst Hav _ (fin_res_max st av Hst Hav)) as [[Xw Xh] [FXw FXh]].
    destruct (rel_margin st av Hst Hav) as [FMGw FMGh]. destruct Hav as [Haw Hah].
    rewrite model_avail_eq by assumption.
    rewrite spec_avail_eq, (sp_size_noratio st av Hratio), (sp_min_noratio st av Hratio). unfold sp_max.
    split; cbn [width height].
    - apply axis_avail; try assumption; try fin_side; try apply xeq_refl.
      right. split; reflexivity.
    - apply axis_avail; try assumption; try fin_side; try apply xeq_refl.
      left. split; reflexivity.
  Qed.

  Lemma root_avail_fin : size_all fin_avail (root_leaf_avail st av).
  Proof.
    destruct (rel_pb st av Hst Hav) as [_ [FPw FPh]].
    destruct (rel_inset st av Hst Hav) as [_ [FIw FIh]].
    destruct (rel_bb st av Hst Hav _ (fin_res_size st av Hst Hav)) as [_ [FSw FSh]].
    destruct (rel_bb st av Hst Hav _ (fin_res_min st av Hst Hav)) as [_ [FMw FMh]].
    destruct (rel_bb st av Hst Hav _ (fin_res_max st av Hst Hav)) as [_ [FXw FXh]].
    destruct (rel_stretch st av Hst Hav) as [_ FTw].
    destruct (rel_margin st av Hst Hav) as [FMGw FMGh]. destruct Hav as [Haw Hah].
    rewrite model_avail_eq by assumption.
    split; cbn [width height]; apply fin_m_avail_axis; try assumption; exact I.
  Qed.

  Lemma root_layout_spec m : size_all finite m -> nonneg_padding_border st av ->
    layout_xeq (root_leaf_layout st av m) (leaf_spec st av m).
  Proof.
    intros Hm Hnn. pose proof (root_size_spec st av Hst Hav Hratio m Hm Hnn) as Hs.
    unfold layout_xeq. split; [reflexivity|]. split; [apply Qeq_refl|]. split; [apply Qeq_refl|].
    split; [exact Hs|].
    repeat split; apply xeq_refl.
  Qed.
End Spec2.

(* the statement of C19_spec for the class without aspect ratio *)
Lemma root_leaf_spec_noratio : forall (st : Style XQ) (measure : MeasureFn XQ) (av : Size (AvailableSpace XQ)),
  fin_style st -> size_all fin_avail av -> fin_measure measure -> nonneg_padding_border st av ->
  display st <> DNone -> aspect_ratio st = None ->
  exists lay aa,
    root_leaf st measure av = Some (lay, [(size_NONE, aa)]) /\
    size_rel avail_xeq aa (leaf_spec_measure_avail st av) /\
    layout_xeq lay (leaf_spec st av (measure size_NONE aa)).
Proof.
  intros st measure av Hst Hav Hm Hnn Hd Hr.
  exists (root_leaf_layout st av (measure size_NONE (root_leaf_avail st av))), (root_leaf_avail st av).
  split; [apply root_leaf_eq; assumption|]. split.
  - apply root_avail_spec; assumption.
  - apply root_layout_spec; auto. apply Hm; [split; exact I | apply root_avail_fin; assumption].
Qed.

(* ------------------------------------------------------------------------------------------------------------ *)
(** * compute_leaf_layout, any inputs: floor, measure arguments, known dimensions *)

(* both return paths end in `.maybe_max(padding_border.sum_axes().map(Some))` *)
Lemma leaf_out_size_shape inputs st measure out calls :
  compute_leaf_layout inputs st measure = Some (out, calls) ->
  exists a b, out_size out = mkSize (x_max a (horizontal_axis_sum (le_padding_border (leaf_env inputs st))))
                                    (x_max b (vertical_axis_sum (le_padding_border (leaf_env inputs st)))).
Proof.
  unfold compute_leaf_layout. destruct (leaf_early inputs (leaf_env inputs st)) as [o|] eqn:E.
  - intro H; inversion H; subst; clear H. unfold leaf_early in E.
    destruct (run_mode inputs); try discriminate.
    destruct (le_prevent_collapse _); try discriminate.
    destruct (width (le_node_size _)); try discriminate. destruct (height (le_node_size _)); try discriminate.
    inversion E; subst; clear E. eexists; eexists; reflexivity.
  - destruct (leaf_measure_known inputs); try discriminate.
    intro H; inversion H; subst; clear H. eexists; eexists; reflexivity.
Qed.

Lemma leaf_floor inputs st measure out calls pbw pbh :
  compute_leaf_layout inputs st measure = Some (out, calls) ->
  sum_axes (le_padding_border (leaf_env inputs st)) = mkSize (Fin pbw) (Fin pbh) ->
  x_leb (Fin pbw) (width (out_size out)) = true /\ x_leb (Fin pbh) (height (out_size out)) = true.
Proof.
  intros H P. destruct (leaf_out_size_shape _ _ _ _ _ H) as (a & b & E). rewrite E.
  unfold sum_axes in P. pose proof (f_equal (@width _) P) as Pw. pose proof (f_equal (@height _) P) as Ph.
  cbn [width height] in *. rewrite Pw, Ph. split; apply xmax_ge_r.
Qed.

(* what the property says the measure function receives, in terms of the leaf routine's own inputs:
   known | style size | available space minus margin, clamped, minus the content box inset, on definite axes *)
Definition leaf_avail_axis (kd ns lo hi : option XQ) (a : AvailableSpace XQ) (margin inset : XQ) : AvailableSpace XQ :=
  match opt_or kd ns with
  | Some v => Definite (x_sub (maybe_clamp_fo v lo hi) inset)
  | None =>
      match a with
      | Definite v => Definite (x_sub (maybe_clamp_fo (x_sub v margin) lo hi) inset)
      | other => other
      end
  end.
Definition leaf_spec_avail (inputs : LayoutInput XQ) (st : Style XQ) : Size (AvailableSpace XQ) :=
  let env := leaf_env inputs st in
  mkSize (leaf_avail_axis (width (known_dimensions inputs)) (width (le_node_size env)) (width (le_node_min_size env))
                          (width (le_node_max_size env)) (width (available_space inputs))
                          (horizontal_axis_sum (le_margin env)) (horizontal_axis_sum (le_content_box_inset env)))
         (leaf_avail_axis (height (known_dimensions inputs)) (height (le_node_size env)) (height (le_node_min_size env))
                          (height (le_node_max_size env)) (height (available_space inputs))
                          (vertical_axis_sum (le_margin env)) (vertical_axis_sum (le_content_box_inset env))).

(* node_size = known_dimensions (ContentSize) or known_dimensions.or(style size) (InherentSize) *)
Lemma node_size_known inputs st :
  (forall x, width (known_dimensions inputs) = Some x -> width (le_node_size (leaf_env inputs st)) = Some x) /\
  (forall x, height (known_dimensions inputs) = Some x -> height (le_node_size (leaf_env inputs st)) = Some x).
Proof.
  unfold leaf_env. destruct (sizing_mode inputs); cbn [le_node_size size_or size_zip_map width height];
    split; intros x E; rewrite E; reflexivity.
Qed.

Lemma leaf_available_space_spec inputs st :
  leaf_available_space inputs (leaf_env inputs st) = leaf_spec_avail inputs st.
Proof.
  unfold leaf_available_space, leaf_spec_avail, leaf_avail_axis.
  destruct (node_size_known inputs st) as [Nw Nh].
  f_equal.
  - destruct (width (known_dimensions inputs)) as [x|]; [rewrite (Nw x eq_refl)|];
      destruct (width (le_node_size _)), (width (available_space inputs)); reflexivity.
  - destruct (height (known_dimensions inputs)) as [x|]; [rewrite (Nh x eq_refl)|];
      destruct (height (le_node_size _)), (height (available_space inputs)); reflexivity.
Qed.

Lemma leaf_measure_args inputs st measure out calls :
  compute_leaf_layout inputs st measure = Some (out, calls) ->
  (calls = [] /\ leaf_early inputs (leaf_env inputs st) = Some out) \/
  (leaf_early inputs (leaf_env inputs st) = None /\
   exists known, calls = [(known, leaf_spec_avail inputs st)] /\
     ((run_mode inputs = ComputeSize /\ known = known_dimensions inputs) \/
      (run_mode inputs = PerformLayout /\ known = size_NONE)) /\
     out = leaf_finish inputs (leaf_env inputs st) (measure known (leaf_spec_avail inputs st))).
Proof.
  unfold compute_leaf_layout. destruct (leaf_early inputs (leaf_env inputs st)) as [o|] eqn:E.
  - intro H; inversion H; subst. left; auto.
  - rewrite leaf_available_space_spec. unfold leaf_measure_known.
    destruct (run_mode inputs) eqn:R; try discriminate; intro H; inversion H; subst; right; (split; [reflexivity|]).
    + exists size_NONE. split; [reflexivity|]. split; [right; auto | reflexivity].
    + exists (known_dimensions inputs). split; [reflexivity|]. split; [left; auto | reflexivity].
Qed.

(* the early return needs RunMode::ComputeSize and both dimensions known *)
Lemma leaf_early_only_compute_size inputs st out :
  leaf_early inputs (leaf_env inputs st) = Some out ->
  run_mode inputs = ComputeSize /\ (exists w h, le_node_size (leaf_env inputs st) = mkSize (Some w) (Some h)).
Proof.
  unfold leaf_early. destruct (run_mode inputs); try discriminate.
  destruct (le_prevent_collapse _); try discriminate.
  destruct (le_node_size (leaf_env inputs st)) as [[w|] [h|]]; cbn [width height]; try discriminate.
  intros _. split; [reflexivity|]. eauto.
Qed.

(* ---- KnownDimsRespected: with both dimensions known the leaf returns max(known, padding + border) -- provided no
   aspect ratio applies and the known size satisfies the node's own min/max (callers pass clamped sizes); both hold
   trivially in SizingMode::ContentSize *)
Definition within (k : Q) (lo hi : option XQ) : Prop :=
  match lo with Some (Fin l) => l <= k | Some _ => False | None => True end /\
  match hi with Some (Fin h) => k <= h | Some _ => False | None => True end.

Lemma known_dims_respected inputs st measure out calls kw kh pbw pbh :
  known_dimensions inputs = mkSize (Some (Fin kw)) (Some (Fin kh)) ->
  compute_leaf_layout inputs st measure = Some (out, calls) ->
  le_aspect_ratio (leaf_env inputs st) = None ->
  sum_axes (le_padding_border (leaf_env inputs st)) = mkSize (Fin pbw) (Fin pbh) -> 0 <= pbh ->
  within kw (width (le_node_min_size (leaf_env inputs st))) (width (le_node_max_size (leaf_env inputs st))) ->
  within kh (height (le_node_min_size (leaf_env inputs st))) (height (le_node_max_size (leaf_env inputs st))) ->
  xeq (width (out_size out)) (x_max (Fin kw) (Fin pbw)) /\ xeq (height (out_size out)) (x_max (Fin kh) (Fin pbh)).
Proof.
  intros K H R P Hpb [Wl Wh] [Hl Hh].
  destruct (node_size_known inputs st) as [Nw Nh]. rewrite K in Nw, Nh. cbn [width height] in Nw, Nh.
  specialize (Nw _ eq_refl). specialize (Nh _ eq_refl).
  unfold sum_axes in P. pose proof (f_equal (@width _) P) as Pw. pose proof (f_equal (@height _) P) as Ph.
  cbn [width height] in Pw, Ph.
  destruct (leaf_measure_args _ _ _ _ _ H) as [[_ E] | [_ (known & _ & _ & E)]].
  - unfold leaf_early in E. destruct (run_mode inputs); try discriminate.
    destruct (le_prevent_collapse _); try discriminate. rewrite Nw, Nh in E. inversion E; subst; clear E.
    cbn [out_size size_maybe_max_fo size_maybe_clamp_fo size_zip_map size_zip_map3 size_map sum_axes width height].
    rewrite Pw, Ph.
    destruct (width (le_node_min_size _)) as [[]|], (width (le_node_max_size _)) as [[]|],
             (height (le_node_min_size _)) as [[]|], (height (le_node_max_size _)) as [[]|]; try contradiction;
      cbv [maybe_clamp_fo maybe_max_fo]; split; qauto.
  - subst out. unfold leaf_finish.
    cbn [out_size size_maybe_max_fo size_maybe_clamp_fo size_zip_map size_zip_map3 size_map sum_axes width height
         size_unwrap_or size_or size_add].
    rewrite R, K, Nw, Nh, Pw, Ph. cbn [width height opt_or opt_unwrap_or option_map].
    destruct (width (le_node_min_size _)) as [[]|], (width (le_node_max_size _)) as [[]|],
             (height (le_node_min_size _)) as [[]|], (height (le_node_max_size _)) as [[]|]; try contradiction;
      cbv [maybe_clamp_fo maybe_max_fo]; split; qauto.
Qed.

Lemma known_dims_respected_content_size inputs st measure out calls kw kh pbw pbh :
  sizing_mode inputs = ContentSize ->
  known_dimensions inputs = mkSize (Some (Fin kw)) (Some (Fin kh)) ->
  compute_leaf_layout inputs st measure = Some (out, calls) ->
  sum_axes (le_padding_border (leaf_env inputs st)) = mkSize (Fin pbw) (Fin pbh) -> 0 <= pbh ->
  xeq (width (out_size out)) (x_max (Fin kw) (Fin pbw)) /\ xeq (height (out_size out)) (x_max (Fin kh) (Fin pbh)).
Proof.
  intros S K H P Hpb. eapply known_dims_respected; eauto; unfold leaf_env; rewrite S; cbn; unfold within; auto.
Qed.

(* ------------------------------------------------------------------------------------------------------------ *)
(** * Root level: location, floor, clamping *)

Lemma root_location st measure av lay calls :
  root_leaf st measure av = Some (lay, calls) -> l_location lay = mkPoint (Fin 0) (Fin 0) /\ l_order lay = 0%N.
Proof.
  unfold root_leaf. destruct (childless_child_layout _ _ _) as [[o c]|]; try discriminate.
  intro H; inversion H; subst. split; reflexivity.
Qed.

Lemma xmax_ge_r' a p p' : p' == p -> x_leb (Fin p') (x_max a (Fin p)) = true.
Proof.
  intro E. destruct a as [q | | |]; cbn.
  - destruct (Qle_bool p q) eqn:L; cbn; apply Qle_bool_iff; [apply Qle_bool_iff in L|]; lra.
  - reflexivity.
  - apply Qle_bool_iff; lra.
  - apply Qle_bool_iff; lra.
Qed.

Lemma root_pb_eq st av : le_padding_border (leaf_env (root_input st av) st) = mq_pbr st av.
Proof. destruct st, display; reflexivity. Qed.

(* never below padding + border: any aspect ratio, any measure function (NaN and infinities included) *)
Lemma root_floor st measure av lay calls :
  fin_style st -> size_all fin_avail av -> display st <> DNone ->
  root_leaf st measure av = Some (lay, calls) ->
  x_leb (width (sp_pb st av)) (width (l_size lay)) = true /\ x_leb (height (sp_pb st av)) (height (l_size lay)) = true.
Proof.
  intros Hst Hav D H. rewrite root_leaf_eq in H by assumption. inversion H; subst; clear H.
  destruct (rel_pb st av Hst Hav) as [[Pw Ph] [FPw FPh]].
  unfold root_leaf_layout, root_assemble, leaf_finish.
  cbn [l_size out_size size_maybe_max_fo size_zip_map size_map sum_axes width height maybe_max_fo].
  rewrite root_pb_eq. fold (mq_pb st av).
  change (horizontal_axis_sum (mq_pbr st av)) with (width (mq_pb st av)).
  change (vertical_axis_sum (mq_pbr st av)) with (height (mq_pb st av)).
  pose proof (fin_xeq _ _ FPw Pw) as FSw. pose proof (fin_xeq _ _ FPh Ph) as FSh.
  destruct (finite_Fin _ FPw) as [a Ea], (finite_Fin _ FPh) as [b Eb], (finite_Fin _ FSw) as [a' Ea'], (finite_Fin _ FSh) as [b' Eb'].
  rewrite Ea, Ea' in Pw. rewrite Eb, Eb' in Ph. rewrite Ea, Eb, Ea', Eb'. cbn [xeq] in Pw, Ph.
  split; apply xmax_ge_r'; lra.
Qed.

(* clamping on the spec formula, one axis *)
Lemma s_axis_clamped block (S stretch : option XQ) (lo hi meas inset pb : XQ) :
  fin_opt S -> fin_opt stretch -> finite lo -> finite hi -> finite meas -> finite inset -> finite pb ->
  x_leb lo hi = true -> x_leb pb hi = true ->
  x_leb lo (s_size_axis block S (Some lo) (Some hi) stretch meas inset pb) = true /\
  x_leb (s_size_axis block S (Some lo) (Some hi) stretch meas inset pb) hi = true.
Proof.
  intros. destruct S, stretch; cbn [fin_opt] in *; fin_destruct; destruct block;
    cbv [s_size_axis sp_clamp opt_or opt_unwrap_or]; split; qsplit; try reflexivity; try discriminate;
    try (apply Qle_bool_iff; lra); try (exfalso; lra).
Qed.

Lemma x_leb_xeq a a' b b' : finite a -> finite b -> xeq a a' -> xeq b b' -> x_leb a b = x_leb a' b'.
Proof.
  intros. destruct a, a', b, b'; cbn in *; try contradiction.
  destruct (Qle_bool q q1) eqn:E1, (Qle_bool q0 q2) eqn:E2; try reflexivity.
  - apply Qle_bool_iff in E1. apply Qle_bool_false in E2. lra.
  - apply Qle_bool_iff in E2. apply Qle_bool_false in E1. lra.
Qed.

Lemma between_finite lo s hi : finite lo -> finite hi -> x_leb lo s = true -> x_leb s hi = true -> finite s.
Proof. destruct lo, s, hi; cbn; auto; discriminate. Qed.

Lemma fin_xeq_rev a b : xeq a b -> finite b -> finite a.
Proof. destruct a, b; cbn; auto. Qed.

Section Clamped.
  Variable st : Style XQ.
  Variable av : Size (AvailableSpace XQ).
  Hypothesis Hst : fin_style st.
  Hypothesis Hav : size_all fin_avail av.
  Hypothesis Hratio : aspect_ratio st = None.

  Lemma fin_spec_sizes :
    size_all fin_opt (sp_size st av) /\ size_all fin_opt (sp_min st av) /\ size_all fin_opt (sp_max st av) /\
    size_all finite (sp_pb st av) /\ size_all finite (sp_inset st av) /\ fin_opt (width (sp_avail_minus_margin st av)).
  Proof.
    destruct (rel_pb st av Hst Hav) as [[Pw Ph] [FPw FPh]].
    destruct (rel_inset st av Hst Hav) as [[Iw Ih] [FIw FIh]].
    destruct (rel_bb st av Hst Hav _ (fin_res_size st av Hst Hav)) as [[Sw Sh] [FSw FSh]].
    destruct (rel_bb st av Hst Hav _ (fin_res_min st av Hst Hav)) as [[Mw Mh] [FMw FMh]].
    destruct (rel_bb st av Hst Hav _ (fin_res_max st av Hst Hav)) as [[Xw Xh] [FXw FXh]].
    destruct (rel_stretch st av Hst Hav) as [Tw FTw].
    rewrite (sp_size_noratio st av Hratio), (sp_min_noratio st av Hratio). unfold sp_max.
    repeat split; fin_side.
  Qed.

  Lemma root_clamped measure lay calls :
    fin_measure measure -> nonneg_padding_border st av -> display st <> DNone ->
    root_leaf st measure av = Some (lay, calls) ->
    (forall lo hi, width (sp_min st av) = Some lo -> width (sp_max st av) = Some hi ->
       x_leb lo hi = true -> x_leb (width (sp_pb st av)) hi = true ->
       x_leb lo (width (l_size lay)) = true /\ x_leb (width (l_size lay)) hi = true) /\
    (forall lo hi, height (sp_min st av) = Some lo -> height (sp_max st av) = Some hi ->
       x_leb lo hi = true -> x_leb (height (sp_pb st av)) hi = true ->
       x_leb lo (height (l_size lay)) = true /\ x_leb (height (l_size lay)) hi = true).
  Proof.
    intros Hm Hnn D H. rewrite root_leaf_eq in H by assumption. inversion H; subst; clear H.
    set (m := measure size_NONE (root_leaf_avail st av)).
    assert (Fm : size_all finite m) by (apply Hm; [split; exact I | apply root_avail_fin; assumption]).
    destruct (root_size_spec st av Hst Hav Hratio m Fm Hnn) as [Ew Eh].
    destruct fin_spec_sizes as ([FSw FSh] & [FMw FMh] & [FXw FXh] & [FPw FPh] & [FIw FIh] & FT).
    destruct Fm as [Fmw Fmh].
    rewrite spec_size_eq in Ew, Eh. cbn [width height] in Ew, Eh.
    split; intros lo hi El Eh' L P.
    - rewrite El in *. rewrite Eh' in *. cbn [fin_opt] in *.
      destruct (s_axis_clamped (is_block st) (width (sp_size st av)) (width (sp_avail_minus_margin st av)) lo hi
                  (width m) (width (sp_inset st av)) (width (sp_pb st av))) as [A B]; try assumption.
      assert (Fs : finite (s_size_axis (is_block st) (width (sp_size st av)) (Some lo) (Some hi)
                             (width (sp_avail_minus_margin st av)) (width m) (width (sp_inset st av)) (width (sp_pb st av)))).
      { eapply between_finite; [exact FMw | exact FXw | exact A | exact B]. }
      assert (Fl : finite (width (l_size (root_leaf_layout st av m)))).
      { exact (fin_xeq_rev _ _ Ew Fs). }
      split.
      + rewrite <- A. apply x_leb_xeq; try assumption. apply xeq_refl.
      + rewrite <- B. apply x_leb_xeq; try assumption. apply xeq_refl.
    - rewrite El in *. rewrite Eh' in *. cbn [fin_opt] in *.
      destruct (s_axis_clamped (is_block st) (height (sp_size st av)) None lo hi
                  (height m) (height (sp_inset st av)) (height (sp_pb st av))) as [A B]; try assumption; try exact I.
      assert (Fs : finite (s_size_axis (is_block st) (height (sp_size st av)) (Some lo) (Some hi)
                             None (height m) (height (sp_inset st av)) (height (sp_pb st av)))).
      { eapply between_finite; [exact FMh | exact FXh | exact A | exact B]. }
      assert (Fl : finite (height (l_size (root_leaf_layout st av m)))).
      { exact (fin_xeq_rev _ _ Eh Fs). }
      split.
      + rewrite <- A. apply x_leb_xeq; try assumption. apply xeq_refl.
      + rewrite <- B. apply x_leb_xeq; try assumption. apply xeq_refl.
  Qed.
End Clamped.

(* ------------------------------------------------------------------------------------------------------------ *)
(** * Witnesses: where an aspect ratio makes the code deviate from the property text (all replayed on the
      implementation by `vh c19 cases`' fixed corpus and by the oracle) *)

Definition qz : XQ := Fin 0.
Definition zero_lp : Rect (LengthPercentage XQ) := mkRect (LpLength qz) (LpLength qz) (LpLength qz) (LpLength qz).
Definition zero_lpa : Rect (LengthPercentageAuto XQ) := mkRect (Length qz) (Length qz) (Length qz) (Length qz).
Definition auto2 : Size (Dimension XQ) := mkSize Auto Auto.
Definition wstyle (d : Display) (sz mn mx : Size (Dimension XQ)) (ar : option XQ) : Style XQ :=
  mkStyle d Relative BorderBox (mkPoint Visible Visible) qz sz mn mx ar zero_lpa zero_lp zero_lp.
Definition max_content2 : Size (AvailableSpace XQ) := mkSize MaxContent MaxContent.
Definition measure_zero : MeasureFn XQ := fun _ _ => mkSize (Fin 0) (Fin 0).
(* width: 100; height: 10; aspect-ratio: 2 *)
Definition w_both (d : Display) : Style XQ :=
  wstyle d (mkSize (Length (Fin 100)) (Length (Fin 10))) auto2 auto2 (Some (Fin 2)).
(* width: 100; max-height: 20; aspect-ratio: 2 *)
Definition w_maxh (d : Display) : Style XQ :=
  wstyle d (mkSize (Length (Fin 100)) Auto) auto2 (mkSize Auto (Length (Fin 20))) (Some (Fin 2)).

Lemma fin_wstyle d sz mn mx ar :
  size_all fin_lpa sz -> size_all fin_lpa mn -> size_all fin_lpa mx -> fin_opt ar -> fin_style (wstyle d sz mn mx ar).
Proof. intros. unfold fin_style, wstyle, rect_all, size_all in *; cbn; tauto. Qed.

Lemma nonneg_wstyle d sz mn mx ar av : nonneg_padding_border (wstyle d sz mn mx ar) av.
Proof.
  unfold nonneg_padding_border, rect_all, nonneg, sp_padding, sp_border, wstyle; cbn.
  repeat split; apply Qle_refl.
Qed.

(* a definite style height of 10 is laid out as 50 = width / ratio; the declarative formula says 10 *)
Lemma spec_ratio_witness :
  let st := w_both DFlex in
  fin_style st /\ positive_ratio st /\ nonneg_padding_border st max_content2 /\ display st <> DNone /\
  fin_measure measure_zero /\
  height (sp_size st max_content2) = Some (Fin 10) /\ sp_min st max_content2 = size_NONE /\ sp_max st max_content2 = size_NONE /\
  exists lay calls, root_leaf st measure_zero max_content2 = Some (lay, calls) /\
    xeq (width (l_size lay)) (Fin 100) /\ xeq (height (l_size lay)) (Fin 50) /\
    xeq (height (leaf_spec_size st max_content2 (mkSize (Fin 0) (Fin 0)))) (Fin 10).
Proof.
  cbv zeta. split; [apply fin_wstyle; cbv; tauto|]. split; [cbv; reflexivity|]. split; [apply nonneg_wstyle|].
  split; [discriminate|]. split; [intros k a; cbv; tauto|].
  split; [reflexivity|]. split; [reflexivity|]. split; [reflexivity|].
  eexists; eexists. split; [vm_compute; reflexivity|]. vm_compute. repeat split; discriminate.
Qed.

(* max-height 20 (min <= max, padding + border <= max) but the height is 50 *)
Lemma clamped_ratio_witness :
  let st := w_maxh DFlex in
  fin_style st /\ positive_ratio st /\ nonneg_padding_border st max_content2 /\ display st <> DNone /\
  fin_measure measure_zero /\
  height (sp_min st max_content2) = None /\ height (sp_max st max_content2) = Some (Fin 20) /\
  x_leb (height (sp_pb st max_content2)) (Fin 20) = true /\
  exists lay calls, root_leaf st measure_zero max_content2 = Some (lay, calls) /\
    x_leb (height (l_size lay)) (Fin 20) = false /\ xeq (height (l_size lay)) (Fin 50).
Proof.
  cbv zeta. split; [apply fin_wstyle; cbv; tauto|]. split; [cbv; reflexivity|]. split; [apply nonneg_wstyle|].
  split; [discriminate|]. split; [intros k a; cbv; tauto|].
  split; [reflexivity|]. split; [reflexivity|]. split; [reflexivity|].
  eexists; eexists. split; [vm_compute; reflexivity|]. vm_compute. repeat split; discriminate.
Qed.

(* the same style as the root of a one-node tree gives 40x20 when display is block and 100x50 when it is flex *)
Lemma display_dependence_witness :
  exists l1 c1 l2 c2,
    root_leaf (w_maxh DBlock) measure_zero max_content2 = Some (l1, c1) /\
    root_leaf (w_maxh DFlex) measure_zero max_content2 = Some (l2, c2) /\
    size_rel xeq (l_size l1) (mkSize (Fin 40) (Fin 20)) /\ size_rel xeq (l_size l2) (mkSize (Fin 100) (Fin 50)).
Proof.
  do 4 eexists. split; [vm_compute; reflexivity|]. split; [vm_compute; reflexivity|].
  vm_compute. repeat split; discriminate.
Qed.

(* known dimensions 100x10 with aspect ratio 2: PerformLayout answers 100x50, ComputeSize (early return) 100x10 *)
Definition w_known_input (rm : RunMode) : LayoutInput XQ :=
  mkInput rm InherentSize (mkSize (Some (Fin 100)) (Some (Fin 10))) size_NONE max_content2.
Definition w_ratio_only : Style XQ := wstyle DFlex auto2 auto2 auto2 (Some (Fin 2)).

Lemma known_dims_ratio_witness :
  exists o1 c1 o2 c2,
    compute_leaf_layout (w_known_input PerformLayout) w_ratio_only measure_zero = Some (o1, c1) /\
    compute_leaf_layout (w_known_input ComputeSize) w_ratio_only measure_zero = Some (o2, c2) /\
    size_rel xeq (out_size o1) (mkSize (Fin 100) (Fin 50)) /\ size_rel xeq (out_size o2) (mkSize (Fin 100) (Fin 10)) /\
    length c1 = 1%nat /\ c2 = [].
Proof.
  do 4 eexists. split; [vm_compute; reflexivity|]. split; [vm_compute; reflexivity|].
  vm_compute. repeat split; discriminate.
Qed.

(* ------------------------------------------------------------------------------------------------------------ *)
(** * Non-vacuity: the premises of the theorems are satisfiable by interesting styles *)

(* display:block, content-box, width auto under a definite available width of 200, margins 10 + 20, padding 5% of 200
   on every side, border 1, vertical scrollbar of 12, min-height 50%% of the available height 80: stretch fit *)
Definition ex_style : Style XQ :=
  mkStyle DBlock Relative ContentBox (mkPoint Visible Scroll) (Fin 12)
          auto2 (mkSize Auto (Percent (Fin (1 # 2)))) auto2 None
          (mkRect (Length (Fin 10)) (Length (Fin 20)) Auto (Percent (Fin (1 # 10))))
          (mkRect (LpPercent (Fin (5 # 100))) (LpPercent (Fin (5 # 100))) (LpPercent (Fin (5 # 100))) (LpPercent (Fin (5 # 100))))
          (mkRect (LpLength (Fin 1)) (LpLength (Fin 1)) (LpLength (Fin 1)) (LpLength (Fin 1))).
Definition ex_avail : Size (AvailableSpace XQ) := mkSize (Definite (Fin 200)) (Definite (Fin 80)).
(* content is as wide as the space it is given and 7 high *)
Definition ex_measure : MeasureFn XQ :=
  fun _ a => mkSize (match width a with Definite w => w | _ => Fin 0 end) (Fin 7).

Lemma example_premises :
  fin_style ex_style /\ size_all fin_avail ex_avail /\ fin_measure ex_measure /\
  nonneg_padding_border ex_style ex_avail /\ display ex_style <> DNone /\ aspect_ratio ex_style = None.
Proof.
  split; [cbv; tauto|]. split; [cbv; tauto|]. split.
  - intros k [[w| |] h] _ [Fw _]; cbv in *; tauto.
  - split; [|split; [discriminate | reflexivity]].
    unfold nonneg_padding_border, rect_all, nonneg. vm_compute. repeat split; discriminate.
Qed.

(* 200 - 30 margin = 170 wide; the content box handed to measure is 170 - 2*10 - 2*1 - 12 = 136 wide; the height is
   min-height 40 + 22 (content-box) = 62 because 7 + 22 is smaller *)
Lemma example_result :
  exists lay aa, root_leaf ex_style ex_measure ex_avail = Some (lay, [(size_NONE, aa)]) /\
    size_rel xeq (l_size lay) (mkSize (Fin 170) (Fin 62)) /\ avail_xeq (width aa) (Definite (Fin 136)) /\
    size_rel xeq (l_content_size lay) (mkSize (Fin 156) (Fin 27)).
Proof.
  do 2 eexists. split; [vm_compute; reflexivity|]. vm_compute. repeat split; discriminate.
Qed.

(* ------------------------------------------------------------------------------------------------------------ *)
(** * The generated tables (Gen/MathGen.v, regenerated from /repo on every run) say what the box model needs: any Num *)

Section Tables.
  Context {T : Type} `{Num T}.

  Lemma tables_clamp : forall (v : T) lo hi,
    maybe_clamp_fo v lo hi = sp_clamp v lo hi /\
    maybe_clamp_oo (Some v) lo hi = Some (sp_clamp v lo hi) /\ maybe_clamp_oo None lo hi = None.
  Proof. intros v [l|] [h|]; repeat split; reflexivity. Qed.

  Lemma tables_arith : forall (v p : T),
    maybe_max_fo v (Some p) = fmax v p /\ maybe_max_fo v None = v /\
    maybe_max_of (Some v) p = Some (fmax v p) /\ maybe_max_of None p = None /\
    maybe_add_of (Some v) p = Some (add v p) /\ maybe_add_of None p = None /\
    maybe_sub_of (Some v) p = Some (sub v p) /\ maybe_sub_of None p = None /\
    maybe_sub_af (Definite v) p = Definite (sub v p) /\
    maybe_sub_af MinContent p = MinContent /\ maybe_sub_af MaxContent p = MaxContent.
  Proof. intros; repeat split; reflexivity. Qed.

  (* lengths resolve to themselves, percentages against a definite basis only, auto to nothing *)
  Lemma tables_resolve : forall (v b : T),
    maybe_resolve_dim Auto (Some b) = None /\ maybe_resolve_dim (Length v) None = Some v /\
    maybe_resolve_dim (Length v) (Some b) = Some v /\
    maybe_resolve_dim (Percent v) (Some b) = Some (mul b v) /\ maybe_resolve_dim (Percent v) None = None /\
    resolve_or_zero_lp (LpLength v) None = v /\ resolve_or_zero_lp (LpPercent v) (Some b) = mul b v /\
    resolve_or_zero_lp (LpPercent v) None = zero /\
    resolve_or_zero_lpa Auto (Some b) = zero /\ resolve_or_zero_lpa (Length v) None = v /\
    resolve_or_zero_lpa (Percent v) (Some b) = mul b v /\ resolve_or_zero_lpa (Percent v) None = zero.
  Proof. intros; repeat split; reflexivity. Qed.

  Lemma tables_avail : forall (v w : T) (a : AvailableSpace T) (f : T -> T),
    avail_into_option (Definite v) = Some v /\ avail_into_option (@MinContent T) = None /\
    avail_into_option (@MaxContent T) = None /\
    avail_maybe_set a (Some w) = Definite w /\ avail_maybe_set a None = a /\
    avail_map_definite_value (Definite v) f = Definite (f v) /\
    avail_map_definite_value MinContent f = MinContent /\ avail_map_definite_value MaxContent f = MaxContent.
  Proof. intros; repeat split; reflexivity. Qed.

  (* the aspect ratio transfers a size that is definite on exactly one axis *)
  Lemma tables_ratio : forall (w h r : T) (s : Size (option T)),
    maybe_apply_aspect_ratio (mkSize (Some w) None) (Some r) = mkSize (Some w) (Some (div w r)) /\
    maybe_apply_aspect_ratio (mkSize None (Some h)) (Some r) = mkSize (Some (mul h r)) (Some h) /\
    maybe_apply_aspect_ratio (mkSize (Some w) (Some h)) (Some r) = mkSize (Some w) (Some h) /\
    maybe_apply_aspect_ratio (mkSize None None) (Some r) = mkSize None None /\
    maybe_apply_aspect_ratio s None = s.
  Proof. intros; repeat split; reflexivity. Qed.
End Tables.

(* ------------------------------------------------------------------------------------------------------------ *)
(** * Aspect ratio: where the property is explicit and the code agrees -- a style size definite on exactly one axis is
      transferred to the other (border-box, no min/max, style size not below padding + border) *)

Lemma q_sign_pos r : 0 < r -> q_sign r = Gt.
Proof. unfold q_sign, Qlt. destruct r as [n d]; cbn. intro H. apply Z.compare_gt_iff. lia. Qed.
Lemma xdiv_pos a r : 0 < r -> x_div (Fin a) (Fin r) = Fin (a / r).
Proof. intro H. cbn. rewrite (q_sign_pos r H). reflexivity. Qed.

Ltac qsplit_div Hpos :=
  repeat (qstep; rewrite ?xdiv_pos by exact Hpos;
    match goal with
    | |- context [Qle_bool ?a ?b] =>
        let E := fresh "E" in destruct (Qle_bool a b) eqn:E;
        [apply Qle_bool_iff in E | apply Qle_bool_false in E]; unfold Qdiv in *; try (exfalso; lra)
    end);
  qstep; unfold Qdiv in *.

Ltac ratio_setup :=
  cbv [root_leaf_layout root_assemble leaf_finish leaf_env root_input root_known_dimensions l_size out_size is_block display
       known_dimensions parent_size sizing_mode aspect_ratio box_sizing size min_size max_size padding border margin
       le_node_size le_node_min_size le_node_max_size le_aspect_ratio le_content_box_inset le_padding_border
       size_maybe_max_fo size_maybe_clamp_fo size_maybe_clamp_oo size_maybe_add_of size_maybe_max_of size_unwrap_or size_or size_add size_zip_map size_zip_map3 size_map
       size_NONE size_ZERO sum_axes horizontal_axis_sum vertical_axis_sum rect_add rect_zip_map width height
       r_left r_right r_top r_bottom size_into_options size_maybe_resolve_dim
       rect_resolve_or_zero_lp rect_map] in *.

(* width definite, height auto: the height is width / ratio *)
Lemma root_ratio_transfer_w st av m r w :
  fin_style st -> size_all fin_avail av ->
  display st <> DNone -> aspect_ratio st = Some (Fin r) -> 0 < r -> box_sizing st = BorderBox ->
  min_size st = mkSize Auto Auto -> max_size st = mkSize Auto Auto ->
  width (size_maybe_resolve_dim (size st) (sp_basis av)) = Some (Fin w) ->
  height (size_maybe_resolve_dim (size st) (sp_basis av)) = None ->
  x_leb (width (sp_pb st av)) (Fin w) = true ->
  size_rel xeq (l_size (root_leaf_layout st av m)) (mkSize (Fin w) (x_max (Fin (w / r)) (height (sp_pb st av)))).
Proof.
  intros Hst Hav D Hr Hpos Hbs Hmn Hmx Hw Hh Hpb.
  destruct (fin_sp_padding st av Hst Hav) as (?&?&?&?); destruct (fin_sp_border st av Hst Hav) as (?&?&?&?).
  destruct st as [disp pos bs ov sbw sz mn mx ar mg pd bd].
  cbn [aspect_ratio box_sizing min_size max_size display size] in *. subst ar bs mn mx.
  unfold sp_pb, sp_padding_sum, sp_padding, sp_border, sp_basis in *. cbn [padding border] in *.
  destruct disp; try congruence; ratio_setup.
  all: rewrite Hw, Hh.
  all: cbn -[resolve_or_zero_lp resolve_or_zero_lpa avail_into_option x_div x_max x_min x_add x_leb] in *.
  all: fin_destruct.
  all: qstep; apply Qle_bool_iff in Hpb.
  all: split; cbn [width height]; qsplit_div Hpos; lra.
Qed.

(* height definite, width auto: the width is height * ratio *)
Lemma root_ratio_transfer_h st av m r h :
  fin_style st -> size_all fin_avail av ->
  display st <> DNone -> aspect_ratio st = Some (Fin r) -> 0 < r -> box_sizing st = BorderBox ->
  min_size st = mkSize Auto Auto -> max_size st = mkSize Auto Auto ->
  width (size_maybe_resolve_dim (size st) (sp_basis av)) = None ->
  height (size_maybe_resolve_dim (size st) (sp_basis av)) = Some (Fin h) ->
  x_leb (width (sp_pb st av)) (Fin (h * r)) = true ->
  size_rel xeq (l_size (root_leaf_layout st av m)) (mkSize (Fin (h * r)) (x_max (Fin h) (height (sp_pb st av)))).
Proof.
  intros Hst Hav D Hr Hpos Hbs Hmn Hmx Hw Hh Hpb.
  assert (HE : h * r * / r == h) by (field; lra).
  destruct (fin_sp_padding st av Hst Hav) as (?&?&?&?); destruct (fin_sp_border st av Hst Hav) as (?&?&?&?).
  destruct st as [disp pos bs ov sbw sz mn mx ar mg pd bd].
  cbn [aspect_ratio box_sizing min_size max_size display size] in *. subst ar bs mn mx.
  unfold sp_pb, sp_padding_sum, sp_padding, sp_border, sp_basis in *. cbn [padding border] in *.
  destruct disp; try congruence; ratio_setup.
  all: rewrite Hw, Hh.
  all: cbn -[resolve_or_zero_lp resolve_or_zero_lpa avail_into_option x_div x_max x_min x_add x_leb] in *.
  all: fin_destruct.
  all: qstep; apply Qle_bool_iff in Hpb.
  all: split; cbn [width height]; qsplit_div Hpos; lra.
Qed.

Lemma root_ratio_transfer st measure av r lay calls :
  fin_style st -> size_all fin_avail av -> display st <> DNone ->
  aspect_ratio st = Some (Fin r) -> 0 < r -> box_sizing st = BorderBox ->
  min_size st = mkSize Auto Auto -> max_size st = mkSize Auto Auto ->
  root_leaf st measure av = Some (lay, calls) ->
  (forall w, width (size_maybe_resolve_dim (size st) (sp_basis av)) = Some (Fin w) ->
             height (size_maybe_resolve_dim (size st) (sp_basis av)) = None ->
             x_leb (width (sp_pb st av)) (Fin w) = true ->
             size_rel xeq (l_size lay) (mkSize (Fin w) (x_max (Fin (w / r)) (height (sp_pb st av))))) /\
  (forall h, width (size_maybe_resolve_dim (size st) (sp_basis av)) = None ->
             height (size_maybe_resolve_dim (size st) (sp_basis av)) = Some (Fin h) ->
             x_leb (width (sp_pb st av)) (Fin (h * r)) = true ->
             size_rel xeq (l_size lay) (mkSize (Fin (h * r)) (x_max (Fin h) (height (sp_pb st av))))).
Proof.
  intros Hst Hav D Hr Hpos Hbs Hmn Hmx H. rewrite root_leaf_eq in H by assumption. inversion H; subst; clear H.
  split; intros.
  - apply root_ratio_transfer_w; assumption.
  - apply root_ratio_transfer_h; assumption.
Qed.
