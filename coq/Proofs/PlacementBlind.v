(* Which children's placement styles can grid_placement_run see?  (C05 / C06, grid part.)

   - display:none children: none at all (estimate_children and in_flow_children both skip them): the run is the same for
     any two child lists that agree on kinds and on the styles of the non-hidden children.
   - position:absolute children: never placed (in_flow_children skips them), but their styles DO feed the size estimate.
     The run is the same for two child lists that differ only in the styles of absolute children as long as these are
     "harmless" in both: per axis  0 <= min line, max line <= explicit track count, 1 <= span <= max(explicit, 1)
     (what compute_grid_size_estimate reads off a child: child_min_line_max_line_span, regenerated from the source).
     An absolute child with auto/auto placement (a neutralised one) is harmless.  Outside that class the estimate -- and
     with it the reported track counts and the container size -- changes: abs_line_changes_counts. *)
From Coq Require Import ZArith Bool List Lia.
From TV Require Import Model.PlacementBase Gen.PlacementGen Model.Placement Proofs.PlacementTables.
Import ListNotations.
Open Scope Z_scope.

Definition auto_child : child := mkChild (mkLn Auto Auto) (mkLn Auto Auto).

Definition kind_eqb (a b : child_kind) : bool :=
  match a, b with InFlow, InFlow | Hidden, Hidden | Absolute, Absolute => true | _, _ => false end.

(* replace the placement style of every child of kind k by auto/auto *)
Definition neutralise (k : child_kind) (kc : child_kind * child) : child_kind * child :=
  if kind_eqb (fst kc) k then (k, auto_child) else kc.

(* same kinds; children of kind k related by R, all others identical *)
Definition same_but (k : child_kind) (R : child -> child -> Prop) (a b : child_kind * child) : Prop :=
  fst a = fst b /\ (fst a = k -> R (snd a) (snd b)) /\ (fst a <> k -> snd a = snd b).

Lemma neutralise_same_but k (R : child -> child -> Prop) children :
  (forall c, R c auto_child) -> Forall2 (same_but k R) children (map (neutralise k) children).
Proof.
  intros HR. induction children as [|[k0 c] l IH]; cbn; constructor; [|exact IH].
  unfold same_but, neutralise. cbn. destruct (kind_eqb k0 k) eqn:E; cbn.
  - assert (k0 = k) by (destruct k0, k; cbn in E; congruence). subst.
    split; [reflexivity|]. split; [intros _; apply HR|intros C; congruence].
  - split; [reflexivity|]. split; [|reflexivity]. intros ->. destruct k; cbn in E; discriminate.
Qed.

(* ---------------------------------------------------------------------------------------- in-flow children *)

Lemma in_flow_same_gen k (R : child -> child -> Prop) : k <> InFlow -> forall l l', Forall2 (same_but k R) l l' -> forall i,
  map (fun '(i, (_, c)) => (i, c)) (filter (fun '(_, (k, _)) => is_in_flow k) (enumerate_from i l)) =
  map (fun '(i, (_, c)) => (i, c)) (filter (fun '(_, (k, _)) => is_in_flow k) (enumerate_from i l')).
Proof.
  intros Hk l l' H. induction H as [|[ka ca] [kb cb] l l' Hab Hl IH]; intros i; cbn; [reflexivity|].
  destruct Hab as [Hf [_ Hs]]. cbn in Hf, Hs. subst kb.
  destruct ka; cbn; try apply IH.
  rewrite (Hs ltac:(congruence)). f_equal. apply IH.
Qed.

Lemma in_flow_same k (R : child -> child -> Prop) l l' : k <> InFlow -> Forall2 (same_but k R) l l' -> in_flow_children l = in_flow_children l'.
Proof. intros Hk H. unfold in_flow_children. apply (in_flow_same_gen k R Hk l l' H 0). Qed.

(* ---------------------------------------------------------------------------------------- display:none *)

Lemma estimate_children_hidden (R : child -> child -> Prop) l l' : Forall2 (same_but Hidden R) l l' -> estimate_children l = estimate_children l'.
Proof.
  intros H. unfold estimate_children. induction H as [|[ka ca] [kb cb] l l' Hab Hl IH]; cbn; [reflexivity|].
  destruct Hab as [Hf [_ Hs]]. cbn in Hf, Hs. subst kb.
  destruct ka; cbn; try exact IH; (rewrite (Hs ltac:(congruence)); f_equal; exact IH).
Qed.

Theorem run_ignores_hidden_styles ec er fl l l' :
  Forall2 (same_but Hidden (fun _ _ => True)) l l' -> grid_placement_run ec er fl l = grid_placement_run ec er fl l'.
Proof.
  intros H. unfold grid_placement_run.
  rewrite (estimate_children_hidden _ _ _ H), (in_flow_same Hidden _ l l' ltac:(discriminate) H). reflexivity.
Qed.

Corollary run_neutralise_hidden ec er fl children :
  grid_placement_run ec er fl (map (neutralise Hidden) children) = grid_placement_run ec er fl children.
Proof. symmetry. apply run_ignores_hidden_styles. apply neutralise_same_but. auto. Qed.

(* ---------------------------------------------------------------------------------------- position:absolute *)

(* what the size estimate reads off one child in one axis stays inside the explicit grid *)
Definition harmless_axis (ln : Ln GP) (e : Z) : Prop :=
  exists mn mx sp, child_min_line_max_line_span ln e = Ok (mn, mx, sp) /\ 0 <= mn /\ mx <= e /\ 1 <= sp <= Z.max e 1.
Definition harmless (ec er : Z) (c : child) : Prop := harmless_axis (c_col c) ec /\ harmless_axis (c_row c) er.

Lemma auto_child_harmless ec er : 0 <= ec -> 0 <= er -> harmless ec er auto_child.
Proof. intros H1 H2. split; exists 0, 0, 1; (split; [reflexivity|lia]). Qed.

(* accumulators of get_known_child_positions that the estimate cannot tell apart *)
Definition span_rel (e s s' : Z) : Prop :=
  0 <= s /\ 0 <= s' /\ Z.max s (Z.max e 1) = Z.max s' (Z.max e 1) /\ (s = 0 <-> s' = 0).
Definition acc_rel (ec er : Z) (a a' : known_positions) : Prop :=
  let '(c1, c2, c3, r1, r2, r3) := a in
  let '(c1', c2', c3', r1', r2', r3') := a' in
  c1 = c1' /\ c1 <= 0 /\ (0 <= c2 /\ 0 <= c2' /\ Z.max c2 ec = Z.max c2' ec) /\ span_rel ec c3 c3' /\
  r1 = r1' /\ r1 <= 0 /\ (0 <= r2 /\ 0 <= r2' /\ Z.max r2 er = Z.max r2' er) /\ span_rel er r3 r3'.

Definition kstep (ec er : Z) : known_positions -> child -> res known_positions :=
  fun '(col_min, col_max, col_max_span, row_min, row_max, row_max_span) c =>
  do '(child_col_min, child_col_max, child_col_span) <- child_min_line_max_line_span (c_col c) ec;
  do '(child_row_min, child_row_max, child_row_span) <- child_min_line_max_line_span (c_row c) er;
  Ok (Z.min col_min child_col_min, Z.max col_max child_col_max, Z.max col_max_span child_col_span,
      Z.min row_min child_row_min, Z.max row_max child_row_max, Z.max row_max_span child_row_span).

Lemma get_known_is_fold l ec er : get_known_child_positions l ec er = foldM (kstep ec er) l (0, 0, 0, 0, 0, 0).
Proof. reflexivity. Qed.

Definition res_rel {A} (R : A -> A -> Prop) (x y : res A) : Prop :=
  match x, y with Ok a, Ok b => R a b | Err e, Err e' => e = e' | _, _ => False end.

(* two children the estimate treats alike *)
Definition crel (ec er : Z) (c c' : child) : Prop := c = c' \/ (harmless ec er c /\ harmless ec er c').

Lemma span_rel_max_same e s s' x : span_rel e s s' -> span_rel e (Z.max s x) (Z.max s' x).
Proof. unfold span_rel. intros (H1 & H2 & H3 & H4). repeat split; lia. Qed.

Lemma span_rel_max_harmless e s s' x y :
  span_rel e s s' -> 1 <= x <= Z.max e 1 -> 1 <= y <= Z.max e 1 -> span_rel e (Z.max s x) (Z.max s' y).
Proof. unfold span_rel. intros (H1 & H2 & H3 & H4) Hx Hy. repeat split; lia. Qed.

Lemma kstep_rel ec er a a' c c' : acc_rel ec er a a' -> crel ec er c c' ->
  res_rel (acc_rel ec er) (kstep ec er a c) (kstep ec er a' c').
Proof.
  destruct a as [[[[[c1 c2] c3] r1] r2] r3], a' as [[[[[c1' c2'] c3'] r1'] r2'] r3'].
  intros (A1 & A2 & A3 & A4 & A5 & A6 & A7 & A8) [<-|[[Hc Hr] [Hc' Hr']]]; unfold kstep.
  - destruct (child_min_line_max_line_span (c_col c) ec) as [[[x1 x2] x3]|e1]; cbn [bind res_rel]; [|reflexivity].
    destruct (child_min_line_max_line_span (c_row c) er) as [[[y1 y2] y3]|e2]; cbn [bind res_rel]; [|reflexivity].
    unfold acc_rel.
    split; [lia|]. split; [lia|]. split; [lia|]. split; [apply span_rel_max_same; assumption|].
    split; [lia|]. split; [lia|]. split; [lia|]. apply span_rel_max_same; assumption.
  - destruct Hc as (x1 & x2 & x3 & -> & ? & ? & ?), Hr as (y1 & y2 & y3 & -> & ? & ? & ?).
    destruct Hc' as (x1' & x2' & x3' & -> & ? & ? & ?), Hr' as (y1' & y2' & y3' & -> & ? & ? & ?).
    cbn [bind res_rel]. unfold acc_rel.
    split; [lia|]. split; [lia|]. split; [lia|]. split; [apply span_rel_max_harmless; assumption|].
    split; [lia|]. split; [lia|]. split; [lia|]. apply span_rel_max_harmless; assumption.
Qed.

Lemma fold_rel ec er : forall l l', Forall2 (crel ec er) l l' -> forall a a', acc_rel ec er a a' ->
  res_rel (acc_rel ec er) (foldM (kstep ec er) l a) (foldM (kstep ec er) l' a').
Proof.
  intros l l' H. induction H as [|c c' l l' Hc Hl IH]; intros a a' Ha; cbn [foldM]; [exact Ha|].
  pose proof (kstep_rel ec er a a' c c' Ha Hc) as Hs. unfold res_rel in Hs.
  destruct (kstep ec er a c) as [b|e], (kstep ec er a' c') as [b'|e']; try contradiction; cbn [bind].
  - apply IH. exact Hs.
  - cbn. exact Hs.
Qed.

Lemma estimate_axis_rel e lmin lmax lmax' sp sp' :
  0 <= e < 32768 -> 0 <= lmax -> 0 <= lmax' -> Z.max lmax e = Z.max lmax' e -> span_rel e sp sp' ->
  estimate_axis lmin lmax sp e = estimate_axis lmin lmax' sp' e.
Proof.
  intros He H0 H0' Hm (S1 & S2 & S3 & S4). unfold estimate_axis.
  assert (Hpos : implied_positive_implicit_tracks lmax e = implied_positive_implicit_tracks lmax' e).
  { unfold implied_positive_implicit_tracks. rewrite (u16_as_i16_small e) by lia.
    destruct (Z.gtb_spec lmax e), (Z.gtb_spec lmax' e); try lia; [|reflexivity].
    replace lmax' with lmax by lia. reflexivity. }
  rewrite Hpos.
  destruct (implied_positive_implicit_tracks lmax' e) as [pos|] eqn:Ep; cbn [bind]; [|reflexivity].
  assert (Hp0 : 0 <= pos).
  { unfold implied_positive_implicit_tracks in Ep. destruct (lmax' >? u16_as_i16 e).
    - unfold u16_sub in Ep. apply chk_u16_ok in Ep. lia.
    - injection Ep as <-. lia. }
  set (neg := implied_negative_implicit_tracks lmin).
  assert (Hn0 : 0 <= neg).
  { unfold neg, implied_negative_implicit_tracks, i16_unsigned_abs. destruct (lmin <? 0); lia. }
  destruct (u16_add neg e) as [t|] eqn:Et; cbn [bind]; [|reflexivity].
  destruct (u16_add t pos) as [tot|] eqn:Etot; cbn [bind]; [|reflexivity].
  unfold u16_add in Et, Etot. apply chk_u16_ok in Et. apply chk_u16_ok in Etot.
  assert (Htot : e <= tot) by lia.
  destruct (Z_le_gt_dec sp (Z.max e 1)) as [Hle|Hgt].
  - assert (Hle' : sp' <= Z.max e 1) by lia.
    destruct (Z_le_gt_dec 1 e) as [He1|He0].
    + (* M = e <= tot: the span adjustment never fires *)
      destruct (Z.ltb_spec tot sp), (Z.ltb_spec tot sp'); try lia. reflexivity.
    + (* e = 0: spans are 0 or 1, and 0 on both sides together *)
      assert (sp = sp') by lia. subst. reflexivity.
  - assert (sp = sp') by lia. subst. reflexivity.
Qed.

Theorem estimate_rel ec er l l' : 0 <= ec < 32768 -> 0 <= er < 32768 -> Forall2 (crel ec er) l l' ->
  compute_grid_size_estimate ec er l = compute_grid_size_estimate ec er l'.
Proof.
  intros Hec Her H. unfold compute_grid_size_estimate. rewrite !get_known_is_fold.
  assert (H0 : acc_rel ec er (0, 0, 0, 0, 0, 0) (0, 0, 0, 0, 0, 0)) by (unfold acc_rel, span_rel; repeat split; lia).
  pose proof (fold_rel ec er l l' H _ _ H0) as Hf. unfold res_rel in Hf.
  destruct (foldM (kstep ec er) l (0, 0, 0, 0, 0, 0)) as [[[[[[c1 c2] c3] r1] r2] r3]|e],
           (foldM (kstep ec er) l' (0, 0, 0, 0, 0, 0)) as [[[[[[c1' c2'] c3'] r1'] r2'] r3']|e']; try contradiction; cbn [bind].
  - destruct Hf as (A1 & A2 & (A3 & A3' & A3'') & A4 & A5 & A6 & (A7 & A7' & A7'') & A8). subst c1' r1'.
    rewrite (estimate_axis_rel ec c1 c2 c2' c3 c3') by assumption.
    rewrite (estimate_axis_rel er r1 r2 r2' r3 r3') by assumption. reflexivity.
  - congruence.
Qed.

(* the children fed to the estimate: hidden ones dropped on both sides, absolute ones related by R *)
Lemma estimate_children_abs (R : child -> child -> Prop) l l' : Forall2 (same_but Absolute R) l l' ->
  Forall2 (fun c c' => c = c' \/ R c c') (estimate_children l) (estimate_children l').
Proof.
  intros H. unfold estimate_children. induction H as [|[ka ca] [kb cb] l l' Hab Hl IH]; cbn; [constructor|].
  destruct Hab as [Hf [Hr Hs]]. cbn in Hf, Hr, Hs. subst kb.
  destruct ka; cbn; try exact IH; constructor; try exact IH.
  - left. apply Hs. discriminate.
  - right. apply Hr. reflexivity.
Qed.

(* two child lists that differ only in the placement styles of absolute children, harmless on both sides *)
Theorem run_ignores_harmless_absolute_styles ec er fl l l' :
  0 <= ec < 32768 -> 0 <= er < 32768 ->
  Forall2 (same_but Absolute (fun c c' => harmless ec er c /\ harmless ec er c')) l l' ->
  grid_placement_run ec er fl l = grid_placement_run ec er fl l'.
Proof.
  intros Hec Her H. unfold grid_placement_run.
  rewrite (estimate_rel ec er _ _ Hec Her (estimate_children_abs _ _ _ H)).
  rewrite (in_flow_same Absolute _ l l' ltac:(discriminate) H). reflexivity.
Qed.

(* the oracle's operation: every absolute child neutralised to auto/auto *)
Corollary run_neutralise_harmless_absolute ec er fl children :
  0 <= ec < 32768 -> 0 <= er < 32768 ->
  Forall (fun kc => fst kc = Absolute -> harmless ec er (snd kc)) children ->
  grid_placement_run ec er fl (map (neutralise Absolute) children) = grid_placement_run ec er fl children.
Proof.
  intros Hec Her H. symmetry. apply run_ignores_harmless_absolute_styles; try assumption.
  induction H as [|[k0 c] l Hx Hl IH]; cbn; constructor; [|exact IH].
  unfold same_but, neutralise. cbn in *. destruct k0; cbn.
  - split; [reflexivity|]. split; [discriminate|reflexivity].
  - split; [reflexivity|]. split; [discriminate|reflexivity].
  - split; [reflexivity|]. split; [|congruence]. intros _. split; [apply Hx; reflexivity|apply auto_child_harmless; lia].
Qed.

(* whatever their styles, absolute children are never placed *)
Lemma in_flow_neutralise_absolute children :
  in_flow_children (map (neutralise Absolute) children) = in_flow_children children.
Proof.
  symmetry. apply (in_flow_same Absolute (fun _ _ => True)); [discriminate|]. apply neutralise_same_but. auto.
Qed.

(* ---------------------------------------------------------------------------------------- witnesses *)

(* known finding C06/grid-estimate-absolute: no explicit tracks, one absolute child; `grid_row: 4` gives four implicit rows,
   the neutralised child one (and a grid without that child none: its mere presence counts too) *)
Definition abs_line4 : list (child_kind * child) := [(Absolute, mkChild (mkLn (Line 4) Auto) (mkLn Auto Auto))].

Lemma abs_line_changes_counts :
  (exists o, grid_placement_run 0 0 FRow abs_line4 = Ok o /\ o_items o = [] /\ o_rows o = mkTC 0 0 4 /\ o_cols o = mkTC 0 0 1) /\
  (exists o, grid_placement_run 0 0 FRow (map (neutralise Absolute) abs_line4) = Ok o /\ o_rows o = mkTC 0 0 1 /\ o_cols o = mkTC 0 0 1) /\
  (exists o, grid_placement_run 0 0 FRow [] = Ok o /\ o_rows o = mkTC 0 0 0 /\ o_cols o = mkTC 0 0 0).
Proof. repeat split; eexists; (split; [vm_compute; reflexivity|]); repeat split; reflexivity. Qed.

(* with an in-flow sibling: its reported area is the same, the track counts are not *)
Definition abs_line4_sibling : list (child_kind * child) := (InFlow, auto_child) :: abs_line4.
Lemma abs_line_changes_counts_sibling :
  exists o o', grid_placement_run 0 0 FRow abs_line4_sibling = Ok o /\
               grid_placement_run 0 0 FRow (map (neutralise Absolute) abs_line4_sibling) = Ok o' /\
               o_items o = o_items o' /\ o_rows o = mkTC 0 0 4 /\ o_rows o' = mkTC 0 0 1.
Proof. eexists. eexists. split; [vm_compute; reflexivity|]. split; [vm_compute; reflexivity|]. repeat split; reflexivity. Qed.

(* the same child as display:none is invisible (the C05 defect that was repaired) *)
Lemma hidden_line_invisible :
  grid_placement_run 0 0 FRow [(Hidden, mkChild (mkLn (Line 5) Auto) (mkLn Auto Auto))] =
  grid_placement_run 0 0 FRow [(Hidden, auto_child)].
Proof. apply (run_neutralise_hidden 0 0 FRow [(Hidden, mkChild (mkLn (Line 5) Auto) (mkLn Auto Auto))]). Qed.

(* the harmless class is not empty beyond auto/auto: lines inside the explicit grid, spans within it *)
Example harmless_examples :
  harmless 3 2 (mkChild (mkLn (Line 1) (Line 3)) (mkLn (Line (-2)) (Span 1))) /\
  harmless 3 2 (mkChild (mkLn Auto (Span 2)) (mkLn (Span 3) Auto)) /\
  ~ harmless 3 2 (mkChild (mkLn (Line 4) Auto) (mkLn Auto Auto)) /\
  ~ harmless 0 0 (mkChild (mkLn Auto Auto) (mkLn (Span 2) Auto)).
Proof.
  split; [|split; [|split]].
  - split; eexists; eexists; eexists; (split; [vm_compute; reflexivity|lia]).
  - split; eexists; eexists; eexists; (split; [vm_compute; reflexivity|lia]).
  - intros [_ (mn & mx & sp & E & H)]. vm_compute in E. injection E as <- <- <-. lia.
  - intros [(mn & mx & sp & E & H) _]. vm_compute in E. injection E as <- <- <-. lia.
Qed.
