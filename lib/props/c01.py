"""C01 -- incremental relayout equals from-scratch layout.
proof: Props/C01.v (engine skeleton, any algorithm, exact key);  K: dirty-flag correspondence + trace-validated WF/H1;
search: histories on the implementation, every layout compared with a freshly built tree, in real and exact-key mode."""
from ..common import *
from ..stages import *
from ..engine_k import engine_correspondence, engine_event_correspondence

FINDINGS = {
    'scribble': 'computesize-scribble: a block container stores its in-flow children\'s layouts while answering a ComputeSize query '
                '(block.rs perform_final_layout_on_in_flow_children); a PerformLayout cache hit then leaves them (even with an exact key, even on fresh trees)',
    'hiddenstale': 'hidden-region-stale: edits inside a display:none subtree stop at the empty caches there (mark_dirty early exit) and never reach the '
                   'clean display:none ancestor, so a subtree attached two or more levels below it keeps its previous non-zero layout until that ancestor is dirtied',
    'lossy': 'lossy-cache-key: the node cache matches on known dimensions / available space only (ignores parent_size, sizing_mode, margin '
             'collapsibility; accepts a known dimension equal to the cached size): mismatch against a fresh layout that disappears with the exact-key memo',
}


def parse_fails(out):
    res = {}
    for l in out.split('\n'):
        if l.startswith('FAIL '):
            p = l.split(' ', 3)
            m = re.search(r'class=(\w+)', l)
            res[int(p[1])] = (int(p[2]), m.group(1) if m else '?', l[:1500])
        elif l.startswith('PANIC '):
            res[int(l.split()[1])] = (0, 'panic', l)
    return res


def run(rep, tier, seed, replay=None):
    res, changed = proof_stage(rep, 'C01', extra_trusted=[
        'engine skeleton Model/Engine.v is hand-written (tied by the dirty-flag correspondence, the event-level correspondence with the real algorithms replayed, trace validation, '
        'and -- as the instance taffy_memo taffy_dispatch block_pre abs_child_block taffy_leaf under compute_root_layout -- by the whole-tree correspondence `vh taffytree`: '
        'every stored layout of random mixed block / flex / grid trees, bit for bit)',
        'interface hypotheses WF, H1 (output-level theorems) and H3, HQ (layout-level theorem) on the real algorithms: validated on every traced pass, not proved; NS is falsified by the block algorithm (known finding, counted per run)',
        'exact-key memo = cfg(taffy_verif) hook; the real lossy key is a known finding',
        'theorems cover the root LayoutOutput and cache validity for every algorithm; the per-node stored layouts only for algorithms '
        'satisfying NS/HQ/H3 (C01_layouts_equal_fresh_for_nonscribbling_algorithms; H3/HQ are read off the three hidden-child loops, not '
        'trace-validated; NS is violated by the block algorithm: known finding computesize-scribble, see C01_layouts_refuted_...)'])
    rc, out, binp, dt = build_harness('release')
    if rc != 0:
        rep.add_broken('build', 'harness', out[-1500:])
        return
    nk = 400 if tier == 'quick' else 4000
    engine_correspondence(rep, binp, seed, nk)
    engine_event_correspondence(rep, binp, seed, 600 if tier == 'quick' else 6000)
    # ---- the same histories WITHOUT the exact-key hook: event trace + dirty flags vs the engine over the REAL cache (wave 7c)
    esc7 = bool([c for c in changed if c.startswith('gen_cache:') or 'compute_cached_layout' in c or 'compute_child_layout' in c
                 or 'compute_hidden_layout' in c or 'mark_dirty' in c])
    engine_event_correspondence(rep, binp, seed, 3000 if tier != 'quick' or esc7 else 300, real=True)
    # ---- the engine with the REAL cache (wave 6c): memo_real (Model/EngineReal.v) with the block algorithm vs TaffyTree without the
    # exact-key hook, whole trees, layouts + query / hit / measure counts; reports how many trees have no lossy hit (the class on which
    # C01_real_equals_exact_when_no_lossy_hit_partial transfers the exact-key theorems) and how many of those differ from the exact run
    from . import _blockreal
    esc = bool([c for c in changed if c.startswith('gen_cache:') or 'compute_cached_layout' in c or 'compute_child_layout' in c
                or 'compute_hidden_layout' in c])
    _blockreal.real_tree_k(rep, 'C01', binp, seed + 101, 3000 if tier != 'quick' or esc else 300)
    _blockreal.lossy_witness(rep, binp)
    # ---- wave 7a: the same for the COMPLETE engine (block + flex + grid + leaves; the nine measure slots get traffic)
    if not replay:
        from . import _taffyreal
        _taffyreal.real_tree_k(rep, 'C01', binp, seed + 171, 3000 if tier != 'quick' or esc else 300)
    # ---- whole-tree K (wave 6): the COMPLETE engine -- compute_root_layout + exact-key memo + dispatch on (display, has_children) + the
    # block / flex / grid resumptions + compute_leaf_layout + hidden layout, the definitions C01_taffy_engine_* / C05_taffy_engine_* /
    # C06_taffy_engine_* are about -- vs TaffyTree::compute_layout_with_measure on random mixed trees, one or two passes, every node's
    # unrounded layout after every pass, bit for bit (notes/TAFFYTREE.md)
    if not replay:
        from . import _taffytree
        _taffytree.tree_k(rep, 'C01', binp, seed + 606, 5000 if (tier != 'quick' or changed) else 600, family=0)
        if tier != 'quick':
            # larger trees (<= 24 nodes; the quick tier needs no bound for speed, this is extra coverage)
            _taffytree.tree_k(rep, 'C01', binp, seed + 707, 1500, family=0, maxnodes=24, key='taffytree_large')
    # ---- deterministic corpus: unbounded DEFINITE available space (f32::INFINITY) next to max-/min-content, two passes vs a fresh tree
    if not replay:
        rci, outi = vh(binp, ['c01', 'infcorpus'], timeout=120)
        if 'INFCORPUS' not in outi:
            rep.add_broken('search', 'vh c01 infcorpus', outi[-400:])
        for l_ in [l_ for l_ in outi.split('\n') if l_.startswith('FAIL infcorpus')][:3]:
            rep.add_violation('relayout after switching the available space differs from a fresh layout: ' + l_[:400], {'cmd': 'vh c01 infcorpus'})
        rep.cov['infinite_available_space_corpus_cases'] = 100
    # ---- search
    n = 600 if tier == 'quick' and not rep.broken else 6000
    if replay:
        start, n = replay['idx'], 1
        seed = replay.get('seed', seed)
    else:
        start = 0
    rc0, out0 = vh(binp, ['c01', 'oracle', seed, start, n, 0], timeout=900)
    rc1, out1 = vh(binp, ['c01', 'oracle', seed, start, n, 1], timeout=900)
    if 'DONE' not in out0 or 'DONE' not in out1:
        rep.add_broken('search', 'vh c01 oracle', (out0 + out1)[-600:])
        return
    real, exact = parse_fails(out0), parse_fails(out1)
    d = re.search(r'DONE (\d+) (\d+) (\d+) (\d+)', out0)
    rep.cov['oracle_histories'] = int(d.group(1))
    rep.cov['oracle_layouts_compared'] = int(d.group(2))
    rep.cov['oracle_ops_applied'] = int(d.group(3))
    rep.cov['fresh_passes_containing_a_scribbled_layout'] = int(d.group(4))
    known = {'scribble': 0, 'lossy': 0, 'hiddenstale': 0}
    viol = []
    for idx, (step, cls, line) in sorted(exact.items()):
        if cls in ('scribble', 'hiddenstale'):
            known[cls] += 1
        else:
            viol.append((idx, step, 'exact-key mode', line))
    for idx, (step, cls, line) in sorted(real.items()):
        if cls in ('scribble', 'hiddenstale'):
            known[cls] += 1
        elif cls == 'panic':
            viol.append((idx, step, 'real mode', line))
        elif idx in exact and exact[idx][1] not in ('scribble', 'hiddenstale'):
            pass  # already reported from the exact-mode run
        else:
            known['lossy'] += 1     # disappears (or turns into a scribble) with the exact key
    rep.cov['oracle_mismatches'] = {'real_mode': len(real), 'exact_mode': len(exact), 'attributed': known}
    for k, cnt in known.items():
        if cnt:
            rep.known.append('%s  [%d histories of this run]' % (FINDINGS[k], cnt))
    for idx, step, modename, line in viol[:3]:
        rep.add_violation('relayout differs from a fresh layout (%s), history %d step %d: %s' % (modename, idx, step, line[:400]),
                          {'seed': seed, 'idx': idx, 'cmd': 'vh c01 one %d %d %d' % (seed, idx, 1 if modename.startswith('exact') else 0)})
    rep.cov['evaluations'] = rep.cov.get('evaluations', 0) + 2 * int(d.group(1))
    rep.cov['rule'] = ('K: random histories (<=30 API calls over <=9+ nodes, all mutators, hidden nodes, several roots) replayed on the Coq engine model, '
                       'dirty() of every live node after every call compared; distinct = distinct encoded histories with at least one mutation. '
                       'search: each history also run on the implementation in real and exact-key mode, every compute_layout compared bit-for-bit '
                       '(rounded and unrounded) with a freshly built tree; mismatches classified by the event trace')
    rep.cov['samples'].append({'theorem': 'C01_layouts_equal_fresh_for_nonscribbling_algorithms: exact key, WF, H1, H3, NS, HQ -> Inv t0 -> Coh t0 -> '
                               'run_ok_l t0 ops -> mode i = PerformLayout -> memo f (run_ops t0 ops) i = Some (o,t1) -> '
                               'memo f\' (fresh (skel (run_ops t0 ops))) i = Some (o\',t2) -> o = o\' /\\ lkids (lays t1) = lkids (lays t2)'})
    rep.cov['samples'].append({'theorem': 'C01_root_output_equals_fresh: Inv t0 -> run_ok t0 ops -> memo f (run_ops t0 ops) i = Some (o,_) -> memo f\' (fresh (skel (run_ops t0 ops))) i = Some (o\',_) -> o = o\''})
