(* GENERATED on every run by /verif/translator/gen_tree.py from src/tree/taffy_tree.rs -- do not edit. *)
(* The bodies of the structural methods of TaffyTree in the target language of Model/TreeImp.v;
   proved equal to the hand-written Model/Tree.v in Proofs/TreeBodiesProofs.v. *)
From Coq Require Import NArith List Bool Arith.
From TV Require Import Model.Tree Model.TreeImp.
Import ListNotations.

Definition gen_child_count (t0 : tree) (v_parent_node_id : key) : res N :=
  l1 <- sm_index (t_children t0) v_parent_node_id ;;
  Ok (N.of_nat (length l1)).

Definition gen_child_at_index (t0 : tree) (v_parent : key) (v_child_index : N) : res ret :=
  let v_parent_key := v_parent in
  l1 <- sm_index (t_children t0) v_parent_key ;;
  let v_child_count := N.of_nat (length l1) in
  if N.leb v_child_count v_child_index then Ok (RErr v_parent v_child_index v_child_count)
  else
  l2 <- sm_index (t_children t0) v_parent_key ;;
  c3 <- of_opt (nth_error l2 (N.to_nat v_child_index)) ;;
  Ok (RKey c3).

Definition gen_parent (t0 : tree) (v_child_id : key) : res (option key) :=
  sm_index (t_parents t0) v_child_id.

Definition gen_children (t0 : tree) (v_parent : key) : res (list key) :=
  l1 <- sm_index (t_children t0) v_parent ;;
  Ok l1.

Definition gen_add_child (t0 : tree) (v_parent : key) (v_child : key) : res (tree * ret) :=
  let v_parent_key := v_parent in
  let v_child_key := v_child in
  t1 <- st_set_parent t0 v_child_key (Some v_parent) ;;
  t2 <- st_push_child t1 v_parent_key v_child ;;
  t3 <- st_mark_dirty t2 v_parent ;;
  Ok (t3, RUnit).

Definition gen_insert_child_at_index (t0 : tree) (v_parent : key) (v_child_index : N) (v_child : key) : res (tree * ret) :=
  let v_parent_key := v_parent in
  l1 <- sm_index (t_children t0) v_parent_key ;;
  let v_child_count := N.of_nat (length l1) in
  if N.ltb v_child_count v_child_index then Ok (t0, (RErr v_parent v_child_index v_child_count))
  else
  t1 <- st_set_parent t0 v_child (Some v_parent) ;;
  t2 <- st_insert_child t1 v_parent_key v_child_index v_child ;;
  t3 <- st_mark_dirty t2 v_parent ;;
  Ok (t3, RUnit).

Definition gen_remove_child_at_index (t0 : tree) (v_parent : key) (v_child_index : N) : res (tree * ret) :=
  let v_parent_key := v_parent in
  l1 <- sm_index (t_children t0) v_parent_key ;;
  let v_child_count := N.of_nat (length l1) in
  if N.leb v_child_count v_child_index then Ok (t0, (RErr v_parent v_child_index v_child_count))
  else
  r2 <- st_vec_remove t0 v_parent_key v_child_index ;;
  let t1 := fst r2 in
  let v_child := snd r2 in
  t2 <- st_set_parent t1 v_child None ;;
  t3 <- st_mark_dirty t2 v_parent ;;
  Ok (t3, (RKey v_child)).

Definition gen_remove_child (t0 : tree) (v_parent : key) (v_child : key) : res (tree * ret) :=
  l1 <- sm_index (t_children t0) v_parent ;;
  v_index <- of_opt (position_N v_child l1) ;;
  gen_remove_child_at_index t0 v_parent v_index.

Definition gen_replace_child_at_index (t0 : tree) (v_parent : key) (v_child_index : N) (v_new_child : key) : res (tree * ret) :=
  let v_parent_key := v_parent in
  l1 <- sm_index (t_children t0) v_parent_key ;;
  let v_child_count := N.of_nat (length l1) in
  if N.leb v_child_count v_child_index then Ok (t0, (RErr v_parent v_child_index v_child_count))
  else
  t1 <- st_set_parent t0 v_new_child (Some v_parent) ;;
  r2 <- st_vec_replace t1 v_parent_key v_child_index v_new_child ;;
  let t2 := fst r2 in
  let v_old_child := snd r2 in
  t3 <- st_set_parent t2 v_old_child None ;;
  t4 <- st_mark_dirty t3 v_parent ;;
  Ok (t4, (RKey v_old_child)).

Definition gen_remove_children_range (t0 : tree) (v_parent : key) (v_range_lo v_range_hi : N) : res (tree * ret) :=
  let v_parent_key := v_parent in
  d1 <- st_vec_drain t0 v_parent_key v_range_lo v_range_hi ;;
  let t1 := fst d1 in
  t4 <- st_for (snd d1) (fun t2 v_child =>
    t3 <- st_set_parent t2 v_child None ;;
    Ok t3) t1 ;;
  t5 <- st_mark_dirty t4 v_parent ;;
  Ok (t5, RUnit).

Definition gen_set_children (t0 : tree) (v_parent : key) (v_children : list key) : res (tree * ret) :=
  let v_parent_key := v_parent in
  l1 <- sm_index (t_children t0) v_parent_key ;;
  t3 <- st_for l1 (fun t1 v_child =>
    t2 <- st_set_parent t1 v_child None ;;
    Ok t2) t0 ;;
  t8 <- st_for v_children (fun t4 v_child =>
    o2 <- sm_index (t_parents t4) v_child ;;
    t6 <- match o2 with
      | Some v_previous_parent =>
          x3 <- gen_remove_child t4 v_previous_parent v_child ;;
          t5 <- unwrap_ret x3 ;;
          Ok t5
      | None => Ok t4
      end ;;
    t7 <- st_set_parent t6 v_child (Some v_parent) ;;
    Ok t7) t3 ;;
  _ <- sm_index (t_children t8) v_parent_key ;;
  t9 <- st_vec_clear t8 v_parent_key ;;
  t12 <- st_for v_children (fun t10 v_child =>
    t11 <- st_push_child t10 v_parent_key v_child ;;
    Ok t11) t9 ;;
  t13 <- st_mark_dirty t12 v_parent ;;
  Ok (t13, RUnit).

Definition gen_remove (t0 : tree) (v_node : key) : res (tree * ret) :=
  let v_key := v_node in
  o1 <- sm_index (t_parents t0) v_key ;;
  t3 <- match o1 with
    | Some v_parent =>
        t1 <- st_get_mut_retain_ne t0 v_parent v_node ;;
        t2 <- st_mark_dirty t1 v_parent ;;
        Ok t2
    | None => Ok t0
    end ;;
  t7 <- match sm_get (t_children t3) v_key with
    | Some v_children =>
        t6 <- st_for v_children (fun t4 v_child =>
          t5 <- st_set_parent t4 v_child None ;;
          Ok t5) t3 ;;
        Ok t6
    | None => Ok t3
    end ;;
  let t8 := st_remove_children t7 v_key in
  let t9 := st_remove_parents t8 v_key in
  let t10 := st_remove_nodes t9 v_key in
  Ok (t10, (RKey v_node)).

Definition gen_new_leaf (t0 : tree) : res (tree * ret) :=
  let r1 := st_insert_nodes t0 false in
  let t1 := fst r1 in
  let v_id := snd r1 in
  let t2 := st_insert_children t1 [] in
  let t3 := st_insert_parents t2 None in
  Ok (t3, (RKey v_id)).

Definition gen_new_with_children (t0 : tree) (v_children : list key) : res (tree * ret) :=
  let r1 := st_insert_nodes t0 false in
  let t1 := fst r1 in
  let v_id := snd r1 in
  t4 <- st_for v_children (fun t2 v_child =>
    t3 <- st_set_parent t2 v_child (Some v_id) ;;
    Ok t3) t1 ;;
  let t5 := st_insert_children t4 v_children in
  let t6 := st_insert_parents t5 None in
  Ok (t6, (RKey v_id)).
