(* The two sources of the weak grid style relation `gstyle_wrel k` (Model/GridAlgRel.v):
     gwrel_of_rel     every length scaled by k > 0 (C04)                                    gstyle_rel k s s' -> gstyle_wrel k s s'
     gbb_weak         the content-box -> border-box rewrite of an eligible, not compressible-replaced style, at k = 1 (C12)
                                                                                             gbb_rel s s' -> gstyle_wrel 1 s s'
   and, as their first closure, the container preprocessing of compute_grid_layout (`grid_pre`, l.50-138):
     grid_pre_homogeneous, grid_pre_box_sizing_blind.
   Method as in Proofs/FlexStyleRel.v / Proofs/FlexBoxSizing.v: one lemma per site; the rewrite = the site at k = 1 for the same style
   composed with "the site of the rewritten style is the site of the original at the same arguments" (idiom_rmm). *)
From Coq Require Import QArith Qabs Lqa Bool List ZArith Lia.
From TV Require Import Num.Num Num.QNum Model.Common Model.Leaf Model.Root Model.BoxSizing Gen.GridTracksGen Model.GridTracks Model.FlexBase.
From TV Require Import Model.GridAlgBase Model.GridAlg Model.FlexAlgBase Model.FlexAlgRel Model.GridAlgRel.
From TV Require Import Model.Scale Model.ScaleGrid Model.Engine Model.EngineRel.
From TV Require Model.AbsPosBase Gen.AbsPosEnums Gen.AbsPosGen Model.ScaleAbs Proofs.ScaleAbsProofs Model.BoxSizingAbs Proofs.BoxSizingAbsProofs Proofs.LeafAxis.
From TV Require Import Proofs.ScalePrim Proofs.ScaleKit Proofs.ScaleProofs Proofs.ScaleGrid Proofs.BoxSizingProofs Proofs.FlexStyleRel Proofs.FlexBoxSizing.
Import ListNotations.
Close Scope Z_scope.

Ltac gstyle_open H :=
  destruct H as (Hcore & Hinset & Htc & Htr & Hac & Har_ & Eflow & Hgap & Eai & Eji & Eac & Ejc & Erow & Ecol & Eas & Ejs & Erep).
Ltac core_open H :=
  destruct H as (Edisp & Epos & Ebs & Eov & Hsw & Hsize & Hmin & Hmax & Har & Hmargin & Hpad & Hbor).
Ltac apk X k Hk := first [apply (X k Hk) | apply (X k)].
Ltac fin_open H := destruct H as (Emode & Esizing & Eaxis & Hknown & Hparent & Havail & Ecoll).

Section Sites.
  Variable k : Q.
  Hypothesis Hk : (0 < k)%Q.
  Notation L := (sc k).
  Notation O := (op_rel (sc k)).
  Notation A := (av_rel (sc k)).

  Lemma rel_bs_triple c c' pbs pbs' ctx ctx' : style_rel k c c' -> sz_rel L pbs pbs' -> sz_rel O ctx ctx' ->
    triple_rel k (bs_triple c pbs ctx) (bs_triple c' pbs' ctx').
  Proof.
    intros Hc Hpb Hctx. core_open Hc. unfold bs_triple, triple_rel. cbn [fst snd]. rewrite Ebs.
    assert (Radj : sz_rel L (match box_sizing c with ContentBox => pbs | BorderBox => size_ZERO end)
                            (match box_sizing c with ContentBox => pbs' | BorderBox => size_ZERO end))
      by (destruct (box_sizing c); [apk rel_size_ZERO k Hk|exact Hpb]).
    repeat split; apk rel_resolved_min_max k Hk; assumption.
  Qed.

  Lemma rel_item_resolved c c' ctx ctx' : style_rel k c c' -> sz_rel O ctx ctx' -> triple_rel k (item_resolved c ctx) (item_resolved c' ctx').
  Proof.
    intros Hc Hctx. pose proof Hc as Hc0. core_open Hc. unfold item_resolved. apply rel_bs_triple; [exact Hc0| |exact Hctx].
    apk rel_sum_axes k Hk. apk rel_rect_add k Hk; apk rel_rect_lp_size k Hk; assumption.
  Qed.

  Lemma rel_dims_definite c c' ax ctx ctx' : style_rel k c c' -> O ctx ctx' -> dims_definite c' ax ctx' = dims_definite c ax ctx.
  Proof.
    intros Hc Hctx. core_open Hc. unfold dims_definite, dim_definite.
    assert (H1 : O (maybe_resolve_dim (get_ax (size c) ax) ctx) (maybe_resolve_dim (get_ax (size c') ax) ctx'))
      by (apk rel_maybe_resolve_dim k Hk; [destruct ax; apply Hsize|exact Hctx]).
    assert (H2 : O (maybe_resolve_dim (get_ax (max_size c) ax) ctx) (maybe_resolve_dim (get_ax (max_size c') ax) ctx'))
      by (apk rel_maybe_resolve_dim k Hk; [destruct ax; apply Hmax|exact Hctx]).
    destruct (maybe_resolve_dim (get_ax (size c) ax) ctx), (maybe_resolve_dim (get_ax (size c') ax) ctx'); cbn in H1; try contradiction;
      destruct (maybe_resolve_dim (get_ax (max_size c) ax) ctx), (maybe_resolve_dim (get_ax (max_size c') ax) ctx'); cbn in H2; try contradiction;
      reflexivity.
  Qed.

  Lemma rel_replaced_caps c c' ax : style_rel k c c' ->
    O (fst (replaced_caps c ax)) (fst (replaced_caps c' ax)) /\ O (snd (replaced_caps c ax)) (snd (replaced_caps c' ax)).
  Proof.
    intros Hc. core_open Hc. unfold replaced_caps. cbn [fst snd].
    split; apk rel_maybe_resolve_dim k Hk; try (cbn; apply sc_zero); destruct ax; first [apply Hsize|apply Hmax].
  Qed.

  Lemma ga_lpa_rel d d' : lpa_rel k d d' -> ScaleAbs.dim_rel k (a_lpa d) (a_lpa d').
  Proof. destruct d, d'; cbn; auto. Qed.
  Lemma ga_lp_rel d d' : lp_rel k d d' -> ScaleAbs.dim_rel k (a_lp d) (a_lp d').
  Proof. destruct d, d'; cbn; auto. Qed.
  Lemma ga_size_rel {X Y} (R : X -> X -> Prop) (R' : Y -> Y -> Prop) (f : X -> Y) s s' :
    (forall x x', R x x' -> R' (f x) (f x')) -> sz_rel R s s' -> ScaleAbs.asz_rel R' (a_size (size_map f s)) (a_size (size_map f s')).
  Proof. intros Hf [H1 H2]. split; cbn; apply Hf; assumption. Qed.
  Lemma ga_rect_rel {X Y} (R : X -> X -> Prop) (R' : Y -> Y -> Prop) (f : X -> Y) r r' :
    (forall x x', R x x' -> R' (f x) (f x')) -> rc_rel R r r' -> ScaleAbs.arc_rel R' (a_rect (rect_map f r)) (a_rect (rect_map f r')).
  Proof. intros Hf (H1 & H2 & H3 & H4). repeat split; cbn; apply Hf; assumption. Qed.

  Lemma rel_gabs_style s s' : gstyle_rel k s s' -> ScaleAbs.absstyle_rel k (abs_style s) (abs_style s').
  Proof.
    intros Hs. gstyle_open Hs. core_open Hcore. unfold ScaleAbs.absstyle_rel, abs_style.
    cbn [AbsPosBase.st_size AbsPosBase.st_min_size AbsPosBase.st_max_size AbsPosBase.st_inset AbsPosBase.st_margin
         AbsPosBase.st_padding AbsPosBase.st_border AbsPosBase.st_aspect_ratio AbsPosBase.st_box_sizing AbsPosBase.st_align_self
         AbsPosBase.st_justify_self AbsPosBase.st_position].
    rewrite Ebs, Eas, Ejs, Epos.
    repeat match goal with |- _ /\ _ => split end; try reflexivity; try assumption;
      first [apply (ga_size_rel (lpa_rel k)); [apply ga_lpa_rel|assumption]
            |apply (ga_rect_rel (lpa_rel k)); [apply ga_lpa_rel|assumption]
            |apply (ga_rect_rel (lp_rel k)); [apply ga_lp_rel|assumption]].
  Qed.

  (* ---- compute_grid_layout l.50-138: grid_pre as a function of the resolved padding / border, the resolved (size, min, max) and the gutter *)
  Definition pre_of (pad bor : Rect XQ) (t : Size (option XQ) * Size (option XQ) * Size (option XQ)) (sizing : SizingMode) (gutter : Point XQ)
             (known : Size (option XQ)) (avail : Size (AvailableSpace XQ)) : @Pre XQ :=
    let pb := rect_add pad bor in
    let pbs := sum_axes pb in
    let mn := snd (fst t) in
    let mx := snd t in
    let pref := match sizing with InherentSize => fst (fst t) | ContentSize => size_NONE end in
    let inset := mkRect (r_left pb) (r_right pb + px gutter)%num (r_top pb) (r_bottom pb + py gutter)%num in
    let kp := size_or known pref in
    let cas := size_zip_map (@maybe_max_af XQ _)
                 (size_zip_map3 (@maybe_clamp_ao XQ _)
                    (size_zip_map (fun o a => match o with Some v => Types.Definite v | None => a end) kp avail) mn mx) pbs in
    let grid_avail := mkSize (avail_map_definite_value (width cas) (fun space => space - horizontal_axis_sum inset)%num)
                             (avail_map_definite_value (height cas) (fun space => space - vertical_axis_sum inset)%num) in
    let outer := size_maybe_max_of (size_maybe_clamp_oo kp mn mx) pbs in
    let inner := mkSize (option_map (fun space => space - horizontal_axis_sum inset)%num (width outer))
                        (option_map (fun space => space - vertical_axis_sum inset)%num (height outer)) in
    mkPre pad bor pbs mn mx pref gutter inset grid_avail outer inner.

  Definition pre_gutter (c : Style XQ) : Point XQ :=
    point_map (fun o => match o with Scroll => scrollbar_width c | _ => zero end) (point_transpose (overflow c)).

  Lemma grid_pre_shape s i :
    grid_pre s i = let c := gs_core s in
                   let pad := rect_resolve_or_zero_lp (padding c) (width (gi_parent i)) in
                   let bor := rect_resolve_or_zero_lp (border c) (width (gi_parent i)) in
                   pre_of pad bor (bs_triple c (sum_axes (rect_add pad bor)) (gi_parent i)) (gi_sizing i) (pre_gutter c) (gi_known i) (gi_avail i).
  Proof. unfold grid_pre, pre_of, bs_triple, pre_gutter. cbn [fst snd]. destruct (gi_sizing i); reflexivity. Qed.

  Lemma rel_pre_of pad pad' bor bor' t t' sizing gutter gutter' known known' avail avail' :
    rc_rel L pad pad' -> rc_rel L bor bor' -> triple_rel k t t' -> pt_rel L gutter gutter' -> sz_rel O known known' -> sz_rel A avail avail' ->
    pre_rel k (pre_of pad bor t sizing gutter known avail) (pre_of pad' bor' t' sizing gutter' known' avail').
  Proof.
    intros Hpad Hbor Ht Hg Hkn Hav. destruct t as [[sz mn] mx], t' as [[sz' mn'] mx']. destruct Ht as (Hsz & Hmn & Hmx). cbn [fst snd] in *.
    unfold pre_of, pre_rel. cbn [fst snd p_padding p_border p_pb_size p_min p_max p_pref p_gutter p_inset p_grid_avail p_outer p_inner].
    destruct sizing; unfold_lifts; hm k Hk.
    all: apk rel_maybe_max_af k Hk; [apk rel_maybe_clamp_ao k Hk; try assumption|hm k Hk].
    all: match goal with |- A (match ?o with Some _ => _ | None => _ end) (match ?o' with Some _ => _ | None => _ end) =>
           let Ho := fresh in assert (Ho : O o o') by (apply rel_opt_or; [assumption|first [assumption|exact I]]);
           destruct o, o'; cbn [op_rel] in Ho; try contradiction; [apply rel_Definite; exact Ho|assumption] end.
  Qed.

  Lemma rel_pre_gutter c c' : overflow c' = overflow c -> L (scrollbar_width c) (scrollbar_width c') -> pt_rel L (pre_gutter c) (pre_gutter c').
  Proof.
    intros Eov Hsw. unfold pre_gutter. rewrite Eov. unfold_lifts. split; match goal with |- context [match ?o with Visible => _ | _ => _ end] => destruct o end;
      first [exact Hsw|apply sc_zero].
  Qed.

  Lemma rel_grid_pre s s' i i' : gstyle_rel k s s' -> fin_rel k i i' -> pre_rel k (grid_pre s i) (grid_pre s' i').
  Proof.
    intros Hs Hi. gstyle_open Hs. pose proof Hcore as Hcore0. core_open Hcore. fin_open Hi. rewrite !grid_pre_shape. cbv zeta. rewrite Esizing.
    pose proof (proj1 Hparent) as Hpw.
    pose proof (rel_rect_lp k Hk _ _ _ _ Hpad Hpw) as Rpad. pose proof (rel_rect_lp k Hk _ _ _ _ Hbor Hpw) as Rbor.
    apply rel_pre_of; try assumption; [|apply rel_pre_gutter; assumption].
    apply rel_bs_triple; [exact Hcore0| |exact Hparent]. apk rel_sum_axes k Hk. apk rel_rect_add k Hk; assumption.
  Qed.

  (* ---- every length scaled => everything the grid algorithm reads is related *)
  Theorem gwrel_of_rel s s' : gstyle_rel k s s' -> gstyle_wrel k s s'.
  Proof.
    intros Hs. pose proof Hs as Hs0. gstyle_open Hs. pose proof Hcore as Hcore0. core_open Hcore. unfold gstyle_wrel. cbv zeta.
    repeat match goal with |- _ /\ _ => split end; try assumption.
    - intros i i' Hi. apply rel_grid_pre; assumption.
    - intros ax ctx ctx' Hctx. apply rel_dims_definite; assumption.
    - intros ctx ctx' Hctx. apply rel_item_resolved; assumption.
    - intros _ ax. apply rel_replaced_caps. exact Hcore0.
    - intros area area' Harea. apply (ScaleAbsProofs.rel_grid_resolve k Hk); [exact Harea|apply rel_gabs_style; exact Hs0].
  Qed.
End Sites.

(* ------------------------------------------------------------------------------------------------ k = 1: reflexivity, transitivity *)
Lemma sfn_rel1_refl f : sfn_rel 1 f f.
Proof. destruct f; cbn; first [exact I|apply s1_refl|apply dl_refl]. Qed.
Lemma nrt_rel1_refl t : nrt_rel 1 t t.
Proof. split; apply sfn_rel1_refl. Qed.
Lemma Forall2_refl {X} (R : X -> X -> Prop) l : (forall x, R x x) -> Forall2 R l l.
Proof. intros H. induction l; constructor; auto. Qed.
Lemma tsf_rel1_refl e : tsf_rel 1 e e.
Proof. destruct e; cbn; [apply nrt_rel1_refl|split; [reflexivity|apply Forall2_refl; apply nrt_rel1_refl]]. Qed.
Lemma gstyle_rel1_refl s : gstyle_rel 1 s s.
Proof.
  unfold gstyle_rel. repeat match goal with |- _ /\ _ => split end; try reflexivity; try apply style_rel1_refl;
    first [apply rc_refl; apply lpa1_refl | apply sz_refl; apply lp1_refl | apply Forall2_refl; apply tsf_rel1_refl
          | apply Forall2_refl; apply nrt_rel1_refl].
Qed.
Lemma triple_rel1_trans a b c : triple_rel 1 a b -> triple_rel 1 b c -> triple_rel 1 a c.
Proof.
  intros (A1 & A2 & A3) (B1 & B2 & B3). repeat split; eapply o1_trans; first [apply A1|apply A2|apply A3|apply B1|apply B2|apply B3].
Qed.

(* ------------------------------------------------------------------------------------------------ the sites of the rewritten style *)
Section Invariance.
  Notation L := (sc 1).
  Notation O := (op_rel (sc 1)).
  Variable s : GStyle XQ.
  Hypothesis El : g_eligibleb s = true.
  Notation tb := (g_to_border_box s).
  Notation c := (gs_core s).

  Lemma gel_core : eligible c.
  Proof. unfold g_eligibleb in El. apply andb_prop in El. exact (proj1 El). Qed.
  Lemma gel_not_replaced : gs_replaced s = false.
  Proof. unfold g_eligibleb in El. apply andb_prop in El. destruct (gs_replaced s); [destruct El; discriminate|reflexivity]. Qed.

  Ltac core_facts := destruct (eligible_parts c gel_core) as (Ebs & Ep & Eb & Ear & Esz & Emn & Emx).

  (* the resolved (size, min_size, max_size): the idiom, at related contexts *)
  Lemma inv_bs_triple pbs pbs' ctx ctx' : sz_rel L pbs (style_pb c) -> sz_rel O ctx ctx' ->
    triple_rel 1 (bs_triple c pbs ctx) (bs_triple (to_border_box c) pbs' ctx').
  Proof.
    intros Hpb Hctx. eapply triple_rel1_trans.
    - apply (rel_bs_triple 1 Q01 c c pbs pbs ctx ctx'); [apply style_rel1_refl|apply sz_refl; apply s1_refl|exact Hctx].
    - core_facts. unfold bs_triple, triple_rel. cbn [fst snd to_border_box box_sizing size min_size max_size aspect_ratio]. rewrite Ebs, Ear.
      repeat split; apply (idiom_rmm _ ctx' _ _); assumption.
  Qed.

  Lemma inv_grid_pre i i' : fin_rel 1 i i' -> pre_rel 1 (grid_pre s i) (grid_pre tb i').
  Proof.
    intros Hi. fin_open Hi. core_facts. rewrite !grid_pre_shape. cbv zeta. rewrite Esizing.
    cbn [gs_core g_to_border_box]. cbn [to_border_box padding border].
    rewrite !(rect_lp_length_ctx (padding c) (width (gi_parent i')) (width (gi_parent i)) Ep),
            !(rect_lp_length_ctx (border c) (width (gi_parent i')) (width (gi_parent i)) Eb).
    apply (rel_pre_of 1 Q01); try assumption; try (apply rc_refl; apply s1_refl).
    - apply inv_bs_triple; [|exact Hparent].
      rewrite (rect_lp_length_ctx (padding c) (width (gi_parent i)) None Ep), (rect_lp_length_ctx (border c) (width (gi_parent i)) None Eb).
      unfold style_pb. apply sz_refl. apply s1_refl.
    - apply (rel_pre_gutter 1); [reflexivity|apply s1_refl].
  Qed.

  Lemma inv_item_resolved ctx ctx' : sz_rel O ctx ctx' -> triple_rel 1 (item_resolved c ctx) (item_resolved (to_border_box c) ctx').
  Proof.
    intros Hctx. core_facts. unfold item_resolved. apply inv_bs_triple; [|exact Hctx].
    rewrite (rect_lp_size_ctx (padding c) ctx Ep), (rect_lp_size_ctx (border c) ctx Eb). unfold style_pb. apply sz_refl. apply s1_refl.
  Qed.

  Lemma grow_dim_definite pb (d : Dimension XQ) ctx : dim_definite (grow_dim pb d) ctx = dim_definite d ctx.
  Proof. destruct d; reflexivity. Qed.
  Lemma inv_dims_definite ax ctx : dims_definite (to_border_box c) ax ctx = dims_definite c ax ctx.
  Proof.
    unfold dims_definite. cbn [to_border_box size max_size]. unfold grow_size. destruct ax; cbn [get_ax width height]; rewrite !grow_dim_definite; reflexivity.
  Qed.

  (* the adapter to the vocabulary of the translated kernel commutes with the rewrite (as Proofs/FlexBoxSizing.v for FStyle) *)
  Lemma ga_lpa_grow pb (d : Dimension XQ) : a_lpa (grow_dim pb d) = BoxSizingAbs.abs_grow_dim pb (a_lpa d).
  Proof. destruct d; reflexivity. Qed.
  Lemma ga_lp_resolve_none (d : LengthPercentage XQ) : AbsPosBase.dim_resolve_or_zero (a_lp d) None = resolve_or_zero_lp d None.
  Proof. destruct d; reflexivity. Qed.
  Lemma gabs_style_pb_eq : BoxSizingAbs.abs_style_pb (abs_style s) = a_size (style_pb c).
  Proof.
    unfold BoxSizingAbs.abs_style_pb, style_pb, abs_style, a_size, a_rect, sum_axes, horizontal_axis_sum, vertical_axis_sum, rect_add, rect_zip_map,
      rect_resolve_or_zero_lp, rect_map, AbsPosBase.rect_sum_axes, AbsPosBase.rect_horizontal_axis_sum, AbsPosBase.rect_vertical_axis_sum,
      AbsPosBase.rect_add, AbsPosBase.rect_map.
    cbn [AbsPosBase.st_padding AbsPosBase.st_border AbsPosBase.r_left AbsPosBase.r_right AbsPosBase.r_top AbsPosBase.r_bottom
         r_left r_right r_top r_bottom width height].
    rewrite !ga_lp_resolve_none. reflexivity.
  Qed.
  Lemma gabs_style_tb : abs_style tb = BoxSizingAbs.abs_to_border_box (abs_style s).
  Proof.
    unfold BoxSizingAbs.abs_to_border_box. rewrite gabs_style_pb_eq. unfold abs_style.
    cbn [gs_core gs_inset gs_align_self gs_justify_self g_to_border_box to_border_box
         display Leaf.position box_sizing overflow scrollbar_width size min_size max_size aspect_ratio margin padding border].
    unfold BoxSizingAbs.abs_grow_size, grow_size, a_size, size_map.
    cbn [AbsPosBase.st_size AbsPosBase.st_min_size AbsPosBase.st_max_size AbsPosBase.st_inset AbsPosBase.st_margin AbsPosBase.st_padding
         AbsPosBase.st_border AbsPosBase.st_aspect_ratio AbsPosBase.st_box_sizing AbsPosBase.st_align_self AbsPosBase.st_justify_self
         AbsPosBase.st_position AbsPosBase.s_width AbsPosBase.s_height width height].
    rewrite !ga_lpa_grow. reflexivity.
  Qed.
  Lemma gabs_style_eligible : BoxSizingAbs.abs_eligible (abs_style s).
  Proof.
    core_facts. unfold BoxSizingAbs.abs_eligible, BoxSizingAbs.abs_eligibleb, abs_style.
    cbn [AbsPosBase.st_size AbsPosBase.st_min_size AbsPosBase.st_max_size AbsPosBase.st_padding AbsPosBase.st_border
         AbsPosBase.st_aspect_ratio AbsPosBase.st_box_sizing].
    rewrite Ebs, Ear.
    assert (Hlen : forall d : LengthPercentage XQ, BoxSizingAbs.dim_is_length (a_lp d) = lp_is_length d) by (intros d; destruct d; reflexivity).
    assert (Hpct : forall d : Dimension XQ, BoxSizingAbs.abs_dim_not_percent (a_lpa d) = dim_not_percent d) by (intros d; destruct d; reflexivity).
    unfold BoxSizingAbs.abs_rect_forallb, BoxSizingAbs.abs_size_forallb, a_rect, a_size, rect_map, size_map.
    cbn [AbsPosBase.r_left AbsPosBase.r_right AbsPosBase.r_top AbsPosBase.r_bottom AbsPosBase.s_width AbsPosBase.s_height
         r_left r_right r_top r_bottom width height].
    rewrite !Hlen, !Hpct.
    unfold rect_forallb in Ep, Eb. unfold size_forallb in Esz, Emn, Emx. rewrite Ep, Eb.
    apply andb_true_intro; split; [apply andb_true_intro; split; [apply andb_true_intro; split; [reflexivity|exact Esz]|exact Emn]|exact Emx].
  Qed.
End Invariance.

(* ------------------------------------------------------------------------------------------------ the rewrite implies the weak relation *)
Theorem gbb_weak s s' : gbb_rel s s' -> gstyle_wrel 1 s s'.
Proof.
  intros [->|[El ->]]; [apply (gwrel_of_rel 1 Q01); apply gstyle_rel1_refl|].
  pose proof (gwrel_of_rel 1 Q01 s s (gstyle_rel1_refl s)) as W0.
  destruct W0 as (W1 & W2 & W3 & W4 & W5 & W6 & W7 & W8 & W9 & W10 & W11 & W12 & W13 & W14 & W15 & W16 & W17 & W18 & W19 & W20 & W21 &
                  Wpre & Wdef & Wres & Wcap & Wabs).
  unfold gstyle_wrel. cbv zeta.
  cbn [gs_core gs_inset gs_template_columns gs_template_rows gs_auto_columns gs_auto_rows gs_flow gs_gap gs_align_items gs_justify_items
       gs_align_content gs_justify_content gs_row gs_column gs_align_self gs_justify_self gs_replaced g_to_border_box].
  cbn [to_border_box display Leaf.position overflow scrollbar_width aspect_ratio margin].
  repeat match goal with |- _ /\ _ => split end; try assumption.
  - intros i i' Hi. apply inv_grid_pre; assumption.
  - intros ax ctx ctx' Hctx. change (mkStyle _ _ _ _ _ _ _ _ _ _ _ _) with (to_border_box (gs_core s)). rewrite inv_dims_definite. apply Wdef. exact Hctx.
  - intros ctx ctx' Hctx. change (mkStyle _ _ _ _ _ _ _ _ _ _ _ _) with (to_border_box (gs_core s)). apply inv_item_resolved; assumption.
  - intros Hr. rewrite (gel_not_replaced s El) in Hr. discriminate.
  - intros area area' Ha. eapply absin_rel1_trans; [apply Wabs; exact Ha|].
    change (mkGStyle _ _ _ _ _ _ _ _ _ _ _ _ _ _ _ _ _) with (g_to_border_box s). rewrite (gabs_style_tb s).
    apply absin_rel1_of_xeq. apply BoxSizingAbsProofs.grid_resolve_invariant. apply gabs_style_eligible. exact El.
Qed.

(* ------------------------------------------------------------------------------------------------ grid_pre: the two statements *)
Theorem grid_pre_homogeneous k s s' i i' : (0 < k)%Q -> gstyle_rel k s s' -> fin_rel k i i' -> pre_rel k (grid_pre s i) (grid_pre s' i').
Proof. intros Hk. apply rel_grid_pre. exact Hk. Qed.
Theorem grid_pre_box_sizing_blind s s' i i' : gbb_rel s s' -> fin_rel 1 i i' -> pre_rel 1 (grid_pre s i) (grid_pre s' i').
Proof. intros Hs Hi. destruct (gbb_weak s s' Hs) as (_ & _ & _ & _ & _ & _ & _ & _ & _ & _ & _ & _ & _ & _ & _ & _ & _ & _ & _ & _ & _ & Wpre & _). apply Wpre. exact Hi. Qed.
