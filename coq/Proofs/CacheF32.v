(* Reflexivity laws needed by C02_store_hit / C02_hit_persists for the binary32 instance (Flocq):
   x == x unless x is NaN;  |x - x| < EPSILON for finite x  (x - x is a zero; inf - inf is NaN). *)
From Coq Require Import ZArith Reals Bool Lra.
From Flocq Require Import Core.Core IEEE754.BinarySingleNaN.
From TV Require Import Num.Num Num.F32 Gen.CacheGen Model.Cache Proofs.CacheProofs.

Lemma f32_eqb_refl : forall x : f32, f_is_nan x = false -> eqb x x = true.
Proof.
  intros x Hx. change (Beqb x x = true). rewrite Beqb_refl. unfold f_is_nan in Hx. rewrite Hx. reflexivity.
Qed.

(* no `Eval vm_compute` of a float into a definition: the normal form of its boundedness proof is huge and makes
   Print Assumptions crawl; vm_compute is only used on booleans *)
Lemma eps32_finite : BinarySingleNaN.is_finite (@epsilon f32 F32Num) = true.
Proof. vm_compute. reflexivity. Qed.

Lemma eps32_pos : Rlt_bool 0 (B2R (@epsilon f32 F32Num)) = true.
Proof.
  pose proof (Bltb_correct 24 128 (B754_zero false) (@epsilon f32 F32Num) eq_refl eps32_finite) as L.
  change (B2R (B754_zero false)) with 0%R in L. rewrite <- L. vm_compute. reflexivity.
Qed.

Lemma f32_roughly_refl : forall x : f32, BinarySingleNaN.is_finite x = true -> roughly x x = true.
Proof.
  intros x Fx. unfold roughly.
  change (f_ltb (f_abs (f_sub x x)) (@epsilon f32 F32Num) = true). unfold f_ltb, f_abs, f_sub.
  pose proof (Bminus_correct 24 128 prec32 emax32 NE x x Fx Fx) as C.
  replace (B2R x - B2R x)%R with 0%R in C by lra.
  rewrite round_0 in C by (apply valid_rnd_round_mode).
  rewrite Rabs_R0 in C.
  rewrite Rlt_bool_true in C by (apply bpow_gt_0).
  destruct C as (Cv & Cf & _).
  rewrite Bltb_correct; [| rewrite is_finite_Babs; exact Cf | exact eps32_finite].
  rewrite B2R_Babs, Cv, Rabs_R0.
  exact eps32_pos.
Qed.

Lemma f32_refl_key : forall k : key f32,
  refl_key (fun x => f_is_nan x = false) (fun x => BinarySingleNaN.is_finite x = true) k -> self_compat k.
Proof. apply refl_key_self_compat; [exact f32_eqb_refl | exact f32_roughly_refl]. Qed.
