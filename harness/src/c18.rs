//! C18: CompactLength encoding.  Kinds 0..=7 = length, percent, fr, fit_content_px, fit_content_percent, auto,
//! min_content, max_content (value = f32 bit pattern); kind 8 = calc(pointer).
use crate::rng::Rng;
use taffy::style_helpers::TaffyFitContent;
use taffy::{CompactLength, LengthPercentage};

fn word(c: CompactLength) -> u64 {
    // CompactLength is repr(transparent) over a 64-bit tagged pointer
    unsafe { core::mem::transmute::<CompactLength, u64>(c) }
}

pub fn build(kind: u64, v: u32) -> CompactLength {
    let f = f32::from_bits(v);
    match kind {
        0 => CompactLength::length(f),
        1 => CompactLength::percent(f),
        2 => CompactLength::fr(f),
        3 => CompactLength::fit_content_px(f),
        4 => CompactLength::fit_content_percent(f),
        5 => CompactLength::auto(),
        6 => CompactLength::min_content(),
        7 => CompactLength::max_content(),
        _ => unreachable!(),
    }
}

pub fn predmask(c: CompactLength) -> u64 {
    let ps = [
        c.is_calc(),
        c.is_zero(),
        c.is_length_or_percentage(),
        c.is_auto(),
        c.is_min_content(),
        c.is_max_content(),
        c.is_fit_content(),
        c.is_max_or_fit_content(),
        c.is_max_content_alike(),
        c.is_min_or_max_content(),
        c.is_intrinsic(),
        c.is_fr(),
        c.uses_percentage(),
    ];
    ps.iter().enumerate().map(|(i, b)| (*b as u64) << i).sum()
}

fn interesting_bits(rng: &mut Rng) -> u32 {
    const EDGE: [u32; 16] = [
        0, 0x8000_0000, 1, 0x7f80_0000, 0xff80_0000, 0x7fc0_0000, 0x7fc0_0001, 0xffff_ffff, 0x7f7f_ffff, 0x0080_0000,
        0x3f80_0000, 0xbf80_0000, 0x0000_00ff, 0xff00_0000, 0x0000_0007, 0x4248_0000,
    ];
    match rng.below(6) {
        0 => *rng.pick(&EDGE),
        1 => 1u32 << rng.below(32),
        2 => (1u32 << rng.below(32)) | (1u32 << rng.below(32)),
        3 => !(1u32 << rng.below(32)),
        4 => (rng.next() as u32) & 0x7fff_ffff | 0x7f80_0000, // NaN / inf classes
        _ => rng.next() as u32,
    }
}

fn interesting_ptr(rng: &mut Rng) -> u64 {
    match rng.below(8) {
        0 => 0,
        1 => 8,
        2 => rng.next() & !7,                         // aligned, any high bits
        3 => rng.next(),                              // mostly misaligned
        4 => (rng.next() & 0x0000_7fff_ffff_fff8) | 8, // user-space-like aligned
        5 => (1u64 << rng.below(64)) & !7,
        6 => u64::MAX & !7,
        _ => {
            // a real 8-aligned allocation
            let b = Box::new(0u64);
            let p = Box::into_raw(b) as u64;
            unsafe { drop(Box::from_raw(p as *mut u64)) };
            p
        }
    }
}

fn case_line(kind: u64, v: u64) -> String {
    if kind < 8 {
        let c = build(kind, v as u32);
        let fit = if kind < 2 {
            let lp = if kind == 0 { LengthPercentage::length(f32::from_bits(v as u32)) } else { LengthPercentage::percent(f32::from_bits(v as u32)) };
            word(CompactLength::fit_content(lp))
        } else {
            0
        };
        format!("C {} {}\nR {} {} {} {} {}", kind, v, word(c), c.tag(), c.value().to_bits(), predmask(c), fit)
    } else {
        let r = std::panic::catch_unwind(|| CompactLength::calc(v as *const ()));
        match r {
            Ok(c) => format!("C 8 {}\nR 1 {} {} {} {}", v, word(c), c.is_calc() as u64, c.calc_value() as u64, c.tag()),
            Err(_) => format!("C 8 {}\nR 0 0 0 0 0", v),
        }
    }
}

/// exhaustive (stride 1) or strided sweep of all bit patterns x valued constructors: direct statement of the property
fn sweep(stride: u64, offset: u64) {
    let expected_tag = [
        CompactLength::LENGTH_TAG,
        CompactLength::PERCENT_TAG,
        CompactLength::FR_TAG,
        CompactLength::FIT_CONTENT_PX_TAG,
        CompactLength::FIT_CONTENT_PERCENT_TAG,
    ];
    let nthreads = 16u64;
    let handles: Vec<_> = (0..nthreads)
        .map(|t| {
            std::thread::spawn(move || {
                let mut fails: Vec<String> = vec![];
                let mut n = 0u64;
                let mut v = offset + t * stride;
                while v <= u32::MAX as u64 {
                    for kind in 0..5u64 {
                        let c = build(kind, v as u32);
                        n += 1;
                        let ok = c.value().to_bits() == v as u32
                            && c.tag() == expected_tag[kind as usize]
                            && !c.is_calc()
                            && c.is_length_or_percentage() == (kind < 2)
                            && c.is_fr() == (kind == 2)
                            && c.is_fit_content() == (kind == 3 || kind == 4)
                            && !c.is_auto()
                            && !c.is_min_content()
                            && !c.is_max_content()
                            && c.is_intrinsic() == (kind == 3 || kind == 4)
                            && c.uses_percentage() == (kind == 1 || kind == 4)
                            && c.is_zero() == (kind == 0 && v == 0);
                        if !ok && fails.len() < 3 {
                            fails.push(format!("FAIL {} {}", kind, v));
                        }
                    }
                    v += stride * nthreads;
                }
                (n, fails)
            })
        })
        .collect();
    // calc handles: every non-null 8-aligned pointer is recognised, returned intact and not confused with a non-calc kind
    {
        let noncalc = [
            CompactLength::LENGTH_TAG,
            CompactLength::PERCENT_TAG,
            CompactLength::AUTO_TAG,
            CompactLength::FR_TAG,
            CompactLength::MIN_CONTENT_TAG,
            CompactLength::MAX_CONTENT_TAG,
            CompactLength::FIT_CONTENT_PX_TAG,
            CompactLength::FIT_CONTENT_PERCENT_TAG,
        ];
        let mut rng = crate::rng::Rng::new(offset ^ 0xCA1C);
        let mut shown = 0;
        for k in 1..=40_000u64 {
            let p: u64 = if k <= 20_000 { k * 8 } else { (rng.next() & !7).max(8) };
            let r = std::panic::catch_unwind(|| CompactLength::calc(p as *const ()));
            let ok = match r {
                Ok(c) => c.is_calc() && c.calc_value() as u64 == p && !noncalc.contains(&c.tag()) && c.uses_percentage() && !c.is_auto() && !c.is_length_or_percentage() && !c.is_fr(),
                Err(_) => false,
            };
            if !ok && shown < 3 {
                println!("FAIL 8 {}", p);
                shown += 1;
            }
        }
    }
    let mut total = 40_000;
    for h in handles {
        let (n, f) = h.join().unwrap();
        total += n;
        for l in f {
            println!("{l}");
        }
    }
    println!("SWEEP {total}");
}

pub fn main(args: &[String]) {
    std::panic::set_hook(Box::new(|_| {}));
    match args[0].as_str() {
        "cases" => {
            let seed: u64 = args[1].parse().unwrap();
            let n: u64 = args[2].parse().unwrap();
            let mut rng = Rng::new(seed);
            // fixed corpus first: every kind on the edge patterns
            for kind in 0..8u64 {
                for v in [0u32, 0x8000_0000, 0x7fc0_0001, 0xffff_ffff, 0x3f80_0000] {
                    println!("{}", case_line(kind, v as u64));
                }
            }
            for p in [0u64, 8, 16, 7, 0xffff_ffff_ffff_fff8, 0x1_0000_0000, 0x7f00_0000_0100, 1 << 63] {
                println!("{}", case_line(8, p));
            }
            for _ in 0..n {
                if rng.chance(1, 5) {
                    let p = interesting_ptr(&mut rng);
                    println!("{}", case_line(8, p));
                } else {
                    let kind = rng.below(8);
                    let v = interesting_bits(&mut rng);
                    println!("{}", case_line(kind, v as u64));
                }
            }
        }
        "one" => {
            let kind: u64 = args[1].parse().unwrap();
            let v: u64 = args[2].parse().unwrap();
            println!("{}", case_line(kind, v));
        }
        "sweep" => {
            let stride: u64 = args[1].parse().unwrap();
            let offset: u64 = args.get(2).map(|s| s.parse().unwrap()).unwrap_or(0);
            sweep(stride, offset);
        }
        _ => {
            eprintln!("c18: unknown command");
            std::process::exit(2);
        }
    }
}
