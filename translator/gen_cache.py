"""Translate the table part of src/tree/cache.rs into Gallina (coq/Gen/CacheGen.v):

  * `const CACHE_SIZE: usize = N;`
  * the variant lists of `AvailableSpace` and `RunMode` (as the inductives `avail_kind` and `run_mode`)
  * `Cache::compute_cache_slot`: the `let x = known_dimensions.<axis>.is_some();` bindings, the early
    `if <bool> { return <usize>; }` statements and the final `match (available_space.width, available_space.height)`
    table, as   slot : bool -> bool -> avail_kind -> avail_kind -> N
    (has_known_width, has_known_height, kind of available width, kind of available height).
    `available_space.<axis> == MinContent` is the derived PartialEq of AvailableSpace against a field-less
    variant, i.e. a comparison of kinds; a comparison against `Definite(..)` is refused.

Everything else of the cache (get / store / clear / is_empty, AvailableSpace::is_roughly_equal) is hand-modelled in
coq/Model/Cache.v and tied by correspondence; the normalised token text of those bodies is fingerprinted here.
The generator refuses (raises) on any source form it does not recognise."""
import re
from rustparse import *

SRC = 'src/tree/cache.rs'
SRC_AVAIL = 'src/style/available_space.rs'
SRC_LAYOUT = 'src/tree/layout.rs'


class Refuse(Exception):
    pass


AXES = {'width': 'w', 'height': 'h'}
KIND = {'Definite': 'KDefinite', 'MinContent': 'KMinContent', 'MaxContent': 'KMaxContent'}


def enum_variants(toks, name):
    """[(variant, has_payload)] of `pub enum <name> { ... }` (attributes and doc comments skipped)."""
    for i in range(len(toks) - 2):
        if toks[i] == ('id', 'enum') and toks[i + 1] == ('id', name) and toks[i + 2][1] == '{':
            e = match_brace(toks, i + 2)
            body = toks[i + 3:e]
            out = []
            j = 0
            while j < len(body):
                if body[j][1] == '#':
                    j = match_brace(body, j + 1) + 1
                    continue
                if body[j][0] != 'id':
                    raise Refuse('enum %s: unexpected token %r' % (name, body[j][1]))
                v = body[j][1]
                j += 1
                payload = False
                if j < len(body) and body[j][1] in ('(', '{'):
                    payload = True
                    j = match_brace(body, j) + 1
                if j < len(body) and body[j][1] == '=':
                    raise Refuse('enum %s: explicit discriminant' % name)
                if j < len(body):
                    if body[j][1] != ',':
                        raise Refuse('enum %s: expected , after %s' % (name, v))
                    j += 1
                out.append((v, payload))
            return out
    raise Refuse('enum %s not found' % name)


def split_params(params):
    """Parameter names (rustparse.param_names does not count `>>` as two closing angle brackets)."""
    names, depth, cur = [], 0, []
    for t in list(params) + [('op', ',')]:
        if t[1] in ('(', '[', '{', '<'):
            depth += 1
        elif t[1] in (')', ']', '}', '>'):
            depth -= 1
        elif t[1] == '>>':
            depth -= 2
        if t[1] == ',' and depth == 0:
            if cur:
                ws = [x[1] for x in cur]
                if ':' not in ws or ws.index(':') != 1 or cur[0][0] != 'id':
                    raise Refuse('parameter form %r' % ' '.join(ws))
                names.append(ws[0])
            cur = []
        else:
            cur.append(t)
    return names


class SlotEmitter:
    """compute_cache_slot body -> Gallina term of type N over hw hh : bool, aw ah : avail_kind."""

    def __init__(self, kd, av):
        self.kd, self.av = kd, av
        self.env = {}          # rust local -> (type, coq term)

    def axis_of(self, e, base):
        # <base>.<axis>
        if e[0] == 'field' and e[1] == ('path', [base]) and e[2] in AXES:
            return AXES[e[2]]
        return None

    def boolean(self, e):
        k = e[0]
        if k == 'path' and len(e[1]) == 1 and e[1][0] in self.env and self.env[e[1][0]][0] == 'bool':
            return self.env[e[1][0]][1]
        if k == 'lit' and e[1] in ('true', 'false'):
            return e[1]
        if k == 'un' and e[1] == '!':
            return '(negb %s)' % self.boolean(e[2])
        if k == 'bin' and e[1] in ('&&', '||'):
            return '(%s %s %s)' % ('andb' if e[1] == '&&' else 'orb', self.boolean(e[2]), self.boolean(e[3]))
        if k == 'mcall' and e[2] in ('is_some', 'is_none') and not e[3]:
            ax = self.axis_of(e[1], self.kd)
            if ax is None:
                raise Refuse('is_some/is_none on something other than %s.<axis>' % self.kd)
            return 'h' + ax if e[2] == 'is_some' else '(negb h%s)' % ax
        if k == 'bin' and e[1] in ('==', '!='):
            l, r = e[2], e[3]
            ax = self.axis_of(l, self.av)
            if ax is None:
                l, r = r, l
                ax = self.axis_of(l, self.av)
            if ax is None:
                raise Refuse('comparison that is not <%s.axis> == <variant>' % self.av)
            if r[0] != 'path' or r[1][-1] not in ('MinContent', 'MaxContent') or r[1][:-1] not in ([], ['AvailableSpace']):
                raise Refuse('available space compared with something other than a field-less variant')
            t = '(avail_kind_eqb a%s %s)' % (ax, KIND[r[1][-1]])
            return t if e[1] == '==' else '(negb %s)' % t
        raise Refuse('boolean expression of kind %s not recognised' % k)

    def usize(self, e):
        k = e[0]
        if k == 'lit' and re.match(r'^[0-9]+$', e[1]):
            return e[1]
        if k == 'path' and len(e[1]) == 1 and e[1][0] in self.env and self.env[e[1][0]][0] == 'usize':
            return self.env[e[1][0]][1]
        if k == 'bin' and e[1] in ('+', '*'):
            return '(%s %s %s)' % (self.usize(e[2]), e[1], self.usize(e[3]))
        if k == 'cast' and e[2].replace(' ', '') == 'usize':
            return '(bool_as_usize %s)' % self.boolean(e[1])
        if k == 'if':
            if e[3] is None:
                raise Refuse('if without else in value position')
            els = e[3] if e[3][0] == 'block' else ('block', [], e[3], [])
            return '(if %s then %s else %s)' % (self.boolean(e[1]), self.block(e[2]), self.block(els))
        if k == 'block':
            return self.block(e)
        if k == 'match':
            return self.match(e)
        raise Refuse('usize expression of kind %s not recognised' % k)

    def pat_kind(self, p):
        if p[0] == 'pwild':
            return '_'
        if p[0] == 'por':
            return '(%s)' % ' | '.join(self.pat_kind(q) for q in p[1])
        if p[0] == 'ppath' and p[1][-1] in ('MinContent', 'MaxContent') and p[1][:-1] in ([], ['AvailableSpace']):
            return KIND[p[1][-1]]
        if p[0] == 'pts' and p[1][-1] == 'Definite' and p[1][:-1] in ([], ['AvailableSpace']) and p[2] == [('pwild',)]:
            return 'KDefinite'
        raise Refuse('match pattern %r not recognised' % (p,))

    def match(self, e):
        scrut, arms = e[1], e[2]
        if scrut[0] != 'tuple':
            scrut = ('tuple', [scrut])
        vs = []
        for s in scrut[1]:
            ax = self.axis_of(s, self.av)
            if ax is None:
                raise Refuse('match scrutinee is not a tuple of %s.<axis>' % self.av)
            vs.append('a' + ax)
        out = ['match %s with' % ', '.join(vs)]
        for pat, guard, ex, attrs in arms:
            if guard is not None or attrs:
                raise Refuse('match arm with guard / attribute')
            ps = pat[1] if pat[0] == 'ptuple' else [pat]
            if pat[0] == 'pwild' and len(vs) > 1:
                ps = [('pwild',)] * len(vs)
            if len(ps) != len(vs):
                raise Refuse('match arm arity')
            out.append('  | %s => %s' % (', '.join(self.pat_kind(p) for p in ps), self.usize(ex)))
        out.append('  end')
        return '\n  '.join(out)

    def block(self, b):
        """[use ...;] [let x = bool;]* [if c { return e; }]* tail"""
        if b[0] != 'block':
            raise Refuse('expected block')
        saved = dict(self.env)
        wrap = []
        for st in b[1]:
            if st[0] == 'item':
                if not st[1].startswith('use AvailableSpace ::'):
                    raise Refuse('item statement %r' % st[1][:40])
                continue
            if len(st) > 2 and st[-1]:
                raise Refuse('attribute on a statement of compute_cache_slot')
            if st[0] == 'let':
                if st[1][0] != 'pident' or st[2] is None:
                    raise Refuse('let pattern')
                try:
                    self.env[st[1][1]] = ('bool', self.boolean(st[2]))
                except Refuse:
                    self.env[st[1][1]] = ('usize', self.usize(st[2]))
                continue
            if st[0] == 'expr' and st[1][0] == 'if':
                _, c, th, el = st[1]
                if el is not None:
                    raise Refuse('statement-level if with else')
                inner = [s for s in th[1] if s[0] != 'item']
                ret = None
                if len(inner) == 1 and th[2] is None and inner[0][0] == 'expr' and inner[0][1][0] == 'return':
                    ret = inner[0][1][1]
                elif not inner and th[2] is not None and th[2][0] == 'return':
                    ret = th[2][1]
                if ret is None:
                    raise Refuse('`if` statement whose body is not a single `return e;`')
                wrap.append('if %s then %s else' % (self.boolean(c), self.usize(ret)))
                continue
            if st[0] == 'expr' and st[1][0] == 'return' and st is b[1][-1] and b[2] is None:
                b = ('block', b[1][:-1], st[1][1], [])
                break
            raise Refuse('statement kind %s not recognised' % (st[1][0] if st[0] == 'expr' else st[0]))
        if b[2] is None:
            raise Refuse('block without value')
        if b[3]:
            raise Refuse('attribute on the tail expression')
        tail = b[2][1] if b[2][0] == 'return' else b[2]
        t = self.usize(tail)
        self.env = saved
        if not wrap:
            return t
        return '(' + '\n  '.join(wrap + [t]) + ')'


def generate(repo):
    src = open(repo + '/' + SRC).read()
    toks = tokenize(src)
    fps = {}
    out = []
    w = out.append
    w('(* GENERATED on every run by /verif/translator/gen_cache.py from %s -- do not edit. *)' % SRC)
    w('From Coq Require Import NArith Bool List.')
    w('Import ListNotations.')
    w('Open Scope N_scope.')

    # ---- CACHE_SIZE
    cs = [i for i in range(len(toks) - 6) if seq_at(toks, i, ['const', 'CACHE_SIZE', ':', 'usize', '='])]
    if len(cs) != 1 or toks[cs[0] + 6][1] != ';':
        raise Refuse('const CACHE_SIZE: usize = <literal>; not found exactly once')
    lit = parse_expr(toks[cs[0] + 5:cs[0] + 6])
    if lit[0] != 'lit' or not re.match(r'^[0-9]+$', lit[1]):
        raise Refuse('CACHE_SIZE is not a decimal literal')
    w('Definition CACHE_SIZE : N := %s.' % lit[1])
    # the array type of measure_entries must use it
    if not re.search(r'measure_entries:\s*\[Option<CacheEntry<Size<f32>>>;\s*CACHE_SIZE\]', src):
        raise Refuse('measure_entries is no longer [Option<CacheEntry<Size<f32>>>; CACHE_SIZE]')

    # ---- enums
    av_src = open(repo + '/' + SRC_AVAIL).read()
    av_toks = tokenize(av_src)
    av = enum_variants(av_toks, 'AvailableSpace')
    if sorted(av) != sorted([('Definite', True), ('MinContent', False), ('MaxContent', False)]):
        raise Refuse('AvailableSpace variants changed: %r' % av)
    w('(* enum AvailableSpace, payloads dropped *)')
    w('Inductive avail_kind := %s.' % ' | '.join(KIND[v] for v, _ in av))
    w('Definition avail_kind_eqb (a b : avail_kind) : bool :=')
    w('  match a, b with %s | _, _ => false end.' % ' '.join('| %s, %s => true' % (KIND[v], KIND[v]) for v, _ in av))
    lay_toks = tokenize(open(repo + '/' + SRC_LAYOUT).read())
    rm = enum_variants(lay_toks, 'RunMode')
    if any(p for _, p in rm) or sorted(v for v, _ in rm) != sorted(['PerformLayout', 'ComputeSize', 'PerformHiddenLayout']):
        raise Refuse('RunMode variants changed: %r' % rm)
    w('(* enum RunMode *)')
    w('Inductive run_mode := %s.' % ' | '.join(v for v, _ in rm))
    w('Definition bool_as_usize (b : bool) : N := if b then 1 else 0.   (* `bool as usize` *)')

    # ---- compute_cache_slot
    params, body, _ = find_fn(toks, 'compute_cache_slot')
    names = split_params(params)
    if len(names) != 2:
        raise Refuse('compute_cache_slot takes %d parameters' % len(names))
    ptxt = norm_tokens(params).replace('>>', '> >')
    if 'Size < Option < f32 > >' not in ptxt or 'Size < AvailableSpace >' not in ptxt:
        raise Refuse('compute_cache_slot parameter types changed: %s' % ptxt)
    fps['Cache::compute_cache_slot'] = norm_tokens(body)
    em = SlotEmitter(names[0], names[1])
    term = em.block(parse_block(body))
    w('(* fn compute_cache_slot(%s, %s): hw/hh = %s.width/height.is_some(), aw/ah = kind of %s.width/height *)'
      % (names[0], names[1], names[0], names[1]))
    w('Definition slot (hw hh : bool) (aw ah : avail_kind) : N :=\n  %s.' % term)

    # ---- fingerprints of the hand-modelled bodies
    impl = [i for i in range(len(toks)) if seq_at(toks, i, ['impl', 'Cache', '{'])]
    if len(impl) != 1:
        raise Refuse('expected exactly one `impl Cache {`')
    ib = impl[0] + 2
    ie = match_brace(toks, ib)
    meth = toks[ib:ie + 1]
    for fn in ['new', 'get', 'store', 'clear', 'is_empty']:
        p, b, _ = find_fn(meth, fn)
        fps['Cache::' + fn] = norm_tokens(p) + ' => ' + norm_tokens(b)
    # the fields the model mirrors
    sb = [i for i in range(len(toks)) if seq_at(toks, i, ['pub', 'struct', 'Cache', '{'])]
    if len(sb) != 1:
        raise Refuse('struct Cache not found')
    fps['struct Cache'] = norm_tokens(toks[sb[0]:match_brace(toks, sb[0] + 3) + 1])
    p, b, _ = find_fn(av_toks, 'is_roughly_equal')
    fps['AvailableSpace::is_roughly_equal'] = norm_tokens(p) + ' => ' + norm_tokens(b)
    p, b, _ = find_fn(lay_toks, 'from_outer_size')
    fps['LayoutOutput::from_outer_size'] = norm_tokens(p) + ' => ' + norm_tokens(b)
    return '\n'.join(out) + '\n', fps


TARGETS = {'CacheGen.v': generate}
