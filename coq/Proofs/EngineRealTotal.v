(* Fuel sufficiency of the engine skeleton over a CACHE INTERFACE (Model/EngineReal.v `gmemo`; its instances: `memo_real` with the real
   cache of src/tree/cache.rs, Model/BlockEngineReal.v blr_memo, Model/TaffyEngineReal.v trl_memo) -- Proofs/EngineTotal.v replayed: for
   every algorithm that addresses only existing children (Bounded), any fuel >= the height of the tree makes `gmemo` succeed, for every
   cache implementation (get / lossy / store / clear are arbitrary functions), cache content, counters and input. *)
From Coq Require Import List Bool Arith NArith Lia.
From TV Require Import Model.Engine Model.EngineReal Proofs.EngineMemo Proofs.EngineTotal.
Import ListNotations.

Section GTotal.
  Variables (S In Out Lay : Type).
  Variable mode : In -> RunMode.
  Variable is_none : S -> bool.
  Variable hidden_out : Out.
  Variable zero_lay : Lay.
  Variable algo : S -> list S -> In -> Alg In Out Lay.
  Variable mcalls : S -> list S -> In -> N.
  Variable C : Type.
  Variable cget : C -> In -> option Out.
  Variable clossy : C -> In -> bool.
  Variable cstore : C -> In -> Out -> C.
  Variable cclear : C -> C.

  Notation gtree := (gtree S Lay C).
  Notation gmemo := (gmemo S In Out Lay mode is_none hidden_out zero_lay algo mcalls C cget clossy cstore cclear).
  Notation grun_memo := (grun_memo S In Out Lay C).
  Notation gskel := (gskel S Lay C).
  Notation ghide := (ghide S Lay zero_lay C cclear).
  Notation gset_lay := (gset_lay S Lay C).
  Notation gstyle := (gstyle S Lay C).

  Definition gheight (t : gtree) : nat := sheight S (gskel t).

  Lemma gheight_node s c l n kids : gheight (GNode S Lay C s c l n kids) = Datatypes.S (list_max (map gheight kids)).
  Proof. unfold gheight. cbn. rewrite map_map. reflexivity. Qed.

  Definition gev_skel (ev : gtree -> In -> option (Out * gtree)) : Prop :=
    forall t i o t', ev t i = Some (o, t') -> gskel t' = gskel t.

  Lemma gskel_set_lay (t : gtree) l : gskel (gset_lay t l) = gskel t.
  Proof. destruct t; reflexivity. Qed.

  Lemma map_gskel_replace n (x : gtree) kids t :
    nth_error kids n = Some t -> gskel x = gskel t -> map gskel (replace_nth n x kids) = map gskel kids.
  Proof.
    revert kids. induction n as [|n IH]; intros [|a r] Hn Hx; try discriminate; cbn in *.
    - injection Hn as ->. rewrite Hx. reflexivity.
    - unfold replace_nth in *. cbn. f_equal. apply IH; assumption.
  Qed.

  Lemma grun_memo_skel ev : gev_skel ev ->
    forall a kids o kids', grun_memo ev kids a = Some (o, kids') -> map gskel kids' = map gskel kids.
  Proof.
    intros Hev. induction a as [o0|c i k IH|c l k IH]; intros kids o kids' H; cbn in H.
    - injection H as _ <-. reflexivity.
    - destruct (nth_error kids c) as [t|] eqn:En; [|discriminate].
      destruct (ev t i) as [[o1 t1]|] eqn:Ee; [|discriminate].
      apply IH in H. rewrite H. apply (map_gskel_replace c t1 kids t En). eapply Hev; eauto.
    - destruct (nth_error kids c) as [t|] eqn:En; [|discriminate].
      apply IH in H. rewrite H. apply (map_gskel_replace c _ kids t En). apply gskel_set_lay.
  Qed.

  Lemma gskel_hide' (t : gtree) : gskel (ghide t) = gskel t.
  Proof.
    revert t. fix IH 1. intros [s c l n kids]. cbn. f_equal. rewrite map_map.
    induction kids as [|x r IHr]; cbn; [reflexivity|]. rewrite IH, IHr. reflexivity.
  Qed.

  Lemma gmemo_skel : forall f, gev_skel (gmemo f).
  Proof.
    induction f as [|f IH]; intros t i o t' H; [discriminate|].
    destruct t as [s c l n kids]. cbn in H.
    destruct (mode i) eqn:Em.
    - destruct (cget c i) as [o1|]; [injection H as _ <-; reflexivity|].
      destruct (is_none s).
      + injection H as _ <-. cbn. f_equal. rewrite map_map. apply map_ext. intro. apply gskel_hide'.
      + destruct (grun_memo (gmemo f) kids _) as [[o1 kids1]|] eqn:Er; [|discriminate].
        injection H as _ <-. cbn. f_equal. eapply grun_memo_skel; eauto.
    - destruct (cget c i) as [o1|]; [injection H as _ <-; reflexivity|].
      destruct (is_none s).
      + injection H as _ <-. cbn. f_equal. rewrite map_map. apply map_ext. intro. apply gskel_hide'.
      + destruct (grun_memo (gmemo f) kids _) as [[o1 kids1]|] eqn:Er; [|discriminate].
        injection H as _ <-. cbn. f_equal. eapply grun_memo_skel; eauto.
    - injection H as _ <-. apply (gskel_hide' (GNode S Lay C s c l n kids)).
  Qed.

  Hypothesis algo_bounded : forall s st i, Bounded In Out Lay (length st) (algo s st i).

  Lemma grun_memo_total f :
    (forall t i, gheight t <= f -> exists o t', gmemo f t i = Some (o, t')) ->
    forall a kids, Bounded In Out Lay (length kids) a -> Forall (fun k => gheight k <= f) kids ->
      exists o kids', grun_memo (gmemo f) kids a = Some (o, kids').
  Proof.
    intros Hev. induction a as [o0|c i k IH|c l k IH]; intros kids HB HF; cbn.
    - eauto.
    - inversion HB as [|c' i' k' Hc Hk|]; subst.
      destruct (nth_error kids c) as [t|] eqn:En; [|apply nth_error_None in En; lia].
      assert (Ht : gheight t <= f) by (rewrite Forall_forall in HF; apply HF; eapply nth_error_In; eauto).
      destruct (Hev t i Ht) as [o1 [t1 E1]]. rewrite E1.
      apply IH.
      + rewrite (length_replace_nth _ _ _ _ En). apply Hk.
      + apply Forall_replace_nth; [exact HF|].
        unfold gheight. rewrite (gmemo_skel f t i o1 t1 E1). exact Ht.
    - inversion HB as [| |c' l' k' Hc Hk]; subst.
      destruct (nth_error kids c) as [t|] eqn:En; [|apply nth_error_None in En; lia].
      assert (Ht : gheight t <= f) by (rewrite Forall_forall in HF; apply HF; eapply nth_error_In; eauto).
      apply IH.
      + rewrite (length_replace_nth _ _ _ _ En). exact Hk.
      + apply Forall_replace_nth; [exact HF|]. unfold gheight. rewrite gskel_set_lay. exact Ht.
  Qed.

  Theorem gmemo_total : forall f t i, gheight t <= f -> exists o t', gmemo f t i = Some (o, t').
  Proof.
    induction f as [|f IH]; intros t i Hh.
    - destruct t as [s c l n kids]. rewrite gheight_node in Hh. lia.
    - destruct t as [s c l n kids]. rewrite gheight_node in Hh. cbn.
      destruct (mode i); try (eexists; eexists; reflexivity);
        (destruct (cget c i); [eexists; eexists; reflexivity|]);
        (destruct (is_none s); [eexists; eexists; reflexivity|]).
      + destruct (grun_memo_total f IH (algo s (map gstyle kids) i) kids) as [o [kids' E]].
        * rewrite <- (map_length gstyle kids). apply algo_bounded.
        * apply Forall_forall. intros x Hx.
          assert (H1 : list_max (map gheight kids) <= f) by lia.
          apply list_max_le in H1. rewrite Forall_forall in H1. apply H1. apply in_map. exact Hx.
        * rewrite E. eauto.
      + destruct (grun_memo_total f IH (algo s (map gstyle kids) i) kids) as [o [kids' E]].
        * rewrite <- (map_length gstyle kids). apply algo_bounded.
        * apply Forall_forall. intros x Hx.
          assert (H1 : list_max (map gheight kids) <= f) by lia.
          apply list_max_le in H1. rewrite Forall_forall in H1. apply H1. apply in_map. exact Hx.
        * rewrite E. eauto.
  Qed.
End GTotal.
