(* C04 -- homogeneity ("related tracks in, related tracks out") of the 11.5 distribution KERNELS of Model/GridIntrinsic.v
   and of the small track helpers of Model/GridAlg.v that Proofs/ScaleGrid.v does not cover, over XQ, k > 0.

   The two absolute constants of the distribution kernels (THRESHOLD = 0.01 of distribute_space_up_to_limits and
   0.000001 of distribute_item_space_to_base_size) are lengths that the code does NOT scale: the kernels that go
   through them are homogeneous only under the hypotheses
       Hthr  : sc k threshold threshold          Hthr2 : sc k base_threshold base_threshold
   which hold at k = 1 (`thr_one`, `base_thr_one` after the section) and fail for every other k (the known finding: the
   grid THRESHOLD is absolute).  Lemmas that do not touch a threshold do not depend on them. *)
From Coq Require Import QArith Qabs Lqa Bool List ZArith NArith Lia.
From TV Require Import Num.Num Num.QNum Gen.GridTracksGen Model.GridTracks Model.GridIntrinsic Model.GridAlg Model.ScaleGrid.
From TV Require Import Proofs.ScaleKit Proofs.ScaleGrid Proofs.ScaleProofs.
Import ListNotations.
Local Open Scope Q_scope.

Section Kernels.
  Variable k : Q.
  Hypothesis Hk : 0 < k.
  Hypothesis Hthr : sc k (threshold (T := XQ)) threshold.
  Hypothesis Hthr2 : sc k (base_threshold (T := XQ)) base_threshold.
  Notation L := (sc k).
  Notation O := (op_rel (sc k)).

  (* ================================================================================================================
     1. setters, update_nth, on_slice *)
  Ltac upd := intros Ht; intros; track_open Ht; unfold track_rel; track_fields; repeat split; assumption.
  Lemma rel_set_limit_planned t t' v v' : track_rel k t t' -> L v v' -> track_rel k (set_limit_planned t v) (set_limit_planned t' v').
  Proof. unfold set_limit_planned. upd. Qed.
  Lemma rel_set_inf_growable t t' b : track_rel k t t' -> track_rel k (set_inf_growable t b) (set_inf_growable t' b).
  Proof. unfold set_inf_growable. intros Ht; track_open Ht; unfold track_rel; track_fields; repeat split; try assumption. Qed.

  Lemma rel_update_nth n f f' ts ts' :
    (forall t t', track_rel k t t' -> track_rel k (f t) (f' t')) -> tracks_rel k ts ts' ->
    tracks_rel k (update_nth n f ts) (update_nth n f' ts').
  Proof.
    intros Hf Hts. unfold tracks_rel in *. revert n. induction Hts as [|t t' l l' Ht Hl IH]; intros [|n]; cbn [update_nth]; constructor; auto.
  Qed.

  Lemma rel_item_slice (it : item XQ) ts ts' : tracks_rel k ts ts' -> tracks_rel k (item_slice it ts) (item_slice it ts').
  Proof. intros. unfold item_slice. apply rel_slice. assumption. Qed.

  Lemma rel_on_slice (it : item XQ) f f' ts ts' :
    (forall sl sl', tracks_rel k sl sl' -> tracks_rel k (f sl) (f' sl')) -> tracks_rel k ts ts' ->
    tracks_rel k (on_slice it f ts) (on_slice it f' ts').
  Proof.
    intros Hf Hts. unfold on_slice. apply rel_app; [apply rel_firstn; exact Hts|].
    apply rel_app; [apply Hf; apply rel_item_slice; exact Hts | apply rel_skipn; exact Hts].
  Qed.

  (* ================================================================================================================
     2. predicates *)
  Lemma rel_is_min_or_max_content f f' : sfn_rel k f f' -> is_min_or_max_content f' = is_min_or_max_content f.
  Proof. intros Hf. sfn_cases; reflexivity. Qed.
  Lemma rel_is_max_content_alike f f' : sfn_rel k f f' -> is_max_content_alike f' = is_max_content_alike f.
  Proof. intros Hf. sfn_cases; reflexivity. Qed.
  Lemma rel_uses_percentage f f' : sfn_rel k f f' -> uses_percentage f' = uses_percentage f.
  Proof. intros Hf. sfn_cases; reflexivity. Qed.
  Lemma rel_is_none (o o' : option XQ) : O o o' -> is_none o' = is_none o.
  Proof. destruct o, o'; cbn [op_rel]; intros; try contradiction; reflexivity. Qed.
  Lemma rel_has_definite_value inner inner' f f' :
    O inner inner' -> sfn_rel k f f' -> has_definite_value inner' f' = has_definite_value inner f.
  Proof. intros Hi Hf. sfn_cases; reflexivity. Qed.

  Lemma rel_has_intrinsic_min inner inner' t t' :
    O inner inner' -> track_rel k t t' -> has_intrinsic_min inner' t' = has_intrinsic_min inner t.
  Proof. intros Hi Ht. track_open Ht. unfold has_intrinsic_min. apply rel_is_none. apply rel_definite_value; assumption. Qed.
  Lemma rel_has_auto_min t t' : track_rel k t t' -> has_auto_min t' = has_auto_min t.
  Proof. intros Ht. track_open Ht. unfold has_auto_min. rewrite (rel_is_auto _ _ _ Hmin), (rel_is_min_content _ _ _ Hmax). reflexivity. Qed.
  Lemma rel_has_max_content_min t t' : track_rel k t t' -> has_max_content_min t' = has_max_content_min t.
  Proof. intros Ht. track_open Ht. unfold has_max_content_min. apply (rel_is_max_content k). assumption. Qed.
  Lemma rel_has_max_content_max inner inner' t t' :
    O inner inner' -> track_rel k t t' -> has_max_content_max inner' t' = has_max_content_max inner t.
  Proof.
    intros Hi Ht. track_open Ht. unfold has_max_content_max.
    rewrite (rel_is_max_content_alike _ _ Hmax), (rel_uses_percentage _ _ Hmax), (rel_is_none _ _ Hi). reflexivity.
  Qed.
  Lemma rel_has_intrinsic_sizing_function t t' : track_rel k t t' -> has_intrinsic_sizing_function t' = has_intrinsic_sizing_function t.
  Proof.
    intros Ht. track_open Ht. unfold has_intrinsic_sizing_function.
    rewrite (rel_is_intrinsic _ _ _ Hmin), (rel_is_intrinsic _ _ _ Hmax). reflexivity.
  Qed.
  Lemma rel_track_uses_percentage t t' : track_rel k t t' -> track_uses_percentage t' = track_uses_percentage t.
  Proof.
    intros Ht. track_open Ht. unfold track_uses_percentage. rewrite (rel_uses_percentage _ _ Hmax). f_equal.
    destruct (minf t), (minf t'); cbn [sfn_rel] in Hmin; try contradiction; reflexivity.
  Qed.
  Lemma rel_crosses p p' ix ts ts' : affected_inv k p p' -> tracks_rel k ts ts' -> crosses p' ix ts' = crosses p ix ts.
  Proof.
    intros Hp Hts. unfold crosses. apply (rel_existsb (track_rel k)); [exact Hp|]. apply rel_firstn. apply rel_skipn. exact Hts.
  Qed.

  (* the predicates as `affected_inv` (the shape the kernels take them in) *)
  Lemma aff_has_intrinsic_min inner inner' : O inner inner' -> affected_inv k (has_intrinsic_min inner) (has_intrinsic_min inner').
  Proof. intros Hi t t' Ht. apply rel_has_intrinsic_min; assumption. Qed.
  Lemma aff_has_auto_min : affected_inv k has_auto_min has_auto_min.
  Proof. exact rel_has_auto_min. Qed.
  Lemma aff_has_max_content_min : affected_inv k has_max_content_min has_max_content_min.
  Proof. exact rel_has_max_content_min. Qed.
  Lemma aff_has_max_content_max inner inner' : O inner inner' -> affected_inv k (has_max_content_max inner) (has_max_content_max inner').
  Proof. intros Hi t t' Ht. apply rel_has_max_content_max; assumption. Qed.
  Lemma aff_min_or_max_content_min :
    affected_inv k (fun t => is_min_or_max_content (minf t)) (fun t => is_min_or_max_content (minf t)).
  Proof. intros t t' Ht. track_open Ht. apply rel_is_min_or_max_content. assumption. Qed.
  Lemma aff_no_definite_max inner inner' :
    O inner inner' -> affected_inv k (fun t => negb (has_definite_value inner (maxf t))) (fun t => negb (has_definite_value inner' (maxf t))).
  Proof. intros Hi t t' Ht. track_open Ht. f_equal. apply rel_has_definite_value; assumption. Qed.
  Lemma aff_is_flexible : affected_inv k is_flexible is_flexible.
  Proof. intros t t' Ht. apply (rel_is_flexible k). exact Ht. Qed.
  Lemma aff_has_intrinsic_sizing_function : affected_inv k has_intrinsic_sizing_function has_intrinsic_sizing_function.
  Proof. exact rel_has_intrinsic_sizing_function. Qed.

  (* ================================================================================================================
     3. limits *)
  Lemma tfun_growth_limit : tfun_sc k growth_limit growth_limit.
  Proof. intros t t' Ht. track_open Ht. assumption. Qed.
  Lemma tfun_base_size : tfun_sc k base_size base_size.
  Proof. intros t t' Ht. track_open Ht. assumption. Qed.
  Lemma tfun_infinity : tfun_sc k (fun _ => infinity) (fun _ => infinity).
  Proof. intros t t' Ht. apply sc_infinity. Qed.
  Lemma tfun_fit_content_limit inner inner' : O inner inner' -> tfun_sc k (fit_content_limit inner) (fit_content_limit inner').
  Proof. intros Hi t t' Ht. apply rel_fit_content_limit; assumption. Qed.
  Lemma tfun_fit_content_limited_growth_limit inner inner' :
    O inner inner' -> tfun_sc k (fit_content_limited_growth_limit inner) (fit_content_limited_growth_limit inner').
  Proof. intros Hi t t' Ht. apply rel_fit_content_limited_growth_limit; assumption. Qed.
  Lemma rel_scroll_limit inner inner' (it : item XQ) : O inner inner' -> tfun_sc k (scroll_limit inner it) (scroll_limit inner' it).
  Proof.
    intros Hi. unfold scroll_limit. destruct (it_scroll it); [apply tfun_fit_content_limited_growth_limit; exact Hi | exact tfun_growth_limit].
  Qed.

  Lemma rel_spanned_track_limit inner inner' (it : item XQ) ts ts' :
    O inner inner' -> tracks_rel k ts ts' -> O (spanned_track_limit inner it ts) (spanned_track_limit inner' it ts').
  Proof.
    intros Hi Hts. unfold spanned_track_limit. pose proof (rel_item_slice it _ _ Hts) as Hs.
    set (sl := item_slice it ts) in *. set (sl' := item_slice it ts') in *.
    assert (Hd : forall t t', track_rel k t t' -> O (definite_limit inner (maxf t)) (definite_limit inner' (maxf t')))
      by (intros t t' Ht; track_open Ht; apply rel_definite_limit; assumption).
    rewrite (rel_forallb (track_rel k) (fun t => negb (is_none (definite_limit inner (maxf t))))
                         (fun t => negb (is_none (definite_limit inner' (maxf t)))) sl sl');
      [| intros t t' Ht; f_equal; apply rel_is_none; apply Hd; exact Ht | exact Hs].
    destruct (forallb _ sl); [|exact I]. cbn [op_rel]. apply rel_fsum. apply (rel_map (track_rel k) L); [|exact Hs].
    intros t t' Ht. specialize (Hd _ _ Ht).
    destruct (definite_limit inner (maxf t)), (definite_limit inner' (maxf t')); cbn [op_rel] in Hd; try contradiction; auto using sc_zero.
  Qed.

  Lemma rel_spanned_fixed_track_limit inner inner' (it : item XQ) ts ts' :
    O inner inner' -> tracks_rel k ts ts' -> O (spanned_fixed_track_limit inner it ts) (spanned_fixed_track_limit inner' it ts').
  Proof.
    intros Hi Hts. unfold spanned_fixed_track_limit. pose proof (rel_item_slice it _ _ Hts) as Hs.
    set (sl := item_slice it ts) in *. set (sl' := item_slice it ts') in *.
    assert (Hd : forall t t', track_rel k t t' -> O (definite_value inner (maxf t)) (definite_value inner' (maxf t')))
      by (intros t t' Ht; track_open Ht; apply rel_definite_value; assumption).
    rewrite (rel_forallb (track_rel k) (fun t => match definite_value inner (maxf t) with Some _ => true | None => false end)
                         (fun t => match definite_value inner' (maxf t) with Some _ => true | None => false end) sl sl');
      [| intros t t' Ht; specialize (Hd _ _ Ht);
         destruct (definite_value inner (maxf t)), (definite_value inner' (maxf t')); cbn [op_rel] in Hd; try contradiction; reflexivity
       | exact Hs].
    destruct (forallb _ sl); [|exact I]. cbn [op_rel]. apply rel_fsum. apply (rel_map (track_rel k) L); [|exact Hs].
    intros t t' Ht. specialize (Hd _ _ Ht).
    destruct (definite_value inner (maxf t)), (definite_value inner' (maxf t')); cbn [op_rel] in Hd; try contradiction; auto using sc_zero.
  Qed.

  (* ================================================================================================================
     4. to_base (through distribute_item_space_to_base_size: both thresholds) *)
  Lemma rel_to_base flex uff (it : item XQ) sp sp' aff aff' lim lim' ct ts ts' :
    L sp sp' -> affected_inv k aff aff' -> tfun_sc k lim lim' -> tracks_rel k ts ts' ->
    tracks_rel k (to_base flex uff it sp aff lim ct ts) (to_base flex uff it sp' aff' lim' ct ts').
  Proof.
    intros Hsp Haff Hlim Hts. unfold to_base.
    rewrite (sc_ltb k _ _ _ _ Hk (sc_zero k) Hsp). destruct (ltb zero sp); [|exact Hts].
    apply rel_on_slice; [|exact Hts]. intros sl sl' Hsl.
    change (tracks_rel k (distribute_item_space_to_base_size_t threshold base_threshold flex uff sp sl aff lim ct)
                         (distribute_item_space_to_base_size_t threshold base_threshold flex uff sp' sl' aff' lim' ct)).
    apply distribute_item_space_to_base_size_homog; assumption.
  Qed.

  (* ================================================================================================================
     5. the flushes *)
  Lemma rel_flush_planned_base ts ts' : tracks_rel k ts ts' -> tracks_rel k (flush_planned_base ts) (flush_planned_base ts').
  Proof.
    intros Hts. apply (rel_map (track_rel k) (track_rel k)); [|exact Hts]. intros t t' Ht. track_open Ht.
    apply rel_set_base_planned; [| apply sc_zero]. apply rel_set_base; [exact Ht | apply sc_add; assumption].
  Qed.

  Lemma rel_flush_planned_growth_limit_increases b ts ts' :
    tracks_rel k ts ts' -> tracks_rel k (flush_planned_growth_limit_increases b ts) (flush_planned_growth_limit_increases b ts').
  Proof.
    intros Hts. apply (rel_map (track_rel k) (track_rel k)); [|exact Hts]. intros t t' Ht. cbv zeta. track_open Ht.
    apply rel_set_limit_planned; [|apply sc_zero].
    rewrite (sc_ltb k _ _ _ _ Hk (sc_zero k) Hlp). destruct (ltb zero (limit_planned t)); apply rel_set_inf_growable; [|exact Ht].
    apply rel_set_limit; [exact Ht|].
    rewrite (sc_eqb_infinity k _ _ Hk Hgl). destruct (eqb (growth_limit t) infinity); apply sc_add; assumption.
  Qed.

  Lemma rel_fix_growth_limits ts ts' : tracks_rel k ts ts' -> tracks_rel k (fix_growth_limits ts) (fix_growth_limits ts').
  Proof.
    intros Hts. apply (rel_map (track_rel k) (track_rel k)); [|exact Hts]. intros t t' Ht. track_open Ht.
    rewrite (sc_ltb k _ _ _ _ Hk Hgl Hbase). destruct (ltb (growth_limit t) (base_size t)); [apply rel_set_limit|]; assumption.
  Qed.

  Lemma rel_finish_infinite_limits ts ts' : tracks_rel k ts ts' -> tracks_rel k (finish_infinite_limits ts) (finish_infinite_limits ts').
  Proof.
    intros Hts. apply (rel_map (track_rel k) (track_rel k)); [|exact Hts]. intros t t' Ht. track_open Ht.
    rewrite (sc_eqb_infinity k _ _ Hk Hgl). destruct (eqb (growth_limit t) infinity); [apply rel_set_limit|]; assumption.
  Qed.

  Lemma rel_span1_finish ts ts' : tracks_rel k ts ts' -> tracks_rel k (span1_finish ts) (span1_finish ts').
  Proof.
    intros Hts. apply (rel_map (track_rel k) (track_rel k)); [|exact Hts]. intros t t' Ht. cbv zeta.
    assert (H1 : track_rel k
              (if (zero <? limit_planned t)%num
               then set_limit t (if (growth_limit t =? infinity)%num then limit_planned t else fmax (growth_limit t) (limit_planned t))
               else t)
              (if (zero <? limit_planned t')%num
               then set_limit t' (if (growth_limit t' =? infinity)%num then limit_planned t' else fmax (growth_limit t') (limit_planned t'))
               else t')).
    { track_open Ht. rewrite (sc_ltb k _ _ _ _ Hk (sc_zero k) Hlp). destruct (ltb zero (limit_planned t)); [|exact Ht].
      apply rel_set_limit; [exact Ht|]. rewrite (sc_eqb_infinity k _ _ Hk Hgl).
      destruct (eqb (growth_limit t) infinity); [assumption | apply (sc_max k); assumption]. }
    match goal with H : track_rel k ?a ?a' |- _ =>
      lazymatch a with (if _ then _ else _) => set (t1 := a) in *; set (t1' := a') in * end end.
    assert (H2 : track_rel k (set_limit_planned (set_inf_growable t1 false) zero) (set_limit_planned (set_inf_growable t1' false) zero))
      by (apply rel_set_limit_planned; [apply rel_set_inf_growable; exact H1 | apply sc_zero]).
    set (t2 := set_limit_planned (set_inf_growable t1 false) zero) in *.
    set (t2' := set_limit_planned (set_inf_growable t1' false) zero) in *.
    track_open H2. rewrite (sc_ltb k _ _ _ _ Hk Hgl Hbase). destruct (ltb (growth_limit t2) (base_size t2)); [apply rel_set_limit|]; assumption.
  Qed.

  (* ================================================================================================================
     6. distribute_item_space_to_growth_limit / to_limit (through distribute_space_up_to_limits: THRESHOLD) *)
  Lemma tfun_limit_or_base : tfun_sc k limit_or_base limit_or_base.
  Proof.
    intros t t' Ht. track_open Ht. unfold limit_or_base. rewrite (sc_eqb_infinity k _ _ Hk Hgl).
    destruct (eqb (growth_limit t) infinity); assumption.
  Qed.

  Lemma rel_distribute_item_space_to_growth_limit inner inner' sp sp' ts ts' aff aff' :
    O inner inner' -> L sp sp' -> affected_inv k aff aff' -> tracks_rel k ts ts' ->
    tracks_rel k (distribute_item_space_to_growth_limit inner sp ts aff) (distribute_item_space_to_growth_limit inner' sp' ts' aff').
  Proof.
    intros Hi Hsp Haff Hts. unfold distribute_item_space_to_growth_limit.
    rewrite (sc_eqb k _ _ zero zero Hk Hsp (sc_zero k)),
            (rel_length (track_rel k) _ _ (rel_filter (track_rel k) _ _ _ _ Haff Hts)).
    destruct ((sp =? zero)%num || Nat.eqb (length (filter aff ts)) 0)%bool; [exact Hts|]. cbv zeta.
    assert (Hex : L (fmax zero (sp - fsum (map limit_or_base ts))%num) (fmax zero (sp' - fsum (map limit_or_base ts'))%num)).
    { apply (sc_max k); [exact Hk | apply sc_zero | apply sc_sub; [exact Hsp|]]. apply rel_fsum.
      apply (rel_map (track_rel k) L); [exact tfun_limit_or_base | exact Hts]. }
    set (ex := fmax zero (sp - fsum (map limit_or_base ts))%num) in *.
    set (ex' := fmax zero (sp' - fsum (map limit_or_base ts'))%num) in *.
    set (grows := fun t : track XQ => (aff t && (infinitely_growable t || (fit_content_limited_growth_limit inner t =? infinity)%num))%bool).
    set (grows' := fun t : track XQ => (aff' t && (infinitely_growable t || (fit_content_limited_growth_limit inner' t =? infinity)%num))%bool).
    assert (Hgr : affected_inv k grows grows').
    { intros t t' Ht. unfold grows, grows'. rewrite (Haff _ _ Ht). track_open Ht. rewrite Eig.
      rewrite (sc_eqb_infinity k _ _ Hk (rel_fit_content_limited_growth_limit k Hk _ _ _ _ Hi Ht)). reflexivity. }
    apply (rel_map (track_rel k) (track_rel k)).
    { intros t t' Ht. track_open Ht. rewrite (sc_ltb k _ _ _ _ Hk Hlp Hinc).
      apply rel_set_incurred; [|apply sc_zero]. destruct (ltb (limit_planned t) (incurred t)); [apply rel_set_limit_planned|]; assumption. }
    rewrite (rel_length (track_rel k) _ _ (rel_filter (track_rel k) _ _ _ _ Hgr Hts)).
    destruct (length (filter grows ts)) as [|n] eqn:En.
    - change (tracks_rel k (snd (distribute_space_up_to_limits_t threshold ex ts aff (fun _ => one) limit_or_base (fit_content_limit inner)))
                           (snd (distribute_space_up_to_limits_t threshold ex' ts' aff' (fun _ => one) limit_or_base (fit_content_limit inner')))).
      apply (distribute_space_up_to_limits_homog k Hk threshold threshold Hthr aff aff' (fun _ => one) (fun _ => one)
               limit_or_base limit_or_base (fit_content_limit inner) (fit_content_limit inner') Haff);
        [intros ? ? ?; apply dl_one | exact tfun_limit_or_base | apply tfun_fit_content_limit; exact Hi | exact Hex | exact Hts].
    - apply (rel_map (track_rel k) (track_rel k)); [|exact Hts]. intros t t' Ht. cbv beta.
      pose proof (Hgr _ _ Ht) as Eg. unfold grows, grows' in Eg. cbv beta in Eg. rewrite Eg.
      match goal with |- track_rel k (if ?b then _ else _) _ => destruct b end; [|exact Ht]. apply rel_set_incurred; [exact Ht|].
      apply (sc_div_dl k); [exact Hk | exact Hex | apply dl_of_Z].
  Qed.

  Lemma rel_to_limit inner inner' (it : item XQ) sp sp' aff aff' ts ts' :
    O inner inner' -> L sp sp' -> affected_inv k aff aff' -> tracks_rel k ts ts' ->
    tracks_rel k (to_limit inner it sp aff ts) (to_limit inner' it sp' aff' ts').
  Proof.
    intros Hi Hsp Haff Hts. unfold to_limit.
    rewrite (sc_ltb k _ _ _ _ Hk (sc_zero k) Hsp). destruct (ltb zero sp); [|exact Hts].
    apply rel_on_slice; [|exact Hts]. intros sl sl' Hsl. apply rel_distribute_item_space_to_growth_limit; assumption.
  Qed.

  (* ================================================================================================================
     7. helpers of Model/GridAlg.v *)
  Lemma rel_all_some (l l' : list (option XQ)) : Forall2 O l l' -> op_rel (Forall2 L) (all_some l) (all_some l').
  Proof.
    intros Hl. induction Hl as [|o o' l l' Ho Hl IH]; cbn [all_some op_rel]; [constructor|].
    destruct o, o'; cbn [op_rel] in Ho; try contradiction; [|exact I].
    destruct (all_some l), (all_some l'); cbn [op_rel] in IH |- *; try contradiction; [|exact I]. constructor; assumption.
  Qed.
  Lemma rel_osum (l l' : list (option XQ)) : Forall2 O l l' -> O (osum l) (osum l').
  Proof.
    intros Hl. unfold osum. pose proof (rel_all_some _ _ Hl) as H.
    destruct (all_some l), (all_some l'); cbn [op_rel option_map] in H |- *; try contradiction; [|exact I]. apply rel_fsum. exact H.
  Qed.

  Lemma rel_track_estimate fp t t' p p' : O p p' -> track_rel k t t' -> O (track_estimate fp t p) (track_estimate fp t' p').
  Proof. intros Hp Ht. track_open Ht. unfold track_estimate. destruct fp; [apply rel_definite_value; assumption | exact Hbase]. Qed.
  Lemma rel_adj_at a a' i : L a a' -> L (adj_at a i) (adj_at a' i).
  Proof. intros Ha. unfold adj_at. destruct (Nat.even i && Nat.leb 2 i)%bool; [exact Ha | apply sc_zero]. Qed.

  Lemma rel_compute_alignment_gutter_adjustment al inner inner' fp ts ts' :
    O inner inner' -> tracks_rel k ts ts' ->
    L (compute_alignment_gutter_adjustment al inner fp ts) (compute_alignment_gutter_adjustment al inner' fp ts').
  Proof.
    intros Hi Hts. unfold compute_alignment_gutter_adjustment. rewrite (rel_length (track_rel k) _ _ Hts).
    destruct (Nat.leb (length ts) 1); [apply sc_zero|]. destruct (Nat.eqb (inner_gutter_weight al) 0); [apply sc_zero|].
    destruct inner as [s|], inner' as [s'|]; cbn [op_rel] in Hi; try contradiction; [|apply sc_zero].
    apply (sc_mul_dl k); [exact Hk | | apply dl_of_Z]. apply (sc_div_dl k); [exact Hk | | apply dl_of_Z].
    assert (Ho : O (osum (map (fun t => track_estimate fp t (Some s)) ts)) (osum (map (fun t => track_estimate fp t (Some s')) ts'))).
    { apply rel_osum. apply (rel_map (track_rel k) O); [|exact Hts]. intros t t' Ht. apply rel_track_estimate; [exact Hi | exact Ht]. }
    destruct (osum (map (fun t => track_estimate fp t (Some s)) ts)), (osum (map (fun t => track_estimate fp t (Some s')) ts'));
      cbn [op_rel] in Ho; try contradiction; [|apply sc_zero].
    apply (sc_max k); [exact Hk | apply sc_zero | apply sc_sub; assumption].
  Qed.

  Lemma rel_reresolve_percent c c' ts ts' : L c c' -> tracks_rel k ts ts' -> tracks_rel k (reresolve_percent c ts) (reresolve_percent c' ts').
  Proof.
    intros Hc Hts. apply (rel_map (track_rel k) (track_rel k)); [|exact Hts]. intros t t' Ht. cbv zeta. track_open Ht.
    assert (Hp : forall f f', sfn_rel k f f' ->
                   O (match f with SPercent v => Some (v * c)%num | _ => None end) (match f' with SPercent v => Some (v * c')%num | _ => None end)).
    { intros f f' Hf. destruct f, f'; cbn [sfn_rel] in Hf; try contradiction; cbn [op_rel]; try exact I.
      apply (sc_dl_mul k); assumption. }
    apply rel_set_base; [exact Ht|]. apply (rel_maybe_clamp_fo k Hk); [exact Hbase | apply Hp; exact Hmin | apply Hp; exact Hmax].
  Qed.
End Kernels.

(* the threshold hypotheses hold at k = 1 (and only there: Proofs/ScaleGrid.v, maximise_tracks_not_homogeneous) *)
Lemma thr_one : sc 1 (threshold (T := XQ)) threshold.
Proof. apply dl_sc1. apply dl_refl. Qed.
Lemma base_thr_one : sc 1 (base_threshold (T := XQ)) base_threshold.
Proof. apply dl_sc1. apply dl_refl. Qed.
