//! C08 / C03(placement): whole-API correspondence and direct oracle for grid placement through the public
//! `TaffyTree::detailed_layout_info`.
//!
//! A case is a grid container with `ec` x `er` explicit fixed-size tracks, an auto-flow mode and a list of leaf
//! children `(kind, row_start, row_end, col_start, col_end)`; kind 0 = in flow, 1 = display:none, 2 = position:absolute
//! (placement must skip 1 and 2, the size estimate sees all of them); a placement is `(tag, value)`, tag 0 = auto,
//! 1 = line(value), 2 = span(value).
//!
//! `C ec er flow n (kind rs_t rs_v re_t re_v cs_t cs_v ce_t ce_v)*n`
//! `R 1 (row_start row_end col_start col_end)*in_flow  rneg rexp rpos cneg cexp cpos`   reported 1-based lines, source order
//! `R 0`                                                                                   panic
//! The `C` line is flushed before the layout runs, so a hang / abort is attributed to the last `C` without `R`.
use crate::rng::Rng;
use std::io::Write;
use taffy::prelude::*;
use taffy::{DetailedLayoutInfo, GridPlacement};

#[derive(Clone, Debug, PartialEq)]
pub struct Child {
    pub kind: i64,
    /// row start, row end, col start, col end as (tag, value)
    pub p: [(i64, i64); 4],
}

#[derive(Clone, Debug, PartialEq)]
pub struct Case {
    pub ec: i64,
    pub er: i64,
    pub flow: i64,
    pub children: Vec<Child>,
}

impl Case {
    pub fn ints(&self) -> Vec<i64> {
        let mut v = vec![self.ec, self.er, self.flow, self.children.len() as i64];
        for c in &self.children {
            v.push(c.kind);
            for (t, x) in c.p {
                v.push(t);
                v.push(x);
            }
        }
        v
    }
    pub fn from_ints(v: &[i64]) -> Case {
        let n = v[3] as usize;
        let mut children = vec![];
        for i in 0..n {
            let b = 4 + 9 * i;
            let mut p = [(0, 0); 4];
            for k in 0..4 {
                p[k] = (v[b + 1 + 2 * k], v[b + 2 + 2 * k]);
            }
            children.push(Child { kind: v[b], p });
        }
        Case { ec: v[0], er: v[1], flow: v[2], children }
    }
    pub fn line(&self) -> String {
        self.ints().iter().map(|x| x.to_string()).collect::<Vec<_>>().join(" ")
    }
}

fn gp(p: (i64, i64)) -> GridPlacement {
    match p.0 {
        0 => GridPlacement::Auto,
        1 => GridPlacement::from_line_index(p.1 as i16),
        _ => GridPlacement::Span(p.1 as u16),
    }
}

pub const FLOWS: [GridAutoFlow; 4] = [GridAutoFlow::Row, GridAutoFlow::Column, GridAutoFlow::RowDense, GridAutoFlow::ColumnDense];

/// what the implementation reports for one case
#[derive(Clone, Debug, PartialEq)]
pub struct Reported {
    /// per in-flow child (source order): row_start,row_end,col_start,col_end
    pub items: Vec<[i64; 4]>,
    /// rows (neg, explicit, pos), columns (neg, explicit, pos)
    pub counts: [i64; 6],
}

pub fn run_impl(case: &Case) -> Result<Reported, String> {
    let case = case.clone();
    let r = std::panic::catch_unwind(move || {
        let mut t: TaffyTree<()> = TaffyTree::new();
        let mut kids = vec![];
        for c in &case.children {
            let mut s = Style::default();
            s.size = Size { width: length(10.0), height: length(10.0) };
            match c.kind {
                1 => s.display = Display::None,
                2 => s.position = Position::Absolute,
                _ => {}
            }
            s.grid_row = Line { start: gp(c.p[0]), end: gp(c.p[1]) };
            s.grid_column = Line { start: gp(c.p[2]), end: gp(c.p[3]) };
            kids.push(t.new_leaf(s).unwrap());
        }
        let mut s = Style::default();
        s.display = Display::Grid;
        s.grid_template_columns = (0..case.ec).map(|_| length(20.0)).collect();
        s.grid_template_rows = (0..case.er).map(|_| length(20.0)).collect();
        s.grid_auto_flow = FLOWS[case.flow as usize];
        let root = t.new_with_children(s, &kids).unwrap();
        t.compute_layout(root, Size::MAX_CONTENT).unwrap();
        match t.detailed_layout_info(root) {
            DetailedLayoutInfo::Grid(g) => {
                let items = g.items.iter().map(|i| [i.row_start as i64, i.row_end as i64, i.column_start as i64, i.column_end as i64]).collect();
                let counts = [
                    g.rows.negative_implicit_tracks as i64,
                    g.rows.explicit_tracks as i64,
                    g.rows.positive_implicit_tracks as i64,
                    g.columns.negative_implicit_tracks as i64,
                    g.columns.explicit_tracks as i64,
                    g.columns.positive_implicit_tracks as i64,
                ];
                Ok(Reported { items, counts })
            }
            _ => Err("no DetailedGridInfo".to_string()),
        }
    });
    match r {
        Ok(x) => x,
        Err(e) => Err(e.downcast_ref::<String>().cloned().or_else(|| e.downcast_ref::<&str>().map(|s| s.to_string())).unwrap_or_default()),
    }
}

pub fn result_line(r: &Result<Reported, String>) -> String {
    match r {
        Ok(rep) => {
            let mut v = vec![1i64];
            for it in &rep.items {
                v.extend(it);
            }
            v.extend(rep.counts);
            format!("R {}", v.iter().map(|x| x.to_string()).collect::<Vec<_>>().join(" "))
        }
        Err(_) => "R 0".to_string(),
    }
}

// ------------------------------------------------------------------------------------------------ generators

fn placement(rng: &mut Rng, line_range: i64, max_span: u64) -> (i64, i64) {
    match rng.below(10) {
        0..=3 => (0, 0),
        4..=7 => (1, rng.below(2 * line_range as u64 + 1) as i64 - line_range),
        _ => (2, 1 + rng.below(max_span) as i64),
    }
}

/// random family: 1..=7 children, explicit counts 0..=4, lines in [-5,5] incl 0, spans 1..=3
pub fn random_case(rng: &mut Rng) -> Case {
    let ec = rng.below(5) as i64;
    let er = rng.below(5) as i64;
    let flow = rng.below(4) as i64;
    let n = 1 + rng.below(7) as usize;
    // a definiteness profile so that all three phases are met often
    let p_auto_axis = rng.below(4);
    let mut children = vec![];
    for _ in 0..n {
        let kind = match rng.below(10) {
            0 => 1,
            1 => 2,
            _ => 0,
        };
        let mut p = [(0, 0); 4];
        for ax in 0..2 {
            if rng.below(4) < p_auto_axis {
                // indefinite in this axis: auto / span only (or the invalid line 0)
                let f = |rng: &mut Rng| match rng.below(8) {
                    0..=3 => (0, 0),
                    4 => (1, 0),
                    _ => (2, 1 + rng.below(3) as i64),
                };
                p[2 * ax] = f(rng);
                p[2 * ax + 1] = f(rng);
            } else {
                p[2 * ax] = placement(rng, 5, 3);
                p[2 * ax + 1] = placement(rng, 5, 3);
            }
        }
        children.push(Child { kind, p });
    }
    Case { ec, er, flow, children }
}

/// the 13 placement values of the exhaustive family: auto, lines -3..3 (incl. 0), span 1..3 -> per edge;
/// kinds for (start,end): all 13 x 13 combinations
pub const EDGE: [(i64, i64); 13] =
    [(0, 0), (1, -3), (1, -2), (1, -1), (1, 0), (1, 1), (1, 2), (1, 3), (1, 4), (2, 1), (2, 2), (2, 3), (1, -4)];

/// exhaustive family, indexed: explicit counts {0,1,3}^2 x 4 flows x child1 (169 row x 169 col) [x child2 drawn at random]
pub fn exhaustive_case(idx: u64, rng: &mut Rng) -> Case {
    let counts = [0i64, 1, 3];
    let mut i = idx;
    let mut take = |n: u64| {
        let r = i % n;
        i /= n;
        r
    };
    let flow = take(4) as i64;
    let ec = counts[take(3) as usize];
    let er = counts[take(3) as usize];
    let two = take(2) == 1;
    let mk = |take: &mut dyn FnMut(u64) -> u64| Child {
        kind: 0,
        p: [EDGE[take(13) as usize], EDGE[take(13) as usize], EDGE[take(13) as usize], EDGE[take(13) as usize]],
    };
    let mut children = vec![mk(&mut take)];
    if two {
        let mut r = |n: u64| rng.below(n);
        children.push(mk(&mut r));
    }
    Case { ec, er, flow, children }
}

pub const EXHAUSTIVE_SIZE: u64 = 4 * 3 * 3 * 2 * 13 * 13 * 13 * 13;

/// Regression corpus, always the first cases of `cases` and `oracle`: the reproducers of the three repaired defects of
/// the size estimate / last_of_type (`fix:` commits fc6abb3, 5b9f73f, 282bf7d) and close variants.
pub fn corpus() -> Vec<Case> {
    let one = |ec, er, flow, p: [(i64, i64); 4]| Case { ec, er, flow, children: vec![Child { kind: 0, p }] };
    let a = (0, 0);
    vec![
        // grid_row: auto / -3   (estimate: the track before an end line given with an auto start)
        one(0, 0, 0, [a, (1, -3), a, a]),
        // grid_column: auto / -1 on zero explicit columns
        one(0, 0, 0, [a, a, a, (1, -1)]),
        one(2, 2, 1, [a, (1, -4), a, (1, -5)]),
        // two children grid_row: -2 (last_of_type converted the index with the other axis' track counts)
        Case { ec: 0, er: 0, flow: 0, children: vec![Child { kind: 0, p: [(1, -2), a, a, a] }, Child { kind: 0, p: [(1, -2), a, a, a] }] },
        Case { ec: 1, er: 0, flow: 1, children: vec![Child { kind: 0, p: [a, a, (1, -3), a] }, Child { kind: 0, p: [a, a, (1, -3), a] }] },
        // grid_column: 0 / span 3 on a 2x2 grid (estimate took the span from the raw placement: hang)
        one(2, 2, 0, [a, a, (1, 0), (2, 3)]),
        one(2, 2, 0, [a, a, (2, 3), (1, 0)]),
        one(0, 0, 1, [(1, 0), (2, 3), a, a]),
        one(1, 1, 3, [(2, 2), (1, 0), (1, 0), (2, 3)]),
    ]
}

pub fn nth_case(seed: u64, idx: u64) -> Case {
    let corpus = corpus();
    if (idx as usize) < corpus.len() {
        return corpus[idx as usize].clone();
    }
    let mut rng = Rng::new(seed.wrapping_mul(0x9E37_79B9_7F4A_7C15).wrapping_add(idx));
    if idx % 17 == 16 {
        large_case(&mut rng)
    } else if idx % 3 == 2 {
        let e = rng.below(EXHAUSTIVE_SIZE);
        exhaustive_case(e, &mut rng)
    } else {
        random_case(&mut rng)
    }
}

/// larger than the other families (kept moderate: the model runs under vm_compute): explicit counts up to 24, lines in
/// [-30,30], spans up to 16, up to 6 children
pub fn large_case(rng: &mut Rng) -> Case {
    let ec = *rng.pick(&[0i64, 1, 7, 16, 24]);
    let er = *rng.pick(&[0i64, 2, 9, 17, 24]);
    let flow = rng.below(4) as i64;
    let n = 1 + rng.below(6) as usize;
    let mut pl = |rng: &mut Rng| match rng.below(10) {
        0..=3 => (0, 0),
        4..=5 => (1, rng.below(61) as i64 - 30),
        6 => (1, *rng.pick(&[-30i64, -25, -1, 1, 25, 30])),
        7 => (2, 1 + rng.below(16) as i64),
        _ => (2, 1 + rng.below(4) as i64),
    };
    let children = (0..n)
        .map(|_| Child {
            kind: match rng.below(12) {
                0 => 1,
                1 => 2,
                _ => 0,
            },
            p: [pl(rng), pl(rng), pl(rng), pl(rng)],
        })
        .collect();
    Case { ec, er, flow, children }
}

/// larger random family for the oracle: up to 12 children, explicit counts 0..=6, lines in [-8,8], spans 1..=4
pub fn oracle_case(seed: u64, idx: u64) -> Case {
    let corpus = corpus();
    if (idx as usize) < corpus.len() {
        return corpus[idx as usize].clone();
    }
    let mut rng = Rng::new(seed.wrapping_mul(0xD1B5_4A32_D192_ED03).wrapping_add(idx));
    match idx % 4 {
        0 => {
            let e = rng.below(EXHAUSTIVE_SIZE);
            exhaustive_case(e, &mut rng)
        }
        1 => random_case(&mut rng),
        _ => {
            let ec = rng.below(7) as i64;
            let er = rng.below(7) as i64;
            let flow = rng.below(4) as i64;
            let n = 1 + rng.below(12) as usize;
            let children = (0..n)
                .map(|_| Child {
                    kind: match rng.below(12) {
                        0 => 1,
                        1 => 2,
                        _ => 0,
                    },
                    p: [placement(&mut rng, 8, 4), placement(&mut rng, 8, 4), placement(&mut rng, 8, 4), placement(&mut rng, 8, 4)],
                })
                .collect();
            Case { ec, er, flow, children }
        }
    }
}

// ------------------------------------------------------------------------------------------------ direct oracle

/// origin-zero line of a CSS line index (None for 0)
fn oz(l: i64, explicit: i64) -> i64 {
    if l > 0 {
        l - 1
    } else {
        l + explicit + 1
    }
}

fn nonzero_line(p: (i64, i64)) -> Option<i64> {
    if p.0 == 1 && p.1 != 0 {
        Some(p.1)
    } else {
        None
    }
}

fn span_of(p: (i64, i64)) -> Option<i64> {
    if p.0 == 2 {
        Some(p.1)
    } else {
        None
    }
}

/// expected (start,end) reported lines of an axis with at least one non-zero line; `neg` = reported negative implicit count
fn expected_definite(start: (i64, i64), end: (i64, i64), explicit: i64, neg: i64) -> Option<(i64, i64)> {
    let s = nonzero_line(start).map(|l| oz(l, explicit));
    let e = nonzero_line(end).map(|l| oz(l, explicit));
    let (a, b) = match (s, e) {
        (Some(a), Some(b)) => {
            if a == b {
                (a, a + 1)
            } else {
                (a.min(b), a.max(b))
            }
        }
        (Some(a), None) => (a, a + span_of(end).unwrap_or(1)),
        (None, Some(b)) => (b - span_of(start).unwrap_or(1), b),
        (None, None) => return None,
    };
    Some((a + neg + 1, b + neg + 1))
}

/// The three clauses of C08 on one implementation result. Returns the first failure.
pub fn check_clauses(case: &Case, rep: &Reported) -> Option<String> {
    let inflow: Vec<&Child> = case.children.iter().filter(|c| c.kind == 0).collect();
    if inflow.len() != rep.items.len() {
        return Some(format!("{} in-flow children but {} reported items", inflow.len(), rep.items.len()));
    }
    let [rneg, rexp, rpos, cneg, cexp, cpos] = rep.counts;
    if rexp != case.er || cexp != case.ec {
        return Some(format!("explicit counts reported {rexp}x{cexp}, templates have {}x{}", case.er, case.ec));
    }
    let rt = rneg + rexp + rpos;
    let ct = cneg + cexp + cpos;
    for (i, (c, it)) in inflow.iter().zip(&rep.items).enumerate() {
        let [rs, re, cs, ce] = *it;
        // clause 1: non-empty area inside the reported track range
        if !(1 <= rs && rs < re && re <= rt + 1) {
            return Some(format!("item {i}: row area {rs}..{re} not a non-empty range inside 1..{}", rt + 1));
        }
        if !(1 <= cs && cs < ce && ce <= ct + 1) {
            return Some(format!("item {i}: column area {cs}..{ce} not a non-empty range inside 1..{}", ct + 1));
        }
        // clause 2: explicit lines honoured
        if let Some((a, b)) = expected_definite(c.p[0], c.p[1], case.er, rneg) {
            if (a, b) != (rs, re) {
                return Some(format!("item {i}: rows {:?}/{:?} should be reported at {a}..{b}, got {rs}..{re}", c.p[0], c.p[1]));
            }
        }
        if let Some((a, b)) = expected_definite(c.p[2], c.p[3], case.ec, cneg) {
            if (a, b) != (cs, ce) {
                return Some(format!("item {i}: columns {:?}/{:?} should be reported at {a}..{b}, got {cs}..{ce}", c.p[2], c.p[3]));
            }
        }
    }
    // clause 3: an auto-placed item (not definite in both axes) intersects no other in-flow item
    let definite = |c: &Child, ax: usize| nonzero_line(c.p[2 * ax]).is_some() || nonzero_line(c.p[2 * ax + 1]).is_some();
    for i in 0..inflow.len() {
        if definite(inflow[i], 0) && definite(inflow[i], 1) {
            continue;
        }
        for j in 0..inflow.len() {
            if i == j {
                continue;
            }
            let a = rep.items[i];
            let b = rep.items[j];
            let rows = a[0] < b[1] && b[0] < a[1];
            let cols = a[2] < b[3] && b[2] < a[3];
            if rows && cols {
                return Some(format!("auto-placed item {i} {:?} overlaps item {j} {:?}", a, b));
            }
        }
    }
    None
}

pub fn oracle_one(case: &Case) -> Option<String> {
    match run_impl(case) {
        Err(m) => Some(format!("panic: {}", m.replace('\n', " "))),
        Ok(rep) => check_clauses(case, &rep),
    }
}

pub fn main(args: &[String]) {
    std::panic::set_hook(Box::new(|_| {}));
    let out = std::io::stdout();
    let num = |i: usize| -> u64 { args[i].parse().unwrap() };
    match args[0].as_str() {
        // vh c08 cases <seed> <n> [start]
        "cases" => {
            let (seed, n) = (num(1), num(2));
            let start = if args.len() > 3 { num(3) } else { 0 };
            for idx in start..start + n {
                let c = nth_case(seed, idx);
                {
                    let mut o = out.lock();
                    writeln!(o, "C {}", c.line()).unwrap();
                    o.flush().unwrap();
                }
                println!("{}", result_line(&run_impl(&c)));
            }
        }
        // vh c08 one <ints...>: run one explicit case (replay)
        "one" => {
            let v: Vec<i64> = args[1..].iter().map(|s| s.parse().unwrap()).collect();
            let c = Case::from_ints(&v);
            {
                let mut o = out.lock();
                writeln!(o, "C {}", c.line()).unwrap();
                o.flush().unwrap();
            }
            let r = run_impl(&c);
            println!("{}", result_line(&r));
            match &r {
                Err(m) => println!("FAIL 0 panic: {}", m.replace('\n', " ")),
                Ok(rep) => {
                    if let Some(m) = check_clauses(&c, rep) {
                        println!("FAIL 0 {m}");
                    }
                }
            }
        }
        // vh c08 oracle <seed> <n> [start]: the three clauses, directly on the implementation
        "oracle" => {
            let (seed, n) = (num(1), num(2));
            let start = if args.len() > 3 { num(3) } else { 0 };
            for idx in start..start + n {
                let c = oracle_case(seed, idx);
                {
                    let mut o = out.lock();
                    writeln!(o, "START {idx} {}", c.line()).unwrap();
                    o.flush().unwrap();
                }
                match oracle_one(&c) {
                    None => println!("OK {idx}"),
                    Some(m) => println!("FAIL {idx} {} :: {m}", c.line()),
                }
            }
        }
        _ => std::process::exit(2),
    }
}
