"""Shared by C16 and C01: the whole-tree correspondence of the COMPLETE engine WITH THE REAL CACHE (wave 7a, notes/REALCACHE.md section 7).

`vh taffytree cases <seed> <n> <start> <family> <maxnodes> real` lays the random mixed trees of the exact-key correspondence
(lib/props/_taffytree.py: block + flex + grid containers and leaves in any nesting) out through `TaffyTree::compute_layout_with_measure`
WITHOUT the exact-key hook -- the cache users get: one final-layout entry, nine measure slots, the lossy compatibility test -- and prints,
after every pass and for every node, the 21 layout integers, the number of compute_cached_layout calls on the node, how many of them the
cache answered (event-trace hook) and the number of measure-function calls for the node (counted by the measure closure per NodeId).
`Model/TaffyEngineRealRun.run_case_real` decodes the same case and runs compute_root_layout + `memo_real` (Model/EngineReal.v) over
`real_algo` (Model/TaffyRoot.v) over F32 and must reproduce ALL of it: bit-exact layouts, count-exact queries / hits / measure calls.
In flex / grid containers the nine measure slots get traffic: `Cache.slot_of_key`, displacement, ComputeSize answers `from_outer_size`.

`vh taffytree chains <start> <n> [step]`: deterministic single-child chains over one measured leaf with the styles of C16's typical
corpus (part A: all 3^d kind mixes of depth d = 1..6, part B: the 6561 typical chains of corpus/C16-typical-baseline.json cut at depth 1..6).

Debugging: `python3 -m lib.props._taffyreal <seed> <n> [start] [family] [maxnodes]` / `python3 -m lib.props._taffyreal chains <start> <n> [step]`."""
import sys

from ..common import *
from ..stages import *
from . import _taffytree as tt

REC = tt.LAY_LEN + 3
CNT = ['queries', 'cache_hits', 'measure_calls']
CHAINS_A = 1092
DEPTHS_B = 16
WITNESS_LIMIT = 100000
MODULE = 'Model.TaffyEngineRealRun'


def describe_diff(c, a, b):
    if len(b) == 1 and b[0] in tt.MARKERS:
        return tt.MARKERS[b[0]]
    if len(a) != len(b):
        return 'lengths differ: impl %d model %d ints (model head %s)' % (len(a), len(b), b[:3])
    nodes = tt.decode_nodes(c)
    nn = len(nodes)
    ks = tt.kinds(nodes)
    for i, (x, y) in enumerate(zip(a, b)):
        if x != y:
            node, fld = divmod(i, REC)
            k, pk = ks[node % nn]
            nd = sum(1 for p, q in zip(a, b) if p != q)
            if fld >= tt.LAY_LEN:
                return 'pass %d node %d (%s in %s) COUNT %s: impl %d model %d (%d ints differ)' % (
                    node // nn, node % nn, k, pk, CNT[fld - tt.LAY_LEN], x, y, nd)
            fx = x if fld == 0 else tt._f(x)
            fy = y if fld == 0 else tt._f(y)
            return 'pass %d node %d (%s in %s) field %s: impl %r model %r (%d ints differ)' % (
                node // nn, node % nn, k, pk, tt.FIELDS[fld], fx, fy, nd)
    return 'equal'


def generate(binp, seed, n, start=0, family=0, maxnodes=12):
    rc, out = vh(binp, ['taffytree', 'cases', seed, n, start, family, maxnodes, 'real'], timeout=300)
    cases, impl = parse_cr(out)
    differ = [int(l.split()[1]) for l in out.split('\n') if l.startswith('L ')]
    skipped = [int(l.split()[1]) for l in out.split('\n') if l.startswith('SKIP ')]
    m = re.search(r'SUMMARY (.*)', out)
    if rc != 0 or not cases or len(differ) != len(cases) or not m:
        raise RuntimeError('vh taffytree cases .. real failed: ' + out[-600:])
    summary = {k: int(v) for k, v in (kv.split('=') for kv in m.group(1).split())}
    idxs = [i for i in range(start, start + n) if i not in set(skipped)]
    return cases, impl, differ, summary, idxs


def generate_chains(binp, spans):
    """spans = [(start, n, step)]; returns cases, impl, [(idx, total queries, description)], skipped"""
    cases, impl, qs, skipped = [], [], [], []
    for start, n, step in spans:
        rc, out = vh(binp, ['taffytree', 'chains', start, n, step], timeout=300)
        c, r = parse_cr(out)
        q = [l.split(' ', 3) for l in out.split('\n') if l.startswith('Q ')]
        skipped += [int(l.split()[1]) for l in out.split('\n') if l.startswith('SKIP ')]
        if rc != 0 or 'DONE' not in out or len(q) != len(c):
            raise RuntimeError('vh taffytree chains failed: ' + out[-600:])
        cases += c
        impl += r
        qs += [(int(x[1]), int(x[2]), x[3]) for x in q]
    return cases, impl, qs, skipped


def evaluate(tag, cases, timeout=900):
    model, secs = tt.evaluate(tag, cases, timeout=timeout, module=MODULE, fn='run_case_real')
    # the two leading integers (lossy hits, evaluations) are the model's own
    return ([m[2:] if len(m) >= 2 else m for m in model], [m[0] if len(m) >= 2 else -1 for m in model],
            [m[1] if len(m) >= 2 else -1 for m in model], secs)


def _hist(vals):
    h = {}
    for v in vals:
        h[v] = h.get(v, 0) + 1
    return {str(k): h[k] for k in sorted(h)}


def real_tree_k(rep, pid, binp, seed, n, family=0, maxnodes=12, timeout=900):
    """random mixed trees, real cache: layouts + counts.  Returns the disagreements."""
    t0 = time.time()
    try:
        cases, impl, differ, summary, idxs = generate(binp, seed, n, 0, family, maxnodes)
        model, lossy, evals, secs = evaluate(pid + 'tr', cases, timeout=timeout)
    except RuntimeError as ex:
        rep.add_broken('correspondence', 'complete engine with the REAL cache, whole-tree K (vh taffytree cases .. real)', str(ex)[-1500:])
        return []
    bad = diff_results(rep, 'whole tree mixing block / flex / grid containers and leaves through TaffyTree::compute_layout_with_measure with '
                            'the REAL cache (no exact-key hook): unrounded layouts of every node + per node the numbers of '
                            'compute_cached_layout calls, cache hits and measure-function calls of every pass, vs '
                            'Model.TaffyEngineRealRun.run_case_real = compute_root_layout + memo_real (Model/EngineReal.v) over real_algo, F32',
                       cases, impl, model, max_report=3)
    nq = nh = nm = 0
    leafc = []
    per_kind = {}
    for c, a in zip(cases, impl):
        nodes = tt.decode_nodes(c)
        ks = tt.kinds(nodes)
        nn = len(nodes)
        for r in range(len(a) // REC):
            q, h, m = a[r * REC + tt.LAY_LEN: r * REC + REC]
            nq += q
            nh += h
            nm += m
            k = ks[r % nn][0]
            e = per_kind.setdefault(k, [0, 0, 0])
            e[0] += q
            e[1] += h
            e[2] += m
            if k == 'leaf' and nodes[r % nn][3][8] != 0:
                leafc.append(m)
    markers = {}
    for m in model:
        if len(m) == 1 and m[0] in tt.MARKERS:
            markers[tt.MARKERS[m[0]]] = markers.get(tt.MARKERS[m[0]], 0) + 1
    no_lossy = [i for i in range(len(cases)) if lossy[i] == 0]
    rep.cov['taffytree_real_cache'] = {
        'trees': len(cases), 'family': tt.FAMILY[family], 'disagreements': len(bad), 'seconds': round(time.time() - t0, 1),
        'model_seconds_per_shard': secs, 'implementation_panicked_skipped': summary.get('skipped'), 'model_markers': markers,
        'nodes': summary.get('nodes'), 'block_containers': summary.get('block'), 'flex_containers': summary.get('flex'),
        'grid_containers': summary.get('grid'), 'containers_nested_in_another_kind': summary.get('mixed_nesting'),
        'two_pass_cases': summary.get('two_pass'),
        'layout_fields_compared': sum(len(a) // REC * tt.LAY_LEN for a in impl),
        'counters_compared': sum(len(a) // REC * 3 for a in impl),
        'queries': nq, 'cache_hits': nh, 'measure_calls': nm, 'model_evaluations': sum(e for e in evals if e >= 0),
        'queries_hits_measure_calls_by_node_kind': per_kind,
        'measure_calls_per_measured_leaf_per_pass_distribution': _hist(leafc),
        'lossy_hits_total': sum(l for l in lossy if l >= 0),
        'trees_without_lossy_hit': len(no_lossy),
        'trees_whose_layout_differs_from_the_exact_key_run': sum(1 for d in differ if d),
        'of_which_without_lossy_hit': sum(1 for i in no_lossy if differ[i]),
        'first_disagreements': ['idx %d: %s (python3 -m lib.props._taffyreal %d 1 %d %d %d)' % (
            idxs[cases.index(c)], describe_diff(c, a, b), seed, idxs[cases.index(c)], family, maxnodes) for c, a, b in bad[:5]],
    }
    return bad


def typ_idx(typ, depth):
    return CHAINS_A + DEPTHS_B * typ + depth - 1


def quick_chain_spans():
    """part A depth 1..5 (all 363 kind mixes of default containers) + every 9th of depth 6; part B: 150 typical chains at depths 1..16
    (step 691 is coprime to 16; chains over the harness's query limit are skipped) + the chains of the theorems of Props/C16.v:
    default flex / grid / block chains of depth 1..16 and the growth family (typical chain 652) at depths 1, 4, 7, 10"""
    return ([(0, 363, 1), (363, 81, 9), (CHAINS_A + 5, 150, 691)]
            + [(typ_idx(t, 1), 16, 1) for t in (0, 273, 546)] + [(typ_idx(652, 1), 4, 3)])


def thorough_chain_spans():
    return [(0, CHAINS_A, 1), (CHAINS_A + 5, 1500, 67)] + [(typ_idx(t, 1), 16, 1) for t in (0, 273, 546)] + [(typ_idx(652, 1), 5, 3)]


def real_chain_k(rep, pid, binp, spans=None, timeout=900):
    """deterministic mixed chains, real cache.  Returns the disagreements."""
    t0 = time.time()
    spans = spans or quick_chain_spans()
    try:
        cases, impl, qs, skipped = generate_chains(binp, spans)
        model, lossy, evals, secs = evaluate(pid + 'tc', cases, timeout=timeout)
    except RuntimeError as ex:
        rep.add_broken('correspondence', 'complete engine with the REAL cache, chain K (vh taffytree chains)', str(ex)[-1500:])
        return []
    bad = diff_results(rep, 'single-child chains mixing flex / grid / block containers (depth 1..6, typical styles of the C16 corpus) over a '
                            'measured leaf, REAL cache: layouts + query / hit / measure counts vs Model.TaffyEngineRealRun.run_case_real',
                       cases, impl, model, max_report=3)
    by_depth = {}
    over = []
    for c, a, q in zip(cases, impl, qs):
        depth = len(tt.decode_nodes(c)) - 1
        by_depth.setdefault(depth, []).append(a[-1])
        if a[-1] > 64 * (depth + 1):
            over.append('%s: %d' % (q[2], a[-1]))
    rep.cov['taffy_chains_real_cache'] = {
        'chains': len(cases), 'skipped_over_query_limit': skipped, 'disagreements': len(bad), 'seconds': round(time.time() - t0, 1),
        'model_seconds_per_shard': secs,
        'leaf_measure_calls_by_depth': {str(d): _hist(v) for d, v in sorted(by_depth.items())},
        'max_leaf_measure_calls': max(a[-1] for a in impl),
        'chains_over_64_x_nodes': over[:10], 'chains_over_64_x_nodes_count': len(over),
        'total_queries_by_depth_max': {str(d): max(q[1] for c, q in zip(cases, qs) if len(tt.decode_nodes(c)) - 1 == d) for d in sorted(by_depth)},
        'lossy_hits_total': sum(l for l in lossy if l >= 0),
        'first_disagreements': ['chain %d (%s): %s' % (qs[cases.index(c)][0], qs[cases.index(c)][2], describe_diff(c, a, b)) for c, a, b in bad[:5]],
    }
    return bad


def _coq_ints(src, name):
    m = re.search(r'Definition %s : list Z :=\s*\[([^\]]*)\]' % name, src)
    return [int(x) for x in m.group(1).replace('\n', ' ').split(';')] if m else None


def chain_witnesses(rep, binp):
    """Replays the computed chain theorems of Props/C16.v on the implementation.
    C16_real_chain_growth_refuted: the chains `growth_case d` (Model/TaffyChainReal.v: built from the integer lists ci_*) ARE the chains
    `vh taffytree chains` generates for typical chain 652 at the stated depths (the `C` lines are compared integer for integer), and the
    implementation's (node count, leaf measure calls) are the stated ones.  C16_real_flex_chain_bound_partial: default flex / grid /
    block chains of depth 1..16: same inputs, the implementation's counts within the stated bounds, the flex counts as stated."""
    from ..pins import strip_comments
    msrc = strip_comments(open(os.path.join(COQ, 'Model', 'TaffyChainReal.v')).read())
    psrc = strip_comments(open(os.path.join(COQ, 'Props', 'C16.v')).read())
    ci = {k: _coq_ints(msrc, 'ci_' + k) for k in ('flex', 'grid', 'block', 'grid_w200', 'block_m3', 'leaf')}
    t = re.search(r'Theorem C16_real_chain_growth_refuted :(.*?)Proof\.', psrc, re.S)
    fam = re.search(r'Definition growth_case \(depth : nat\) : list Z := chain_case \(typ_levels ci_(\w+) ci_(\w+) ci_(\w+) depth\)', msrc)
    name = 'C16_real_chain_growth_refuted'
    if not t or not fam or any(v is None for v in ci.values()):
        rep.add_broken('witness', name, 'cannot find the witness in Props/C16.v / Model/TaffyChainReal.v')
        return
    depths = [int(x) for x in re.search(r'\[([\d; ]+)\]%nat', t.group(1)).group(1).split(';')]
    table = [(int(a), int(b)) for a, b in re.findall(r'Some \((\d+), (\d+)\)', t.group(1))]
    header = [1, 2, 0, 2, 0]

    def case(levels_leaf_first):
        c = list(header)
        for k in reversed(levels_leaf_first):
            c += ci[k]
        return c + ci['leaf']

    def impl(idx):
        rc, out = vh(binp, ['taffytree', 'chains', idx, 1, 1, WITNESS_LIMIT], timeout=120)
        c, r = parse_cr(out)
        return (c[0], r[0]) if c else (None, None)

    got, same_input = [], True
    for d in depths:
        c, r = impl(typ_idx(652, d))
        same_input = same_input and c == case([fam.group(1 + j % 3) for j in range(d)])
        got.append((len(r) // REC, r[-1]) if r else None)
    rep.cov['chain_growth_witness'] = {'depths': depths, 'stated_nodes_and_leaf_measure_calls': table, 'implementation': got,
                                       'inputs_are_the_generated_chains': same_input}
    if len(table) != len(depths) or not same_input:
        rep.add_broken('witness', name, 'vh taffytree chains no longer generates the chains of the theorem (typical chain 652)')
    elif got != table:
        rep.add_broken('witness', name, 'the implementation no longer behaves as the model witness says: stated %s observed %s' % (table, got))
    else:
        rep.known.append('chain-measure-growth: model witness C16_real_chain_growth_refuted replayed (typical chain 652: grid{width:200} > flex > '
                         'block{margin:3} repeating over a text leaf: leaf measured %s times at depths %s; %d > 64 x %d nodes)' % (
                             [b for _, b in table], depths, table[-1][1], table[-1][0]))
    # the positive counterpart
    bounds = {'flex': (6, 20, 0), 'grid': (6, 26, 273), 'block': (1, 3, 546)}
    stated_flex = [int(x) for x in re.findall(r'Some (\d+)', re.search(r'flex_case d\)\) \(seq 1 6\) =(.*?)Proof', psrc, re.S).group(1))]
    ok, obs = True, {}
    for k, (mb, qr, typ) in bounds.items():
        rc, out = vh(binp, ['taffytree', 'chains', typ_idx(typ, 1), 16, 1, WITNESS_LIMIT], timeout=120)
        cs, rs = parse_cr(out)
        qs = [int(l.split()[2]) for l in out.split('\n') if l.startswith('Q ')]
        if len(cs) != 16 or len(qs) != 16:
            ok = False
            continue
        obs[k] = [r[-1] for r in rs]
        for d, (c, r, q) in enumerate(zip(cs, rs, qs), 1):
            ok = ok and c == case([k] * d) and r[-1] <= mb and q <= qr * d
    ok = ok and obs.get('flex', [])[:6] == stated_flex
    rep.cov['default_chain_bound_witness'] = {'leaf_measure_calls_depth_1_to_16': obs, 'stated_flex_counts_depth_1_to_6': stated_flex, 'as_stated': ok}
    if not ok:
        rep.add_broken('witness', 'C16_real_flex_chain_bound_partial', 'the implementation\'s default flex / grid / block chains are not the '
                       'stated inputs or exceed the stated bounds: %s' % obs)


if __name__ == '__main__':
    rc, out, binp, dt = build_harness('release')
    if rc != 0:
        print(out[-2000:])
        sys.exit(1)
    t0 = time.time()
    if sys.argv[1] == 'chains':
        start, n = int(sys.argv[2]), int(sys.argv[3])
        step = int(sys.argv[4]) if len(sys.argv) > 4 else 1
        cases, impl, qs, skipped = generate_chains(binp, [(start, n, step)])
        names = ['chain %d %s' % (q[0], q[2]) for q in qs]
        differ = [0] * len(cases)
        print('skipped', skipped)
    else:
        seed, n = int(sys.argv[1]), int(sys.argv[2])
        start = int(sys.argv[3]) if len(sys.argv) > 3 else 0
        family = int(sys.argv[4]) if len(sys.argv) > 4 else 0
        maxnodes = int(sys.argv[5]) if len(sys.argv) > 5 else 12
        cases, impl, differ, summary, idxs = generate(binp, seed, n, start, family, maxnodes)
        names = ['idx %d' % i for i in idxs]
    model, lossy, evals, secs = evaluate('trdbg', cases, timeout=3000)
    print('model evaluated in %.1fs (shards %s)' % (time.time() - t0, secs))
    nbad = 0
    for i, (c, a, b) in enumerate(zip(cases, impl, model)):
        if a != b:
            nbad += 1
            if nbad <= 40:
                print('%s (%d nodes, lossy %d, differs-from-exact %d): %s' % (names[i], len(tt.decode_nodes(c)), lossy[i], differ[i], describe_diff(c, a, b)))
    print('%d / %d disagree; leaf measure calls (last node) %s; trees without lossy hit %d, differing from exact %d' % (
        nbad, len(cases), _hist([a[-1] for a in impl]), sum(1 for l in lossy if l == 0), sum(1 for d in differ if d)))
