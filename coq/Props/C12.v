(* C12 -- content-box and border-box sizing are interchangeable.
   Statements only; proofs in Proofs/BoxSizingProofs.v, Proofs/BoxSizingAbsProofs.v.

   Vocabulary (Model/BoxSizing.v, Model/BoxSizingAbs.v):
     bs_resolve bs pb raw ctx      = maybe_add (maybe_resolve raw ctx) (if bs = ContentBox then pb else 0): the idiom of every
                                     `box_sizing_adjustment` site (tables maybe_resolve_dim / maybe_add_of: Gen/MathGen.v)
     to_border_box st              = st with box_sizing := BorderBox and every LENGTH among size / min_size / max_size increased by
                                     padding+border of its axis (auto and percentages untouched)
     eligible st                   = box_sizing ContentBox, padding and border lengths, no aspect ratio, size / min / max auto or length
     box_sizing_sites, unsited_uses  Gen/BoxSizingSites.v: regenerated from src/compute/**.rs on every run
   Numbers: exact rationals XQ; `xeq` = equal as numbers (`(l + pb) + 0` and `l + pb` are different terms), lifted to options
   (opt_xeq), sizes (size_rel), layouts (layout_xeq), kernel results (result_xeq, absin_xeq).  No finiteness premise anywhere.

   FINDING (notes/C12.md): GridItem::minimum_contribution caps the content-based minimum of a compressible replaced item by
   its RAW max_size -- C12_minimum_contribution_refuted; everything else in that function is invariant
   (C12_minimum_contribution_partial). *)
From Coq Require Import QArith Bool List String.
From TV Require Import Num.QNum Model.Common Model.Leaf Model.Root Model.BoxSizing Model.BoxSizingSiteTypes Gen.BoxSizingSites.
From TV Require Import Proofs.LeafAxis Proofs.BoxSizingProofs.
From TV Require Gen.AbsPosEnums Model.AbsPosBase Gen.AbsPosGen Model.BoxSizingAbs Proofs.BoxSizingAbsProofs.
From TV Require Model.AbsPos Model.ScaleBase Model.ScaleAbs Proofs.ScaleAbsProofs Proofs.BoxSizingAbsFull.
Import ListNotations.

(* ---------------------------------------------------------------------------------------------------------------- *)
(* the idiom: a length in content-box mode resolves like the length plus padding+border in border-box mode; auto stays
   None in both modes *)
Theorem C12_idiom : forall (pb l : XQ) (ctx : option XQ),
  opt_xeq (bs_resolve ContentBox pb (Length l) ctx) (bs_resolve BorderBox pb (Length (x_add l pb)) ctx) /\
  bs_resolve ContentBox pb Auto ctx = None /\ bs_resolve BorderBox pb Auto ctx = None.
Proof. intros. split; [exact (idiom_length pb l ctx) | split; reflexivity]. Qed.

(* ... for Sizes, and with the (absent) aspect-ratio transfer in between, on the eligible class: no percentages *)
Theorem C12_idiom_size : forall (pb : Size XQ) (raw : Size (Dimension XQ)) (ctx : Size (option XQ)),
  size_forallb dim_not_percent raw = true ->
  size_rel opt_xeq (bs_resolve_size ContentBox pb raw ctx) (bs_resolve_size BorderBox pb (grow_size pb raw) ctx) /\
  size_rel opt_xeq (bs_resolve_size_ar ContentBox pb raw ctx None) (bs_resolve_size_ar BorderBox pb (grow_size pb raw) ctx None).
Proof. intros. split; [exact (idiom_size pb raw ctx H) | exact (idiom_size_ar pb raw ctx H)]. Qed.

(* the restriction is necessary: the rewrite leaves a percentage alone, and then padding+border is missing *)
Theorem C12_idiom_percent_excluded :
  exists pb p ctx, ~ opt_xeq (bs_resolve ContentBox pb (Percent p) ctx) (bs_resolve BorderBox pb (grow_dim pb (Percent p)) ctx).
Proof. exact idiom_percent_counterexample. Qed.

(* flex_basis (determine_flex_base_size): a scalar, adjusted by the main-axis component of padding+border *)
Theorem C12_flex_basis : forall (pb : Size XQ) (is_row : bool) (fb : Dimension XQ) (container_main : option XQ),
  dim_not_percent fb = true ->
  opt_xeq (flex_basis_resolve ContentBox pb is_row fb container_main)
          (flex_basis_resolve BorderBox pb is_row (flex_basis_to_border_box pb is_row fb) container_main).
Proof. exact idiom_flex_basis. Qed.

(* ---------------------------------------------------------------------------------------------------------------- *)
(* the leaf kernel in full (Model/Leaf.v = compute_leaf_layout): every run mode, sizing mode, known dimensions, parent size,
   available space, display, overflow, margin ...; the output AND the arguments of the measure call agree *)
Theorem C12_leaf : forall (inputs : LayoutInput XQ) (st : Style XQ) (measure : MeasureFn XQ),
  eligible st -> measure_respects_xeq measure ->
  result_xeq (compute_leaf_layout inputs (to_border_box st) measure) (compute_leaf_layout inputs st measure).
Proof. exact leaf_invariant. Qed.

(* compute_root_layout's known dimensions of a display:block root (Model/Root.v) *)
Theorem C12_root : forall (st : Style XQ) (av : Size (AvailableSpace XQ)),
  eligible st -> size_rel opt_xeq (root_known_dimensions (to_border_box st) av) (root_known_dimensions st av).
Proof. exact root_known_dimensions_invariant. Qed.

(* the whole one-node tree: unrounded layout and measure calls *)
Theorem C12_root_leaf : forall (st : Style XQ) (measure : MeasureFn XQ) (av : Size (AvailableSpace XQ)),
  eligible st -> measure_respects_xeq measure ->
  root_result_xeq (root_leaf (to_border_box st) measure av) (root_leaf st measure av).
Proof. exact root_leaf_invariant. Qed.

(* the premises are satisfiable and the rewrite is not the identity *)
Theorem C12_premises_satisfiable :
  eligible ex12_style /\
  size (to_border_box ex12_style) = mkSize (Length (x_add (Fin 40) (Fin 5))) Auto /\
  measure_respects_xeq (measure_known_or (mkSize (Fin 30) (Fin 10))) /\
  BoxSizingAbs.abs_eligible BoxSizingAbsProofs.ex_abs_style.
Proof.
  split; [exact ex12_style_eligible | split; [exact (proj1 ex12_style_rewritten) | split;
    [exact (measure_known_or_respects _) | exact BoxSizingAbsProofs.ex_abs_style_eligible]]].
Qed.

(* ... and evaluated: the content-box style and its border-box rewrite give the same leaf output and the same root layout
   (45 x 19, content 33 x 17, one measure call), through compute_leaf_layout and through compute_root_layout *)
Definition ex12_input : LayoutInput XQ :=
  mkInput PerformLayout InherentSize (mkSize None None) (mkSize (Some (Fin 200)) (Some (Fin 100)))
          (mkSize (Definite (Fin 200)) MaxContent).
Definition ex12_view (r : option (LayoutOutput XQ * list (MeasureCall XQ))) :=
  option_map (fun p => (x_red (width (out_size (fst p))), x_red (height (out_size (fst p))),
                        x_red (width (out_content_size (fst p))), x_red (height (out_content_size (fst p))), List.length (snd p))) r.
Definition ex12_lview (r : option (Layout XQ * list (MeasureCall XQ))) :=
  option_map (fun p => (x_red (width (l_size (fst p))), x_red (height (l_size (fst p))), List.length (snd p))) r.
Example C12_leaf_example :
  let m := measure_known_or (mkSize (Fin 30) (Fin 10)) in
  let av := mkSize (Definite (Fin 200)) MaxContent in
  ex12_view (compute_leaf_layout ex12_input ex12_style m) = Some (Fin 45, Fin 19, Fin 33, Fin 17, 1%nat) /\
  ex12_view (compute_leaf_layout ex12_input (to_border_box ex12_style) m) = Some (Fin 45, Fin 19, Fin 33, Fin 17, 1%nat) /\
  ex12_lview (root_leaf ex12_style m av) = Some (Fin 45, Fin 19, 1%nat) /\
  ex12_lview (root_leaf (to_border_box ex12_style) m av) = Some (Fin 45, Fin 19, 1%nat).
Proof. repeat split; vm_compute; reflexivity. Qed.

(* ---------------------------------------------------------------------------------------------------------------- *)
(* the `*_resolve` parts of the three absolute-positioning kernels (GENERATED from block.rs, flexbox.rs,
   grid/alignment.rs: everything that reads the child's style): same AbsIn up to xeq in size / min / max *)
Theorem C12_abs_block : forall (area : AbsPosBase.Size XQ) (off : AbsPosBase.Point XQ) (st : AbsPosBase.AbsStyle XQ),
  BoxSizingAbs.abs_eligible st ->
  BoxSizingAbsProofs.absin_xeq (AbsPosGen.block_resolve area off (BoxSizingAbs.abs_to_border_box st)) (AbsPosGen.block_resolve area off st).
Proof. exact BoxSizingAbsProofs.block_resolve_invariant. Qed.

Theorem C12_abs_flex : forall (c : AbsPosBase.FlexConstants XQ) (st : AbsPosBase.AbsStyle XQ),
  BoxSizingAbs.abs_eligible st ->
  BoxSizingAbsProofs.absin_xeq (AbsPosGen.flex_resolve c (BoxSizingAbs.abs_to_border_box st)) (AbsPosGen.flex_resolve c st).
Proof. exact BoxSizingAbsProofs.flex_resolve_invariant. Qed.

Theorem C12_abs_grid : forall (area : AbsPosBase.Rect XQ) (st : AbsPosBase.AbsStyle XQ),
  BoxSizingAbs.abs_eligible st ->
  BoxSizingAbsProofs.absin_xeq (AbsPosGen.grid_resolve area (BoxSizingAbs.abs_to_border_box st)) (AbsPosGen.grid_resolve area st).
Proof. exact BoxSizingAbsProofs.grid_resolve_invariant. Qed.

(* The three theorems above cover the resolve STAGE only (what reads the child's style).  The whole kernels -- resolve, known
   dimensions, the measure call, final size, placement: what Model/AbsPosRun.v runs in the C11 correspondence -- are
   box-sizing blind too: location, size and margins of the border-box rewrite equal the original's as numbers (`absout_rel 1`:
   field-wise equality of rationals; infinities and NaN equal themselves), for every measure function that respects equality
   of rationals in its known dimensions (`abs_measure_homog 1 m m`; a Q-representation artefact, satisfiable:
   abs_measure_known_or_respects).  Proofs/BoxSizingAbsFull.v: the k = 1 instance of the C04 kernel lemmas. *)
Module AbsFull.
  Import TV.Gen.AbsPosEnums TV.Model.AbsPosBase TV.Gen.AbsPosGen TV.Model.AbsPos TV.Model.BoxSizingAbs TV.Proofs.BoxSizingAbsProofs.
  Import TV.Model.ScaleBase TV.Model.ScaleAbs TV.Proofs.ScaleAbsProofs TV.Proofs.BoxSizingAbsFull.

  Theorem C12_abs_block_full : forall (ct : @Container XQ) (sp : Point XQ) (st : AbsStyle XQ) (m : Size (option XQ) -> Size XQ),
    abs_eligible st -> abs_measure_homog 1 m m ->
    absout_rel 1 (abs_block_style ct sp st m) (abs_block_style ct sp (abs_to_border_box st) m).
  Proof. exact abs_block_full. Qed.
  Theorem C12_abs_flex_full : forall (c : FlexConstants XQ) (st : AbsStyle XQ) (m : Size (option XQ) -> Size XQ),
    abs_eligible st -> abs_measure_homog 1 m m ->
    absout_rel 1 (abs_flex_style c st m) (abs_flex_style c (abs_to_border_box st) m).
  Proof. exact abs_flex_full. Qed.
  Theorem C12_abs_grid_full : forall (ct : @Container XQ) ji ai (st : AbsStyle XQ) (m : Size (option XQ) -> Size XQ),
    abs_eligible st -> abs_measure_homog 1 m m ->
    absout_rel 1 (abs_grid_style ct ji ai st m) (abs_grid_style ct ji ai (abs_to_border_box st) m).
  Proof. exact abs_grid_full. Qed.
  Print Assumptions C12_abs_block_full.
  Print Assumptions C12_abs_flex_full.
  Print Assumptions C12_abs_grid_full.

  (* non-vacuity: the measure premise holds of a non-trivial function; and the resolve stage of the example style, evaluated *)
  Definition ex12_abs_view (i : AbsIn XQ) :=
    (option_map x_red (s_width (ai_size i)), option_map x_red (s_height (ai_min0 i)), option_map x_red (s_width (ai_max i))).
  Example C12_abs_example :
    (forall w h, abs_measure_homog 1 (abs_measure_known_or w h) (abs_measure_known_or w h)) /\
    let area := mkSize (Fin 200) (Fin 100) in let off := mkPoint (Fin 2) (Fin 2) in
    ex12_abs_view (block_resolve area off ex_abs_style) = (Some (Fin 45), Some (Fin 14), Some (Fin 95)) /\
    ex12_abs_view (block_resolve area off (abs_to_border_box ex_abs_style)) = (Some (Fin 45), Some (Fin 14), Some (Fin 95)) /\
    ex12_abs_view (grid_resolve (mkRect (Fin 0) (Fin 200) (Fin 0) (Fin 100)) (abs_to_border_box ex_abs_style))
      = (Some (Fin 45), Some (Fin 14), Some (Fin 95)).
  Proof. split; [exact abs_measure_known_or_respects|]. repeat split; vm_compute; reflexivity. Qed.
End AbsFull.

(* ---------------------------------------------------------------------------------------------------------------- *)
(* the source, as scanned on this run.  Every function with a `let box_sizing_adjustment = ..` has exactly one, of the shape
   `if <style>.box_sizing() == ContentBox { padding+border per axis } else { Size::ZERO }`; every size / min_size / max_size /
   flex_basis it reads is either only tested for definiteness or resolved with exactly one `.maybe_add(box_sizing_adjustment)`
   of the right axis projection -- EXCEPT the uses recorded here (each entry covers one occurrence): *)
Definition recorded_omissions : list Use := [
  (* grid_item.rs l.518, inside `.unwrap_or_else(..)`: reached only when the adjusted `size` chain above gave None, i.e. for
     `auto` (both modes None) or an indefinite percentage (not eligible): harmless, C12_minimum_contribution_partial *)
  mkUse "grid/types/grid_item.rs" "minimum_contribution" "size" Unadjusted;
  (* grid_item.rs l.520: REAL OMISSION, C12_minimum_contribution_refuted; reproduced by `vh c12 demo` on every run *)
  mkUse "grid/types/grid_item.rs" "minimum_contribution" "max_size" Unadjusted
]%string.

Theorem C12_all_sites_adjust :
  forallb site_wellformed box_sizing_sites = true /\ submultiset (all_omissions box_sizing_sites) recorded_omissions = true.
Proof. split; vm_compute; reflexivity. Qed.

(* functions WITHOUT any box_sizing_adjustment that read a node's size / min_size / max_size / flex_basis: only these *)
Definition allowed_unsited : list Use := [
  (* explicit_grid.rs l.93/95: `.maybe_resolve(..).is_some()` -- only whether size / max_size is definite decides between
     floor and ceil of the auto-repeat count; definiteness of auto / length is the same in both modes *)
  mkUse "grid/explicit_grid.rs" "compute_explicit_grid_size_in_axis" "size" TestOnly;
  mkUse "grid/explicit_grid.rs" "compute_explicit_grid_size_in_axis" "max_size" TestOnly;
  (* grid_item.rs l.113-115: raw copies into the GridItem (together with box_sizing, padding, border); every read of the
     copies is scanned as `self.size` / `self.min_size` / `self.max_size` in known_dimensions and minimum_contribution *)
  mkUse "grid/types/grid_item.rs" "new_with_placement_style_and_order" "size" RawCopy;
  mkUse "grid/types/grid_item.rs" "new_with_placement_style_and_order" "min_size" RawCopy;
  mkUse "grid/types/grid_item.rs" "new_with_placement_style_and_order" "max_size" RawCopy
]%string.

Theorem C12_no_unadjusted_resolution : submultiset unsited_uses allowed_unsited = true.
Proof. vm_compute; reflexivity. Qed.

(* ---------------------------------------------------------------------------------------------------------------- *)
(* GridItem::minimum_contribution along one axis (hand model, Model/BoxSizing.v): invariant unless the item is
   compressible-replaced and has a length max_size ... *)
Theorem C12_minimum_contribution_partial :
  forall (pb : XQ) (sz mn mx : Dimension XQ) (ctx amin : option XQ) (use_content_based compressible : bool) (min_content : XQ)
         (limit : option XQ),
  dim_not_percent sz = true -> dim_not_percent mn = true -> dim_not_percent mx = true ->
  compressible = false \/ mx = Auto ->
  xeq (minimum_contribution_axis ContentBox pb sz mn mx ctx amin use_content_based compressible min_content limit)
      (minimum_contribution_axis BorderBox pb (grow_dim pb sz) (grow_dim pb mn) (grow_dim pb mx) ctx amin use_content_based
                                 compressible min_content limit).
Proof. exact minimum_contribution_invariant. Qed.

(* ... where it is not: padding+border 10, max-size 10 (content-box) resp. 20 (border-box), min-content contribution 20 ->
   10 resp. 20.  `vh c12 demo` shows the same DEFECT on the implementation (with other numbers, see below). *)
Theorem C12_minimum_contribution_refuted :
  exists pb mx mc,
    ~ xeq (minimum_contribution_axis ContentBox pb Auto Auto mx None None true true mc None)
          (minimum_contribution_axis BorderBox pb (grow_dim pb Auto) (grow_dim pb Auto) (grow_dim pb mx) None None true true mc None).
Proof. exact minimum_contribution_refuted. Qed.

(* the witness with its numbers (the existential above hides them), and two instances of the _partial theorem where the
   function IS invariant: not compressible-replaced capped (64 both ways), and a definite size chain (40 both ways).
   NOTE: `vh c12 demo` replays the DEFECT on the implementation with other numbers (content 100, padding 5+5) and the check
   only requires the two layouts to differ; the model values 10 / 20 below are not compared with the implementation. *)
Example C12_minimum_contribution_witness_values :
  x_red (minimum_contribution_axis ContentBox (Fin 10) Auto Auto (Length (Fin 10)) None None true true (Fin 20) None) = Fin 10 /\
  x_red (minimum_contribution_axis BorderBox (Fin 10) (grow_dim (Fin 10) Auto) (grow_dim (Fin 10) Auto) (grow_dim (Fin 10) (Length (Fin 10)))
                                   None None true true (Fin 20) None) = Fin 20.
Proof. split; vm_compute; reflexivity. Qed.
Example C12_minimum_contribution_example :
  x_red (minimum_contribution_axis ContentBox (Fin 10) Auto Auto Auto None None true true (Fin 70) (Some (Fin 64))) = Fin 64 /\
  x_red (minimum_contribution_axis BorderBox (Fin 10) (grow_dim (Fin 10) Auto) (grow_dim (Fin 10) Auto) (grow_dim (Fin 10) Auto)
                                   None None true true (Fin 70) (Some (Fin 64))) = Fin 64 /\
  x_red (minimum_contribution_axis ContentBox (Fin 10) (Length (Fin 30)) Auto (Length (Fin 20)) None None true false (Fin 70) None) = Fin 40 /\
  x_red (minimum_contribution_axis BorderBox (Fin 10) (grow_dim (Fin 10) (Length (Fin 30))) (grow_dim (Fin 10) Auto)
                                   (grow_dim (Fin 10) (Length (Fin 20))) None None true false (Fin 70) None) = Fin 40.
Proof. repeat split; vm_compute; reflexivity. Qed.

(* with the idiom in that branch the cap would be invariant (the repair) *)
Theorem C12_compressible_cap_adjusted : forall (pb : XQ) (sz mx : Dimension XQ) (c : XQ),
  dim_not_percent sz = true -> dim_not_percent mx = true ->
  xeq (compressible_cap_adjusted ContentBox pb sz mx c) (compressible_cap_adjusted BorderBox pb (grow_dim pb sz) (grow_dim pb mx) c).
Proof. exact compressible_cap_adjusted_invariant. Qed.

Print Assumptions C12_idiom.
Print Assumptions C12_idiom_size.
Print Assumptions C12_idiom_percent_excluded.
Print Assumptions C12_flex_basis.
Print Assumptions C12_leaf.
Print Assumptions C12_root.
Print Assumptions C12_root_leaf.
Print Assumptions C12_premises_satisfiable.
Print Assumptions C12_abs_block.
Print Assumptions C12_abs_flex.
Print Assumptions C12_abs_grid.
Print Assumptions C12_all_sites_adjust.
Print Assumptions C12_no_unadjusted_resolution.
Print Assumptions C12_minimum_contribution_partial.
Print Assumptions C12_minimum_contribution_refuted.
Print Assumptions C12_compressible_cap_adjusted.

(* ---------------------------------------------------------------------------------------------------------------- *)
(* WHOLE TREES through the engine skeleton (Model/Engine.v).

   BoxSizingBlind (Model/EngineRel.v): the algorithm reads box_sizing / size / min_size / max_size (/ flex_basis) of a node --
   its own and every child's it is given -- only through the adjusted view: on a node and child styles of which ANY eligible
   ones are rewritten (bsrel ok tb elig: the same node, or an eligible node rewritten by `tb`), and on inputs equal as
   numbers (EI), the two resumptions run in lockstep -- same child addressed, queries equal up to EI, stored layouts up to EL,
   results up to EO, given answers equal up to EO.  Then, for ANY subset of the eligible nodes rewritten (two trees related by
   `trel (bsrel ..)`: the same shape, each node unchanged or rewritten; cache entries and stored layouts equal as numbers,
   e.g. both trees fresh), every evaluation returns equal outputs and leaves equal stored layouts at every node.
   EI / EO / EL are parameters (for the instance: "equal as numbers, field by field"). *)
From TV Require Model.Engine Model.EngineRel Proofs.EngineRelProofs.
From TV Require Gen.BlockGen Model.Block Model.ScaleBase Model.ScaleBlock Model.BlockAlg Model.BlockEngine Model.BlockEngineRel Model.BlockEngineExample.
From TV Require Proofs.ScaleKit Proofs.BlockAlgRel Proofs.EngineHomog Proofs.EngineBoxSizing Proofs.EngineExamples.

Section EngineLevel.
  Import TV.Model.Engine TV.Model.EngineRel TV.Proofs.EngineRelProofs.

  Theorem C12_engine :
    forall (S In Out Lay : Type) (mode : In -> RunMode) (in_eqb : In -> In -> bool) (is_none : S -> bool) (hidden_out : Out)
           (zero_lay : Lay) (algo : S -> list S -> In -> Alg In Out Lay)
           (ok : S -> Prop) (tb : S -> S) (elig : S -> Prop)
           (EI : In -> In -> Prop) (EO : Out -> Out -> Prop) (EL : Lay -> Lay -> Prop),
      (forall i i', EI i i' -> mode i' = mode i) ->
      (forall s, ok s -> elig s -> is_none (tb s) = is_none s) ->
      EO hidden_out hidden_out -> EL zero_lay zero_lay ->
      (forall i1 i1' i2 i2', EI i1 i1' -> EI i2 i2' -> in_eqb i1' i2' = in_eqb i1 i2) ->
      BoxSizingBlind S In Out Lay ok tb elig EI EO EL algo ->
      forall f t t' i i', trel S In Out Lay (bsrel ok tb elig) EI EO EL t t' -> EI i i' ->
        oprel (res_rel S In Out Lay (bsrel ok tb elig) EI EO EL)
              (memo S In Out Lay mode in_eqb is_none hidden_out zero_lay algo f t i)
              (memo S In Out Lay mode in_eqb is_none hidden_out zero_lay algo f t' i').
  Proof.
    intros S In Out Lay mode in_eqb is_none hidden_out zero_lay algo ok tb elig EI EO EL Hm Hn Hh Hz Hk HA f t t' i i' Ht Hi.
    apply (memo_rel S In Out Lay mode in_eqb is_none hidden_out zero_lay algo algo (bsrel ok tb elig) EI EO EL Hm); try assumption.
    intros s s' [Hok [->|[El ->]]]; [reflexivity|apply Hn; assumption].
  Qed.

  (* fresh trees, every subset: the nodes at the paths selected by `w` are rewritten by `g` (the total version of the
     rewrite: `tb` on eligible nodes, the identity elsewhere); equal root outputs, equal stored layouts at every node *)
  Theorem C12_engine_fresh :
    forall (S In Out Lay : Type) (mode : In -> RunMode) (in_eqb : In -> In -> bool) (is_none : S -> bool) (hidden_out : Out)
           (zero_lay : Lay) (algo : S -> list S -> In -> Alg In Out Lay)
           (ok : S -> Prop) (tb : S -> S) (elig : S -> Prop) (g : S -> S)
           (EI : In -> In -> Prop) (EO : Out -> Out -> Prop) (EL : Lay -> Lay -> Prop),
      (forall i i', EI i i' -> mode i' = mode i) ->
      (forall s, ok s -> elig s -> is_none (tb s) = is_none s) ->
      EO hidden_out hidden_out -> EL zero_lay zero_lay ->
      (forall i1 i1' i2 i2', EI i1 i1' -> EI i2 i2' -> in_eqb i1' i2' = in_eqb i1 i2) ->
      (forall s, ok s -> g s = s \/ (elig s /\ g s = tb s)) ->
      BoxSizingBlind S In Out Lay ok tb elig EI EO EL algo ->
      forall f (k : sk S) (w : list nat -> bool) i i' o t1, sk_all S ok k -> EI i i' ->
        memo S In Out Lay mode in_eqb is_none hidden_out zero_lay algo f (fresh S In Out Lay zero_lay k) i = Some (o, t1) ->
        exists o' t1',
          memo S In Out Lay mode in_eqb is_none hidden_out zero_lay algo f
               (fresh S In Out Lay zero_lay (sk_map_where S g w k)) i' = Some (o', t1') /\
          EO o o' /\ Forall2 EL (lays S In Out Lay t1) (lays S In Out Lay t1').
  Proof.
    intros S In Out Lay mode in_eqb is_none hidden_out zero_lay algo ok tb elig g EI EO EL Hm Hn Hh Hz Hk Hg HA f k w i i' o t1 Hall Hi E.
    assert (Hkk : skrel S (bsrel ok tb elig) k (sk_map_where S g w k)).
    { apply (skrel_map_where S (bsrel ok tb elig) g ok); [|  |exact Hall].
      - intros s Hs. split; [exact Hs|left; reflexivity].
      - intros s Hs. split; [exact Hs|]. destruct (Hg s Hs) as [->|[El ->]]; [left; reflexivity|right; split; [exact El|reflexivity]]. }
    assert (Hn' : forall s s', bsrel ok tb elig s s' -> is_none s' = is_none s).
    { intros s s' [Hok [->|[El ->]]]; [reflexivity|apply Hn; assumption]. }
    pose proof (memo_fresh_rel S In Out Lay mode in_eqb is_none hidden_out zero_lay algo algo (bsrel ok tb elig) EI EO EL
                               Hm Hn' Hh Hz Hk HA f k _ i i' Hkk Hi) as H.
    rewrite E in H. unfold oprel in H.
    destruct (memo S In Out Lay mode in_eqb is_none hidden_out zero_lay algo f
                   (fresh S In Out Lay zero_lay (sk_map_where S g w k)) i') as [[o' t1']|]; [|contradiction].
    destruct H as [Ho Ht]. cbn [fst snd] in Ho, Ht. exists o', t1'. split; [reflexivity|]. split; [exact Ho|].
    apply (trel_lays S In Out Lay (bsrel ok tb elig) EI EO EL). exact Ht.
  Qed.
End EngineLevel.

(* ---------------------------------------------------------------------------------------------------------------- *)
(* Engines of BLOCK CONTAINERS AND LEAVES (Model/BlockEngine.v): no premise on the algorithms.

   The rewrite on a block style (b_to_border_box / b_eligibleb: Model/BlockEngine.v) is the rewrite of Model/BoxSizing.v seen
   through the adapter (C12_block_rewrite_is_leaf_rewrite).  "Equal as numbers" = the relations of C04 at scale factor 1:
   sc 1 a a' <-> xeq a' a (C12_rel1_is_xeq).  The block resumption (Model/BlockAlg.v) resolves size / min_size / max_size at two
   sites, both with the adjustment: compute_block_layout / compute_inner for the container itself (Model/Block.v
   block_resolve) and generate_item_list for every child (generate_item) -- C12_block_resolutions_blind is the Gallina form of
   those entries of the generated site table.  Nodes must carry measure functions that do not distinguish equal rationals
   (the premise of C12_leaf).  Parameters of the resumption as in C04: proved for all `pre` / `abs_child` satisfying PreRel /
   AbsChildRel at the relation bb_rel, discharged for block_pre and abs_child_simple; the real absolute-item routine
   (C12_abs_block is about its style resolution) is not plugged in.  Flex and grid containers: BoxSizingBlind stays a premise
   (and fails for grid in the known-finding class, C12_minimum_contribution_refuted).

   PARTIAL with respect to the property (audit, wave 5c; the same caveats as the BlockTrees module of Props/C04.v): every node
   with children is laid out by the block algorithm whatever its `display`; the absolute pass is the simple routine
   abs_child_simple, not the translated one (its whole kernel is covered separately by C12_abs_block_full); exact-key memo, root
   input given directly; `bl_memo` is executed by no correspondence runner (C04_block_engine_agrees_with_K1_model is the
   example-level tie to the K-checked Model/BlockTree.v); `oprel` conclusions allow "both evaluations fail", excluded on the
   example by computation. *)
Section BlockTrees.
  Import TV.Gen.BlockGen TV.Model.Block TV.Model.ScaleBase TV.Model.ScaleBlock TV.Proofs.ScaleKit.
  Import TV.Model.Engine TV.Model.EngineRel TV.Proofs.EngineRelProofs.
  Import TV.Model.BlockAlg TV.Model.BlockEngine TV.Model.BlockEngineRel TV.Model.BlockEngineExample.
  Import TV.Proofs.BlockAlgRel TV.Proofs.EngineHomog TV.Proofs.EngineBoxSizing TV.Proofs.EngineExamples.

  Theorem C12_rel1_is_xeq : forall a a' : XQ, sc 1 a a' <-> xeq a' a.
  Proof. exact sc1_iff. Qed.

  (* the block-vocabulary rewrite is the rewrite C12_leaf is about, and its class is the eligible class *)
  Theorem C12_block_rewrite_is_leaf_rewrite : forall s : BStyle XQ, b_eligibleb s = true ->
    eligible (cv_style s) /\ cv_style (b_to_border_box s) = to_border_box (cv_style s).
  Proof. intros s El. split; [apply cv_eligible; exact El|apply cv_to_border_box; exact El]. Qed.

  (* the two resolutions of the block algorithm do not see the rewrite: the container's own size / min / max against its
     parent size (block_resolve, used by compute_block_layout and compute_inner), and a child's against the container's inner
     size (generate_item = one element of generate_item_list) -- on inputs / contexts equal as numbers *)
  Theorem C12_block_resolutions_blind : forall s : BStyle XQ, b_eligibleb s = true ->
    (forall inp inp', binput_rel 1 inp inp' -> bresolved_rel 1 (block_resolve s inp) (block_resolve (b_to_border_box s) inp')) /\
    (forall nis nis' order, bsz_rel (op_rel (sc 1)) nis nis' ->
       bitem_rel 1 (generate_item s nis order) (generate_item (b_to_border_box s) nis' order)).
  Proof.
    intros s El. pose proof (bb_weak_rewrite s El) as W.
    destruct W as (_ & _ & _ & _ & _ & _ & _ & _ & _ & Wres & Witem). split; assumption.
  Qed.

  (* the leaf behind the adapter: C12_leaf, for inputs that are only equal as numbers *)
  Theorem C12_engine_leaf : forall (s : BStyle XQ) m i i', measure_respects_xeq m -> b_eligibleb s = true -> bin_rel 1 i i' ->
    bout_rel 1 (leaf_out s m i) (leaf_out (b_to_border_box s) m i').
  Proof. intros s m i i' Hm El Hi. apply leaf_out_bb; [exact Hm|right; split; [exact El|reflexivity]|exact Hi]. Qed.

  (* the block resumption, any parameters *)
  Theorem C12_block_algorithm_box_sizing_blind :
    forall (pre : BStyle XQ -> BIn XQ -> BIn XQ) (abs_child : @AbsChild XQ),
      PreRel 1 bb_rel pre -> AbsChildRel 1 bb_rel abs_child ->
      forall st st' children children' inp inp',
        bb_rel st st' -> Forall2 bb_rel children children' -> bin_rel 1 inp inp' ->
        AlgRel (BIn XQ) (ChildOut XQ) (BLayout XQ) (bin_rel 1) (bout_rel 1) (blay_rel 1)
               (block_alg pre abs_child st children inp) (block_alg pre abs_child st' children' inp').
  Proof. intros pre abs_child Hpre Habs st st' children children' inp inp'. apply (block_alg_rel 1 Q01 bb_rel bb_weak); assumption. Qed.

  Theorem C12_block_parameters_box_sizing_blind : PreRel 1 bb_rel block_pre /\ AbsChildRel 1 bb_rel (abs_child_simple (T := XQ)).
  Proof. split; [apply (block_pre_rel 1 Q01 bb_rel bb_weak)|apply (abs_child_simple_rel 1 Q01)]. Qed.

  (* the engine's algorithm is box-sizing blind: no premise *)
  Theorem C12_block_engine_box_sizing_blind :
    BoxSizingBlind (BNode XQ) (BIn XQ) (ChildOut XQ) (BLayout XQ) bn_ok bn_tb bn_elig (bin_rel 1) (bout_rel 1) (blay_rel 1)
                   (bl_algo block_pre abs_child_simple).
  Proof. exact bl_algo_box_sizing_blind_inst. Qed.

  (* hence: two trees that differ by rewriting any subset of the eligible nodes (and whose cache entries and stored layouts
     are equal as numbers, e.g. both fresh), inputs equal as numbers, the same fuel: both evaluations fail or both return,
     with equal outputs and equal trees *)
  Theorem C12_block_engine_instance :
    forall f t t' i i',
      trel (BNode XQ) (BIn XQ) (ChildOut XQ) (BLayout XQ) bnode_bb (bin_rel 1) (bout_rel 1) (blay_rel 1) t t' -> bin_rel 1 i i' ->
      oprel (res_rel (BNode XQ) (BIn XQ) (ChildOut XQ) (BLayout XQ) bnode_bb (bin_rel 1) (bout_rel 1) (blay_rel 1))
            (bl_memo block_pre abs_child_simple f t i) (bl_memo block_pre abs_child_simple f t' i').
  Proof.
    apply block_engine_box_sizing; [apply (block_pre_rel 1 Q01 bb_rel bb_weak)|apply (abs_child_simple_rel 1 Q01)].
  Qed.

  (* every subset of the eligible nodes of a fresh tree: the nodes at the paths selected by `w` are rewritten when eligible
     (bn_to_border_box); the SAME input; the stored layouts of all nodes and the root output are equal as numbers *)
  Theorem C12_block_engine_rewritten_layouts :
    forall f (t : sk (BNode XQ)) (w : list nat -> bool) i o t1,
      sk_all (BNode XQ) bn_ok t ->
      bl_memo block_pre abs_child_simple f (bl_fresh t) i = Some (o, t1) ->
      exists o' t1',
        bl_memo block_pre abs_child_simple f (bl_fresh (sk_map_where (BNode XQ) bn_to_border_box w t)) i = Some (o', t1') /\
        bout_rel 1 o o' /\
        Forall2 (blay_rel 1) (lays (BNode XQ) (BIn XQ) (ChildOut XQ) (BLayout XQ) t1) (lays (BNode XQ) (BIn XQ) (ChildOut XQ) (BLayout XQ) t1').
  Proof.
    intros f t w i o t1 Hall E.
    pose proof (C12_block_engine_instance f (bl_fresh t) (bl_fresh (sk_map_where (BNode XQ) bn_to_border_box w t)) i i
                  (bl_fresh_bb _ _ (rewrite_where_bb t w Hall)) (bin_rel1_refl i)) as H.
    rewrite E in H. unfold oprel in H.
    destruct (bl_memo block_pre abs_child_simple f (bl_fresh (sk_map_where (BNode XQ) bn_to_border_box w t)) i) as [[o' t1']|]; [|contradiction].
    destruct H as [Ho Ht1]. cbn [fst snd] in Ho, Ht1. exists o', t1'. split; [reflexivity|]. split; [exact Ho|].
    apply (trel_lays (BNode XQ) (BIn XQ) (ChildOut XQ) (BLayout XQ) bnode_bb (bin_rel 1) (bout_rel 1) (blay_rel 1)). exact Ht1.
  Qed.

  (* non-vacuity on the tree of Model/BlockEngineExample.v: its measure functions respect xeq; rewriting ALL eligible nodes
     (root, A, B, C, G; D is display:none and eligible too; E, F are border-box), only the root, or only the nodes below the
     root really changes the styles (root: width 200 content-box -> 212 border-box) and changes no stored layout *)
  Definition ex_all (p : list nat) : bool := true.
  Definition ex_root_only (p : list nat) : bool := match p with nil => true | _ => false end.
  Definition ex_below_root (p : list nat) : bool := match p with nil => false | _ => true end.
  Definition ex_rewrite (w : list nat -> bool) (t : sk (BNode XQ)) : sk (BNode XQ) := sk_map_where (BNode XQ) bn_to_border_box w t.
  Example C12_block_engine_example :
    sk_all (BNode XQ) bn_ok ex_tree /\ sk_all (BNode XQ) bn_ok ex_subtree /\
    (let s := bn_style (sstyle (BNode XQ) (ex_rewrite ex_root_only ex_tree)) in
     st_content_box s = false /\ st_size s = mkSize (Len (Fin 212)) Auto) /\
    ex_root_size ex_tree ex_input 212 102 = true /\
    ex_same_ok ex_tree (ex_rewrite ex_all ex_tree) ex_input = true /\
    ex_same_ok ex_tree (ex_rewrite ex_root_only ex_tree) ex_input = true /\
    ex_same_ok ex_tree (ex_rewrite ex_below_root ex_tree) ex_input = true /\
    (* the container B alone under max-content (content-based width through measuring queries), children rewritten *)
    ex_root_size ex_subtree ex_input_max 60 44 = true /\
    ex_same_ok ex_subtree (ex_rewrite ex_all ex_subtree) ex_input_max = true /\
    ex_same_ok ex_subtree (ex_rewrite ex_below_root ex_subtree) ex_input_max = true.
  Proof.
    split; [apply ex_all_ok|]. split; [apply ex_all_ok|]. split; [vm_compute; split; reflexivity|].
    repeat split; vm_compute; reflexivity.
  Qed.

  (* the same for ANY preprocessing and absolute-item routine satisfying the two premises *)
  Theorem C12_block_engine_instance_parametric :
    forall (pre : BStyle XQ -> BIn XQ -> BIn XQ) (abs_child : @AbsChild XQ),
      PreRel 1 bb_rel pre -> AbsChildRel 1 bb_rel abs_child ->
      forall f t t' i i',
        trel (BNode XQ) (BIn XQ) (ChildOut XQ) (BLayout XQ) bnode_bb (bin_rel 1) (bout_rel 1) (blay_rel 1) t t' -> bin_rel 1 i i' ->
        oprel (res_rel (BNode XQ) (BIn XQ) (ChildOut XQ) (BLayout XQ) bnode_bb (bin_rel 1) (bout_rel 1) (blay_rel 1))
              (bl_memo pre abs_child f t i) (bl_memo pre abs_child f t' i').
  Proof. exact block_engine_box_sizing. Qed.
End BlockTrees.

(* ---------------------------------------------------------------------------------------------------------------- *)
(* The REAL absolute-item routine and the root glue (wave 5).  `abs_child_block` (Model/BlockAbs.v) = one iteration of block.rs
   perform_absolute_layout_on_absolute_children built from the translated kernel Gen/AbsPosGen.v; its style resolution is the
   `block_resolve` C12_abs_block is about, and the adapter from the block vocabulary commutes with the rewrite, so AbsChildRel at
   bb_rel is PROVED for it: the parametric theorems apply without premise on the algorithms.  `block_layout_pass` (Model/BlockRoot.v)
   adds compute_root_layout (C12_root for the root's known dimensions; the root's own layout reads no box-sizing field).  This is
   the engine instance the whole-tree correspondence `vh blocktree cases` compares with the implementation bit for bit. *)
From TV Require Model.BlockAbs Model.BlockRoot Model.BlockAbsExample Proofs.BlockAbsRel Proofs.BlockRootRel.
Section BlockTreesReal.
  Import TV.Gen.BlockGen TV.Model.Block TV.Model.ScaleBase TV.Model.ScaleBlock TV.Proofs.ScaleKit.
  Import TV.Model.Engine TV.Model.EngineRel TV.Proofs.EngineRelProofs.
  Import TV.Model.BlockAlg TV.Model.BlockEngine TV.Model.BlockEngineRel TV.Model.BlockEngineExample.
  Import TV.Model.BlockAbs TV.Model.BlockRoot TV.Model.BlockAbsExample.
  Import TV.Proofs.BlockAlgRel TV.Proofs.EngineHomog TV.Proofs.EngineBoxSizing TV.Proofs.EngineExamples TV.Proofs.BlockAbsRel TV.Proofs.BlockRootRel.

  Theorem C12_block_absolute_routine_box_sizing_blind : AbsChildRel 1 bb_rel (abs_child_block (T := XQ)).
  Proof. exact abs_child_block_box_sizing_blind. Qed.

  Theorem C12_block_engine_real_box_sizing_blind :
    BoxSizingBlind (BNode XQ) (BIn XQ) (ChildOut XQ) (BLayout XQ) bn_ok bn_tb bn_elig (bin_rel 1) (bout_rel 1) (blay_rel 1)
                   (bl_algo block_pre abs_child_block).
  Proof.
    apply bl_algo_box_sizing_blind; [apply (block_pre_rel 1 Q01 bb_rel bb_weak)|exact abs_child_block_box_sizing_blind].
  Qed.

  (* the general invariant: trees that differ by rewriting any subset of the eligible nodes, caches / stored layouts equal as
     numbers, inputs equal as numbers, the same fuel *)
  Theorem C12_block_engine_real_instance :
    forall f t t' i i',
      trel (BNode XQ) (BIn XQ) (ChildOut XQ) (BLayout XQ) bnode_bb (bin_rel 1) (bout_rel 1) (blay_rel 1) t t' -> bin_rel 1 i i' ->
      oprel (res_rel (BNode XQ) (BIn XQ) (ChildOut XQ) (BLayout XQ) bnode_bb (bin_rel 1) (bout_rel 1) (blay_rel 1))
            (bl_memo block_pre abs_child_block f t i) (bl_memo block_pre abs_child_block f t' i').
  Proof.
    apply block_engine_box_sizing; [apply (block_pre_rel 1 Q01 bb_rel bb_weak)|exact abs_child_block_box_sizing_blind].
  Qed.

  (* a whole layout pass on a fresh tree, compute_root_layout included: the nodes at the paths selected by ANY `w` -- the root
     too -- rewritten when eligible, the SAME available space: both passes fail (fuel) or both succeed and every node's stored
     unrounded layout is equal as numbers *)
  Theorem C12_block_layout_pass :
    forall f (t : sk (BNode XQ)) (w : list nat -> bool) av,
      sk_all (BNode XQ) bn_ok t ->
      oprel (Forall2 (blay_rel 1)) (block_layout_pass block_pre abs_child_block f t av)
            (block_layout_pass block_pre abs_child_block f (sk_map_where (BNode XQ) bn_to_border_box w t) av).
  Proof.
    intros f t w av Hall.
    apply block_layout_pass_bb; [apply (block_pre_rel 1 Q01 bb_rel bb_weak)|exact abs_child_block_box_sizing_blind| |].
    - apply rewrite_where_bb. exact Hall.
    - split; [apply bav_rel1_refl|apply bav_rel1_refl].
  Qed.

  (* any sequence of passes on the same tree, from ANY pair of related trees *)
  Theorem C12_block_layout_passes :
    forall f avs t t',
      trel (BNode XQ) (BIn XQ) (ChildOut XQ) (BLayout XQ) bnode_bb (bin_rel 1) (bout_rel 1) (blay_rel 1) t t' ->
      oprel (Forall2 (Forall2 (blay_rel 1))) (block_passes block_pre abs_child_block f t avs) (block_passes block_pre abs_child_block f t' avs).
  Proof.
    intros f avs t t' Ht.
    apply block_passes_bb; [apply (block_pre_rel 1 Q01 bb_rel bb_weak)|exact abs_child_block_box_sizing_blind| |exact Ht].
    induction avs as [|a avs IH]; constructor; [split; apply bav_rel1_refl|exact IH].
  Qed.

  (* non-vacuity on the tree of Model/BlockAbsExample.v (scroll container; absolute children sized by insets, placed at the
     bottom right corner, an absolute container at its static position): all eligible nodes / only the root / all but the root
     rewritten -- the absolute leaf P (content-box, height 30, padding 2) becomes border-box height 34 -- same layouts *)
  Example C12_block_layout_pass_example :
    sk_all (BNode XQ) bn_ok exr_tree /\
    (match ex_rewrite ex_all exr_tree with
     | SNode _ _ (_ :: SNode _ p _ :: _) => st_content_box (bn_style p) = false /\ st_size (bn_style p) = mkSize Auto (Len (Fin 34))
     | _ => False
     end) /\
    exr_same_ok exr_tree (ex_rewrite ex_all exr_tree) exr_avail = true /\
    exr_same_ok exr_tree (ex_rewrite ex_root_only exr_tree) exr_avail = true /\
    exr_same_ok exr_tree (ex_rewrite ex_below_root exr_tree) exr_avail = true /\
    exr_same_ok exr_tree (ex_rewrite ex_all exr_tree) exr_avail_max = true.
  Proof.
    split; [apply ex_all_ok|]. split; [vm_compute; split; reflexivity|]. repeat split; vm_compute; reflexivity.
  Qed.
End BlockTreesReal.

Print Assumptions C12_engine.
Print Assumptions C12_engine_fresh.
Print Assumptions C12_rel1_is_xeq.
Print Assumptions C12_block_rewrite_is_leaf_rewrite.
Print Assumptions C12_block_resolutions_blind.
Print Assumptions C12_engine_leaf.
Print Assumptions C12_block_algorithm_box_sizing_blind.
Print Assumptions C12_block_parameters_box_sizing_blind.
Print Assumptions C12_block_engine_box_sizing_blind.
Print Assumptions C12_block_engine_instance.
Print Assumptions C12_block_engine_rewritten_layouts.
Print Assumptions C12_block_engine_example.
Print Assumptions C12_block_engine_instance_parametric.
Print Assumptions C12_block_absolute_routine_box_sizing_blind.
Print Assumptions C12_block_engine_real_box_sizing_blind.
Print Assumptions C12_block_engine_real_instance.
Print Assumptions C12_block_layout_pass.
Print Assumptions C12_block_layout_passes.
Print Assumptions C12_block_layout_pass_example.

(* ------------------------------------------------------------------------------------------------------------ *)
(** * Whole FLEX containers, and whole trees of block containers, flex containers and leaves (wave 6)

   The flexbox entries of the site table (compute_flexbox_layout, compute_constants, generate_anonymous_flex_items,
   determine_flex_base_size [flex_basis, main-axis component], determine_used_cross_size, perform_absolute_layout_on_absolute_children) as
   THEOREMS about the model instead of a syntactic audit of the source: the rewrite of an eligible style implies the weak relation
   `fstyle_wrel 1` (Model/FlexAlgRel.v: everything `flex_alg` reads of a style, the box-sizing fields only through the resolutions it
   performs), and `flex_alg` (Model/FlexAlg.v: all of compute_flexbox_layout as a resumption, tied bit for bit by `vh flexalg`) is relational
   for any style relation implying it (Proofs/FlexRelFinal.v: the proof of C04 at k = 1, where the floor of the scaled shrink factor is
   unchanged -- so NO premise is left: the known finding grid-compressible-replaced-max-size is about grid items only). *)
From TV Require Model.FlexAlgBase Model.FlexAlg Model.FlexAlgT Model.FlexAlgRel Model.FlexBoxSizing Model.BlockFlexEngine Model.BlockFlexK Model.BlockFlexExample.
From TV Require Proofs.FlexRelFinal Proofs.FlexHomog Proofs.FlexBoxSizing Proofs.BlockFlexRel Proofs.BlockFlexExamples.
Section FlexTrees.
  Import TV.Model.Common TV.Model.Leaf TV.Model.Scale TV.Model.FlexAlgBase TV.Model.FlexAlg TV.Model.FlexAlgRel TV.Model.FlexBoxSizing.
  Import TV.Model.Engine TV.Model.EngineRel TV.Proofs.EngineRelProofs.
  Import TV.Model.BlockFlexEngine TV.Model.BlockFlexK TV.Model.BlockFlexExample.
  Import TV.Proofs.FlexBoxSizing TV.Proofs.BlockFlexRel TV.Proofs.BlockFlexExamples.
  Import ListNotations.

  (* the rewrite on the flex view of a style IS the rewrite C12_leaf is about on its CoreStyle part, plus the flex_basis form of C12_flex_basis
     for the direction `row` of the node's parent *)
  Theorem C12_flex_rewrite_is_leaf_rewrite : forall row (s : FStyle XQ),
    fs_core (f_to_border_box_in row s) = to_border_box (fs_core s) /\
    fs_flex_basis (f_to_border_box_in row s) = flex_basis_to_border_box (style_pb (fs_core s)) row (fs_flex_basis s) /\
    (f_eligibleb s = true -> eligible (fs_core s)).
  Proof.
    intros row s. split; [reflexivity|]. split; [reflexivity|]. intros E. unfold f_eligibleb in E. apply andb_prop in E. exact (proj1 E).
  Qed.

  (* every resolution flex_alg performs on a style is blind to the rewrite: the Gallina form of the flexbox entries of the site table *)
  Theorem C12_flex_resolutions_blind : forall row (s s' : FStyle XQ), fbb_rel row s s' -> fstyle_wrel 1 row s s'.
  Proof. exact fbb_weak. Qed.

  (* the flex algorithm is box-sizing blind, premise-free: the container rewritten or not (for ANY direction `prow` of its own parent), ANY
     subset of its eligible children rewritten (each for the container's direction: the flex_basis adjustment is the main-axis component),
     inputs equal as numbers: the same children are queried with equal inputs, get equal stored layouts, equal results are returned, given
     equal answers *)
  Theorem C12_flex_algorithm_box_sizing_blind : forall prow s s' st st' i i',
    fbb_rel prow s s' -> Forall2 (fbb_rel (fs_row s)) st st' -> fin_rel 1 i i' ->
    AlgRel (FIn XQ) (LayoutOutput XQ) (FLay XQ) (fin_rel 1) (output_rel 1) (flay_rel 1) (flex_alg s st i) (flex_alg s' st' i').
  Proof. exact flex_alg_box_sizing_blind. Qed.

  (* ---- whole trees: the engine of Model/BlockFlexK.v with the floor 1.0, the real block preprocessing and absolute routine.  The per-node
     rewrite cannot know the parent's direction, so the class is the direction-free one: eligible and flex_basis not a length.
     PARTIAL (audit 7b; the three engine-level theorems renamed): the property text names flex-basis among the lengths that are rewritten; at
     engine level a node whose flex_basis is a LENGTH is left alone (`bfn_to_border_box` is the identity on it).  Missing: the tree relation
     with the parent's direction in it.  The algorithm-level theorem C12_flex_algorithm_box_sizing_blind has no such restriction, and
     C12_blockflex_borders_and_flex_basis_example computes a whole tree with a rewritten length flex_basis. *)
  Theorem C12_blockflex_engine_box_sizing_blind_partial :
    BoxSizingBlind (BFNode XQ) (FIn XQ) (LayoutOutput XQ) (FLay XQ) bfn_ok bfn_tb bfn_elig (fin_rel 1) (output_rel 1) (flay_rel 1)
                   (bfn_algo one BlockEngine.block_pre BlockAbs.abs_child_block).
  Proof. exact bfn_algo_box_sizing_blind_real. Qed.

  (* the conclusion of C12_engine: no premise on the algorithms *)
  Theorem C12_blockflex_engine_instance_partial :
    forall f t t' i i',
      trel (BFNode XQ) (FIn XQ) (LayoutOutput XQ) (FLay XQ) bfnode_bb (fin_rel 1) (output_rel 1) (flay_rel 1) t t' -> fin_rel 1 i i' ->
      oprel (res_rel (BFNode XQ) (FIn XQ) (LayoutOutput XQ) (FLay XQ) bfnode_bb (fin_rel 1) (output_rel 1) (flay_rel 1))
            (bf_memo f t i) (bf_memo f t' i').
  Proof. exact bf_engine_box_sizing. Qed.

  (* every subset of the eligible nodes of a fresh tree rewritten (bfn_to_border_box at the paths selected by `w`), the SAME input: the run
     succeeds iff the original does, the root outputs and the stored layouts of ALL nodes are equal as numbers *)
  Theorem C12_blockflex_engine_rewritten_layouts_partial :
    forall f (t : sk (BFNode XQ)) (w : list nat -> bool) i o t1,
      sk_all (BFNode XQ) bfn_ok t -> bf_memo f (bfk_fresh t) i = Some (o, t1) ->
      exists o' t1',
        bf_memo f (bfk_fresh (sk_map_where (BFNode XQ) bfn_to_border_box w t)) i = Some (o', t1') /\ output_rel 1 o o' /\
        Forall2 (flay_rel 1) (lays (BFNode XQ) (FIn XQ) (LayoutOutput XQ) (FLay XQ) t1) (lays (BFNode XQ) (FIn XQ) (LayoutOutput XQ) (FLay XQ) t1').
  Proof. exact bf_engine_rewritten_layouts. Qed.

  (* non-vacuity on the 10-node tree of Model/BlockFlexExample.v (block root, flex row container with a growing item, a fixed-width item,
     a nested flex column container, a hidden and an absolute child): all eligible nodes / only the flex row container / everything but the
     root rewritten -- root width 300 -> 308, the flex container becomes border-box, item b 60 -> 64 -- same layouts *)
  Example C12_blockflex_engine_example :
    sk_all (BFNode XQ) bfn_ok fx_tree /\
    match fx_rewritten w_all with
    | SNode _ r [_; SNode _ f [_; SNode _ b _; _; _; _]] =>
        Some (width (size (bfn_core r)), box_sizing (bfn_core f), width (size (bfn_core b)))
    | _ => None
    end = Some (Length (qz 300 + (qz 4 + qz 0 + (qz 4 + qz 0)))%num, BorderBox, Length (qz 60 + (qz 2 + qz 0 + (qz 2 + qz 0)))%num) /\
    fx_same_ok fx_tree (fx_rewritten w_all) fx_input = true /\
    fx_same_ok fx_tree (fx_rewritten w_only_F) fx_input = true /\
    fx_same_ok fx_tree (fx_rewritten w_not_root) fx_input = true.
  Proof.
    split; [apply fx_all_ok|]. split; [exact fx_rewrite_changes|]. split; [exact fx_same_all|]. split; [exact fx_same_F|exact fx_same_not_root].
  Qed.
End FlexTrees.

Print Assumptions C12_flex_rewrite_is_leaf_rewrite.
Print Assumptions C12_flex_resolutions_blind.
Print Assumptions C12_flex_algorithm_box_sizing_blind.
Print Assumptions C12_blockflex_engine_box_sizing_blind_partial.
Print Assumptions C12_blockflex_engine_instance_partial.
Print Assumptions C12_blockflex_engine_rewritten_layouts_partial.
Print Assumptions C12_blockflex_engine_example.

(* ------------------------------------------------------------------------------------------------------------ *)
(** * The block + flex engine of `FlexTrees` IS the engine `vh taffytree` runs, on trees without grid containers (audit, wave 7b)

   `bf_memo` (Model/BlockFlexK.v) has no correspondence runner of its own.  Props/C04.v `FlexTreesK` proves that it is the complete engine
   Model/TaffyRoot.v `real_memo` (= what Model/TaffyEngineRun.v evaluates for `vh taffytree cases`) on every tree without display:grid
   containers, styles read through `bfn_emb` (C04_blockflex_node_is_taffy_node, C04_blockflex_engine_is_taffy_engine); below, the
   whole-tree statement of C12 restated about that engine, and the computed Examples the first version lacked: non-zero BORDERS, a LENGTH
   flex_basis that is rewritten (the engine-level class `bfn_elig` excludes it; the algorithm-level theorem does not), and an Example
   that would FAIL if the flex_basis were adjusted along the wrong axis.
   Same caveats as in Props/C04.v: numeric `eqb` keys here vs representation keys in the runner, XQ vs binary32, no compute_root_layout. *)
From TV Require Model.TaffyEngine Model.TaffyRoot Model.BlockFlexTaffy Model.BlockFlexExample2 Proofs.EngineMap Proofs.BlockFlexTaffy Proofs.BlockFlexTaffyClass.
Section FlexTreesK.
  Import TV.Model.Common TV.Model.Leaf TV.Model.Scale TV.Model.FlexAlgBase TV.Model.FlexAlg TV.Model.FlexAlgRel TV.Model.FlexBoxSizing.
  Import TV.Model.Engine TV.Model.EngineRel.
  Import TV.Model.BlockFlexEngine TV.Model.BlockFlexK TV.Model.BlockFlexExample TV.Model.TaffyEngine TV.Model.TaffyRoot TV.Model.BlockFlexTaffy.
  Import TV.Model.BlockFlexExample2 TV.Proofs.BlockFlexRel TV.Proofs.BlockFlexExamples TV.Proofs.BlockFlexTaffy.
  Import ListNotations.

  (* C12_blockflex_engine_rewritten_layouts_partial about the K-run engine; PARTIAL like the engine-level theorems of `FlexTrees`: a node whose
     flex_basis is a length is left alone by `bfn_to_border_box` (its rewrite depends on the parent's direction); the rewritten
     tree is grid-free because the rewrite keeps `display` (Proofs/BlockFlexTaffyClass.v) *)
  Theorem C12_taffy_engine_rewritten_layouts_partial :
    forall f (t : sk (BFNode XQ)) (w : list nat -> bool) i o T1,
      sk_goodb t = true -> sk_all (BFNode XQ) bfn_ok t ->
      real_memo Num.eqb f (taffy_fresh (sk_map bfn_emb t)) i = Some (o, T1) ->
      exists o' T1',
        real_memo Num.eqb f (taffy_fresh (sk_map bfn_emb (sk_map_where (BFNode XQ) bfn_to_border_box w t))) i = Some (o', T1') /\
        output_rel 1 o o' /\
        Forall2 (flay_rel 1) (lays (TStyle XQ) (FIn XQ) (LayoutOutput XQ) (FLay XQ) T1) (lays (TStyle XQ) (FIn XQ) (LayoutOutput XQ) (FLay XQ) T1').
  Proof. exact BlockFlexTaffyClass.real_engine_rewritten_layouts'. Qed.

  (* non-vacuity of C12_flex_algorithm_box_sizing_blind on ONE flex container run through `alg_run` (Model/BlockFlexExample2.v: row container
     width 200, max-height 90, padding 3, border 1/2/3/1; items with padding AND border, flex-basis 40 / width 60, min-height 20): all three
     styles are eligible, the rewrite turns the flex basis 40 into 45 (padding 1+1, border 1+2), container and both items rewritten /
     only item a rewritten: same output and stored layouts; the flex_basis adjusted along the WRONG axis (+6): a different layout *)
  Example C12_flex_algorithm_example :
    f_eligibleb ex_cont = true /\ f_eligibleb ex_a = true /\ f_eligibleb ex_b = true /\
    fs_flex_basis (f_to_border_box_in true ex_a) = Length (Fin 45) /\
    fbb_rel false ex_cont (f_to_border_box_in false ex_cont) /\
    Forall2 (fbb_rel true) [ex_a; ex_b] [f_to_border_box_in true ex_a; f_to_border_box_in true ex_b] /\
    run_eqb (ex_run ex_cont [ex_a; ex_b])
            (ex_run (f_to_border_box_in false ex_cont) [f_to_border_box_in true ex_a; f_to_border_box_in true ex_b]) = true /\
    run_eqb (ex_run ex_cont [ex_a; ex_b]) (ex_run ex_cont [f_to_border_box_in true ex_a; ex_b]) = true /\
    run_eqb (ex_run ex_cont [ex_a; ex_b]) (ex_run ex_cont [f_to_border_box_in false ex_a; ex_b]) = false.
  Proof.
    split; [vm_compute; reflexivity|]. split; [vm_compute; reflexivity|]. split; [vm_compute; reflexivity|].
    split; [vm_compute; reflexivity|].
    split; [right; split; [vm_compute|]; reflexivity|].
    split; [repeat constructor; right; (split; [vm_compute|]; reflexivity)|].
    repeat split; vm_compute; reflexivity.
  Qed.

  (* whole trees with BORDERS and a rewritten LENGTH flex_basis (Model/BlockFlexExample2.v fx_tree0: the 10-node tree, border 1/2/3/1 on every
     node, item a0 not growing so that its width is its flex basis): the direction-aware rewrite `fx_rw` of every eligible node (root width
     300 -> 311, flex basis of a0 40 -> 45, width of b 60 -> 67) gives the same layouts -- computed: this is NOT an instance of the engine-level
     theorem (a0 is outside `bfn_elig`), it is what the algorithm-level theorem predicts --, the rewrite along the wrong axis does not, and
     the engine-level rewrite (a0 left alone) does; the trees are grid-free and the complete engine computes the same layouts *)
  Example C12_blockflex_borders_and_flex_basis_example :
    fx_rw_probe fx_tree0 = Some (Length (Fin 300), Length (Fin 40), Length (Fin 60)) /\
    fx_rw_probe (fx_rw true fx_tree0) = Some (Length (Fin 311), Length (Fin 45), Length (Fin 67)) /\
    fx_same_ok fx_tree0 (fx_rw true fx_tree0) fx_input = true /\
    fx_same_ok fx_tree0 (fx_rw_wrong fx_tree0) fx_input = false /\
    fx_same_ok fx_tree0 (sk_map_where (BFNode XQ) bfn_to_border_box (fun _ => true) fx_tree0) fx_input = true /\
    sk_goodb fx_tree0 = true /\ sk_goodb (sk_map_where (BFNode XQ) bfn_to_border_box (fun _ => true) fx_tree0) = true /\
    real_vs_bf fx_tree0 fx_input = Some true /\ real_vs_bf (fx_rw true fx_tree0) fx_input = Some true.
  Proof. repeat split; vm_compute; reflexivity. Qed.
End FlexTreesK.

Print Assumptions C12_taffy_engine_rewritten_layouts_partial.
Print Assumptions C12_flex_algorithm_example.
Print Assumptions C12_blockflex_borders_and_flex_basis_example.

(* ------------------------------------------------------------------------------------------------------------ *)
(** * Whole GRID containers (wave 9e, notes/GRIDREL.md)

   The grid entries of the site table (compute_grid_layout, GridItem::known_dimensions, GridItem::minimum_contribution,
   align_and_position_item) as THEOREMS about the model: the rewrite of an eligible, NOT compressible-replaced style implies the weak relation
   `gstyle_wrel 1` (Model/GridAlgRel.v: everything `grid_alg` reads of a style, the box-sizing fields only through the five resolutions it
   performs), and `grid_alg` (Model/GridAlg.v: all of compute_grid_layout as a resumption, tied bit for bit by `vh gridalg`) is relational for any
   style relation implying it: the front (preprocessing, explicit counts, placement, track initialisation, items), the sizing program in the
   monad `Prog` (ProgRel: one lemma per program, the bind lemma, `run`), the final phase.  At k = 1 the two absolute thresholds of the track
   kernels are unchanged, so the only premise left is the CLASS: `g_eligibleb` excludes `item_is_replaced` items -- the known finding
   grid-compressible-replaced-max-size (C12_minimum_contribution_refuted) -- hence `_partial`. *)
From TV Require Model.GridAlgBase Model.GridAlg Model.GridAlgRel Model.GridSizingRel Model.GridRelExample.
From TV Require Proofs.GridRelKit Proofs.GridStyleRel Proofs.GridRelItems Proofs.GridRelFinal Proofs.GridRelAlg Proofs.GridRelTop.
Section GridContainers.
  Import TV.Model.Common TV.Model.Leaf TV.Model.Scale TV.Model.ScaleGrid TV.Model.FlexAlgBase TV.Model.FlexAlgRel.
  Import TV.Model.GridAlgBase TV.Model.GridAlg TV.Model.GridAlgRel TV.Model.GridSizingRel TV.Model.GridRelExample.
  Import TV.Model.Engine TV.Model.EngineRel.
  Import TV.Proofs.GridRelKit TV.Proofs.GridStyleRel TV.Proofs.GridRelItems TV.Proofs.GridRelFinal TV.Proofs.GridRelAlg TV.Proofs.GridRelTop.
  Import ListNotations.

  (* the rewrite on the grid view of a style IS the rewrite C12_leaf is about on its CoreStyle part; the class is C12_leaf's minus the
     compressible replaced items *)
  Theorem C12_grid_rewrite_is_leaf_rewrite : forall s : GStyle XQ,
    gs_core (g_to_border_box s) = to_border_box (gs_core s) /\ (g_eligibleb s = true -> eligible (gs_core s) /\ gs_replaced s = false).
  Proof. exact grid_rewrite_is_leaf_rewrite. Qed.

  (* every resolution grid_alg performs on a style is blind to the rewrite: the Gallina form of the grid entries of the site table *)
  Theorem C12_grid_resolutions_blind : forall s s' : GStyle XQ, gbb_rel s s' -> gstyle_wrel 1 s s'.
  Proof. exact gbb_weak. Qed.

  (* compute_grid_layout l.50-138: the container's preprocessing record, inputs equal as numbers *)
  Theorem C12_grid_pre_box_sizing_blind : forall (s s' : GStyle XQ) (i i' : GIn XQ),
    gbb_rel s s' -> fin_rel 1 i i' -> pre_rel 1 (grid_pre s i) (grid_pre s' i').
  Proof. exact grid_pre_box_sizing_blind. Qed.

  (* the Prog-level kit (any scale k): the bind lemma, and `run`: programs in lockstep under related continuations are resumptions in lockstep *)
  Theorem C12_grid_prog_bind : forall k (A B : Type) (RA : A -> A -> Prop) (RB : B -> B -> Prop) (p p' : @Prog XQ A) (g g' : A -> @Prog XQ B),
    ProgRel k RA p p' -> (forall a a', RA a a' -> ProgRel k RB (g a) (g' a')) -> ProgRel k RB (pbind p g) (pbind p' g').
  Proof. exact (fun k A B => @pbind_rel k A B). Qed.
  Theorem C12_grid_prog_run : forall k (A : Type) (RA : A -> A -> Prop) ok (p p' : @Prog XQ A) (K K' : A -> Alg (GIn XQ) (LayoutOutput XQ) (GLay XQ)),
    ProgRel k RA p p' -> (forall a a', RA a a' -> GAlgRel k (K a) (K' a')) -> GAlgRel k (run ok p K) (run ok p' K').
  Proof. exact (fun k A => @run_rel k A). Qed.

  (* the item-contribution functions, for items whose styles are related by the weak relation (as `make_item` builds them from gbb_rel
     children): GridItem::known_dimensions, the measuring queries min / max_content_contribution, and minimum_contribution *)
  Theorem C12_grid_item_contributions_blind : forall ax (inner inner' area area' : Size (option XQ)) (g g' : @GItem XQ) ts ts',
    sz_rel (op_rel (sc 1)) inner inner' -> sz_rel (op_rel (sc 1)) area area' -> gitem_rel 1 g g' -> tracks_rel 1 ts ts' ->
    sz_rel (op_rel (sc 1)) (item_known_dimensions inner area g) (item_known_dimensions inner' area' g') /\
    ProgRel 1 (sc 1) (min_content_contribution ax inner g area) (min_content_contribution ax inner' g' area') /\
    ProgRel 1 (sc 1) (max_content_contribution ax inner g area) (max_content_contribution ax inner' g' area') /\
    ProgRel 1 (pair_rel (sc 1) (gitem_rel 1)) (minimum_contribution ax inner g ts area) (minimum_contribution ax inner' g' ts' area').
  Proof. exact grid_item_contributions_blind. Qed.

  (* the sizing program (both track sizing passes, container size, percentage re-resolution, re-runs) and the final phase *)
  Theorem C12_grid_sizing_box_sizing_blind : SizingRel 1.
  Proof. exact grid_sizing_rel_one. Qed.
  Theorem C12_grid_final_phase_box_sizing_blind : forall st st' P P' cc rc oof oof' zc zc',
    gstyle_wrel 1 st st' -> pre_rel 1 P P' -> Forall2 (oof_rel 1) oof oof' -> sized_rel 1 (fst zc) (fst zc') -> snd zc' = snd zc ->
    GAlgRel 1 (grid_final st P cc rc oof zc) (grid_final st' P' cc rc oof' zc').
  Proof. exact grid_final_rel_one. Qed.

  (* the grid algorithm is box-sizing blind on the class: the container rewritten or not, ANY subset of its eligible not-replaced children
     rewritten, inputs equal as numbers: the same children are queried with equal inputs, get equal stored layouts, equal results are
     returned, given equal answers.  ALL phases of grid_main are covered.  PARTIAL: the class excludes item_is_replaced items (for them the
     statement is false: C12_minimum_contribution_refuted); numbers are XQ; unrounded layouts. *)
  Theorem C12_grid_algorithm_box_sizing_blind_partial : forall s s' st st' i i',
    gbb_rel s s' -> Forall2 gbb_rel st st' -> fin_rel 1 i i' -> GAlgRel 1 (grid_alg s st i) (grid_alg s' st' i').
  Proof. exact grid_alg_box_sizing_blind. Qed.

  (* the premise of C12_engine for grid containers *)
  Theorem C12_grid_engine_premise_partial :
    BoxSizingBlind (GStyle XQ) (GIn XQ) (LayoutOutput XQ) (GLay XQ) (fun _ => True) g_to_border_box (fun s => g_eligibleb s = true)
                   (fin_rel 1) (output_rel 1) (flay_rel 1) grid_alg.
  Proof. exact grid_alg_engine_box_sizing_blind. Qed.

  (* non-vacuity, computed: content-box grid container (padding 3, border 1, width 100, `auto 1fr`, gap 2), item a (padding 2, border 1,
     30 x 10), item b (auto; answers 20 x 8).  Both in the class; the rewrite changes them (100 -> 108, 30 x 10 -> 36 x 16); item a is laid out
     36 x 16 and b 62 x 16; container and a / only the container / only a rewritten: the same results and stored layouts; the comparison
     fails when a is replaced by b *)
  Example C12_grid_algorithm_example :
    g_eligibleb ge_container = true /\ g_eligibleb ge_a = true /\
    gbb_rel ge_container (g_to_border_box ge_container) /\ Forall2 gbb_rel [ge_a; ge_b] [g_to_border_box ge_a; ge_b] /\
    (width (size (gs_core (g_to_border_box ge_container))), box_sizing (gs_core (g_to_border_box ge_container)),
     size (gs_core (g_to_border_box ge_a))) =
    (Length (gq 100 + (gq 3 + gq 1 + (gq 3 + gq 1)))%num, BorderBox,
     mkSize (Length (gq 30 + (gq 2 + gq 1 + (gq 2 + gq 1)))%num) (Length (gq 10 + (gq 2 + gq 1 + (gq 2 + gq 1)))%num)) /\
    ge_sizes (ge_run ge_container [ge_a; ge_b]) = [(0, gq 36, gq 16); (1, gq 62, gq 16)] /\
    ge_same (ge_run ge_container [ge_a; ge_b]) (ge_run (g_to_border_box ge_container) [g_to_border_box ge_a; ge_b]) = true /\
    ge_same (ge_run ge_container [ge_a; ge_b]) (ge_run (g_to_border_box ge_container) [ge_a; ge_b]) = true /\
    ge_same (ge_run ge_container [ge_a; ge_b]) (ge_run ge_container [g_to_border_box ge_a; ge_b]) = true /\
    ge_same (ge_run ge_container [ge_a; ge_b]) (ge_run ge_container [ge_b; ge_b]) = false.
  Proof. exact grid_example. Qed.
End GridContainers.

Print Assumptions C12_grid_rewrite_is_leaf_rewrite.
Print Assumptions C12_grid_resolutions_blind.
Print Assumptions C12_grid_pre_box_sizing_blind.
Print Assumptions C12_grid_prog_bind.
Print Assumptions C12_grid_prog_run.
Print Assumptions C12_grid_item_contributions_blind.
Print Assumptions C12_grid_sizing_box_sizing_blind.
Print Assumptions C12_grid_final_phase_box_sizing_blind.
Print Assumptions C12_grid_algorithm_box_sizing_blind_partial.
Print Assumptions C12_grid_engine_premise_partial.
Print Assumptions C12_grid_algorithm_example.

(* ------------------------------------------------------------------------------------------------------------ *)
(** * The COMPLETE engine, every node kind (wave 9g, notes/w9g.md)

   `real_algo` / `real_memo` (Model/TaffyRoot.v: what `vh taffytree` runs against the implementation) dispatch on (display, has children)
   over the block, flex and grid resumptions and compute_leaf_layout.  ONE style relation -- the rewrite `ts_tb` of Model/TaffyBoxSizing.v:
   the block + flex part rewritten by `bf_to_border_box`, grid-only fields and the measure function kept -- implies each algorithm's own
   relation (EngineBoxSizing.bb_rel through the block view, fbb_rel in either direction, gbb_rel through `to_gstyle`), so the dispatch is
   box-sizing blind and `C12_engine` applies to trees that contain GRID containers.  The grid resumption here is the TOTAL one
   (Model/GridAlgTotal.v): the panic test `grid_no_panic` takes the same value on both sides (Proofs/TaffyBoxSizing.v grid_no_panic_wrel).
   PARTIAL only through the class `ts_eligibleb`: the class of C12_leaf, flex_basis neither a percentage nor a length (a length's rewrite
   depends on the parent's direction: as in C12_blockflex_engine_instance_partial), and NOT `item_is_replaced` (the known finding
   grid-compressible-replaced-max-size, C12_minimum_contribution_refuted).  Nodes outside the class are allowed anywhere in the tree: they
   are left alone. *)
From TV Require Model.TaffyEngine Model.TaffyRoot Model.TaffyBoxSizing Model.TaffyBoxSizingExample Model.GridAlgTotal.
From TV Require Proofs.TaffyBoxSizing.
Section AllKinds.
  Import TV.Model.Common TV.Model.Leaf TV.Model.Scale TV.Model.FlexAlgBase TV.Model.FlexAlgRel TV.Model.FlexBoxSizing TV.Model.BlockFlexEngine.
  Import TV.Model.GridAlgBase TV.Model.GridAlg TV.Model.GridAlgTotal TV.Model.GridAlgRel.
  Import TV.Model.Engine TV.Model.EngineRel TV.Model.TaffyEngine TV.Model.TaffyRoot TV.Model.TaffyBoxSizing TV.Model.TaffyBoxSizingExample.
  Import TV.Proofs.TaffyBoxSizing.
  Import TV.Model.TaffyExample.

  (* the rewrite of a node is the block+flex rewrite in the block / flex view and the grid rewrite in the grid view; the class is inside
     both classes *)
  Theorem C12_taffy_rewrite_views :
    forall s : TStyle XQ,
      ts_bf (ts_tb s) = BlockFlexK.bf_to_border_box (ts_bf s) /\ to_gstyle (ts_tb s) = g_to_border_box (to_gstyle s) /\
      (ts_eligibleb s = true -> f_eligible_anyb (bf_flex (ts_bf s)) = true /\ g_eligibleb (to_gstyle s) = true).
  Proof.
    intros s. split; [reflexivity|]. split; [reflexivity|]. intros E.
    split; [exact (proj1 (ts_elig_parts s E))|exact (to_gstyle_eligible s E)].
  Qed.

  (* the total grid resumption (the one the engine runs) is blind: the panic test included *)
  Theorem C12_grid_total_algorithm_box_sizing_blind_partial :
    forall s s' st st' i i',
      gbb_rel s s' -> Forall2 gbb_rel st st' -> fin_rel 1 i i' ->
      grid_no_panic s' st' i' = grid_no_panic s st i /\
      AlgRel (FIn XQ) (LayoutOutput XQ) (FLay XQ) (fin_rel 1) (output_rel 1) (flay_rel 1) (grid_alg_total s st i) (grid_alg_total s' st' i').
  Proof. exact grid_total_box_sizing_blind. Qed.

  (* the dispatch: the premise of C12_engine for the complete algorithm, no premise on any node kind *)
  Theorem C12_taffy_algorithm_box_sizing_blind_partial :
    BoxSizingBlind (TStyle XQ) (FIn XQ) (LayoutOutput XQ) (FLay XQ) ts_ok ts_tb ts_elig (fin_rel 1) (output_rel 1) (flay_rel 1) real_algo.
  Proof. exact real_algo_box_sizing_blind. Qed.

  (* the conclusion of C12_engine for the complete engine: ANY two related trees (arbitrary related caches and stored layouts), inputs equal
     as numbers: both runs fail (fuel) or both succeed with outputs, cache entries and stored layouts of the whole tree equal as numbers *)
  Theorem C12_taffy_engine_all_kinds_partial :
    forall f t t' i i',
      trel (TStyle XQ) (FIn XQ) (LayoutOutput XQ) (FLay XQ) tnode_bb (fin_rel 1) (output_rel 1) (flay_rel 1) t t' -> fin_rel 1 i i' ->
      oprel (res_rel (TStyle XQ) (FIn XQ) (LayoutOutput XQ) (FLay XQ) tnode_bb (fin_rel 1) (output_rel 1) (flay_rel 1))
            (real_memo Num.eqb f t i) (real_memo Num.eqb f t' i').
  Proof. exact real_engine_box_sizing. Qed.

  (* every subset of the eligible nodes of a fresh tree rewritten (ts_to_border_box at the paths selected by `w`), the SAME input: the run
     succeeds iff the original does, the root outputs and the stored layouts of ALL nodes are equal as numbers *)
  Theorem C12_taffy_engine_all_kinds_rewritten_layouts_partial :
    forall f (t : sk (TStyle XQ)) (w : list nat -> bool) i o T1,
      sk_all (TStyle XQ) ts_ok t -> real_memo Num.eqb f (taffy_fresh t) i = Some (o, T1) ->
      exists o' T1',
        real_memo Num.eqb f (taffy_fresh (sk_map_where (TStyle XQ) ts_to_border_box w t)) i = Some (o', T1') /\ output_rel 1 o o' /\
        Forall2 (flay_rel 1) (lays (TStyle XQ) (FIn XQ) (LayoutOutput XQ) (FLay XQ) T1) (lays (TStyle XQ) (FIn XQ) (LayoutOutput XQ) (FLay XQ) T1').
  Proof. exact real_engine_rewritten_layouts. Qed.

  (* non-vacuity, computed (Model/TaffyBoxSizingExample.v): block root (width 200) > flex row (2 leaves), grid (columns 50px 50px, width 150;
     a 20 x 10 leaf and a text leaf), an absolute leaf; every node content-box, padding 2, border 1.  The grid container and the grid item are
     in the class and the rewrite changes them (150 -> 156, 20 x 10 -> 26 x 16); all nodes / the grid container and its item / only the root
     rewritten: the same root output and stored layouts; the comparison detects a 21-wide grid item *)
  Example C12_taffy_engine_all_kinds_example :
    cb_probe cb_tree = Some (ContentBox, Length (xq 150), ContentBox, mkSize (Length (xq 20)) (Length (xq 10))) /\
    cb_probe (cb_rewrite cb_grid_and_item) = Some (BorderBox, Length (xq 156), BorderBox, mkSize (Length (xq 26)) (Length (xq 16))) /\
    (match cb_run cb_tree with Some _ => true | None => false end) = true /\
    cb_same cb_tree (cb_rewrite cb_all) = true /\ cb_same cb_tree (cb_rewrite cb_grid_and_item) = true /\
    cb_same cb_tree (cb_rewrite cb_root_only) = true /\ cb_same cb_tree cb_other = false.
  Proof. repeat split; vm_compute; reflexivity. Qed.
End AllKinds.

Print Assumptions C12_taffy_rewrite_views.
Print Assumptions C12_grid_total_algorithm_box_sizing_blind_partial.
Print Assumptions C12_taffy_algorithm_box_sizing_blind_partial.
Print Assumptions C12_taffy_engine_all_kinds_partial.
Print Assumptions C12_taffy_engine_all_kinds_rewritten_layouts_partial.
Print Assumptions C12_taffy_engine_all_kinds_example.
