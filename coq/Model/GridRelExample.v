(* A computed instance for the grid statements of C12 (definitions only): a content-box grid container (padding 3, border 1, width 100,
   columns `auto 1fr`, gap 2) with two in-flow items -- `ge_a` content-box with padding 2 / border 1 / size 30 x 10, `ge_b` auto-sized (its
   subtree answers 20 x 8) --, laid out (PerformLayout, definite 200 x 200) by `grid_alg` fed by an oracle; the same with the container and
   item a rewritten to border-box (width 100 -> 108, item a 30 x 10 -> 36 x 16), and the boolean comparison of the two runs.
   `ge_a_replaced`: item a as a compressible replaced item (item_is_replaced) with max-width 12 under an auto width: the known finding. *)
From Coq Require Import QArith ZArith Bool List.
From TV Require Import Num.Num Num.QNum Model.Common Model.Leaf Model.BoxSizing Gen.GridTracksGen Model.GridTracks.
From TV Require Import Model.GridAlgBase Model.GridAlg Model.FlexAlgBase Model.FlexAlgRel Model.GridAlgRel Model.Engine.
Import ListNotations.
Close Scope Z_scope.

Definition gq (z : Z) : XQ := Fin (inject_Z z).
Definition ge_lp (z : Z) : Rect (LengthPercentage XQ) := mkRect (LpLength (gq z)) (LpLength (gq z)) (LpLength (gq z)) (LpLength (gq z)).

Definition ge_core (d : Display) (w h mw : Dimension XQ) (pad bor : Z) : Style XQ :=
  mkStyle d Relative ContentBox (mkPoint Visible Visible) zero (mkSize w h) (mkSize Types.Auto Types.Auto) (mkSize mw Types.Auto) None
          lpa_zero_rect (ge_lp pad) (ge_lp bor).
Definition ge_style (c : Style XQ) (cols : list (tsf XQ)) (replaced : bool) : GStyle XQ :=
  mkGStyle c lpa_auto_rect cols [] [] [] PB.FRow (mkSize (LpLength (gq 2)) (LpLength (gq 2))) None None None None auto_ln auto_ln None None replaced.

Definition ge_container : GStyle XQ :=
  ge_style (ge_core DGrid (Length (gq 100)) Types.Auto Types.Auto 3 1) [TSingle (SAuto, SAuto); TSingle (SAuto, SFr (gq 1))] false.
Definition ge_a : GStyle XQ := ge_style (ge_core DBlock (Length (gq 30)) (Length (gq 10)) Types.Auto 2 1) [] false.
Definition ge_b : GStyle XQ := ge_style (ge_core DBlock Types.Auto Types.Auto Types.Auto 0 0) [] false.
Definition ge_a_replaced : GStyle XQ := ge_style (ge_core DBlock Types.Auto (Length (gq 10)) (Length (gq 12)) 2 1) [] true.

Definition ge_input : GIn XQ :=
  mkGIn PerformLayout InherentSize AxBoth size_NONE (mkSize (Some (gq 200)) (Some (gq 200)))
        (mkSize (Types.Definite (gq 200)) (Types.Definite (gq 200))) (mkLine false false).

(* every child answers its known dimensions, else 20 x 8 *)
Definition ge_oracle (c : nat) (i : GIn XQ) : LayoutOutput XQ :=
  from_outer_size (mkSize (opt_unwrap_or (width (gi_known i)) (gq 20)) (opt_unwrap_or (height (gi_known i)) (gq 8))).

Definition ge_run (s : GStyle XQ) (st : list (GStyle XQ)) : option (LayoutOutput XQ * list (nat * GLay XQ)) :=
  alg_run (GIn XQ) (LayoutOutput XQ) (GLay XQ) 64 ge_oracle (grid_alg s st ge_input).

Definition ge_size_eqb (a b : Size XQ) : bool := eqb (width a) (width b) && eqb (height a) (height b).
Definition ge_rect_eqb (a b : Rect XQ) : bool :=
  eqb (r_left a) (r_left b) && eqb (r_right a) (r_right b) && eqb (r_top a) (r_top b) && eqb (r_bottom a) (r_bottom b).
Definition ge_lay_eqb (a b : nat * GLay XQ) : bool :=
  Nat.eqb (fst a) (fst b) && Z.eqb (gl_order (snd a)) (gl_order (snd b)) &&
  eqb (px (gl_location (snd a))) (px (gl_location (snd b))) && eqb (py (gl_location (snd a))) (py (gl_location (snd b))) &&
  ge_size_eqb (gl_size (snd a)) (gl_size (snd b)) && ge_size_eqb (gl_content_size (snd a)) (gl_content_size (snd b)) &&
  ge_rect_eqb (gl_border (snd a)) (gl_border (snd b)) && ge_rect_eqb (gl_padding (snd a)) (gl_padding (snd b)) &&
  ge_rect_eqb (gl_margin (snd a)) (gl_margin (snd b)).
Fixpoint ge_all2 {X} (f : X -> X -> bool) (l l' : list X) : bool :=
  match l, l' with [], [] => true | x :: r, y :: r' => f x y && ge_all2 f r r' | _, _ => false end.
Definition ge_same (r r' : option (LayoutOutput XQ * list (nat * GLay XQ))) : bool :=
  match r, r' with
  | Some (o, ls), Some (o', ls') => ge_size_eqb (out_size o) (out_size o') && ge_size_eqb (out_content_size o) (out_content_size o') && ge_all2 ge_lay_eqb ls ls'
  | _, _ => false
  end.
(* the stored sizes of the children, for display *)
Definition ge_sizes (r : option (LayoutOutput XQ * list (nat * GLay XQ))) : list (nat * XQ * XQ) :=
  match r with Some (_, ls) => map (fun cl => (fst cl, width (gl_size (snd cl)), height (gl_size (snd cl)))) ls | None => [] end.
