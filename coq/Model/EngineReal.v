(* The engine skeleton of Model/Engine.v with the per-node cache as an ABSTRACT DATA TYPE, and with per-node counters.

   Model/Engine.v fixes the cache to the exact-key memo (`cget`/`cstore` by association on the complete input: the cfg(taffy_verif)
   hook's `set_exact_key(true)` mode).  Here the same recursion (`TaffyView::compute_child_layout` = hidden short-circuit +
   `compute_cached_layout` + dispatch on display:none, src/tree/taffy_tree.rs l.346-394, src/compute/mod.rs l.159-203,
   `compute_hidden_layout`) is written once over an interface

       C                                  the per-node cache (src/tree/cache.rs `Cache`)
       cempty  : C                        Cache::new
       cget    : C -> In -> option Out    Cache::get(known_dimensions, available_space, run_mode) of the input
       clossy  : C -> In -> bool          GHOST: the entry that answers was stored for another complete input, or what is returned is
                                          not the output that was stored (only meaningful when `cget` answers)
       cstore  : C -> In -> Out -> C      Cache::store
       cclear  : C -> C                   Cache::clear
       cdirty  : C -> bool                TaffyTree::dirty = Cache::is_empty()

   with two instances:
     * `Exact`  : the cache of Model/Engine.v.  `gmemo` over it IS `Engine.memo` up to the embedding of trees
                  (Proofs/EngineReal.v `gmemo_exact_is_memo`), so every exact-key theorem is a theorem about this instance.
     * `Real`   : src/tree/cache.rs as the users get it: one final-layout entry, nine measure slots, the LOSSY compatibility test
                  `Cache.compat` and the slot function `Cache.slot_of_key` of Model/Cache.v (C02's model: translated slot table, tied bit
                  for bit by C02's K) over the key projection (known_dimensions, available_space) of the input.  Every entry
                  additionally keeps the COMPLETE input and output it was stored with as ghost state (model only); erasing the ghost
                  gives exactly Model/Cache.v's `get` / `store` / `clear` (Proofs/EngineReal.v `real_get_erase`, `real_store_erase`,
                  `real_clear_erase`).

   Counters (ghost, per node, never read by the recursion; Proofs/EngineReal.v `gmemo_counters_irrelevant`):
       n_query  calls of compute_cached_layout on the node       n_hit    of which answered by the cache
       n_lossy  of which lossy (see `clossy`)                    n_eval   evaluations of the node's algorithm (incl. the display:none arm)
       n_meas   calls of the measure function made by those evaluations (`mcalls`: what one evaluation of the algorithm calls)
   Definitions only. *)
From Coq Require Import List Bool Arith NArith Lia.
From TV Require Import Num.Num Gen.CacheGen Model.Cache Model.Engine.
Import ListNotations.

Record stats := mkStats { n_query : N; n_hit : N; n_lossy : N; n_eval : N; n_meas : N }.
Definition stats0 : stats := mkStats 0 0 0 0 0.
Definition st_hit (lossy : bool) (n : stats) : stats :=
  mkStats (n_query n + 1) (n_hit n + 1) (n_lossy n + (if lossy then 1 else 0)) (n_eval n) (n_meas n).
Definition st_eval (m : N) (n : stats) : stats :=
  mkStats (n_query n + 1) (n_hit n) (n_lossy n) (n_eval n + 1) (n_meas n + m).

Section GEngine.
  Variables (S In Out Lay : Type).
  Variable mode : In -> RunMode.
  Variable is_none : S -> bool.            (* display: none *)
  Variable hidden_out : Out.               (* LayoutOutput::HIDDEN *)
  Variable zero_lay : Lay.                 (* Layout::with_order(0) *)
  Variable algo : S -> list S -> In -> Alg In Out Lay.
  (* how many times ONE evaluation `algo s kids i` calls the user's measure function (0 for containers) *)
  Variable mcalls : S -> list S -> In -> N.

  (* ---- the cache interface ---- *)
  Variable C : Type.
  Variable cempty : C.
  Variable cget : C -> In -> option Out.
  Variable clossy : C -> In -> bool.
  Variable cstore : C -> In -> Out -> C.
  Variable cclear : C -> C.
  Variable cdirty : C -> bool.

  Inductive gtree := GNode (s : S) (c : C) (l : Lay) (n : stats) (kids : list gtree).
  Definition gstyle (t : gtree) : S := match t with GNode s _ _ _ _ => s end.
  Definition gcache (t : gtree) : C := match t with GNode _ c _ _ _ => c end.
  Definition glay (t : gtree) : Lay := match t with GNode _ _ l _ _ => l end.
  Definition gstats (t : gtree) : stats := match t with GNode _ _ _ n _ => n end.
  Definition gkids (t : gtree) : list gtree := match t with GNode _ _ _ _ k => k end.
  Definition gset_lay (t : gtree) (l : Lay) : gtree := match t with GNode s c _ n k => GNode s c l n k end.

  Fixpoint gskel (t : gtree) : sk S := match t with GNode s _ _ _ kids => SNode S s (map gskel kids) end.
  Fixpoint gfresh (t : sk S) : gtree := match t with SNode _ s kids => GNode s cempty zero_lay stats0 (map gfresh kids) end.
  (* start of a pass: the counters are per pass *)
  Fixpoint greset (t : gtree) : gtree := match t with GNode s c l _ kids => GNode s c l stats0 (map greset kids) end.

  (* all stored layouts / counters, pre-order *)
  Fixpoint glays (t : gtree) : list Lay := match t with GNode _ _ l _ kids => l :: flat_map glays kids end.
  Fixpoint gcounts (t : gtree) : list stats := match t with GNode _ _ _ n kids => n :: flat_map gcounts kids end.
  Definition sum_stats (f : stats -> N) (t : gtree) : N := fold_right N.add 0%N (map f (gcounts t)).

  (* compute_hidden_layout: cache_clear, zero layout, recurse with LayoutInput::HIDDEN (not a compute_cached_layout call) *)
  Fixpoint ghide (t : gtree) : gtree :=
    match t with GNode s c _ n kids => GNode s (cclear c) zero_lay n (map ghide kids) end.

  Fixpoint grun_memo (ev : gtree -> In -> option (Out * gtree)) (kids : list gtree) (a : Alg In Out Lay)
    : option (Out * list gtree) :=
    match a with
    | Ret _ _ _ o => Some (o, kids)
    | Query _ _ _ c i k =>
        match nth_error kids c with
        | Some t =>
            match ev t i with
            | Some (o, t') => grun_memo ev (replace_nth c t' kids) (k o)
            | None => None
            end
        | None => None
        end
    | SetLayout _ _ _ c l k =>
        match nth_error kids c with
        | Some t => grun_memo ev (replace_nth c (gset_lay t l) kids) k
        | None => None
        end
    end.

  (* TaffyView::compute_child_layout *)
  Fixpoint gmemo (fuel : nat) (t : gtree) (i : In) : option (Out * gtree) :=
    match fuel with
    | O => None
    | Datatypes.S f =>
        match t with
        | GNode s c l n kids =>
            match mode i with
            | PerformHiddenLayout => Some (hidden_out, ghide t)                      (* short-circuit before the cache *)
            | _ =>
                match cget c i with
                | Some o => Some (o, GNode s c l (st_hit (clossy c i) n) kids)       (* hit: nothing below is touched *)
                | None =>
                    if is_none s then
                      (* dispatch arm (Display::None, _): compute_hidden_layout (clears the cache), then the result is stored *)
                      Some (hidden_out, GNode s (cstore (cclear c) i hidden_out) zero_lay (st_eval 0 n) (map ghide kids))
                    else
                      match grun_memo (gmemo f) kids (algo s (map gstyle kids) i) with
                      | Some (o, kids') => Some (o, GNode s (cstore c i o) l (st_eval (mcalls s (map gstyle kids) i) n) kids')
                      | None => None
                      end
                end
            end
        end
    end.

  (* TaffyTree::mark_dirty with the AlreadyEmpty early exit (Model/Engine.v `md`) over the interface *)
  Fixpoint gmd (t : gtree) (p : list nat) : gtree * bool :=
    match t with
    | GNode s c l n kids =>
        match p with
        | [] => (GNode s (cclear c) l n kids, negb (cdirty c))
        | x :: p' =>
            match nth_error kids x with
            | Some ch =>
                let (ch', cont) := gmd ch p' in
                let kids' := replace_nth x ch' kids in
                if cont then (GNode s (cclear c) l n kids', negb (cdirty c))
                else (GNode s c l n kids', false)
            | None => (t, false)
            end
        end
    end.
  Definition gmark_dirty (t : gtree) (p : list nat) : gtree := fst (gmd t p).
End GEngine.

(* ------------------------------------------------------------------------------------------------------------------ *)
(* Instance 1: the exact-key memo of Model/Engine.v *)
Section Exact.
  Variables (S In Out Lay : Type).
  Variable mode : In -> RunMode.
  Variable in_eqb : In -> In -> bool.
  Variable is_none : S -> bool.
  Variable hidden_out : Out.
  Variable zero_lay : Lay.
  Variable algo : S -> list S -> In -> Alg In Out Lay.
  Variable mcalls : S -> list S -> In -> N.

  Definition xtree := gtree S Lay (cache In Out).
  Definition memo_exact : nat -> xtree -> In -> option (Out * xtree) :=
    gmemo S In Out Lay mode is_none hidden_out zero_lay algo mcalls (cache In Out)
          (cget In Out mode in_eqb) (fun _ _ => false) (cstore In Out mode) (fun _ => cempty In Out).

  (* the trees of Model/Engine.v inside the generic ones (counters zero) and back (counters forgotten) *)
  Fixpoint embed (t : tree S In Out Lay) : xtree :=
    match t with Node _ _ _ _ s c l kids => GNode S Lay (cache In Out) s c l stats0 (map embed kids) end.
  Fixpoint forget (t : xtree) : tree S In Out Lay :=
    match t with GNode _ _ _ s c l _ kids => Node S In Out Lay s c l (map forget kids) end.
End Exact.

(* ------------------------------------------------------------------------------------------------------------------ *)
(* Instance 2: the real cache (src/tree/cache.rs) over a key projection of the input *)
Definition cmode (m : RunMode) : run_mode :=
  match m with
  | Engine.PerformLayout => CacheGen.PerformLayout
  | Engine.ComputeSize => CacheGen.ComputeSize
  | Engine.PerformHiddenLayout => CacheGen.PerformHiddenLayout
  end.

Section Real.
  Context {T : Type} `{Num T}.
  Variables (In Out : Type).
  Variable mode : In -> RunMode.
  Variable key_of : In -> Cache.key T.              (* known_dimensions, available_space of the LayoutInput *)
  Variable osize : Out -> Cache.size T.             (* LayoutOutput.size *)
  Variable from_outer : Cache.size T -> Out.        (* LayoutOutput::from_outer_size *)
  (* ghost vocabulary *)
  Variable in_eqb : In -> In -> bool.               (* equality of complete inputs *)
  Variable is_outer : Out -> bool.                  (* the output is what from_outer_size makes of its size (may be `fun _ => false`) *)

  (* CacheEntry + ghost: the complete input (its projection `key_of` is the entry's known_dimensions / available_space) and the
     complete output (a measure entry keeps only `osize` of it) *)
  Record rentry := mkREntry { re_in : In; re_out : Out }.
  Record rcache := mkRCache { r_final : option rentry; r_meas : list (option rentry); r_flag : bool }.

  Definition rnew : rcache := mkRCache None (repeat None (N.to_nat CACHE_SIZE)) true.

  (* the condition of Cache::get for entry `e` and the query `i` *)
  Definition rcompat (i : In) (e : rentry) : bool := Cache.compat (key_of i) (key_of (re_in e)) (osize (re_out e)).

  Fixpoint rfind (i : In) (es : list (option rentry)) : option rentry :=
    match es with
    | [] => None
    | None :: r => rfind i r
    | Some e :: r => if rcompat i e then Some e else rfind i r
    end.

  (* the entry that answers *)
  Definition rhit (c : rcache) (i : In) : option rentry :=
    match mode i with
    | Engine.PerformLayout => match r_final c with Some e => if rcompat i e then Some e else None | None => None end
    | Engine.ComputeSize => rfind i (r_meas c)
    | Engine.PerformHiddenLayout => None
    end.

  Definition ranswer (i : In) (e : rentry) : Out :=
    match mode i with Engine.ComputeSize => from_outer (osize (re_out e)) | _ => re_out e end.

  Definition rget (c : rcache) (i : In) : option Out := option_map (ranswer i) (rhit c i).

  (* GHOST: a hit that is not "the same complete input, the stored output" *)
  Definition faithful (i : In) (e : rentry) : bool :=
    in_eqb (re_in e) i && match mode i with Engine.ComputeSize => is_outer (re_out e) | _ => true end.
  Definition rlossy (c : rcache) (i : In) : bool :=
    match rhit c i with Some e => negb (faithful i e) | None => false end.

  Definition rstore (c : rcache) (i : In) (o : Out) : rcache :=
    match mode i with
    | Engine.PerformLayout => mkRCache (Some (mkREntry i o)) (r_meas c) false
    | Engine.ComputeSize =>
        mkRCache (r_final c) (set_nth (N.to_nat (Cache.slot_of_key (key_of i))) (Some (mkREntry i o)) (r_meas c)) false
    | Engine.PerformHiddenLayout => c
    end.

  Definition rclear (c : rcache) : rcache := if r_flag c then c else rnew.

  (* Cache::is_empty (structural) *)
  Definition rdirty (c : rcache) : bool := negb (is_some (r_final c)) && negb (existsb is_some (r_meas c)).

  (* all ghost entries of a cache *)
  Definition rentries (c : rcache) : list rentry :=
    (match r_final c with Some e => [e] | None => [] end) ++ flat_map (fun x => match x with Some e => [e] | None => [] end) (r_meas c).

  (* erasure of the ghost state: Model/Cache.v's cache; `pl` = the opaque payload standing for the other LayoutOutput fields *)
  Variable pl : Out -> N.
  Definition eout (o : Out) : Cache.output T := {| o_size := osize o; o_payload := pl o |}.
  Definition erase (c : rcache) : Cache.cache T :=
    {| Cache.final := option_map (fun e => {| e_key := key_of (re_in e); e_content := eout (re_out e) |}) (r_final c);
       Cache.meas := map (option_map (fun e => {| e_key := key_of (re_in e); e_content := osize (re_out e) |})) (r_meas c);
       Cache.is_empty_flag := r_flag c |}.
End Real.

Section MemoReal.
  Context {T : Type} `{Num T}.
  Variables (S In Out Lay : Type).
  Variable mode : In -> RunMode.
  Variable is_none : S -> bool.
  Variable hidden_out : Out.
  Variable zero_lay : Lay.
  Variable algo : S -> list S -> In -> Alg In Out Lay.
  Variable mcalls : S -> list S -> In -> N.
  Variable key_of : In -> Cache.key T.
  Variable osize : Out -> Cache.size T.
  Variable from_outer : Cache.size T -> Out.
  Variable in_eqb : In -> In -> bool.
  Variable is_outer : Out -> bool.

  Definition rtree := gtree S Lay (rcache In Out).
  (* the engine with the cache users get *)
  Definition memo_real : nat -> rtree -> In -> option (Out * rtree) :=
    gmemo S In Out Lay mode is_none hidden_out zero_lay algo mcalls (rcache In Out)
          (rget In Out mode key_of osize from_outer) (rlossy In Out mode key_of osize in_eqb is_outer)
          (rstore In Out mode key_of) (rclear In Out).
  Definition fresh_real : sk S -> rtree := gfresh S Lay zero_lay (rcache In Out) (rnew In Out).
End MemoReal.
