(* Vocabulary of the whole-tree theorems of C10 (Props/C10.v, the C10_block_tree theorems): engine trees of block containers and leaves
   (Model/BlockEngine.v) after layout passes.  Definitions only.

     bn_inflow n        the node generates a box and is not absolutely positioned: an in-flow child of its parent
     subtree_of u t     u is t or one of its descendants
     last_entry t       the node's final-layout cache entry: the input of its last PerformLayout evaluation and the output it
                        RETURNED to its parent's algorithm (exact-key memo: the entry is what the parent consumed)
     kids_stacked kids  in-flow children are in document order and do not overlap vertically (stored unrounded layouts)
     order_style / order_out / top_edge_finite     the premises of C10_order_no_overlap, on styles and on REAL outputs *)
From Coq Require Import QArith ZArith Bool List.
From TV Require Import Num.Num Num.QNum Gen.BlockGen Model.Block Model.Engine Model.BlockAlg Model.BlockEngine.
Import ListNotations.

Section Props.
  Context {T : Type} `{Num T}.
  Notation btree := (Engine.tree (BNode T) (BIn T) (ChildOut T) (BLayout T)).

  Definition bn_inflow (n : BNode T) : bool :=
    negb (bs_is_none (bn_style n)) && negb (position_is_absolute (st_position (bn_style n))).

  Inductive subtree_of (u : btree) : btree -> Prop :=
  | sub_here : subtree_of u u
  | sub_kid s c l kids k : In k kids -> subtree_of u k -> subtree_of u (Engine.Node _ _ _ _ s c l kids).

  Definition last_entry (t : btree) : option (BIn T * ChildOut T) :=
    Engine.final _ _ (Engine.cache_of _ _ _ _ t).
  Definition evaluated (t : btree) : Prop := last_entry t <> None.
End Props.

Definition fin_ms_q (s : MarginSet XQ) : Prop := finite (ms_positive s) /\ finite (ms_negative s).

(* margins the order clause admits: auto (resolves to 0 vertically) or a finite non-negative length *)
Definition nice_margin (d : LPA XQ) : Prop :=
  match d with Auto => True | Len v => finite v /\ (0 <= val v)%Q | Pct _ => False end.
Definition order_style (s : BStyle XQ) : Prop :=
  nice_margin (r_top (st_margin s)) /\ nice_margin (r_bottom (st_margin s)) /\
  r_top (st_inset s) = Auto /\ r_bottom (st_inset s) = Auto.
(* what C10_order_no_overlap asks of a child's reported LayoutOutput, here the REAL one: finite height >= 0, finite
   non-negative margin sets, and H_ct *)
Definition order_out (o : ChildOut XQ) : Prop :=
  finite (s_h (co_size o)) /\ (0 <= val (s_h (co_size o)))%Q /\ fin_ms_q (co_top o) /\ fin_ms_q (co_bottom o) /\
  ((0 <= val (ms_positive (co_top o)))%Q /\ (val (ms_negative (co_top o)) == 0)%Q) /\
  ((0 <= val (ms_positive (co_bottom o)))%Q /\ (val (ms_negative (co_bottom o)) == 0)%Q) /\
  (co_ct o = true -> (val (s_h (co_size o)) == 0)%Q).
Definition finite_len (d : LPA XQ) : Prop := match d with Len v => finite v | _ => False end.
(* the container's top padding and border are finite lengths (the loop starts at a finite y) *)
Definition top_edge_finite (s : BStyle XQ) : Prop := finite_len (r_top (st_padding s)) /\ finite_len (r_top (st_border s)).

Notation xtree := (Engine.tree (BNode XQ) (BIn XQ) (ChildOut XQ) (BLayout XQ)).
(* an in-flow child meets the premises: its style, and the output it really returned *)
Definition kid_order_ok (k : xtree) : Prop :=
  bn_inflow (Engine.style_of _ _ _ _ k) = true ->
  order_style (bn_style (Engine.style_of _ _ _ _ k)) /\ (forall i o, last_entry k = Some (i, o) -> order_out o).
Definition kids_stacked (kids : list xtree) : Prop :=
  forall i j ti tj, (i < j)%nat -> nth_error kids i = Some ti -> nth_error kids j = Some tj ->
    bn_inflow (Engine.style_of _ _ _ _ ti) = true -> bn_inflow (Engine.style_of _ _ _ _ tj) = true ->
    (val (bl_y (Engine.lay_of _ _ _ _ ti)) + val (s_h (bl_size (Engine.lay_of _ _ _ _ ti))) <= val (bl_y (Engine.lay_of _ _ _ _ tj)))%Q.
