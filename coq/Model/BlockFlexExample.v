(* A concrete tree mixing block containers, flex containers and leaves, for the non-vacuity examples of the whole-tree theorems of C04 and C12
   over the engine of Model/BlockFlexK.v (Props/C04.v, Props/C12.v).  Definitions only.

     root      block container, content-box, width 300, padding 4
       H       leaf, height 10, measure Fixed 20 x 10
       F       FLEX ROW container (stretched to the root's content width: definite main size), content-box, padding 3, gap 6
         a     leaf, flex-basis 40, flex-grow 1, content-box, padding 1, measure Fixed 30 x 12
         b     leaf, content-box, width 60, padding 2, margin-left 5, measure Echo 50 (height = width / 2)
         c     FLEX COLUMN container, auto size (sized by content: its main size is INTRINSIC when F measures it), gap 2
           d   leaf, measure Fixed 25 x 8
           e   leaf, content-box, min-width 20, padding 1, measure Fixed 15 x 6
         g     leaf, display none
         h     leaf, position absolute, 10 x 10, inset left 2 top 3
   A second, two-node tree is the known finding (flex-intrinsic-shrink-factor-floor) at engine level: a flex row root sized by content
   with one item flex-basis 1, flex-shrink 1/2, flex-grow 1, content 1/2 x 10. *)
From Coq Require Import QArith ZArith Bool List.
From TV Require Import Num.Num Num.QNum Model.Common Model.Leaf Model.FlexAlgBase Model.FlexAlg Model.FlexAlgT Model.BoxSizing Model.FlexBoxSizing.
From TV Require Import Model.Scale Model.Engine Model.EngineRel Model.FlexAlgRel Model.BlockFlexEngine Model.BlockFlexK.
From TV Require Model.Block Model.BlockEngineExample.
Import ListNotations.

Module BX := BlockEngineExample.

Definition FxSpec : Type := (BFStyle XQ * BX.ExMeasure)%type.
Definition fx_node (p : FxSpec) : BFNode XQ := mkBFN (fst p) (BX.ex_measure (snd p)).
Definition bfstyle_scale (k : Q) (s : BFStyle XQ) : BFStyle XQ := mkBF (fstyle_scale k (bf_flex s)) (bf_is_table s) (bf_text_align s).
Definition fx_spec_scale (k : Q) (p : FxSpec) : FxSpec := (bfstyle_scale k (fst p), BX.ex_measure_scale k (snd p)).

Definition qz (z : Z) : XQ := Fin (inject_Z z).
Definition dlen (z : Z) : Dimension XQ := Length (qz z).
Definition lp4 (z : Z) : Rect (LengthPercentage XQ) := mkRect (LpLength (qz z)) (LpLength (qz z)) (LpLength (qz z)) (LpLength (qz z)).
Definition margin_l (z : Z) : Rect (LengthPercentageAuto XQ) := mkRect (Length (qz z)) (Length (qz 0)) (Length (qz 0)) (Length (qz 0)).
Definition auto_sz : Size (Dimension XQ) := mkSize Auto Auto.
Definition fx_core (disp : Display) (pos : Position) (bs : BoxSizing) (sz mn mx : Size (Dimension XQ)) (ml pad : Z) : Style XQ :=
  mkStyle disp pos bs (mkPoint Visible Visible) zero sz mn mx None (margin_l ml) (lp4 pad) (lp4 0).
Definition fx_style (c : Style XQ) (inset : Rect (LengthPercentageAuto XQ)) (row : bool) (gap : Z) (basis : Dimension XQ) (grow shrink : XQ) : BFStyle XQ :=
  mkBF (mkFStyle c inset row false false false None None None None (mkSize (LpLength (qz gap)) (LpLength (qz gap))) basis grow shrink)
       false Block.TAAuto.
Definition no_inset : Rect (LengthPercentageAuto XQ) := mkRect Auto Auto Auto Auto.
Definition leaf_style (c : Style XQ) : BFStyle XQ := fx_style c no_inset true 0 Auto zero one.

Definition fx_H : sk FxSpec := SNode _ (leaf_style (fx_core DBlock Relative BorderBox (mkSize Auto (dlen 10)) auto_sz auto_sz 0 0), BX.EFixed (qz 20) (qz 10)) [].
Definition fx_a : sk FxSpec :=
  SNode _ (fx_style (fx_core DBlock Relative ContentBox auto_sz auto_sz auto_sz 0 1) no_inset true 0 (dlen 40) one one, BX.EFixed (qz 30) (qz 12)) [].
Definition fx_b : sk FxSpec :=
  SNode _ (leaf_style (fx_core DBlock Relative ContentBox (mkSize (dlen 60) Auto) auto_sz auto_sz 5 2), BX.EEcho (qz 50)) [].
Definition fx_d : sk FxSpec := SNode _ (leaf_style (fx_core DBlock Relative BorderBox auto_sz auto_sz auto_sz 0 0), BX.EFixed (qz 25) (qz 8)) [].
Definition fx_e : sk FxSpec :=
  SNode _ (leaf_style (fx_core DBlock Relative ContentBox auto_sz (mkSize (dlen 20) Auto) auto_sz 0 1), BX.EFixed (qz 15) (qz 6)) [].
Definition fx_c : sk FxSpec :=
  SNode _ (fx_style (fx_core DFlex Relative BorderBox auto_sz auto_sz auto_sz 0 0) no_inset false 2 Auto zero one, BX.EFixed (qz 0) (qz 0)) [fx_d; fx_e].
Definition fx_g : sk FxSpec := SNode _ (leaf_style (fx_core DNone Relative BorderBox (mkSize (dlen 70) (dlen 70)) auto_sz auto_sz 0 1), BX.EFixed (qz 5) (qz 5)) [].
Definition fx_h : sk FxSpec :=
  SNode _ (fx_style (fx_core DBlock Absolute BorderBox (mkSize (dlen 10) (dlen 10)) auto_sz auto_sz 0 0)
                    (mkRect (Length (qz 2)) Auto (Length (qz 3)) Auto) true 0 Auto zero one, BX.EFixed (qz 0) (qz 0)) [].
Definition fx_F : sk FxSpec :=
  SNode _ (fx_style (fx_core DFlex Relative ContentBox auto_sz auto_sz auto_sz 0 3) no_inset true 6 Auto zero one, BX.EFixed (qz 0) (qz 0))
        [fx_a; fx_b; fx_c; fx_g; fx_h].
Definition fx_spec : sk FxSpec :=
  SNode _ (leaf_style (fx_core DBlock Relative ContentBox (mkSize (dlen 300) Auto) auto_sz auto_sz 0 4), BX.EFixed (qz 0) (qz 0)) [fx_H; fx_F].

Definition fx_tree : sk (BFNode XQ) := sk_map fx_node fx_spec.
Definition fx_tree_scaled (k : Q) : sk (BFNode XQ) := sk_map fx_node (sk_map (fx_spec_scale k) fx_spec).
Definition fx_input : FIn XQ := root_fin size_NONE (mkSize (Definite (qz 400)) (Definite (qz 500))).
Definition fx_fuel : nat := 8.
Definition fx_run (tau : XQ) (t : sk (BFNode XQ)) (i : FIn XQ) := bf_memo_t tau fx_fuel (bfk_fresh t) i.

(* ---- equal as numbers, decided *)
Definition fsz_eqb (a b : Size XQ) : bool := eqb (width a) (width b) && eqb (height a) (height b).
Definition frc_eqb (a b : Rect XQ) : bool :=
  eqb (r_left a) (r_left b) && eqb (r_right a) (r_right b) && eqb (r_top a) (r_top b) && eqb (r_bottom a) (r_bottom b).
Definition flay_eqb (a b : FLay XQ) : bool :=
  Z.eqb (fl_order a) (fl_order b) && eqb (px (fl_location a)) (px (fl_location b)) && eqb (py (fl_location a)) (py (fl_location b))
  && fsz_eqb (fl_size a) (fl_size b) && fsz_eqb (fl_content_size a) (fl_content_size b) && fsz_eqb (fl_scrollbar_size a) (fl_scrollbar_size b)
  && frc_eqb (fl_border a) (fl_border b) && frc_eqb (fl_padding a) (fl_padding b) && frc_eqb (fl_margin a) (fl_margin b).
Definition fo_opt_eqb (a b : option XQ) : bool := match a, b with Some x, Some y => eqb x y | None, None => true | _, _ => false end.
Definition fout_eqb (a b : LayoutOutput XQ) : bool :=
  fsz_eqb (out_size a) (out_size b) && fsz_eqb (out_content_size a) (out_content_size b)
  && fo_opt_eqb (px (first_baselines a)) (px (first_baselines b)) && fo_opt_eqb (py (first_baselines a)) (py (first_baselines b)).

Notation fx_lays := (lays (BFNode XQ) (FIn XQ) (LayoutOutput XQ) (FLay XQ)).
(* (x, y, width, height) of every node, preorder *)
Definition fboxes (t : Engine.tree (BFNode XQ) (FIn XQ) (LayoutOutput XQ) (FLay XQ)) : list (XQ * XQ * XQ * XQ) :=
  map (fun l => (px (fl_location l), py (fl_location l), width (fl_size l), height (fl_size l))) (fx_lays t).
Definition fbox (x y w h : Q) : XQ * XQ * XQ * XQ := (Fin x, Fin y, Fin w, Fin h).
Definition fx_boxes (t : sk (BFNode XQ)) (i : FIn XQ) (bs : list (XQ * XQ * XQ * XQ)) : bool :=
  match fx_run one t i with Some (_, t1) => BX.list_eqb BX.box_eqb (fboxes t1) bs | None => false end.

(* both runs (floor 1.0) succeed; every stored layout and the root output of the second are those of the first multiplied by k *)
Definition fx_scaled_ok (k : Q) (t t' : sk (BFNode XQ)) (i : FIn XQ) : bool :=
  match fx_run one t i, fx_run one t' (fin_scale k i) with
  | Some (o, t1), Some (o', t1') =>
      BX.list_eqb flay_eqb (map (flay_scale k) (fx_lays t1)) (fx_lays t1') && fout_eqb (output_scale k o) o'
  | _, _ => false
  end.
(* the evaluation of a tree does not depend on the floor being 1 or tau: same root output and stored layouts, as numbers *)
Definition fx_floor_insensitive (tau : XQ) (t : sk (BFNode XQ)) (i : FIn XQ) : bool :=
  match fx_run one t i, fx_run tau t i with
  | Some (o, t1), Some (o', t1') => BX.list_eqb flay_eqb (fx_lays t1) (fx_lays t1') && fout_eqb o o'
  | _, _ => false
  end.
(* both runs succeed with the same stored layouts and root output (as numbers) *)
Definition fx_same_ok (t t' : sk (BFNode XQ)) (i : FIn XQ) : bool :=
  match fx_run one t i, fx_run one t' i with
  | Some (o, t1), Some (o', t1') => BX.list_eqb flay_eqb (fx_lays t1) (fx_lays t1') && fout_eqb o o'
  | _, _ => false
  end.

(* ---- the known finding at engine level *)
Definition fw_item (basis : Z) : sk FxSpec :=
  SNode _ (fx_style (fx_core DBlock Relative BorderBox auto_sz auto_sz auto_sz 0 0) no_inset true 0 (dlen basis) one (Fin (1#2)), BX.EFixed (Fin (1#2)) (qz 10)) [].
Definition fw_spec : sk FxSpec :=
  SNode _ (fx_style (fx_core DFlex Relative BorderBox auto_sz auto_sz auto_sz 0 0) no_inset true 0 Auto zero one, BX.EFixed (qz 0) (qz 0)) [fw_item 1].
Definition fw_tree : sk (BFNode XQ) := sk_map fx_node fw_spec.
Definition fw_tree_scaled (k : Q) : sk (BFNode XQ) := sk_map fx_node (sk_map (fx_spec_scale k) fw_spec).
Definition fw_input : FIn XQ := root_fin size_NONE (mkSize MaxContent MaxContent).
Definition fx_root_width (tau : XQ) (t : sk (BFNode XQ)) (i : FIn XQ) : option XQ :=
  match fx_run tau t i with Some (o, _) => Some (x_red (width (out_size o))) | None => None end.
