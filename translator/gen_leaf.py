"""C19: translate the WHOLE body of `compute_leaf_layout` (src/compute/leaf.rs) into Gallina, on every run.

  Gen/LeafGen.v    gen_compute_leaf_layout : LayoutInput T -> Style T -> MeasureFn T
                                             -> option (LayoutOutput T * list (MeasureCall T))

The result type is the one of the hand model `Model/Leaf.v:compute_leaf_layout`: `None` = the function panics
(`unreachable!()`), otherwise the `LayoutOutput` and the log of the calls of the measure function, in order.
`Proofs/LeafGenProofs.v` proves the generated function equal (Leibniz, output and log) to the hand model for any `Num`.

The translation is the typed, purely syntactic compilation of gen_abspos.py (class `Tr`: let chains, struct literals,
field access, if / if-let / match, closures), specialised here by a subclass:
  * the method table targets the vocabulary of Model/Common.v + Gen/MathGen.v (which is itself regenerated from
    util/math.rs, util/resolve.rs, available_space.rs, geometry.rs by gen_math.py): every method is looked up by
    (receiver type, name, argument types); anything not in the table is refused;
  * `x == Enum::Variant` on a field-less enum (derived PartialEq) becomes `match x with Variant => true | _ => false end`,
    `if x == Enum::Variant {a} else {b}` becomes `match x with Variant => a | _ => b end`;
  * `matches!(e, pat if guard)` becomes a two-arm match;
  * statement-position `if c { .. return v; }` / `if let p = e { .. return v; }` (early returns) become conditionals whose
    fall-through is the let-bound continuation;
  * the single call `measure_function(a, b)` is logged; an argument `match` with `unreachable!()` arms is evaluated first
    (Rust evaluates the arguments before the call) and makes the whole function `None`;
  * `rect.side += e` on a `let mut` Rect rebinds the Rect;
  * `debug_log!` statements are skipped; `#[cfg(feature = "content_size")]` fields are kept (the harness builds with it);
  * the `&resolve_calc_value` argument of `maybe_resolve` / `resolve_or_zero` is dropped (calc() is out of scope, as in
    gen_math.py).
The variant lists of the enums the hand model declares (Model/Leaf.v: Overflow, Position, BoxSizing, RunMode, SizingMode)
are compared with the source; `impl From<f32> for AvailableSpace` must be `Self::Definite(value)`.
Every Rust local `x` is called `v_x` in Coq (the projections of Model/Leaf.v are called `size`, `margin`, ...)."""
from rustparse import *
from gen_abspos import Tr, Refuse, Opt, En, F, B, OF, join, float_lit, fn_block, param_names, read, enum_variants, impl_block

LP, LPA, DIMN, AV = 'LP', 'LPA', 'Dimn', 'Avail'
OUT, MSET = 'Output', 'MarginSet'

# enum -> (file, variants of the hand model in Model/Leaf.v, in order)
LEAF_ENUMS = {
    'Overflow': ('src/style/mod.rs', ['Visible', 'Clip', 'Hidden', 'Scroll']),
    'Position': ('src/style/mod.rs', ['Relative', 'Absolute']),
    'BoxSizing': ('src/style/mod.rs', ['BorderBox', 'ContentBox']),
    'RunMode': ('src/tree/layout.rs', ['PerformLayout', 'ComputeSize', 'PerformHiddenLayout']),
    'SizingMode': ('src/tree/layout.rs', ['ContentSize', 'InherentSize']),
}
PROJ = {'Size': {'width': 'width', 'height': 'height'},
        'Rect': {'left': 'r_left', 'right': 'r_right', 'top': 'r_top', 'bottom': 'r_bottom'},
        'Point': {'x': 'px', 'y': 'py'}}
CONSTS = {
    ('Size', 'ZERO'): ('size_ZERO', ('Size', F)),
    ('Size', 'NONE'): ('size_NONE', ('Size', Opt('?'))),
    ('Point', 'NONE'): ('point_NONE', ('Point', Opt('?'))),
    ('CollapsibleMarginSet', 'ZERO'): ('margin_set_ZERO', MSET),
    ('LayoutOutput', 'HIDDEN'): ('output_HIDDEN', OUT),
    ('Point', 'ZERO'): ('point_ZERO', ('Point', F)),
}
# accessor of `style: &impl CoreStyle` -> (projection of Model/Leaf.v:Style, type)
STYLE = {
    'margin': ('margin', ('Rect', LPA)), 'padding': ('padding', ('Rect', LP)), 'border': ('border', ('Rect', LP)),
    'size': ('size', ('Size', DIMN)), 'min_size': ('min_size', ('Size', DIMN)), 'max_size': ('max_size', ('Size', DIMN)),
    'aspect_ratio': ('aspect_ratio', OF), 'box_sizing': ('box_sizing', En('BoxSizing')), 'position': ('position', En('Position')),
    'overflow': ('overflow', ('Point', En('Overflow'))), 'scrollbar_width': ('scrollbar_width', F), 'is_block': ('is_block', B),
}
INPUT_FIELDS = {
    'known_dimensions': ('Size', OF), 'parent_size': ('Size', OF), 'available_space': ('Size', AV),
    'sizing_mode': En('SizingMode'), 'run_mode': En('RunMode'),
}
OUTPUT_FIELDS = [('size', ('Size', F)), ('content_size', ('Size', F)), ('first_baselines', ('Point', OF)), ('top_margin', MSET),
                 ('bottom_margin', MSET), ('margins_can_collapse_through', B)]
MM = ('maybe_min', 'maybe_max', 'maybe_add', 'maybe_sub')
CALC = ('un', '&', ('path', ['resolve_calc_value']))
CALC2 = ('closure', [('pident', 'val'), ('pident', 'basis')], ('mcall', ('path', ['tree']), 'calc', [('path', ['val']), ('path', ['basis'])]))
LAYOUT_FIELDS = [('order', 'U8'), ('location', ('Point', F)), ('size', ('Size', F)), ('content_size', ('Size', F)),
                 ('scrollbar_size', ('Size', F)), ('border', ('Rect', F)), ('padding', ('Rect', F)), ('margin', ('Rect', F))]


def lname(n):
    return '_' if n.startswith('_') else 'v_' + n


def code(t):
    return {F: 'f', OF: 'o', AV: 'a'}.get(t)


def is_enum_ctor(a):
    return a[0] == 'path' and len(a[1]) == 2 and a[1][0] in LEAF_ENUMS


def has_return(x):
    if isinstance(x, tuple):
        if x and x[0] == 'return':
            return True
        if x and x[0] == 'closure':
            return False
        return any(has_return(y) for y in x)
    if isinstance(x, list):
        return any(has_return(y) for y in x)
    return False


def render_log(log):
    """log: [('item', call) | ('list', calls of a callee)] in program order -> Coq list term"""
    parts, items = [], []
    for k, x in log:
        if k == 'item':
            items.append(x)
        else:
            if items:
                parts.append('[%s]' % '; '.join(items))
                items = []
            parts.append(x)
    if items or not parts:
        parts.append('[%s]' % '; '.join(items))
    return parts[0] if len(parts) == 1 else '(%s)' % ' ++ '.join(parts)


class LeafTr(Tr):
    measure = None      # compute_leaf_layout: (rust name of the measure function, coq name)
    child = None        # compute_root_layout: (parameter names, LayoutInput literal) of LayoutPartialTreeExt::perform_child_layout

    def sub(self, extra):
        t = LeafTr(self.env, self.fns)
        t.env.update(extra)
        t.measure = self.measure
        t.child = self.child
        return t

    def enum_ctor(self, segs):
        if len(segs) == 2 and segs[0] in LEAF_ENUMS:
            if segs[1] not in LEAF_ENUMS[segs[0]][1]:
                raise Refuse('%s has no variant %s' % (segs[0], segs[1]))
            return segs[1], En(segs[0])
        return None

    # ---------------------------------------------------------------- expressions
    def e(self, a):
        k = a[0]
        key = self.key_of(a)
        if key is not None and key in self.env:
            return self.env[key]
        if k == 'path':
            segs = a[1]
            if tuple(segs) in CONSTS:
                return CONSTS[tuple(segs)]
            if segs in (['true'], ['false']):
                return segs[0], B
            if len(segs) == 1 and segs[0] != 'None':
                raise Refuse('unknown name %s' % segs[0])
        if k == 'macro':
            if a[1] == 'matches' and len(a[2]) in (2, 3) and isinstance(a[2][0], tuple) and a[2][0][0] != 'raw':
                s, st = self.e(a[2][0])
                ps, binds = self.pat(a[2][1], st)
                g = 'true'
                if len(a[2]) == 3 and a[2][2] is not None:
                    g, gt = self.sub(binds).e(a[2][2])
                    if gt != B:
                        raise Refuse('matches! guard of type %r' % (gt,))
                return '(match %s with %s => %s | _ => false end)' % (s, ps, g), B
            raise Refuse('macro %s! in value position' % a[1])
        if k == 'bin' and a[1] in ('==', '!=') and is_enum_ctor(a[3]):
            l, lt = self.e(a[2])
            c, ct = self.enum_ctor(a[3][1])
            if lt != ct:
                raise Refuse('== on %r and %r' % (lt, ct))
            yes, no = ('true', 'false') if a[1] == '==' else ('false', 'true')
            return '(match %s with %s => %s | _ => %s end)' % (l, c, yes, no), B
        if k == 'if' and a[1][0] == 'bin' and a[1][1] == '==' and is_enum_ctor(a[1][3]) and a[3] is not None:
            l, lt = self.e(a[1][2])
            c, ct = self.enum_ctor(a[1][3][1])
            if lt != ct:
                raise Refuse('== on %r and %r' % (lt, ct))
            x, xt = self.e(a[2])
            y, yt = self.e(a[3])
            return '(match %s with %s => %s | _ => %s end)' % (l, c, x, y), join(xt, yt)
        if k == 'match':
            for p, g, ex, _ in a[2]:
                if ex[0] == 'macro':
                    raise Refuse('macro %s! in a match arm (only allowed in the argument of the measure function)' % ex[1])
            if any(g is not None for _, g, _, _ in a[2]):
                return self.guarded_match(a)
        return Tr.e(self, a)

    def guarded_match(self, a):
        """`match s { p if g => e, _ => d }`: a guarded arm is only accepted when everything after it is one final wildcard arm
        (the value a failing guard falls through to)."""
        arms = a[2]
        if len(arms) < 2 or arms[-1][0] != ('pwild',) or arms[-1][1] is not None:
            raise Refuse('match guard without a final wildcard arm')
        s, st = self.e(a[1])
        d, rt = self.e(arms[-1][2])
        out = []
        for i, (p, g, ex, _) in enumerate(arms[:-1]):
            if g is not None and i != len(arms) - 2:
                raise Refuse('match guard in front of a non-wildcard arm')
            ps, binds = self.pat(p, st)
            x, xt = self.sub(binds).e(ex)
            rt = join(rt, xt)
            if g is not None:
                c, ct = self.sub(binds).e(g)
                if ct != B:
                    raise Refuse('match guard of type %r' % (ct,))
                x = '(if %s then %s else %s)' % (c, x, d)
            out.append('| %s => %s' % (ps, x))
        out.append('| _ => %s' % d)
        return '(match %s with\n      %s\n      end)' % (s, '\n      '.join(out)), rt

    def proj(self, r, t, f):
        if isinstance(t, tuple) and t[0] in PROJ and f in PROJ[t[0]]:
            return '(%s %s)' % (PROJ[t[0]][f], r), t[1]
        raise Refuse('field %s of %r' % (f, t))

    def binop(self, a):
        op = a[1]
        if op in ('&&', '||'):
            l, lt = self.e(a[2])
            r, rt = self.e(a[3])
            if lt != B or rt != B:
                raise Refuse('%s on %r, %r' % (op, lt, rt))
            return '(%s %s %s)' % ('andb' if op == '&&' else 'orb', l, r), B
        l, lt = self.e(a[2])
        r, rt = self.e(a[3])
        if lt != rt:
            raise Refuse('operator %s on %r and %r' % (op, lt, rt))
        if lt == F:
            tab = {'+': 'add', '-': 'sub', '*': 'mul', '/': 'div'}
            cmp_ = {'<': 'ltb', '<=': 'leb', '>': 'gtb', '>=': 'geb', '==': 'eqb', '!=': 'neb'}
            if op in tab:
                return '(%s %s %s)' % (tab[op], l, r), F
            if op in cmp_:
                return '(%s %s %s)' % (cmp_[op], l, r), B
        if lt == ('Rect', F) and op == '+':
            return '(rect_add %s %s)' % (l, r), lt
        if lt == ('Size', F) and op == '+':
            return '(size_add %s %s)' % (l, r), lt
        raise Refuse('operator %s on %r' % (op, lt))

    def call(self, a):
        f = a[1]
        if f[0] == 'path' and f[1] in (['Some'], ['Option', 'Some']) and len(a[2]) == 1:
            r, t = self.e(a[2][0])
            return '(Some %s)' % r, Opt(t)
        if f[0] == 'path' and f[1][-1] in ('f32_max', 'f32_min') and len(a[2]) == 2:
            (x, xt), (y, yt) = self.e(a[2][0]), self.e(a[2][1])
            if xt != F or yt != F:
                raise Refuse('%s on %r, %r' % (f[1][-1], xt, yt))
            return '(%s %s %s)' % ('fmax' if f[1][-1] == 'f32_max' else 'fmin', x, y), F
        raise Refuse('call of %s' % ('::'.join(f[1]) if f[0] == 'path' else f[0]))

    def struct(self, a):
        segs, fs, base = a[1], a[2], a[3]
        if segs == ['LayoutOutput'] and base is None:
            given = dict(fs)
            if sorted(given) != sorted(f for f, _ in OUTPUT_FIELDS) or len(fs) != len(OUTPUT_FIELDS):
                raise Refuse('LayoutOutput literal with fields %r' % [f for f, _ in fs])
            parts = []
            for f, want in OUTPUT_FIELDS:
                r, t = self.e(given[f])
                if join(t, want) != want:
                    raise Refuse('LayoutOutput.%s of type %r' % (f, t))
                parts.append(r)
            return '(mkOutput %s)' % ' '.join(parts), OUT
        if segs == ['Layout'] and base is None:
            given = dict(fs)
            if sorted(given) != sorted(f for f, _ in LAYOUT_FIELDS) or len(fs) != len(LAYOUT_FIELDS):
                raise Refuse('Layout literal with fields %r' % [f for f, _ in fs])
            parts = []
            for f, want in LAYOUT_FIELDS:
                r, t = self.e(given[f])
                if t != want:
                    raise Refuse('Layout.%s of type %r' % (f, t))
                parts.append(r)
            return '(mkLayout %s)' % ' '.join(parts), 'Layout'
        if len(segs) == 1 and segs[0] in PROJ and base is None:
            fields = list(PROJ[segs[0]])
            given = dict(fs)
            if sorted(given) != sorted(fields) or len(fs) != len(fields):
                raise Refuse('%s literal with fields %r' % (segs[0], [f for f, _ in fs]))
            parts = [self.e(given[f]) for f in fields]
            t = parts[0][1]
            for _, t2 in parts[1:]:
                t = join(t, t2)
            return '(mk%s %s)' % (segs[0], ' '.join(p for p, _ in parts)), (segs[0], t)
        raise Refuse('struct literal %s' % '::'.join(segs))

    def closure(self, c, ptypes):
        if c[0] == 'path' and c[1] in (['Some'], ['Option', 'Some']) and len(ptypes) == 1:
            return 'Some', Opt(ptypes[0])
        if c[0] == 'path' and c[1] == ['AvailableSpace', 'from'] and ptypes == [F]:
            return '(@Definite T)', AV        # impl From<f32> for AvailableSpace, checked in generate()
        if c[0] != 'closure' or len(c[1]) != len(ptypes):
            raise Refuse('expected a closure of %d parameters' % len(ptypes))
        binds, names = {}, []
        for p, t in zip(c[1], ptypes):
            if p[0] == 'pwild':
                names.append('_')
            elif p[0] == 'pident':
                names.append(lname(p[1]))
                binds[p[1]] = (lname(p[1]), t)
            else:
                raise Refuse('closure parameter pattern')
        body, bt = self.sub(binds).e(c[2])
        return '(fun %s => %s)' % (' '.join(names), body), bt

    def calc_arg(self, args):
        if len(args) != 2 or args[1] not in (CALC, CALC2):
            raise Refuse('expected (context, &resolve_calc_value) or (context, |val, basis| tree.calc(val, basis))')
        return self.e(args[0])

    def mcall(self, a):
        recv, nm, args = a[1], a[2], a[3]
        n = len(args)
        # accessors of the style
        if recv == ('path', ['style']) and n == 0:
            if nm not in STYLE:
                raise Refuse('style accessor %s()' % nm)
            return '(%s style)' % STYLE[nm][0], STYLE[nm][1]
        r, t = self.e(recv)
        if isinstance(t, tuple) and t[0] == 'enum' and t[1] == 'Overflow' and nm == 'is_scroll_container' and n == 0:
            return '(is_scroll_container %s)' % r, B
        # ---- Option<X>
        if isinstance(t, tuple) and t[0] == 'opt':
            it = t[1]
            if nm == 'map' and n == 1:
                f, ft = self.closure(args[0], [it])
                return '(option_map %s %s)' % (f, r), Opt(ft)
            if nm == 'unwrap_or' and n == 1:
                x, xt = self.e(args[0])
                if xt != it:
                    raise Refuse('unwrap_or(%r) on %r' % (xt, t))
                return '(opt_unwrap_or %s %s)' % (r, x), it
            if nm == 'or' and n == 1:
                x, xt = self.e(args[0])
                if xt != t:
                    raise Refuse('or(%r) on %r' % (xt, t))
                return '(opt_or %s %s)' % (r, x), t
        # ---- MaybeMath on f32 / Option<f32> / AvailableSpace
        if t in (F, OF, AV):
            if nm in MM and n == 1:
                x, xt = self.e(args[0])
                if (t, xt) not in ((OF, OF), (OF, F), (F, OF), (AV, F), (AV, OF)):
                    raise Refuse('%s(%r) on %r' % (nm, xt, t))
                return '(%s_%s%s %s %s)' % (nm, code(t), code(xt), r, x), t
            if nm == 'maybe_clamp' and n == 2:
                (x, xt), (y, yt) = self.e(args[0]), self.e(args[1])
                if xt != yt or (t, xt) not in ((OF, OF), (OF, F), (F, OF), (AV, F), (AV, OF)):
                    raise Refuse('maybe_clamp(%r, %r) on %r' % (xt, yt, t))
                return '(maybe_clamp_%s%s %s %s %s)' % (code(t), code(xt), r, x, y), t
        if t == AV:
            if nm == 'maybe_set' and n == 1:
                x, xt = self.e(args[0])
                if xt != OF:
                    raise Refuse('maybe_set(%r)' % (xt,))
                return '(avail_maybe_set %s %s)' % (r, x), AV
            if nm == 'map_definite_value' and n == 1:
                f, ft = self.closure(args[0], [F])
                if ft != F:
                    raise Refuse('map_definite_value closure returns %r' % (ft,))
                return '(avail_map_definite_value %s %s)' % (r, f), AV
            if nm == 'into_option' and n == 0:
                return '(avail_into_option %s)' % r, OF
        # ---- containers
        if isinstance(t, tuple) and t[0] in ('Size', 'Rect', 'Point'):
            tag, it = t
            low = tag.lower()
            if nm == 'map' and n == 1:
                f, ft = self.closure(args[0], [it])
                return '(%s_map %s %s)' % (low, f, r), (tag, ft)
            if tag == 'Size' and nm == 'zip_map' and n == 2:
                x, xt = self.e(args[0])
                if isinstance(xt, tuple) and xt[0] == 'Size':
                    f, ft = self.closure(args[1], [it, xt[1]])
                    if ft == Opt('?'):
                        raise Refuse('zip_map closure of undetermined type')
                    return '(size_zip_map %s %s %s)' % (f, r, x), ('Size', ft)
            if tag == 'Point' and nm == 'transpose' and n == 0:
                return '(point_transpose %s)' % r, t
            if tag == 'Rect':
                if it == F and nm in ('horizontal_axis_sum', 'vertical_axis_sum', 'sum_axes') and n == 0:
                    return '(%s %s)' % (nm, r), (F if nm != 'sum_axes' else ('Size', F))
                if it in (LP, LPA) and nm == 'resolve_or_zero':
                    x, xt = self.calc_arg(args)
                    suf = 'lp' if it == LP else 'lpa'
                    if xt == OF:
                        return '(rect_resolve_or_zero_%s %s %s)' % (suf, r, x), ('Rect', F)
                    if xt == ('Size', OF):
                        return '(rect_resolve_or_zero_%s_size %s %s)' % (suf, r, x), ('Rect', F)
            if tag == 'Size':
                if it == DIMN and nm == 'maybe_resolve':
                    x, xt = self.calc_arg(args)
                    if xt == ('Size', OF):
                        return '(size_maybe_resolve_dim %s %s)' % (r, x), ('Size', OF)
                if it == OF and nm == 'maybe_apply_aspect_ratio' and n == 1:
                    x, xt = self.e(args[0])
                    if xt == OF:
                        return '(maybe_apply_aspect_ratio %s %s)' % (r, x), t
                if isinstance(it, tuple) and it[0] == 'opt' and nm == 'or' and n == 1:
                    x, xt = self.e(args[0])
                    if join(xt, t) == t:
                        return '(size_or %s %s)' % (r, x), t
                if isinstance(it, tuple) and it[0] == 'opt' and nm == 'unwrap_or' and n == 1:
                    x, xt = self.e(args[0])
                    if xt == ('Size', it[1]):
                        return '(size_unwrap_or %s %s)' % (r, x), xt
                if it in (F, OF, AV) and nm in MM and n == 1:
                    x, xt = self.e(args[0])
                    if isinstance(xt, tuple) and xt[0] == 'Size' and (it, xt[1]) in ((OF, OF), (OF, F), (F, OF), (AV, F), (AV, OF)) \
                            and (nm == 'maybe_sub' or it != AV):
                        return '(size_%s_%s%s %s %s)' % (nm, code(it), code(xt[1]), r, x), t
                if it in (F, OF) and nm == 'maybe_clamp' and n == 2:
                    (x, xt), (y, yt) = self.e(args[0]), self.e(args[1])
                    xt = yt = join(xt, yt)
                    if xt == ('Size', Opt('?')):
                        xt = ('Size', OF)
                    if isinstance(xt, tuple) and xt[0] == 'Size' and xt[1] in (F, OF):
                        return '(size_maybe_clamp_%s%s %s %s %s)' % (code(it), code(xt[1]), r, x, y), t
                if it == AV and nm == 'into_options' and n == 0:
                    return '(size_into_options %s)' % r, ('Size', OF)
                if it == AV and nm == 'maybe_set' and n == 1:
                    x, xt = self.e(args[0])
                    if xt == ('Size', OF):
                        return '(size_avail_maybe_set %s %s)' % (r, x), t
        raise Refuse('method %s/%d on %r' % (nm, n, t))

    # ---------------------------------------------------------------- patterns
    def pat(self, p, t):
        if p[0] == 'pident':
            return lname(p[1]), {p[1]: (lname(p[1]), t)}
        if p[0] == 'ppath' and p[1] in (['true'], ['false']) and t == B:
            return p[1][0], {}
        return Tr.pat(self, p, t)

    # ---------------------------------------------------------------- statements
    def stmt(self, st, lines):
        if st[0] == 'let':
            p, rhs = st[1], st[2]
            if rhs is None:
                raise Refuse('let without initialiser')
            if p[0] == 'pstruct' and p[1] == ['LayoutInput'] and rhs == ('path', ['inputs']):
                fields = [f for f, _ in p[2]]
                if fields[-1] != '..':
                    raise Refuse('LayoutInput pattern without `..`')
                for f, q in p[2][:-1]:
                    if f not in INPUT_FIELDS or q != ('pident', f):
                        raise Refuse('LayoutInput pattern field %s' % f)
                    lines.append('let %s := (%s inputs) in\n    ' % (lname(f), f))
                    self.env[f] = (lname(f), INPUT_FIELDS[f])
                return
            if p == ('pident', 'style') and rhs == ('mcall', ('path', ['tree']), 'get_core_container_style', [('path', ['root'])]):
                return          # the style of the node is the parameter `style`
            r, t = self.e(rhs)
            if p[0] == 'pident':
                if t == ('Size', Opt('?')):
                    r, t = '(%s : Size (option T))' % r, ('Size', OF)
                lines.append('let %s := %s in\n    ' % (lname(p[1]), r))
                self.env[p[1]] = (lname(p[1]), t)
                return
            ps, binds = self.pat(p, t)
            lines.append("let '%s := %s in\n    " % (ps, r))
            self.env.update(binds)
            return
        if st[0] == 'expr':
            ex = st[1]
            if ex[0] == 'macro' and ex[1] == 'debug_log':
                return
            if ex == ('call', ('path', ['drop']), [('path', ['style'])]):
                return
            if ex[0] == 'assign' and ex[1] == '=' and ex[2][0] == 'path' and len(ex[2][1]) == 1:
                nm = ex[2][1][0]
                if nm not in self.env:
                    raise Refuse('assignment to unknown %s' % nm)
                r, t = self.e(ex[3])
                if join(t, self.env[nm][1]) != self.env[nm][1]:
                    raise Refuse('assignment of %r to %s : %r' % (t, nm, self.env[nm][1]))
                lines.append('let %s := %s in\n    ' % (lname(nm), r))
                return
            if ex[0] in ('block', 'if') and not has_return(ex):
                # statement-position block / `if` without else: rebinding of the outer variables assigned inside
                vs = []
                self.assigned_in(ex, vs)
                if not vs:
                    raise Refuse('statement-position %s without assignments' % ex[0])
                for v in vs:
                    if v not in self.env:
                        raise Refuse('assignment to unknown %s' % v)
                tup = '(%s)' % ', '.join(lname(v) for v in vs) if len(vs) > 1 else lname(vs[0])

                def run(tr, blk):
                    ls = []
                    inner = tr.lets(blk[1], ls)
                    if blk[2] is not None:
                        inner.stmt(('expr', blk[2], []), ls)
                    return '(' + ''.join(ls) + tup + ')'
                if ex[0] == 'block':
                    term = run(self, ex)
                else:
                    if ex[3] is not None or ex[2][0] != 'block':
                        raise Refuse('statement-position if with else')
                    c, ct = self.e(ex[1])
                    if ct != B:
                        raise Refuse('if condition of type %r' % (ct,))
                    term = '(if %s then %s else %s)' % (c, run(self, ex[2]), tup)
                lines.append("let %s%s := %s in\n    " % ("'" if len(vs) > 1 else '', tup, term))
                return
            if ex[0] == 'assign' and ex[1] in ('+=', '-=') and ex[2][0] == 'field' and ex[2][1][0] == 'path' and len(ex[2][1][1]) == 1:
                nm, side = ex[2][1][1][0], ex[2][2]
                if nm not in self.env or self.env[nm][1] != ('Rect', F) or side not in PROJ['Rect']:
                    raise Refuse('assignment to %s.%s' % (nm, side))
                old = self.env[nm][0]
                r, t = self.e(ex[3])
                if t != F:
                    raise Refuse('assignment of %r to %s.%s' % (t, nm, side))
                op = 'add' if ex[1] == '+=' else 'sub'
                parts = ['(%s (%s %s) %s)' % (op, PROJ['Rect'][s], old, r) if s == side else '(%s %s)' % (PROJ['Rect'][s], old)
                         for s in ('left', 'right', 'top', 'bottom')]
                lines.append('let %s := (mkRect %s) in\n    ' % (lname(nm), ' '.join(parts)))
                self.env[nm] = (lname(nm), ('Rect', F))
                return
        raise Refuse('statement %r' % (st[1][0] if st[0] == 'expr' else st[0],))

    def assigned_in(self, ex, out):
        """Outer variables assigned (`x = e`) in a statement-position block / if, in order of first assignment."""
        if ex[0] == 'assign':
            if ex[2][0] == 'path' and len(ex[2][1]) == 1 and ex[2][1][0] not in out:
                out.append(ex[2][1][0])
        elif ex[0] == 'block':
            for st in ex[1]:
                if st[0] == 'expr':
                    self.assigned_in(st[1], out)
            if ex[2] is not None:
                self.assigned_in(ex[2], out)
        elif ex[0] == 'if':
            self.assigned_in(ex[2], out)
            if ex[3] is not None:
                self.assigned_in(ex[3], out)

    # ---------------------------------------------------------------- the function body: early returns + measure log
    def measure_arg(self, ex):
        """First argument of the measure call -> (coq term of type option X, X)."""
        if ex[0] == 'match':
            s, st = self.e(ex[1])
            arms, rt = [], None
            for p, g, x, _ in ex[2]:
                if g is not None:
                    raise Refuse('match guard')
                ps, binds = self.pat(p, st)
                if x == ('macro', 'unreachable', []):
                    arms.append('| %s => None' % ps)
                    continue
                r, t = self.sub(binds).e(x)
                rt = t if rt is None else join(rt, t)
                arms.append('| %s => Some %s' % (ps, r))
            if rt is None:
                raise Refuse('measure argument never has a value')
            return '(match %s with\n      %s\n      end)' % (s, '\n      '.join(arms)), rt
        r, t = self.e(ex)
        return '(Some %s)' % r, t

    def seq(self, stmts, tail, log, fall):
        """Term of type option (LayoutOutput T * list (MeasureCall T)) for `stmts; tail`; reaching the end of a nested block
        without a `return` continues with `fall`."""
        def result(ex):
            r, t = self.e(ex)
            if t != OUT:
                raise Refuse('the function returns %r' % (t,))
            return '(Some (%s, %s))' % (r, render_log(log))
        if not stmts:
            if tail is not None:
                return result(tail)
            if fall is None:
                raise Refuse('the function ends without a value')
            return fall
        st, rest = stmts[0], stmts[1:]
        if self.child is not None and st[0] == 'expr' and st[1][0] == 'mcall' and st[1][1] == ('path', ['tree']) and st[1][2] == 'set_unrounded_layout':
            # compute_root_layout: the function's result is the Layout it stores for the root
            args = st[1][3]
            if rest or tail is not None or fall is not None or len(args) != 2 or args[0] != ('path', ['root']) or args[1][:2] != ('un', '&'):
                raise Refuse('set_unrounded_layout(root, &Layout {..}) must be the last statement')
            r, t = self.e(args[1][2])
            if t != 'Layout':
                raise Refuse('set_unrounded_layout of %r' % (t,))
            return '(Some (%s, %s))' % (r, render_log(log))
        if self.child is not None and st[0] == 'let' and st[2] is not None and st[2][0] == 'mcall' and st[2][1] == ('path', ['tree']) \
                and st[2][2] == 'perform_child_layout':
            if fall is not None or st[1][0] != 'pident':
                raise Refuse('perform_child_layout inside a conditional block')
            pnames, lit = self.child
            args = st[2][3]
            if len(args) != len(pnames) or args[0] != ('path', ['root']):
                raise Refuse('perform_child_layout arguments')
            env = {}
            for pn, ar in zip(pnames[1:], args[1:]):
                if pn in INPUT_FIELDS:
                    env[pn] = self.e(ar)
                    if join(env[pn][1], INPUT_FIELDS[pn]) != INPUT_FIELDS[pn]:
                        raise Refuse('perform_child_layout %s of type %r' % (pn, env[pn][1]))
            inp = LeafTr(env)
            given = dict(lit[2])
            parts = []
            for f in ('run_mode', 'sizing_mode', 'known_dimensions', 'parent_size', 'available_space'):
                r, t = inp.e(given[f])
                if join(t, INPUT_FIELDS[f]) != INPUT_FIELDS[f]:
                    raise Refuse('LayoutInput.%s of type %r' % (f, t))
                parts.append(r)
            self.fresh += 1
            cl = 'child_calls%d' % self.fresh
            o = lname(st[1][1])
            cur = self.sub({st[1][1] + '.size': ('(out_size %s)' % o, ('Size', F)),
                            st[1][1] + '.content_size': ('(out_content_size %s)' % o, ('Size', F))})
            cur.fresh = self.fresh
            body = cur.seq(rest, tail, log + [('list', cl)], fall)
            return ('(match perform_child_layout (mkInput %s) with\n    | None => None\n    | Some (%s, %s) =>\n    %s\n    end)'
                    % (' '.join(parts), o, cl, body))
        if st[0] == 'expr' and st[1][0] == 'return':
            if st[1][1] is None:
                raise Refuse('return without a value')
            return result(st[1][1])
        if st[0] == 'expr' and st[1][0] in ('if', 'iflet') and has_return(st[1]):
            ex = st[1]
            els = ex[3] if ex[0] == 'if' else ex[4]
            blk = ex[2] if ex[0] == 'if' else ex[3]
            if els is not None or blk[0] != 'block' or blk[2] is not None:
                raise Refuse('early return: only `if c { ..; return v; }` without else')
            self.fresh += 1
            kn = 'k%d' % self.fresh
            k = self.seq(rest, tail, log, fall)
            if ex[0] == 'if':
                c, ct = self.e(ex[1])
                if ct != B:
                    raise Refuse('if condition of type %r' % (ct,))
                inner = self.sub({})
                inner.fresh = self.fresh
                body = inner.seq(blk[1], None, log, kn)
                return '(let %s := (%s) in\n    if %s\n    then %s\n    else %s)' % (kn, k, c, body, kn)
            s, st_ = self.e(ex[2])
            ps, binds = self.pat(ex[1], st_)
            inner = self.sub(binds)
            inner.fresh = self.fresh
            body = inner.seq(blk[1], None, log, kn)
            return '(let %s := (%s) in\n    match %s with\n    | %s => %s\n    | _ => %s\n    end)' % (kn, k, s, ps, body, kn)
        if self.measure is not None and st[0] == 'let' and st[2] is not None and st[2][0] == 'call' and st[2][1] == ('path', [self.measure[0]]):
            if fall is not None:
                raise Refuse('measure call inside a conditional block')
            if st[1][0] != 'pident' or len(st[2][2]) != 2:
                raise Refuse('form of the measure call')
            a1, t1 = self.measure_arg(st[2][2][0])
            a2, t2 = self.e(st[2][2][1])
            if join(t1, ('Size', OF)) != ('Size', OF) or t2 != ('Size', AV):
                raise Refuse('measure call with %r, %r' % (t1, t2))
            self.fresh += 1
            kd, av = 'm_known%d' % self.fresh, 'm_avail%d' % self.fresh
            cur = self.sub({st[1][1]: (lname(st[1][1]), ('Size', F))})
            cur.fresh = self.fresh
            body = cur.seq(rest, tail, log + [('item', '(%s, %s)' % (kd, av))], fall)
            return ('(match %s with\n    | None => None\n    | Some %s =>\n    let %s := %s in\n    let %s := %s %s %s in\n    %s\n    end)'
                    % (a1, kd, av, a2, lname(st[1][1]), self.measure[1], kd, av, body))
        if has_return(st):
            raise Refuse('return in an unsupported position')
        lines = []
        cur = self.sub({})
        cur.fresh = self.fresh
        cur.stmt(st, lines)
        return ''.join(lines) + cur.seq(rest, tail, log, fall)


# ----------------------------------------------------------------------------- generator

def check_enums(repo, fps):
    for en, (rel, want) in LEAF_ENUMS.items():
        vs = enum_variants(tokenize(read(repo, rel)), en)
        fps['enum ' + en] = ' '.join(vs)
        if vs != want:
            raise Refuse('enum %s is %s in the source, Model/Leaf.v has %s' % (en, ' | '.join(vs), ' | '.join(want)))


def check_from_f32(repo, fps):
    toks = tokenize(read(repo, 'src/style/available_space.rs'))
    blk = impl_block(toks, [x[1] for x in tokenize('impl From<f32> for AvailableSpace {')])
    params, body, b = fn_block(blk, 'from')
    fps['available_space::From<f32>'] = norm_tokens(body)
    want = ('block', [], ('call', ('path', ['Self', 'Definite']), [('path', ['value'])]), [])
    if param_names(params) != ['value'] or b[:3] != want[:3]:
        raise Refuse('impl From<f32> for AvailableSpace is no longer Self::Definite(value)')


def generate(repo):
    fps = {}
    check_enums(repo, fps)
    check_from_f32(repo, fps)
    toks = tokenize(read(repo, 'src/compute/leaf.rs'))
    params, body, blk = fn_block(toks, 'compute_leaf_layout')
    fps['leaf::compute_leaf_layout'] = norm_tokens(body)
    names = param_names(params)
    if names != ['inputs', 'style', 'resolve_calc_value', 'measure_function']:
        raise Refuse('compute_leaf_layout parameters %r' % names)
    tr = LeafTr({})
    tr.measure = ('measure_function', 'measure_function')
    term = tr.seq(list(blk[1]), blk[2], [], None)
    out = ['(* GENERATED on every run by translator/gen_leaf.py from src/compute/leaf.rs (whole body of compute_leaf_layout) -- do not edit. *)',
           'From Coq Require Import List Bool.',
           'From TV Require Import Model.Common Model.Leaf.',
           'Import ListNotations.',
           'Section LeafGen.', 'Context {T : Type} `{Num T}.', '',
           'Definition gen_compute_leaf_layout (inputs : LayoutInput T) (style : Style T) (measure_function : MeasureFn T)',
           '  : option (LayoutOutput T * list (MeasureCall T)) :=',
           '    ' + term + '.', '',
           'End LeafGen.']
    return '\n'.join(out) + '\n', fps


def generate_root(repo):
    fps = {}
    check_enums(repo, fps)
    # LayoutPartialTreeExt::perform_child_layout: self.compute_child_layout(node_id, LayoutInput { .. })
    toks = tokenize(read(repo, 'src/tree/traits.rs'))
    params, body, blk = fn_block(toks, 'perform_child_layout')
    fps['traits::perform_child_layout'] = norm_tokens(body)
    pnames = param_names(params)
    t = blk[2]
    if blk[1] or t is None or t[0] != 'mcall' or t[1] != ('path', ['self']) or t[2] != 'compute_child_layout' or len(t[3]) != 2 \
            or t[3][0] != ('path', [pnames[1]]) or t[3][1][0] != 'struct' or t[3][1][1] != ['LayoutInput'] or t[3][1][3] is not None:
        raise Refuse('perform_child_layout is no longer self.compute_child_layout(node_id, LayoutInput { .. })')
    if pnames[0] != 'self' or not set(INPUT_FIELDS) <= set(f for f, _ in t[3][1][2]):
        raise Refuse('perform_child_layout: parameters / LayoutInput fields')
    toks = tokenize(read(repo, 'src/compute/mod.rs'))
    params, body, blk = fn_block(toks, 'compute_root_layout')
    fps['mod::compute_root_layout'] = norm_tokens(body)
    if param_names(params) != ['tree', 'root', 'available_space']:
        raise Refuse('compute_root_layout parameters %r' % param_names(params))
    for st in blk[1]:
        for at in st[3] if len(st) > 3 else []:
            if at.replace(' ', '') != 'cfg(feature="block_layout")':
                raise Refuse('attribute %s on a statement' % at)
    tr = LeafTr({'available_space': ('available_space', ('Size', AV))})
    tr.child = (pnames[1:], t[3][1])
    term = tr.seq(list(blk[1]), blk[2], [], None)
    out = ['(* GENERATED on every run by translator/gen_leaf.py from src/compute/mod.rs (whole body of compute_root_layout; the child layout',
           '   `tree.perform_child_layout(root, ..)` is the parameter, applied to the LayoutInput that src/tree/traits.rs builds) -- do not edit. *)',
           'From Coq Require Import List Bool NArith.',
           'From TV Require Import Model.Common Model.Leaf Model.Root.',
           'Import ListNotations.',
           'Section RootGen.', 'Context {T : Type} `{Num T}.', '',
           'Definition gen_compute_root_layout (style : Style T)',
           '    (perform_child_layout : LayoutInput T -> option (LayoutOutput T * list (MeasureCall T)))',
           '    (available_space : Size (AvailableSpace T)) : option (Layout T * list (MeasureCall T)) :=',
           '    ' + term + '.', '',
           'End RootGen.']
    return '\n'.join(out) + '\n', fps


TARGETS = {'LeafGen.v': generate, 'RootGen.v': generate_root}
