(* GENERATED on every run by /verif/translator/gen_compact.py from src/style/compact_length.rs -- do not edit. *)
From Coq Require Import NArith Bool List.
Import ListNotations.
Open Scope N_scope.
(* usize / pointers: N below 2^64.  f32: its 32-bit pattern. `<<` on usize drops bits above 63. *)
Definition wrap64 (x : N) : N := N.land x (N.ones 64).
Definition TAG_MASK : N := 255.
Definition CALC_TAG_MASK : N := 7.
Definition CALC_TAG : N := 0.
Definition LENGTH_TAG : N := 1.
Definition PERCENT_TAG : N := 2.
Definition AUTO_TAG : N := 3.
Definition FR_TAG : N := 4.
Definition MIN_CONTENT_TAG : N := 7.
Definition MAX_CONTENT_TAG : N := 15.
Definition FIT_CONTENT_PX_TAG : N := 23.
Definition FIT_CONTENT_PERCENT_TAG : N := 31.
Definition all_tags : list N := [CALC_TAG; LENGTH_TAG; PERCENT_TAG; AUTO_TAG; FR_TAG; MIN_CONTENT_TAG; MAX_CONTENT_TAG; FIT_CONTENT_PX_TAG; FIT_CONTENT_PERCENT_TAG].
Definition noncalc_tags : list N := [LENGTH_TAG; PERCENT_TAG; AUTO_TAG; FR_TAG; MIN_CONTENT_TAG; MAX_CONTENT_TAG; FIT_CONTENT_PX_TAG; FIT_CONTENT_PERCENT_TAG].
Definition tag_ptr (ptr tag : N) : N := (N.lor ptr tag).
Definition from_ptr (ptr tag : N) : N := (tag_ptr ptr tag).
Definition from_val (val tag : N) : N := (N.lor (wrap64 (N.shiftl val 32)) tag).
Definition from_tag (tag : N) : N := tag.
Definition calc_tag (w : N) : N := (N.land w CALC_TAG_MASK).
Definition tag (w : N) : N := (N.land w TAG_MASK).
Definition value (w : N) : N := (N.land (N.shiftr w 32) (N.ones 32)).
Definition cl_length (val : N) : N := (from_val val LENGTH_TAG).
Definition cl_percent (val : N) : N := (from_val val PERCENT_TAG).
Definition cl_fr (val : N) : N := (from_val val FR_TAG).
Definition cl_fit_content_px (limit : N) : N := (from_val limit FIT_CONTENT_PX_TAG).
Definition cl_fit_content_percent (limit : N) : N := (from_val limit FIT_CONTENT_PERCENT_TAG).
Definition cl_auto : N := (from_tag AUTO_TAG).
Definition cl_min_content : N := (from_tag MIN_CONTENT_TAG).
Definition cl_max_content : N := (from_tag MAX_CONTENT_TAG).
Definition cl_ZERO : N := cl_length 0.  (* bit pattern of +0.0f32 is 0 *)
(* None = the assertion in `calc` fails (panic) *)
Definition cl_calc (ptr : N) : option N := if (andb (negb (N.eqb ptr 0)) (N.eqb (N.land ptr 7) 0)) then Some (from_ptr ptr CALC_TAG) else None.
Definition cl_calc_value (w : N) : N := w.
Definition cl_is_calc (w : N) : bool := (N.eqb (calc_tag w) 0).
Definition cl_is_zero (w : N) : bool := (N.eqb w cl_ZERO).
Definition cl_is_length_or_percentage (w : N) : bool := (orb (N.eqb (tag w) LENGTH_TAG) (N.eqb (tag w) PERCENT_TAG)).
Definition cl_is_auto (w : N) : bool := (N.eqb (tag w) AUTO_TAG).
Definition cl_is_min_content (w : N) : bool := (N.eqb (tag w) MIN_CONTENT_TAG).
Definition cl_is_max_content (w : N) : bool := (N.eqb (tag w) MAX_CONTENT_TAG).
Definition cl_is_fit_content (w : N) : bool := (orb (N.eqb (tag w) FIT_CONTENT_PX_TAG) (N.eqb (tag w) FIT_CONTENT_PERCENT_TAG)).
Definition cl_is_max_or_fit_content (w : N) : bool := (orb (N.eqb (tag w) MAX_CONTENT_TAG) (orb (N.eqb (tag w) FIT_CONTENT_PX_TAG) (N.eqb (tag w) FIT_CONTENT_PERCENT_TAG))).
Definition cl_is_max_content_alike (w : N) : bool := (orb (N.eqb (tag w) AUTO_TAG) (orb (N.eqb (tag w) MAX_CONTENT_TAG) (orb (N.eqb (tag w) FIT_CONTENT_PX_TAG) (N.eqb (tag w) FIT_CONTENT_PERCENT_TAG)))).
Definition cl_is_min_or_max_content (w : N) : bool := (orb (N.eqb (tag w) MIN_CONTENT_TAG) (N.eqb (tag w) MAX_CONTENT_TAG)).
Definition cl_is_intrinsic (w : N) : bool := (orb (N.eqb (tag w) AUTO_TAG) (orb (N.eqb (tag w) MIN_CONTENT_TAG) (orb (N.eqb (tag w) MAX_CONTENT_TAG) (orb (N.eqb (tag w) FIT_CONTENT_PX_TAG) (N.eqb (tag w) FIT_CONTENT_PERCENT_TAG))))).
Definition cl_is_fr (w : N) : bool := (N.eqb (tag w) FR_TAG).
Definition cl_uses_percentage (w : N) : bool := (orb (orb (N.eqb (tag w) PERCENT_TAG) (N.eqb (tag w) FIT_CONTENT_PERCENT_TAG)) (cl_is_calc w)).
(* None = unreachable!() *)
Definition cl_fit_content (lp : N) : option N := (if N.eqb (tag lp) LENGTH_TAG then Some (cl_fit_content_px (value lp)) else (if N.eqb (tag lp) PERCENT_TAG then Some (cl_fit_content_percent (value lp)) else None)).
Definition valued_ctors : list (N -> N) := [cl_length; cl_percent; cl_fr; cl_fit_content_px; cl_fit_content_percent].
Definition tag_only_ctors : list N := [cl_auto; cl_min_content; cl_max_content].
