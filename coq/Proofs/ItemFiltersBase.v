(* Shared by Proofs/ItemFiltersHidden.v (C05) and Proofs/ItemFiltersAbs.v (C06): list lemmas, the classes of child styles,
   and the tactic that steps a generated pipeline (Gen/FiltersGen.v) over one child by case analysis on the enum values of
   its style(s).  Nothing here depends on WHICH filters the source contains: the two files are split so that a source change
   that breaks only one of the two properties breaks only that property's proofs. *)
From Coq Require Import ZArith Bool List Lia.
From TV Require Import Num.Num Gen.BlockGen Model.Block Model.FiltersBase Gen.FiltersGen Model.ItemFilters.
Import ListNotations.

Lemma filter_ext_Forall {A} (f g : A -> bool) l : Forall (fun x => f x = g x) l -> filter f l = filter g l.
Proof. induction 1 as [|x l Hx Hl IH]; cbn; [reflexivity|]. rewrite Hx, IH. reflexivity. Qed.

Lemma enumerate_from_map_snd {A} (l : list A) n : map snd (g_enumerate_from n l) = l.
Proof. revert n. induction l as [|x l IH]; intros n; cbn; [reflexivity|]. rewrite IH. reflexivity. Qed.

Section Classes.
  Context {C S : Type}.
  Variable position : S -> GPosition.
  Variable bgm : S -> GBoxGenerationMode.

  Lemma hidden_out_of_flow s : s_hidden bgm s = true -> s_out_of_flow position bgm s = true.
  Proof. unfold s_out_of_flow, s_in_flow. intros ->. reflexivity. Qed.
  Lemma absolute_out_of_flow s : s_absolute position s = true -> s_out_of_flow position bgm s = true.
  Proof. unfold s_out_of_flow, s_in_flow. intros ->. rewrite andb_false_r. reflexivity. Qed.

  Lemma agree_except_mono (ig ig' : S -> bool) (f f' : C -> S) cs :
    (forall s, ig s = true -> ig' s = true) -> agree_except ig f f' cs -> agree_except ig' f f' cs.
  Proof.
    intros Hi Ha. unfold agree_except in *. eapply Forall_impl; [|exact Ha].
    intros c [E|[A B]]; [left; exact E|right; split; apply Hi; assumption].
  Qed.
End Classes.

Section BlockStyle.
  Context {T : Type}.
  Lemma bs_hidden_display (st : BStyle T) :
    s_hidden bs_bgm st = match st_display st with DNone => true | _ => false end.
  Proof. unfold s_hidden, bs_bgm, g_is_none. destruct (st_display st); reflexivity. Qed.
  Lemma bs_absolute_position (st : BStyle T) : s_absolute bs_position st = position_is_absolute (st_position st).
  Proof. unfold s_absolute, bs_position, g_is_absolute. destruct (st_position st); reflexivity. Qed.
End BlockStyle.

(* one child of a pipeline: enumerate the enum values of the child's style under both assignments, discard the combinations
   the hypotheses exclude, compute the filters, and close with the induction hypothesis (on the tail, or under the new head) *)
Ltac pipeline_step position bgm f f' c IH :=
  let Ep := fresh "Ep" in let Eb := fresh "Eb" in let Ep' := fresh "Ep'" in let Eb' := fresh "Eb'" in
  destruct (position (f c)) eqn:Ep; destruct (bgm (f c)) eqn:Eb;
  destruct (position (f' c)) eqn:Ep'; destruct (bgm (f' c)) eqn:Eb';
  cbn in *; try discriminate;
  repeat (progress (cbn; rewrite ?Ep, ?Eb, ?Ep', ?Eb'));
  first [apply IH | f_equal; apply IH].
