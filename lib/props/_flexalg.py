"""Shared by C05 / C06: K of the flex RESUMPTION (coq/Model/FlexAlg.v `flex_alg`, runner coq/Model/FlexAlgRun.v) against the event trace
of `compute_flexbox_layout` on the implementation (`vh flexalg cases`, harness/src/flexalg.rs).

One case = one evaluation of a root flex container (random treegen tree: children of every kind incl. display:none, position:absolute,
nested containers, measured leaves; random LayoutInput: both run modes, both sizing modes, known / parent sizes, every available space).
The harness records every compute_child_layout (input AND output) and set_unrounded_layout (layout) the root's algorithm issues; the Coq
resumption is walked feeding it the recorded outputs, and the two event sequences are compared

    structurally  (which child, Query/SetLayout, run mode, sizing mode, requested axis, Some/None pattern of known dimensions and parent size,
                   kind of available space per axis, and for SetLayout the `order`)      -- a mismatch is a BROKEN correspondence
    bit for bit   (every f32 payload of every input, stored layout and of the container's output)  -- also a BROKEN correspondence;
                   counted separately so that the report says how far the exactness reaches.

Run as a script for development:  python3 -m lib.props._flexalg <seed> <n>"""
import struct
from ..common import *
from ..stages import *

IMPORTS = 'From TV Require Import Model.FlexAlgRun.'
QLEN, SLEN, RLEN = 19, 23, 9


def fl(z):
    return struct.unpack('f', struct.pack('I', z & 0xffffffff))[0]


def events(r):
    """Split an R list into events: ('Q', child, input17) / ('S', child, layout21) / ('R', output8) / ('X', code...)."""
    ev, k = [], 0
    while k < len(r):
        t = r[k]
        if t == 0 and k + QLEN <= len(r):
            ev.append(('Q', r[k + 1], r[k + 2:k + QLEN]))
            k += QLEN
        elif t == 1 and k + SLEN <= len(r):
            ev.append(('S', r[k + 1], r[k + 2:k + SLEN]))
            k += SLEN
        elif t == 2 and k + RLEN <= len(r):
            ev.append(('R', -1, r[k + 1:k + RLEN]))
            k += RLEN
        else:
            ev.append(('X', -1, r[k:]))
            break
    return ev


def skeleton(ev):
    """The structural view of an event."""
    kind, child, p = ev
    if kind == 'Q':
        return ('Q', child, p[0], p[1], p[2], p[3], p[5], p[7], p[9], p[11], p[13], p[15], p[16])
    if kind == 'S':
        return ('S', child, p[0])
    if kind == 'R':
        return ('R', p[4], p[6])
    return ('X',) + tuple(p)


def describe_event(ev):
    kind, child, p = ev
    o = lambda h, v: '-' if h == 0 else repr(fl(v))
    a = lambda t, v: repr(fl(v)) if t == 0 else ('min' if t == 1 else 'max')
    if kind == 'Q':
        return 'Query child %d %s %s axis%d known=(%s,%s) parent=(%s,%s) avail=(%s,%s)' % (
            child, ['PerformLayout', 'ComputeSize', 'Hidden'][p[0]], ['Inherent', 'Content'][p[1]], p[2],
            o(p[3], p[4]), o(p[5], p[6]), o(p[7], p[8]), o(p[9], p[10]), a(p[11], p[12]), a(p[13], p[14]))
    if kind == 'S':
        return 'SetLayout child %d order %d at (%r,%r) size (%r,%r) content (%r,%r) sb (%r,%r) border %s padding %s margin %s' % (
            child, p[0], fl(p[1]), fl(p[2]), fl(p[3]), fl(p[4]), fl(p[5]), fl(p[6]), fl(p[7]), fl(p[8]),
            [fl(x) for x in p[9:13]], [fl(x) for x in p[13:17]], [fl(x) for x in p[17:21]])
    if kind == 'R':
        return 'Ret size (%r,%r) content (%r,%r) baseline_y %s' % (fl(p[0]), fl(p[1]), fl(p[2]), fl(p[3]), o(p[6], p[7]))
    return 'model marker %s' % (p[:3],)


MARKERS = {3: 'the recorded answers ran out: the resumption asks more than the implementation did',
           5: 'recorded answers left over: the resumption asks less than the implementation did',
           -2: 'the walk ran out of fuel', -4: 'the case does not decode'}


def marker_of(model):
    """The runner's marker in a model result (Model/FlexAlgRun.v: 3 / 5 n / -2 / -4 where an event tag 0 / 1 / 2 is expected), or None."""
    for e in events(model):
        if e[0] == 'X':
            return e[2][0] if e[2] else -4
    return None if model else -4


def compare(impl, model):
    """-> (structural_ok, exact_ok, message).  A marker of the runner is never a match: it is a STRUCTURAL disagreement."""
    mk = marker_of(model)
    if mk is not None:
        return False, False, 'the runner printed the marker %s (%s); model result %s...' % (mk, MARKERS.get(mk, 'not an event'), model[:6])
    a, b = events(impl), events(model)
    sa, sb = [skeleton(e) for e in a], [skeleton(e) for e in b]
    if sa != sb:
        k = 0
        while k < min(len(sa), len(sb)) and sa[k] == sb[k]:
            k += 1
        ia = describe_event(a[k]) if k < len(a) else '<end>'
        ib = describe_event(b[k]) if k < len(b) else '<end>'
        return False, False, 'event %d of %d/%d: implementation: %s | resumption: %s' % (k, len(a), len(b), ia, ib)
    if impl != model:
        k = 0
        while a[k] == b[k]:
            k += 1
        return True, False, 'event %d of %d (same structure, payload differs): implementation: %s | resumption: %s' % (
            k, len(a), describe_event(a[k]), describe_event(b[k]))
    return True, True, ''


def case_features(c, r):
    """Coverage features of a case (from the C line and the implementation's events)."""
    S = 66
    root, inp = c[:S], c[S:S + 17]
    n = c[S + 17]
    kids = [c[S + 18 + S * j:S + 18 + S * (j + 1)] for j in range(n)]
    ev = events(r)
    f = set()
    f.add('mode=%s' % ['PerformLayout', 'ComputeSize'][inp[0]])
    f.add('row' if root[52] in (0, 2) else 'column')
    if root[53]:
        f.add('wrap')
    if any(k[0] == 3 for k in kids):
        f.add('hidden-child')
    if any(k[1] == 1 and k[0] != 3 for k in kids):
        f.add('absolute-child')
    main_known = inp[3] if root[52] in (0, 2) else inp[5]
    f.add('main-known' if main_known else 'main-unknown')
    if inp[0] == 1 and any(e[0] == 'Q' and e[2][0] == 0 for e in ev):
        f.add('PerformLayout-query-in-ComputeSize')
    if any(e[0] == 'Q' and e[2][0] == 1 and e[2][1] == 0 for e in ev):
        f.add('intrinsic-main-size-query')
    if any(e[0] == 'Q' and e[2][0] == 0 and e[2][1] == 1 and inp[0] == 0 for e in ev[:max(0, len(ev) - 1)]) and \
            len([e for e in ev if e[0] == 'Q' and e[2][0] == 0 and e[2][1] == 1]) > len([e for e in ev if e[0] == 'S' and kids[e[1]][0] != 3 and kids[e[1]][1] == 0]):
        f.add('baseline-query')
    return f


def flexalg_k(rep, pid, binp, seed, n, timeout=600, payload_is_broken=True):
    """Generate n cases, evaluate the resumption, compare.  Returns a dict of counts (also stored in rep.cov).
    A STRUCTURAL disagreement is always a broken correspondence.  A payload-only disagreement (same events, some f32 differs) is a broken
    correspondence for the property that owns the flex arithmetic (C07: payload_is_broken=True); for C05 / C06 -- whose theorems about
    the resumption use no arithmetic fact -- it is counted and logged (`payload_only_disagreements`) but does not fail the check."""
    rc, out = vh(binp, ['flexalg', 'cases', seed, n], timeout=300)
    if rc != 0:
        rep.add_broken('correspondence', 'vh flexalg cases', out[-800:])
        return None
    cases, impl = parse_cr(out)
    done = re.search(r'^DONE (\d+) (\d+) (\d+) (\d+) (\d+)$', out, re.M)
    xchk = [l for l in out.split('\n') if l.startswith('XCHK')]
    if not done or xchk:
        rep.add_broken('correspondence', 'flexalg harness: hook trace vs recording', (xchk[:3] or out[-300:]))
        return None
    # the runner is a dependency of Props/C05.vo and Props/C06.vo, not of Props/C07.vo: make sure it is built
    with Lock('coq'):
        rcm, outm, _ = coq_make(['Model/FlexAlgRun.vo'])
    if rcm != 0:
        rep.add_broken('correspondence', 'flex resumption K (building Model/FlexAlgRun.v)', outm[-1500:])
        return None
    try:
        model = run_model('flexalg_%s' % pid, IMPORTS, 'run_case', cases, scope='Z', elem='list Z', timeout=timeout)
    except RuntimeError as ex:
        rep.add_broken('correspondence', 'flex resumption K (model evaluation)', str(ex)[-1500:])
        return None
    nstruct = nexact = 0
    feats = {}
    distinct = set()
    reported = 0
    npay_logged = 0
    nmark = {}
    for c, a, b in zip(cases, impl, model):
        s_ok, e_ok, msg = compare(a, b)
        mk = marker_of(b)
        if mk is not None:
            nmark[str(mk)] = nmark.get(str(mk), 0) + 1
        nstruct += s_ok
        nexact += e_ok
        for f in case_features(c, a):
            feats[f] = feats.get(f, 0) + 1
        if len(events(a)) > 1:
            distinct.add(tuple(c))
        if not e_ok and (payload_is_broken or not s_ok) and reported < 4:
            reported += 1
            rep.add_broken('correspondence', 'flex resumption K (%s)' % ('payload' if s_ok else 'event structure'),
                           {'what': msg, 'case': c, 'impl': a, 'model': b})
        elif not e_ok and s_ok and not payload_is_broken and npay_logged < 2:
            npay_logged += 1
            log('[%s] flex resumption K: payload-only disagreement (reported by ./check C07): %s' % (pid, msg[:300]))
    rep.cov['evaluations'] = rep.cov.get('evaluations', 0) + len(cases)
    res = {'cases': len(cases), 'skipped_panics': int(done.group(2)), 'structure_agrees': nstruct, 'bit_exact': nexact,
           'runner_markers': nmark, 'payload_only_disagreements': nstruct - nexact, 'payload_disagreement_fails_this_check': payload_is_broken,
           'compute_size_cases': int(done.group(4)), 'compute_size_cases_with_a_PerformLayout_query': int(done.group(5)),
           'features': feats, 'distinct_with_child_traffic': len(distinct)}
    rep.cov['flexalg_k'] = res
    rep.cov['samples'].append({'flexalg_case': cases[0][:20], 'implementation_events': [describe_event(e) for e in events(impl[0])][:8]})
    return res


def ns_witness(rep, pid, binp):
    """The witness of C01_flex_algorithm_NS_refuted on the implementation (`vh flexalg baseline`): a row container with two baseline-aligned
    children, evaluated in ComputeSize mode, must issue PerformLayout queries (and, through TaffyTree, store a grandchild's layout while an
    enclosing evaluation only computes a size); the resumption must reproduce the implementation's events exactly."""
    rc, out = vh(binp, ['flexalg', 'baseline'], timeout=60)
    try:
        cases, impl = parse_cr(out)
        model = run_model('flexalg_ns_%s' % pid, IMPORTS, 'run_case', cases, scope='Z', elem='list Z', timeout=120)
    except RuntimeError as ex:
        rep.add_broken('correspondence', 'C01_flex_algorithm_NS_refuted witness (vh flexalg baseline)', str(ex)[-800:])
        return
    m = re.search(r'^SCRIBBLES (\d+)', out, re.M)
    ev = events(impl[0]) if impl else []
    layout_queries = [e for e in ev if e[0] == 'Q' and e[2][0] == 0]
    ok = bool(impl) and impl[0] == model[0] and len(layout_queries) >= 2 and m is not None and int(m.group(1)) >= 1
    rep.cov['flex_ns_witness'] = {'reproduces_on_implementation': ok, 'PerformLayout_queries_in_ComputeSize_evaluation': len(layout_queries),
                                  'scribbles_through_TaffyTree': int(m.group(1)) if m else None,
                                  'events': [describe_event(e) for e in ev]}
    if not ok:
        if impl and impl[0] == model[0] and not layout_queries:
            log('[%s] the flex NS witness no longer lays children out in ComputeSize mode: C01_flex_algorithm_NS_refuted / notes/FLEXALG.md are stale' % pid)
        rep.add_broken('correspondence', 'C01_flex_algorithm_NS_refuted witness vs implementation',
                       {'impl': impl[:1], 'model': model[:1], 'scribbles': m.group(1) if m else None})


if __name__ == '__main__':
    import sys
    seed, n = int(sys.argv[1]), int(sys.argv[2])
    rc, out, binp, dt = build_harness('release')
    assert rc == 0, out[-2000:]
    rc, out = vh(binp, ['flexalg', 'cases', seed, n], timeout=300)
    cases, impl = parse_cr(out)
    print([l for l in out.split('\n') if l.startswith(('DONE', 'XCHK', 'SKIP'))][:5])
    t0 = time.time()
    model = run_model('flexalg_dev', IMPORTS, 'run_case', cases, scope='Z', elem='list Z')
    print('model evaluated in %.1fs' % (time.time() - t0))
    ns = ne = 0
    shown = 0
    idxs = []
    for j, (c, a, b) in enumerate(zip(cases, impl, model)):
        s_ok, e_ok, msg = compare(a, b)
        ns += s_ok
        ne += e_ok
        if not e_ok:
            idxs.append(j)
            if shown < int(sys.argv[3]) if len(sys.argv) > 3 else shown < 6:
                shown += 1
                print('case %d: %s' % (j, msg))
    print('cases %d structure %d exact %d; failing idx %s' % (len(cases), ns, ne, idxs[:40]))
