(* C04 -- homogeneity (primitive layer: Proofs/ScalePrim.v) of the generated MaybeMath / MaybeResolve / AvailableSpace tables
   (Gen/MathGen.v), of the generic Size/Rect lifts (Model/Common.v) and of the leaf / root kernels (Model/Leaf.v,
   Model/Root.v), over the exact instance XQ, for a scale factor k > 0.
   Shape of every lemma: related inputs give related outputs (Model/Scale.v: sc k = "is the k-fold of", dl = "is the same
   dimensionless number", both up to the equality of rationals).  No finiteness premise is needed: infinities and NaN are
   fixed points of the scaling and every operation treats them alike on both sides. *)
From Coq Require Import QArith Qabs Lqa Bool List ZArith Lia.
From TV Require Import Num.Num Num.QNum Model.Common Model.Leaf Model.Root Model.Scale.
From TV Require Export Proofs.ScalePrim.
Import ListNotations.

(* ------------------------------------------------------------------------------------------------------------ *)
(** * Generated tables: MaybeMath (src/util/math.rs), every impl *)


(* pairwise case analysis on the Option / AvailableSpace / style-length arguments; mismatched constructors are excluded
   by the relation *)
Ltac tbl :=
  intros;
  repeat match goal with
  | H : op_rel _ ?a ?a' |- _ => is_var a; is_var a'; destruct a, a'; cbn [op_rel] in H; try contradiction
  | H : av_rel _ ?a ?a' |- _ => is_var a; is_var a'; destruct a, a'; cbn [av_rel] in H; try contradiction
  | H : lpa_rel _ ?a ?a' |- _ => is_var a; is_var a'; destruct a, a'; cbn [lpa_rel] in H; try contradiction
  | H : lp_rel _ ?a ?a' |- _ => is_var a; is_var a'; destruct a, a'; cbn [lp_rel] in H; try contradiction
  end;
  cbn [op_rel av_rel option_map
       maybe_min_oo maybe_max_oo maybe_clamp_oo maybe_add_oo maybe_sub_oo
       maybe_min_of maybe_max_of maybe_clamp_of maybe_add_of maybe_sub_of
       maybe_min_fo maybe_max_fo maybe_clamp_fo maybe_add_fo maybe_sub_fo
       maybe_min_af maybe_max_af maybe_clamp_af maybe_add_af maybe_sub_af
       maybe_min_ao maybe_max_ao maybe_clamp_ao maybe_add_ao maybe_sub_ao
       maybe_resolve_lp maybe_resolve_lpa maybe_resolve_dim resolve_or_zero_lp resolve_or_zero_lpa resolve_or_zero_dim
       avail_into_option avail_maybe_set avail_map_definite_value avail_from_option];
  try exact I; auto 6 with sc.

Section Tables.
  Variable k : Q.
  Hypothesis Hk : 0 < k.
  Local Hint Resolve Hk : sc.
  Notation L := (sc k).
  Notation O := (op_rel (sc k)).
  Notation A := (av_rel (sc k)).

  (* Option / Option -> Option *)
  Lemma rel_maybe_min_oo a a' b b' : O a a' -> O b b' -> O (maybe_min_oo a b) (maybe_min_oo a' b').
  Proof. tbl. Qed.
  Lemma rel_maybe_max_oo a a' b b' : O a a' -> O b b' -> O (maybe_max_oo a b) (maybe_max_oo a' b').
  Proof. tbl. Qed.
  Lemma rel_maybe_clamp_oo a a' b b' c c' : O a a' -> O b b' -> O c c' -> O (maybe_clamp_oo a b c) (maybe_clamp_oo a' b' c').
  Proof. tbl. Qed.
  Lemma rel_maybe_add_oo a a' b b' : O a a' -> O b b' -> O (maybe_add_oo a b) (maybe_add_oo a' b').
  Proof. tbl. Qed.
  Lemma rel_maybe_sub_oo a a' b b' : O a a' -> O b b' -> O (maybe_sub_oo a b) (maybe_sub_oo a' b').
  Proof. tbl. Qed.
  (* Option / f32 -> Option *)
  Lemma rel_maybe_min_of a a' b b' : O a a' -> L b b' -> O (maybe_min_of a b) (maybe_min_of a' b').
  Proof. tbl. Qed.
  Lemma rel_maybe_max_of a a' b b' : O a a' -> L b b' -> O (maybe_max_of a b) (maybe_max_of a' b').
  Proof. tbl. Qed.
  Lemma rel_maybe_clamp_of a a' b b' c c' : O a a' -> L b b' -> L c c' -> O (maybe_clamp_of a b c) (maybe_clamp_of a' b' c').
  Proof. tbl. Qed.
  Lemma rel_maybe_add_of a a' b b' : O a a' -> L b b' -> O (maybe_add_of a b) (maybe_add_of a' b').
  Proof. tbl. Qed.
  Lemma rel_maybe_sub_of a a' b b' : O a a' -> L b b' -> O (maybe_sub_of a b) (maybe_sub_of a' b').
  Proof. tbl. Qed.
  (* f32 / Option -> f32 *)
  Lemma rel_maybe_min_fo a a' b b' : L a a' -> O b b' -> L (maybe_min_fo a b) (maybe_min_fo a' b').
  Proof. tbl. Qed.
  Lemma rel_maybe_max_fo a a' b b' : L a a' -> O b b' -> L (maybe_max_fo a b) (maybe_max_fo a' b').
  Proof. tbl. Qed.
  Lemma rel_maybe_clamp_fo a a' b b' c c' : L a a' -> O b b' -> O c c' -> L (maybe_clamp_fo a b c) (maybe_clamp_fo a' b' c').
  Proof. tbl. Qed.
  Lemma rel_maybe_add_fo a a' b b' : L a a' -> O b b' -> L (maybe_add_fo a b) (maybe_add_fo a' b').
  Proof. tbl. Qed.
  Lemma rel_maybe_sub_fo a a' b b' : L a a' -> O b b' -> L (maybe_sub_fo a b) (maybe_sub_fo a' b').
  Proof. tbl. Qed.
  (* AvailableSpace / f32 -> AvailableSpace *)
  Lemma rel_maybe_min_af a a' b b' : A a a' -> L b b' -> A (maybe_min_af a b) (maybe_min_af a' b').
  Proof. tbl. Qed.
  Lemma rel_maybe_max_af a a' b b' : A a a' -> L b b' -> A (maybe_max_af a b) (maybe_max_af a' b').
  Proof. tbl. Qed.
  Lemma rel_maybe_clamp_af a a' b b' c c' : A a a' -> L b b' -> L c c' -> A (maybe_clamp_af a b c) (maybe_clamp_af a' b' c').
  Proof. tbl. Qed.
  Lemma rel_maybe_add_af a a' b b' : A a a' -> L b b' -> A (maybe_add_af a b) (maybe_add_af a' b').
  Proof. tbl. Qed.
  Lemma rel_maybe_sub_af a a' b b' : A a a' -> L b b' -> A (maybe_sub_af a b) (maybe_sub_af a' b').
  Proof. tbl. Qed.
  (* AvailableSpace / Option -> AvailableSpace *)
  Lemma rel_maybe_min_ao a a' b b' : A a a' -> O b b' -> A (maybe_min_ao a b) (maybe_min_ao a' b').
  Proof. tbl. Qed.
  Lemma rel_maybe_max_ao a a' b b' : A a a' -> O b b' -> A (maybe_max_ao a b) (maybe_max_ao a' b').
  Proof. tbl. Qed.
  Lemma rel_maybe_clamp_ao a a' b b' c c' : A a a' -> O b b' -> O c c' -> A (maybe_clamp_ao a b c) (maybe_clamp_ao a' b' c').
  Proof. tbl. Qed.
  Lemma rel_maybe_add_ao a a' b b' : A a a' -> O b b' -> A (maybe_add_ao a b) (maybe_add_ao a' b').
  Proof. tbl. Qed.
  Lemma rel_maybe_sub_ao a a' b b' : A a a' -> O b b' -> A (maybe_sub_ao a b) (maybe_sub_ao a' b').
  Proof. tbl. Qed.

  (** * MaybeResolve / ResolveOrZero (src/util/resolve.rs): a length is scaled, a percentage multiplies the scaled basis *)
  Lemma rel_maybe_resolve_lp d d' c c' : lp_rel k d d' -> O c c' -> O (maybe_resolve_lp d c) (maybe_resolve_lp d' c').
  Proof. tbl. Qed.
  Lemma rel_maybe_resolve_lpa d d' c c' : lpa_rel k d d' -> O c c' -> O (maybe_resolve_lpa d c) (maybe_resolve_lpa d' c').
  Proof. tbl. Qed.
  Lemma rel_maybe_resolve_dim d d' c c' : lpa_rel k d d' -> O c c' -> O (maybe_resolve_dim d c) (maybe_resolve_dim d' c').
  Proof. tbl. Qed.
  Lemma rel_resolve_or_zero_lp d d' c c' : lp_rel k d d' -> O c c' -> L (resolve_or_zero_lp d c) (resolve_or_zero_lp d' c').
  Proof. tbl. Qed.
  Lemma rel_resolve_or_zero_lpa d d' c c' : lpa_rel k d d' -> O c c' -> L (resolve_or_zero_lpa d c) (resolve_or_zero_lpa d' c').
  Proof. tbl. Qed.
  Lemma rel_resolve_or_zero_dim d d' c c' : lpa_rel k d d' -> O c c' -> L (resolve_or_zero_dim d c) (resolve_or_zero_dim d' c').
  Proof. tbl. Qed.

  (** * AvailableSpace helpers (src/style/available_space.rs) *)
  Lemma rel_avail_into_option a a' : A a a' -> O (avail_into_option a) (avail_into_option a').
  Proof. tbl. Qed.
  Lemma rel_avail_maybe_set a a' v v' : A a a' -> O v v' -> A (avail_maybe_set a v) (avail_maybe_set a' v').
  Proof. tbl. Qed.
  Lemma rel_avail_from_option v v' : O v v' -> A (avail_from_option v) (avail_from_option v').
  Proof. tbl. Qed.
  Lemma rel_avail_map_definite_value a a' f f' :
    A a a' -> (forall x x', L x x' -> L (f x) (f' x')) -> A (avail_map_definite_value a f) (avail_map_definite_value a' f').
  Proof. tbl. Qed.

  (** * Size::maybe_apply_aspect_ratio (src/geometry.rs): width / ratio and height * ratio are lengths *)
  Lemma rel_maybe_apply_aspect_ratio s s' r r' :
    sz_rel O s s' -> op_rel dl r r' -> sz_rel O (maybe_apply_aspect_ratio s r) (maybe_apply_aspect_ratio s' r').
  Proof.
    destruct s as [w h], s' as [w' h']. unfold sz_rel. cbn [width height]. intros [Hw Hh] Hr.
    destruct r, r'; cbn [op_rel] in Hr; try contradiction; unfold maybe_apply_aspect_ratio; cbn [width height].
    - destruct w, w', h, h'; cbn [op_rel] in *; try contradiction; cbn [width height op_rel]; auto 6 with sc.
    - split; assumption.
  Qed.
End Tables.

(* ------------------------------------------------------------------------------------------------------------ *)
(** * Structural tactic: walk two terms of the same shape in lockstep *)

Lemma rel_opt_unwrap_or {A} (R : A -> A -> Prop) a a' d d' :
  op_rel R a a' -> R d d' -> R (opt_unwrap_or a d) (opt_unwrap_or a' d').
Proof. destruct a, a'; cbn; intros; try contradiction; assumption. Qed.
Lemma rel_opt_or {A} (R : A -> A -> Prop) a a' b b' :
  op_rel R a a' -> op_rel R b b' -> op_rel R (opt_or a b) (opt_or a' b').
Proof. destruct a, a'; cbn; intros; try contradiction; assumption. Qed.
Lemma rel_Definite (R : XQ -> XQ -> Prop) a a' : R a a' -> av_rel R (Definite a) (Definite a').
Proof. exact (fun H => H). Qed.
Lemma sz_rel_width {A} (R : A -> A -> Prop) s s' : sz_rel R s s' -> R (width s) (width s').
Proof. intros [H _]. exact H. Qed.
Lemma sz_rel_height {A} (R : A -> A -> Prop) s s' : sz_rel R s s' -> R (height s) (height s').
Proof. intros [_ H]. exact H. Qed.
Lemma rel_opt_gt_zero k a a' : 0 < k -> op_rel (sc k) a a' -> opt_gt_zero a' = opt_gt_zero a.
Proof. intros Hk. destruct a, a'; cbn [op_rel opt_gt_zero]; intros; try contradiction; [|reflexivity]. apply (sc_gtb k); auto with sc. Qed.

(* the Size / Rect / Point level wrappers of Model/Common.v, unfolded down to scalar operations on projections *)
Ltac unfold_lifts :=
  cbv beta delta [size_map size_zip_map size_zip_map3 rect_map rect_zip_map point_map point_transpose
    size_or size_unwrap_or size_NONE point_NONE size_ZERO point_ZERO rect_ZERO size_add rect_add
    horizontal_axis_sum vertical_axis_sum sum_axes
    size_maybe_min_oo size_maybe_max_oo size_maybe_clamp_oo size_maybe_add_oo size_maybe_sub_oo
    size_maybe_min_of size_maybe_max_of size_maybe_clamp_of size_maybe_add_of size_maybe_sub_of
    size_maybe_min_fo size_maybe_max_fo size_maybe_clamp_fo size_maybe_add_fo size_maybe_sub_fo
    size_maybe_sub_af size_maybe_sub_ao size_maybe_resolve_dim
    rect_resolve_or_zero_lp rect_resolve_or_zero_lpa rect_resolve_or_zero_lp_size rect_resolve_or_zero_lpa_size
    size_into_options size_avail_maybe_set sz_rel rc_rel pt_rel] in *;
  cbn [width height r_left r_right r_top r_bottom px py] in *.

Ltac hm_step k Hk :=
  first [ eassumption |
  lazymatch goal with
  | |- _ /\ _ => split
  | |- True => exact I
  | |- ?x = ?x => reflexivity
  | |- sc _ zero zero => apply sc_zero
  | |- sc _ (add _ _) (add _ _) => apply sc_add
  | |- sc _ (sub _ _) (sub _ _) => apply sc_sub
  | |- sc _ (neg _) (neg _) => apply sc_neg
  | |- sc _ (fmax _ _) (fmax _ _) => apply (sc_max k); [exact Hk | | ]
  | |- sc _ (fmin _ _) (fmin _ _) => apply (sc_min k); [exact Hk | | ]
  | |- sc _ (fabs _) (fabs _) => apply (sc_abs k); [exact Hk | ]
  | |- sc _ (div _ _) (div _ _) => apply (sc_div_dl k); [exact Hk | | ]
  | |- sc _ (mul _ _) (mul _ _) => apply (sc_mul_dl k); [exact Hk | | ]
  | |- dl (of_Z _) (of_Z _) => apply dl_of_Z
  | |- op_rel _ (Some _) (Some _) => apply rel_Some
  | |- op_rel _ None None => exact I
  | |- av_rel _ (Definite _) (Definite _) => apply rel_Definite
  | |- ?R (opt_unwrap_or _ _) (opt_unwrap_or _ _) => eapply rel_opt_unwrap_or
  | |- op_rel _ (opt_or _ _) (opt_or _ _) => apply rel_opt_or
  | |- op_rel _ (option_map _ _) (option_map _ _) => eapply rel_option_map; [ | intros ? ? ?]
  | |- ?R (width _) (width _) => apply (sz_rel_width R)
  | |- ?R (height _) (height _) => apply (sz_rel_height R)
  | |- sz_rel _ (mkSize _ _) (mkSize _ _) => split; cbn [width height]
  | |- sz_rel _ (maybe_apply_aspect_ratio _ _) (maybe_apply_aspect_ratio _ _) => first [apply (rel_maybe_apply_aspect_ratio k Hk) | apply (rel_maybe_apply_aspect_ratio k)]
  | |- op_rel _ (maybe_min_oo _ _) (maybe_min_oo _ _) => first [apply (rel_maybe_min_oo k Hk) | apply (rel_maybe_min_oo k)]
  | |- op_rel _ (maybe_max_oo _ _) (maybe_max_oo _ _) => first [apply (rel_maybe_max_oo k Hk) | apply (rel_maybe_max_oo k)]
  | |- op_rel _ (maybe_clamp_oo _ _ _) (maybe_clamp_oo _ _ _) => first [apply (rel_maybe_clamp_oo k Hk) | apply (rel_maybe_clamp_oo k)]
  | |- op_rel _ (maybe_add_oo _ _) (maybe_add_oo _ _) => first [apply (rel_maybe_add_oo k Hk) | apply (rel_maybe_add_oo k)]
  | |- op_rel _ (maybe_sub_oo _ _) (maybe_sub_oo _ _) => first [apply (rel_maybe_sub_oo k Hk) | apply (rel_maybe_sub_oo k)]
  | |- op_rel _ (maybe_min_of _ _) (maybe_min_of _ _) => first [apply (rel_maybe_min_of k Hk) | apply (rel_maybe_min_of k)]
  | |- op_rel _ (maybe_max_of _ _) (maybe_max_of _ _) => first [apply (rel_maybe_max_of k Hk) | apply (rel_maybe_max_of k)]
  | |- op_rel _ (maybe_clamp_of _ _ _) (maybe_clamp_of _ _ _) => first [apply (rel_maybe_clamp_of k Hk) | apply (rel_maybe_clamp_of k)]
  | |- op_rel _ (maybe_add_of _ _) (maybe_add_of _ _) => first [apply (rel_maybe_add_of k Hk) | apply (rel_maybe_add_of k)]
  | |- op_rel _ (maybe_sub_of _ _) (maybe_sub_of _ _) => first [apply (rel_maybe_sub_of k Hk) | apply (rel_maybe_sub_of k)]
  | |- sc _ (maybe_min_fo _ _) (maybe_min_fo _ _) => first [apply (rel_maybe_min_fo k Hk) | apply (rel_maybe_min_fo k)]
  | |- sc _ (maybe_max_fo _ _) (maybe_max_fo _ _) => first [apply (rel_maybe_max_fo k Hk) | apply (rel_maybe_max_fo k)]
  | |- sc _ (maybe_clamp_fo _ _ _) (maybe_clamp_fo _ _ _) => first [apply (rel_maybe_clamp_fo k Hk) | apply (rel_maybe_clamp_fo k)]
  | |- sc _ (maybe_add_fo _ _) (maybe_add_fo _ _) => first [apply (rel_maybe_add_fo k Hk) | apply (rel_maybe_add_fo k)]
  | |- sc _ (maybe_sub_fo _ _) (maybe_sub_fo _ _) => first [apply (rel_maybe_sub_fo k Hk) | apply (rel_maybe_sub_fo k)]
  | |- av_rel _ (maybe_sub_af _ _) (maybe_sub_af _ _) => first [apply (rel_maybe_sub_af k Hk) | apply (rel_maybe_sub_af k)]
  | |- av_rel _ (maybe_sub_ao _ _) (maybe_sub_ao _ _) => first [apply (rel_maybe_sub_ao k Hk) | apply (rel_maybe_sub_ao k)]
  | |- op_rel _ (maybe_resolve_lp _ _) (maybe_resolve_lp _ _) => first [apply (rel_maybe_resolve_lp k Hk) | apply (rel_maybe_resolve_lp k)]
  | |- op_rel _ (maybe_resolve_lpa _ _) (maybe_resolve_lpa _ _) => first [apply (rel_maybe_resolve_lpa k Hk) | apply (rel_maybe_resolve_lpa k)]
  | |- op_rel _ (maybe_resolve_dim _ _) (maybe_resolve_dim _ _) => first [apply (rel_maybe_resolve_dim k Hk) | apply (rel_maybe_resolve_dim k)]
  | |- sc _ (resolve_or_zero_lp _ _) (resolve_or_zero_lp _ _) => first [apply (rel_resolve_or_zero_lp k Hk) | apply (rel_resolve_or_zero_lp k)]
  | |- sc _ (resolve_or_zero_lpa _ _) (resolve_or_zero_lpa _ _) => first [apply (rel_resolve_or_zero_lpa k Hk) | apply (rel_resolve_or_zero_lpa k)]
  | |- sc _ (resolve_or_zero_dim _ _) (resolve_or_zero_dim _ _) => first [apply (rel_resolve_or_zero_dim k Hk) | apply (rel_resolve_or_zero_dim k)]
  | |- op_rel _ (avail_into_option _) (avail_into_option _) => first [apply (rel_avail_into_option k Hk) | apply (rel_avail_into_option k)]
  | |- av_rel _ (avail_maybe_set _ _) (avail_maybe_set _ _) => first [apply (rel_avail_maybe_set k Hk) | apply (rel_avail_maybe_set k)]
  | |- av_rel _ (avail_from_option _) (avail_from_option _) => first [apply (rel_avail_from_option k Hk) | apply (rel_avail_from_option k)]
  | |- av_rel _ (avail_map_definite_value _ _) (avail_map_definite_value _ _) =>
      first [apply (rel_avail_map_definite_value k Hk) | apply (rel_avail_map_definite_value k)]; [ | intros ? ? ?]
  | |- gtb _ _ = gtb _ _ => apply (sc_gtb k); [exact Hk | | ]
  | |- geb _ _ = geb _ _ => apply (sc_geb k); [exact Hk | | ]
  | |- ltb _ _ = ltb _ _ => apply (sc_ltb k); [exact Hk | | ]
  | |- leb _ _ = leb _ _ => apply (sc_leb k); [exact Hk | | ]
  | |- eqb _ _ = eqb _ _ => apply (sc_eqb k); [exact Hk | | ]
  | |- opt_gt_zero _ = opt_gt_zero _ => apply (rel_opt_gt_zero k); [exact Hk | ]
  | |- orb _ _ = orb _ _ => apply f_equal2
  | |- andb _ _ = andb _ _ => apply f_equal2
  | |- negb _ = negb _ => apply f_equal
  | |- context [match ?o with Visible => _ | Clip => _ | Hidden => _ | Scroll => _ end] => destruct o
  | |- _ (match ?o with Some x => _ | None => _ end) (match ?o' with Some x' => _ | None => _ end) =>
      let H := fresh "Hm" in
      assert (H : op_rel (sc k) o o'); [ | destruct o, o'; cbn [op_rel] in H; try contradiction ]
  | |- _ (if ?c then _ else _) (if ?c' then _ else _) =>
      let H := fresh "Hc" in assert (H : c' = c); [ | rewrite H; destruct c ]
  end ].
Ltac split_hyps := repeat match goal with H : _ /\ _ |- _ => destruct H end.
Ltac hm k Hk := split_hyps; repeat (hm_step k Hk).

Definition env_rel (k : Q) (e e' : @LeafEnv XQ) : Prop :=
  rc_rel (sc k) (le_margin e) (le_margin e') /\ rc_rel (sc k) (le_padding e) (le_padding e') /\
  rc_rel (sc k) (le_border e) (le_border e') /\ rc_rel (sc k) (le_padding_border e) (le_padding_border e') /\
  sz_rel (op_rel (sc k)) (le_node_size e) (le_node_size e') /\
  sz_rel (op_rel (sc k)) (le_node_min_size e) (le_node_min_size e') /\
  sz_rel (op_rel (sc k)) (le_node_max_size e) (le_node_max_size e') /\
  op_rel dl (le_aspect_ratio e) (le_aspect_ratio e') /\
  rc_rel (sc k) (le_content_box_inset e) (le_content_box_inset e') /\
  le_prevent_collapse e' = le_prevent_collapse e.

Section LeafHomog.
  Variable k : Q.
  Hypothesis Hk : 0 < k.

  Lemma rel_leaf_env st st' i i' : style_rel k st st' -> input_rel k i i' -> env_rel k (leaf_env i st) (leaf_env i' st').
  Proof.
    intros (Ed & Ep & Eb & Eo & Hsw & Hsz & Hmn & Hmx & Har & Hm & Hp & Hb) (Er & Es & Hkd & Hps & Hav).
    unfold leaf_env, is_block. rewrite Ed, Ep, Eb, Eo, Es.
    destruct (sizing_mode i), (box_sizing st); unfold env_rel;
      cbn [le_margin le_padding le_border le_padding_border le_node_size le_node_min_size le_node_max_size
           le_aspect_ratio le_content_box_inset le_prevent_collapse];
      unfold_lifts.
    all: hm k Hk.
  Qed.

  Ltac env_hyps H :=
    destruct H as (Hem & Hep & Heb & Hepb & Hens & Henm & Henx & Hear & Hecb & Hepc).

  Lemma rel_leaf_early i i' e e' :
    input_rel k i i' -> env_rel k e e' -> op_rel (output_rel k) (leaf_early i e) (leaf_early i' e').
  Proof.
    intros (Er & Es & Hkd & Hps & Hav) He. env_hyps He.
    unfold leaf_early. rewrite Er, Hepc. destruct (run_mode i); try exact I.
    destruct (le_prevent_collapse e); try exact I.
    destruct Hens as [Hw Hh].
    destruct (width (le_node_size e)), (width (le_node_size e')); cbn [op_rel] in Hw; try contradiction; try exact I.
    destruct (height (le_node_size e)), (height (le_node_size e')); cbn [op_rel] in Hh; try contradiction; try exact I.
    cbn [op_rel]. unfold output_rel, mset_rel, margin_set_ZERO.
    cbn [out_size out_content_size first_baselines top_margin bottom_margin margins_can_collapse_through ms_positive ms_negative].
    unfold_lifts. hm k Hk.
  Qed.

  Lemma rel_leaf_available_space i i' e e' :
    input_rel k i i' -> env_rel k e e' ->
    sz_rel (av_rel (sc k)) (leaf_available_space i e) (leaf_available_space i' e').
  Proof.
    intros (Er & Es & Hkd & Hps & Hav) He. env_hyps He.
    unfold leaf_available_space. unfold_lifts. hm k Hk.
  Qed.

  Lemma rel_leaf_measure_known i i' :
    input_rel k i i' -> op_rel (sz_rel (op_rel (sc k))) (leaf_measure_known i) (leaf_measure_known i').
  Proof.
    intros (Er & Es & Hkd & Hps & Hav). unfold leaf_measure_known. rewrite Er.
    destruct (run_mode i); cbn [op_rel]; try exact I; try assumption. split; exact I.
  Qed.

  Lemma rel_leaf_finish i i' e e' m m' :
    input_rel k i i' -> env_rel k e e' -> sz_rel (sc k) m m' -> output_rel k (leaf_finish i e m) (leaf_finish i' e' m').
  Proof.
    intros (Er & Es & Hkd & Hps & Hav) He Hm. env_hyps He.
    unfold leaf_finish, output_rel, mset_rel, margin_set_ZERO.
    cbn [out_size out_content_size first_baselines top_margin bottom_margin margins_can_collapse_through ms_positive ms_negative].
    rewrite Hepc. unfold_lifts. hm k Hk.
  Qed.

  (* compute_leaf_layout is homogeneous: same panic behaviour, scaled output, scaled arguments of the measure call *)
  Theorem leaf_homog st st' i i' m m' :
    style_rel k st st' -> input_rel k i i' -> measure_homog k m m' ->
    result_rel (output_rel k) k (compute_leaf_layout i st m) (compute_leaf_layout i' st' m').
  Proof.
    intros Hst Hi Hm. unfold compute_leaf_layout, result_rel.
    pose proof (rel_leaf_env st st' i i' Hst Hi) as He.
    pose proof (rel_leaf_early i i' _ _ Hi He) as Hearly.
    destruct (leaf_early i (leaf_env i st)), (leaf_early i' (leaf_env i' st')); cbn [op_rel] in Hearly; try contradiction.
    - cbn [op_rel fst snd]. split; [assumption | constructor].
    - pose proof (rel_leaf_measure_known i i' Hi) as Hkn.
      destruct (leaf_measure_known i), (leaf_measure_known i'); cbn [op_rel] in Hkn; try contradiction; [|exact I].
      pose proof (rel_leaf_available_space i i' _ _ Hi He) as Hav.
      cbn [op_rel fst snd]. split.
      + apply rel_leaf_finish; try assumption. apply Hm; assumption.
      + constructor; [|constructor]. split; assumption.
  Qed.

  (** * compute_root_layout for a childless root (Model/Root.v) *)
  Lemma rel_root_known_dimensions st st' av av' :
    style_rel k st st' -> sz_rel (av_rel (sc k)) av av' ->
    sz_rel (op_rel (sc k)) (root_known_dimensions st av) (root_known_dimensions st' av').
  Proof.
    intros (Ed & Ep & Eb & Eo & Hsw & Hsz & Hmn & Hmx & Har & Hm & Hp & Hb) Hav.
    unfold root_known_dimensions, is_block. rewrite Ed, Eb.
    destruct (display st); try (split; exact I).
    destruct (box_sizing st); unfold_lifts; hm k Hk.
  Qed.

  Lemma rel_root_input st st' av av' :
    style_rel k st st' -> sz_rel (av_rel (sc k)) av av' -> input_rel k (root_input st av) (root_input st' av').
  Proof.
    intros Hst Hav. unfold root_input, input_rel. cbn [run_mode sizing_mode known_dimensions parent_size available_space].
    repeat split; try reflexivity; try apply rel_root_known_dimensions; try assumption.
    all: destruct Hav; unfold_lifts; hm k Hk.
  Qed.

  Lemma output_HIDDEN_rel : output_rel k output_HIDDEN output_HIDDEN.
  Proof.
    unfold output_rel, output_HIDDEN, mset_rel, margin_set_ZERO.
    cbn [out_size out_content_size first_baselines top_margin bottom_margin margins_can_collapse_through ms_positive ms_negative].
    unfold_lifts. hm k Hk.
  Qed.

  Lemma rel_childless_child_layout st st' i i' m m' :
    style_rel k st st' -> input_rel k i i' -> measure_homog k m m' ->
    result_rel (output_rel k) k (childless_child_layout i st m) (childless_child_layout i' st' m').
  Proof.
    intros Hst Hi Hm. unfold childless_child_layout.
    pose proof (leaf_homog st st' i i' m m' Hst Hi Hm) as Hl.
    destruct Hst as (Ed & _). destruct Hi as (Er & _). rewrite Er, Ed.
    destruct (run_mode i), (display st); try exact Hl; (split; [apply output_HIDDEN_rel | constructor]).
  Qed.

  Lemma rel_root_assemble st st' av av' o o' :
    style_rel k st st' -> sz_rel (av_rel (sc k)) av av' -> output_rel k o o' ->
    layout_rel k (root_assemble st av o) (root_assemble st' av' o').
  Proof.
    intros (Ed & Ep & Eb & Eo & Hsw & Hsz & Hmn & Hmx & Har & Hm & Hp & Hb) Hav (Hos & Hoc & _).
    unfold root_assemble, layout_rel.
    cbn [l_order l_location l_size l_content_size l_scrollbar_size l_border l_padding l_margin].
    rewrite Eo. unfold is_scroll. unfold_lifts. hm k Hk.
  Qed.

  (* the unrounded layout of a one-node tree *)
  Theorem root_leaf_homog st st' av av' m m' :
    style_rel k st st' -> sz_rel (av_rel (sc k)) av av' -> measure_homog k m m' ->
    result_rel (layout_rel k) k (root_leaf st m av) (root_leaf st' m' av').
  Proof.
    intros Hst Hav Hm. unfold root_leaf.
    pose proof (rel_childless_child_layout st st' _ _ m m' Hst (rel_root_input st st' av av' Hst Hav) Hm) as Hc.
    unfold result_rel in *.
    destruct (childless_child_layout (root_input st av) st m) as [[o c]|],
             (childless_child_layout (root_input st' av') st' m') as [[o' c']|]; cbn [op_rel fst snd] in *; try contradiction; try exact I.
    destruct Hc as [Ho Hc]. split; [apply rel_root_assemble; assumption | assumption].
  Qed.
End LeafHomog.

(* ------------------------------------------------------------------------------------------------------------ *)
(** * The scaled inputs are related to the originals; measure functions *)

Lemma av_rel_scale k a : av_rel (sc k) a (avail_scale k a).
Proof. destruct a; cbn; try exact I. apply sc_self. Qed.
Lemma lpa_rel_scale k d : lpa_rel k d (lpa_scale k d).
Proof. destruct d; cbn; try exact I; [apply sc_self | apply dl_refl]. Qed.
Lemma lp_rel_scale k d : lp_rel k d (lp_scale k d).
Proof. destruct d; cbn; [apply sc_self | apply dl_refl]. Qed.

Lemma style_rel_scale k st : style_rel k st (style_scale k st).
Proof.
  unfold style_rel, style_scale, sz_rel, rc_rel, dim_scale.
  cbn [display position box_sizing overflow scrollbar_width size min_size max_size aspect_ratio margin padding border
       size_map rect_map width height r_left r_right r_top r_bottom].
  repeat split; try apply sc_self; try apply lpa_rel_scale; try apply lp_rel_scale; try apply op_dl_refl.
Qed.
Lemma savail_rel_scale k av : sz_rel (av_rel (sc k)) av (savail_scale k av).
Proof. split; apply av_rel_scale. Qed.
Lemma osize_rel_scale k s : sz_rel (op_rel (sc k)) s (osize_scale k s).
Proof. split; apply op_rel_scale. Qed.
Lemma input_rel_scale k i : input_rel k i (input_scale k i).
Proof.
  unfold input_rel, input_scale. cbn [run_mode sizing_mode known_dimensions parent_size available_space].
  repeat split; try apply op_rel_scale; try apply av_rel_scale.
Qed.

(* `related to` is `equal (up to the equality of rationals) to the scaled value` *)
Lemma sc_iff k a a' : sc k a a' <-> xeq a' (x_scale k a).
Proof. reflexivity. Qed.
Lemma output_rel_iff k o o' :
  output_rel k o o' <->
  sz_rel dl (out_size (output_scale k o)) (out_size o') /\
  sz_rel dl (out_content_size (output_scale k o)) (out_content_size o') /\
  margins_can_collapse_through o' = margins_can_collapse_through o /\
  pt_rel (op_rel (sc k)) (first_baselines o) (first_baselines o') /\
  mset_rel k (top_margin o) (top_margin o') /\ mset_rel k (bottom_margin o) (bottom_margin o').
Proof.
  unfold output_rel, output_scale, sz_rel, dl, sc, size_scale.
  cbn [out_size out_content_size size_map width height]. tauto.
Qed.

(* the equational reading of the hypothesis on measure functions *)
Lemma sc_to_dl k a a' : sc k a a' -> dl (x_scale k a) a'.
Proof. exact (fun H => H). Qed.

Lemma measure_homog_of_eq k m m' :
  measure_proper m' ->
  (forall kd av, sz_rel dl (size_scale k (m kd av)) (m' (osize_scale k kd) (savail_scale k av))) ->
  measure_homog k m m'.
Proof.
  intros Hp He kd kd' av av' Hkd Hav.
  assert (Hkd' : sz_rel (op_rel dl) (osize_scale k kd) kd').
  { destruct Hkd as [H1 H2]. split; cbn [osize_scale size_map width height].
    - destruct (width kd), (width kd'); cbn in *; try contradiction; auto.
    - destruct (height kd), (height kd'); cbn in *; try contradiction; auto. }
  assert (Hav' : sz_rel (av_rel dl) (savail_scale k av) av').
  { destruct Hav as [H1 H2]. split; cbn [savail_scale size_map width height].
    - destruct (width av), (width av'); cbn in *; try contradiction; auto.
    - destruct (height av), (height av'); cbn in *; try contradiction; auto. }
  specialize (Hp _ _ _ _ Hkd' Hav'). specialize (He kd av).
  destruct Hp as [P1 P2], He as [E1 E2]. unfold dl, sc in *. cbn [size_scale size_map width height] in *.
  split; eapply xeq_trans; eauto.
Qed.

(* the measure functions of the harness are homogeneous *)
Lemma measure_fixed_homog k w h : measure_homog k (measure_fixed w h) (measure_fixed (x_scale k w) (x_scale k h)).
Proof.
  intros kd kd' av av' [H1 H2] _. unfold measure_fixed. split; cbn [width height].
  - apply rel_opt_unwrap_or; [assumption | apply sc_self].
  - apply rel_opt_unwrap_or; [assumption | apply sc_self].
Qed.
Lemma measure_echo_homog k base : 0 < k -> measure_homog k (measure_echo base) (measure_echo (x_scale k base)).
Proof.
  intros Hk kd kd' av av' [H1 H2] [A1 A2]. unfold measure_echo.
  assert (Hw : sc k (opt_unwrap_or (width kd) match width av with Definite a => fmin a base | _ => base end)
                    (opt_unwrap_or (width kd') match width av' with Definite a => fmin a (x_scale k base) | _ => x_scale k base end)).
  { apply rel_opt_unwrap_or; [assumption|].
    destruct (width av), (width av'); cbn [av_rel] in A1; try contradiction; try apply sc_self.
    apply (sc_min k); [assumption | assumption | apply sc_self]. }
  split; cbn [width height]; [exact Hw|].
  apply rel_opt_unwrap_or; [assumption|]. apply (sc_div_dl k); [assumption | exact Hw | apply dl_of_Z].
Qed.
