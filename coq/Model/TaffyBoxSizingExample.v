(* A computed instance of C12_taffy_engine_all_kinds_partial: a tree of the complete engine (Model/TaffyRoot.v real_memo) over the exact
   instance XQ that mixes all three container kinds, every node content-box with padding 2 and border 1 (so every node is in the class and the
   rewrite changes every explicit size):
     #0 display:block  width 200
       #1 display:flex (row)                     children  #2 leaf 30 x 20   #3 leaf 40 x 10
       #4 display:grid  columns 50px 50px, width 150   children  #5 leaf 20 x 10 (a content-box GRID ITEM)   #6 text leaf (10 glyphs of 4 x 4)
       #7 leaf 10 x 10, position:absolute
   Definitions only. *)
From Coq Require Import ZArith QArith Bool List.
From TV Require Import Num.Num Num.QNum Model.Common Model.Leaf Gen.GridTracksGen Model.GridTracks.
From TV Require Import Model.FlexAlgBase Model.BlockFlexEngine Model.GridAlgBase Model.TaffyEngine Model.TaffyRoot Model.TaffyBoxSizing Model.TaffyExample.
From TV Require Import Model.Engine Model.EngineRel Model.BlockFlexExample.
From TV Require Model.Block Model.MeasureFamily Model.BlockEngineExample.
Import ListNotations.
Close Scope Q_scope.
Close Scope Z_scope.

Module BX := TV.Model.BlockEngineExample.

Definition cb_core (d : Display) (p : Position) (w h : Dimension XQ) : Style XQ :=
  mkStyle d p ContentBox (mkPoint Visible Visible) zero (mkSize w h) dim_auto_size dim_auto_size None lpa_zero_rect
          (mkRect (LpLength (xq 2)) (LpLength (xq 2)) (LpLength (xq 2)) (LpLength (xq 2)))
          (mkRect (LpLength (xq 1)) (LpLength (xq 1)) (LpLength (xq 1)) (LpLength (xq 1))).
Definition cb_style (d : Display) (p : Position) (w h : Dimension XQ) (cols : list (tsf XQ)) (m : MeasureFamily.MeasureCtx XQ) : TStyle XQ :=
  mkTS (mkBF (mkFStyle (cb_core d p w h) lpa_auto_rect true false false false None None None None
                       (mkSize (LpLength zero) (LpLength zero)) Auto zero one)
             false Block.TAAuto)
       cols [] [] [] PB.FRow None None auto_ln auto_ln false (MeasureFamily.family_measure m).
Definition cb_leaf (p : Position) (w h : Z) : sk (TStyle XQ) := SNode _ (cb_style DFlex p (len w) (len h) [] MeasureFamily.MNone) [].
Definition cb_text : sk (TStyle XQ) := SNode _ (cb_style DFlex Relative Auto Auto [] (MeasureFamily.MText 10 (xq 4))) [].

Definition cb_tree : sk (TStyle XQ) :=
  SNode _ (cb_style DBlock Relative (len 200) Auto [] MeasureFamily.MNone)
    [SNode _ (cb_style DFlex Relative Auto Auto [] MeasureFamily.MNone) [cb_leaf Relative 30 20; cb_leaf Relative 40 10];
     SNode _ (cb_style DGrid Relative (len 150) Auto [px_track 50; px_track 50] MeasureFamily.MNone) [cb_leaf Relative 20 10; cb_text];
     cb_leaf Absolute 10 10].

Definition cb_input : FIn XQ := taffy_root_input (sstyle _ cb_tree) (ex_avail 300).
Definition cb_fuel : nat := 8.
Definition cb_run (t : sk (TStyle XQ)) := real_memo Num.eqb cb_fuel (taffy_fresh t) cb_input.
Notation cb_lays := (lays (TStyle XQ) (FIn XQ) (LayoutOutput XQ) (FLay XQ)).

(* which paths are rewritten *)
Definition cb_all (p : list nat) : bool := true.
Definition cb_grid_and_item (p : list nat) : bool := match p with [1%nat] | [1%nat; 0%nat] => true | _ => false end.
Definition cb_root_only (p : list nat) : bool := match p with [] => true | _ => false end.
Definition cb_rewrite (w : list nat -> bool) : sk (TStyle XQ) := sk_map_where (TStyle XQ) ts_to_border_box w cb_tree.

(* both runs succeed; root outputs and all stored layouts equal as numbers *)
Definition cb_same (t t' : sk (TStyle XQ)) : bool :=
  match cb_run t, cb_run t' with
  | Some (o, t1), Some (o', t1') => fout_eqb o o' && BX.list_eqb flay_eqb (cb_lays t1) (cb_lays t1')
  | _, _ => false
  end.
(* (x, y, width, height) of every node, preorder *)
Definition cb_boxes (t : sk (TStyle XQ)) : list (XQ * XQ * XQ * XQ) :=
  match cb_run t with
  | Some (_, t1) => map (fun l => (px (fl_location l), py (fl_location l), width (fl_size l), height (fl_size l))) (cb_lays t1)
  | None => []
  end.
Definition cb_boxes_are (t : sk (TStyle XQ)) (bs : list (Z * Z * Z * Z)) : bool :=
  BX.list_eqb BX.box_eqb (cb_boxes t) (map (fun b => match b with (x, y, w, h) => (xq x, xq y, xq w, xq h) end) bs).
(* what the rewrite did to the grid container and to the grid item *)
Definition cb_probe (t : sk (TStyle XQ)) : option (BoxSizing * Dimension XQ * BoxSizing * Size (Dimension XQ)) :=
  match t with
  | SNode _ _ [_; SNode _ g (SNode _ a _ :: _); _] =>
      Some (box_sizing (t_core g), width (size (t_core g)), box_sizing (t_core a), size (t_core a))
  | _ => None
  end.
(* a tree the comparison must tell apart: the grid item 21 wide *)
Definition cb_other : sk (TStyle XQ) :=
  SNode _ (cb_style DBlock Relative (len 200) Auto [] MeasureFamily.MNone)
    [SNode _ (cb_style DFlex Relative Auto Auto [] MeasureFamily.MNone) [cb_leaf Relative 30 20; cb_leaf Relative 40 10];
     SNode _ (cb_style DGrid Relative (len 150) Auto [px_track 50; px_track 50] MeasureFamily.MNone) [cb_leaf Relative 21 10; cb_text];
     cb_leaf Absolute 10 10].
