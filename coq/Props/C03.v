(* C03 -- first part: grid placement is total (the whole grid container, `C03_grid_container_never_panics`, is at the end of the file)
   -- grid placement is total: on the stated domain it never overflows i16/u16/usize
   arithmetic, never indexes the occupancy matrix out of bounds, never asks it to expand towards negative indices,
   never hits a panic!/assert!, and every search loop finishes within its fuel.
   The rest of C03 (tree index errors, fr / flexible-length loops, finiteness of outputs) is handled elsewhere.

   Model.Placement.grid_placement_run returns [Err e] exactly where the Rust would misbehave (see the header of
   Model/Placement.v for the correspondence of the error classes); its tables and conversions are regenerated from the
   Rust source on every run (Gen/PlacementGen.v).

   Domain (in_domain): explicit track counts 0..64 per axis, at most 64 children of any kind, line indices in
   [-64, 64] including 0, spans in [1, 64] (`span 0` excluded), all four auto-flow modes. *)
From Coq Require Import ZArith QArith Bool List Lia.
From TV Require Import Model.PlacementBase Gen.PlacementGen Model.Placement
  Proofs.PlacementTables Proofs.PlacementMatrix Proofs.PlacementProofs Proofs.PlacementTotal
  Model.PlacementDomainB Proofs.PlacementGeneral Proofs.PlacementBSharp.
Import ListNotations.
Open Scope Z_scope.

Theorem C03_placement_total : forall ec er fl children, in_domain ec er children ->
  exists o, grid_placement_run ec er fl children = Ok o.
Proof. exact placement_total. Qed.

(* the key lemma ("pre-sizing means placement never needs negative expansion"): the estimate succeeds, its counts are small,
   and for EVERY child (in flow or not) a definite axis resolves to an area inside the estimated track range while an
   indefinite axis has a span that fits the estimated number of tracks *)
Theorem C03_placement_estimate_covers : forall ec er children, 0 <= ec <= 64 -> 0 <= er <= 64 -> Forall child_ok children ->
  exists cc rc, compute_grid_size_estimate ec er children = Ok (cc, rc) /\
    tc_nonneg cc /\ tc_neg cc <= 127 /\ tc_explicit cc = ec /\ tlen cc <= 400 /\
    tc_nonneg rc /\ tc_neg rc <= 127 /\ tc_explicit rc = er /\ tlen rc <= 400 /\
    Forall (fun c => axis_fits (c_col c) ec cc /\ axis_fits (c_row c) er rc) children.
Proof. exact estimate_covers. Qed.

(* termination measure of the search over both axes (place_indefinitely_positioned_item, no fixed axis): from cursor
   (pidx, sidx), (end_s - sidx) * (primary_len + 2) + (end_p + 2 - pidx) + 2 iterations suffice -- every iteration either
   returns, or advances the primary index, or moves to the next secondary index with the primary index reset; beyond the
   last secondary track the first probe fits because the estimate made the primary axis at least as long as the span *)
Theorem C03_placement_search_both_terminates : forall fuel m pax pspan sspan pidx sidx k, cap m k -> 0 <= k <= 64 ->
  1 <= pspan <= 64 -> pspan <= tlen (track_counts m pax) -> 1 <= sspan <= 64 ->
  - tc_neg (track_counts m pax) <= pidx -> pidx <= endl (track_counts m pax) + 1 ->
  - tc_neg (track_counts m (other_axis pax)) <= sidx -> sidx <= endl (track_counts m (other_axis pax)) + 1 ->
  Z.max 0 (endl (track_counts m (other_axis pax)) - sidx) * (tlen (track_counts m pax) + 2) + (endl (track_counts m pax) + 2 - pidx) + 2 <= Z.of_nat fuel ->
  exists i j, search_both fuel m pax pspan sspan (- tc_neg (track_counts m pax)) (endl (track_counts m pax)) pidx sidx
              = Ok (mkLn i (i + pspan), mkLn j (j + sspan)) /\
              - tc_neg (track_counts m pax) <= i /\ i + pspan <= endl (track_counts m pax) /\ sidx <= j /\
              j <= Z.max sidx (endl (track_counts m (other_axis pax))) + 1.
Proof. exact sb_total. Qed.

(* the single-axis searches: at most (implicit end line - start position) + 1 probes *)
Theorem C03_placement_search_secondary_definite_terminates : forall fuel m pl pax sec pos k, cap m k -> 0 <= k <= 64 ->
  ozln_ok (both_get pl pax) -> is_definite_oz (both_get pl pax) = false ->
  -20000 <= l_start sec -> l_start sec <= l_end sec -> l_end sec <= 20000 ->
  - tc_neg (track_counts m pax) <= pos -> pos <= 10000 ->
  Z.max 0 (endl (track_counts m pax) - pos) < Z.of_nat fuel ->
  exists pp, search_secondary_definite fuel m pl pax sec pos = Ok (pp, sec) /\
             pos <= l_start pp /\ l_start pp <= Z.max pos (endl (track_counts m pax)).
Proof. exact ssd_total. Qed.

(* every marking of an area whose start lies inside the current negative range succeeds: only positive expansion *)
Theorem C03_placement_mark_area_total : forall m ax ps ss v, wf m ->
  let rs := row_span_of ax ps ss in let cs := col_span_of ax ps ss in
  - tc_neg (m_rows m) <= l_start rs -> l_start rs < l_end rs -> l_end rs + tc_neg (m_rows m) <= 32767 ->
  - tc_neg (m_cols m) <= l_start cs -> l_start cs < l_end cs -> l_end cs + tc_neg (m_cols m) <= 32767 ->
  exists m', mark_area_as m ax ps ss v = Ok m'.
Proof. exact mark_area_total. Qed.

(* non-vacuity: the domain is inhabited by the case that used to panic (grid_row: auto / -3, a second child on line 0 with span 3) *)
Example C03_placement_example :
  in_domain 2 2 [ (InFlow, mkChild (mkLn Auto (Line (-3))) (mkLn Auto Auto));
                  (InFlow, mkChild (mkLn Auto Auto) (mkLn (Line 0) (Span 3))) ].
Proof.
  unfold in_domain. split; [lia|]. split; [lia|]. split; [simpl; lia|].
  repeat constructor; simpl; lia.
Qed.

(* ---- the same with the bound as a PARAMETER (Model/PlacementDomainB.v; notes/PLACEMENT-B.md).  The constant 64 above is an
   artefact of the proof effort; the theorems hold for every B and every number n of children with
       bound_ok B n  :=  2 <= B  /\  2 * B * n + 16 * B <= 32767 (= i16::MAX)
   (the estimate has at most 6 B tracks per axis, every placed item grows an axis by at most 2 B, cursors and probed areas stay
   within 10 B of the last line).  in_domain_B B: explicit counts 0..B, lines in [-B, B] including 0, spans in [1, B].
   E.g. B = 64 with 247 children, B = 227 with 64 children, B = 1000 with 8 children.  The bound is sufficient, not claimed to
   be the largest possible; `_refuted` below shows that SOME bound is necessary. *)
Theorem C03_placement_total_general : forall B ec er fl children,
  bound_ok B (length children) -> in_domain_B B ec er children ->
  exists o, grid_placement_run ec er fl children = Ok o.
Proof. exact placement_total_general. Qed.

(* the pinned domain is exactly the instance B = 64 with at most 64 children, and C03_placement_total follows from the general theorem *)
Theorem C03_placement_in_domain_is_instance : forall ec er children, in_domain ec er children <->
  (in_domain_B 64 ec er children /\ (length children <= 64)%nat).
Proof. exact in_domain_is_instance. Qed.

Theorem C03_placement_total_from_general : forall ec er fl children, in_domain ec er children ->
  exists o, grid_placement_run ec er fl children = Ok o.
Proof. exact placement_total_from_general. Qed.

(* the estimate lemma for every B with 16 B <= i16::MAX, any number of children *)
Theorem C03_placement_estimate_covers_general : forall B ec er children, clause_bound_ok B ->
  0 <= ec <= B -> 0 <= er <= B -> Forall (child_okB B) children ->
  exists cc rc, compute_grid_size_estimate ec er children = Ok (cc, rc) /\
    tc_nonneg cc /\ tc_neg cc <= 2 * B - 1 /\ tc_explicit cc = ec /\ tlen cc <= 6 * B /\
    tc_nonneg rc /\ tc_neg rc <= 2 * B - 1 /\ tc_explicit rc = er /\ tlen rc <= 6 * B /\
    Forall (fun c => axis_fits (c_col c) ec cc /\ axis_fits (c_row c) er rc) children.
Proof. exact estimate_covers_general. Qed.

(* sharpness direction: without a bound the statement is false.  B = 32767 (every i16 line index allowed), one child
   `grid-column: 32767 / span 2` on a 1 x 1 explicit grid: inside in_domain_B 32767, and the checked arithmetic overflows
   (`OriginZeroLine(32766) + 2u16` in resolve_definite_grid_lines: a debug build panics `attempt to add with overflow`, a release
   build wraps to a negative end line).  The same style is the non-example of C03_grid_container_example_computed. *)
Theorem C03_placement_total_general_refuted_without_bound :
  exists B ec er fl children, 2 <= B /\ in_domain_B B ec er children /\ ~ bound_ok B (length children) /\
                              grid_placement_run ec er fl children = Err Overflow.
Proof. exact general_total_needs_bound_ok. Qed.

(* non-vacuity of the general theorem beyond the pinned domain: B = 200 (lines +-200, span 150, explicit 100 x 7), 3 children *)
Example C03_placement_general_example :
  let children := [ (InFlow, mkChild (mkLn Auto (Line (-200))) (mkLn (Line 200) (Span 150)));
                    (Absolute, mkChild (mkLn (Line 0) (Span 3)) (mkLn Auto Auto));
                    (InFlow, mkChild (mkLn Auto Auto) (mkLn (Span 120) Auto)) ] in
  bound_ok 200 (length children) /\ in_domain_B 200 100 7 children /\ ~ in_domain 100 7 children /\ clause_bound_ok 200.
Proof.
  cbv zeta. split; [unfold bound_ok; cbn [length]; lia|]. split.
  { unfold in_domain_B. split; [lia|]. split; [lia|].
    repeat constructor; cbn [snd c_row c_col l_start l_end gp_okB]; lia. }
  split; [|unfold clause_bound_ok; lia].
  unfold in_domain. intros (H & _). lia.
Qed.

Print Assumptions C03_placement_total.
Print Assumptions C03_placement_total_general.
Print Assumptions C03_placement_in_domain_is_instance.
Print Assumptions C03_placement_total_from_general.
Print Assumptions C03_placement_estimate_covers_general.
Print Assumptions C03_placement_total_general_refuted_without_bound.
Print Assumptions C03_placement_estimate_covers.
Print Assumptions C03_placement_search_both_terminates.
Print Assumptions C03_placement_search_secondary_definite_terminates.
Print Assumptions C03_placement_mark_area_total.

(* ------------------------------------------------------------------------------------------------------------------
   The other discrete mechanisms C03 names, proved in the developments of C07 / C09 / C14 and restated here (qualified
   names: those developments use their own vocabularies):
   - the flex freeze/violation loop (resolve_flexible_lengths) terminates within its fuel for ANY values, NaN and
     infinities included, any main size;
   - the fr search (find_size_of_fr) exits; the maximise_tracks distribution loop reaches its fixpoint within G+1 rounds;
   - accessor / mutator calls with an out-of-range child index return ChildIndexOutOfBounds with the right payload and
     leave the tree state IDENTICAL (no panic). *)
From TV Require Num.Num Num.QNum Model.Flex Proofs.FlexProofs Model.GridTracks Proofs.GridTracksProofs Model.Tree Proofs.TreeProofs.

Theorem C03_flex_loop_terminates :
  forall (items : list (TV.Model.Flex.FlexItem TV.Num.QNum.XQ)) (gap : TV.Num.QNum.XQ) (M : option TV.Num.QNum.XQ),
    exists res, TV.Model.Flex.resolve_flexible_lengths items gap M = Some res.
Proof. exact TV.Proofs.FlexProofs.loop_terminates. Qed.

Theorem C03_fr_search_terminates :
  forall (tracks : list (TV.Model.GridTracks.track TV.Num.QNum.XQ)) (sp : QArith_base.Q),
    Forall TV.Proofs.GridTracksProofs.track_ok2 tracks ->
    snd (TV.Model.GridTracks.fr_exit tracks (TV.Num.QNum.Fin sp)) = true.
Proof. exact TV.Proofs.GridTracksProofs.fr_terminates. Qed.

Theorem C03_maximise_distribution_terminates :
  forall (inner : option TV.Num.QNum.XQ) (n : nat) (sp : QArith_base.Q)
         (tracks : list (TV.Model.GridTracks.track TV.Num.QNum.XQ)) (fuel : nat),
    Forall (TV.Proofs.GridTracksProofs.tok inner) tracks ->
    (TV.Proofs.GridTracksProofs.G inner tracks <= n)%nat -> (n + 1 <= fuel)%nat ->
    TV.Proofs.GridTracksProofs.mloop inner fuel (TV.Num.QNum.Fin sp) tracks =
    TV.Proofs.GridTracksProofs.mloop inner (n + 1) (TV.Num.QNum.Fin sp) tracks.
Proof. exact TV.Proofs.GridTracksProofs.mloop_terminates. Qed.

Theorem C03_index_errors :
  forall (t : TV.Model.Tree.tree) (p : TV.Model.Tree.key) (l : list TV.Model.Tree.key),
    TV.Model.Tree.sm_get (TV.Model.Tree.t_children t) p = Some l ->
    forall (i : BinNums.N) (c : TV.Model.Tree.key),
      ((N.of_nat (length l) < i)%N ->
       TV.Model.Tree.step t (TV.Model.Tree.OInsertChild p i c) = TV.Model.Tree.Ok (t, TV.Model.Tree.RErr p i (N.of_nat (length l)))) /\
      ((N.of_nat (length l) <= i)%N ->
       TV.Model.Tree.step t (TV.Model.Tree.ORemoveChildAt p i) = TV.Model.Tree.Ok (t, TV.Model.Tree.RErr p i (N.of_nat (length l))) /\
       TV.Model.Tree.step t (TV.Model.Tree.OReplaceChildAt p i c) = TV.Model.Tree.Ok (t, TV.Model.Tree.RErr p i (N.of_nat (length l))) /\
       TV.Model.Tree.child_at_index t p i = TV.Model.Tree.Ok (TV.Model.Tree.RErr p i (N.of_nat (length l)))).
Proof. exact TV.Proofs.TreeProofs.index_errors. Qed.

Print Assumptions C03_flex_loop_terminates.
Print Assumptions C03_fr_search_terminates.
Print Assumptions C03_maximise_distribution_terminates.
Print Assumptions C03_index_errors.

(* ------------------------------------------------------------------------------------------------------------------
   The whole grid container (Model/GridAlg.v `grid_alg`, compute_grid_layout as a resumption) never reaches a Rust panic site.
   `grid_no_panic st children inp` collects every panic site the algorithm can reach: (1) placement's checked arithmetic
   (`place` returns Err), (2) the placed items' conversion to track-vector indices (`make_item`: OriginZeroLine::into_track_vec_index
   asserts), (3) every box-generating ABSOLUTE child's lines must lie inside the implicit grid (`oof_ok`, the same assertion in the
   final loop).  Domain `grid_domain` = the domain of C03_placement_total transported to styles: the explicit track counts that
   compute_grid_layout computes (`explicit_counts`; with an auto-repeat template they depend on the float container size) at most 64
   per axis, at most 64 children of any kind, every grid_row / grid_column line in [-64, 64] (0 included), every span in [1, 64].
   NO premise on any number (sizes, gaps, available space: any `Num`, NaN and infinities included).
   `grid_domain_static`: the bound on the counts read off the templates alone (no auto-repeat entry, at most 64 tracks) -- then the
   statement holds for EVERY input. *)
From TV Require Model.FlexAlgBase Model.GridAlgBase Model.GridAlg Model.GridAlgTotal Model.GridNoPanicExample Proofs.GridNoPanic.

Theorem C03_grid_container_never_panics :
  forall (T : Type) (NT : TV.Num.Num.Num T) (st : TV.Model.GridAlgBase.GStyle T) (children : list (TV.Model.GridAlgBase.GStyle T))
         (inp : TV.Model.FlexAlgBase.FIn T),
    TV.Proofs.GridNoPanic.grid_domain st children inp -> TV.Model.GridAlg.grid_no_panic st children inp = true.
Proof. exact (@TV.Proofs.GridNoPanic.grid_no_panic_on_domain). Qed.

(* (1) the estimate and placement succeed in checked machine arithmetic *)
Theorem C03_grid_container_never_panics_placement_ok :
  forall (T : Type) (NT : TV.Num.Num.Num T) (st : TV.Model.GridAlgBase.GStyle T) (children : list (TV.Model.GridAlgBase.GStyle T))
         (inp : TV.Model.FlexAlgBase.FIn T),
    TV.Proofs.GridNoPanic.grid_domain st children inp ->
    exists m items,
      TV.Model.GridAlg.place st (fst (TV.Model.GridAlg.explicit_counts st (TV.Model.GridAlg.grid_pre st inp)))
                                (snd (TV.Model.GridAlg.explicit_counts st (TV.Model.GridAlg.grid_pre st inp)))
                                (TV.Model.GridAlg.estimate_styles children) (TV.Model.GridAlg.in_flow_styles children) = Ok (m, items).
Proof. exact (@TV.Proofs.GridNoPanic.grid_placement_ok). Qed.

(* (2) every placed item's lines convert to track-vector indices (whatever the track vectors `cols`, `rows` are) *)
Theorem C03_grid_container_never_panics_items_ok :
  forall (T : Type) (NT : TV.Num.Num.Num T) (st : TV.Model.GridAlgBase.GStyle T) (children : list (TV.Model.GridAlgBase.GStyle T))
         (inp : TV.Model.FlexAlgBase.FIn T) m items cols rows,
    TV.Proofs.GridNoPanic.grid_domain st children inp ->
    TV.Model.GridAlg.place st (fst (TV.Model.GridAlg.explicit_counts st (TV.Model.GridAlg.grid_pre st inp)))
                              (snd (TV.Model.GridAlg.explicit_counts st (TV.Model.GridAlg.grid_pre st inp)))
                              (TV.Model.GridAlg.estimate_styles children) (TV.Model.GridAlg.in_flow_styles children) = Ok (m, items) ->
    exists items0,
      mapM (TV.Model.GridAlg.make_item st (TV.Model.GridAlg.in_flow_styles children) (track_counts m Horizontal) (track_counts m Vertical)
                                       cols rows) items = Ok items0.
Proof. exact (@TV.Proofs.GridNoPanic.grid_items_ok). Qed.

(* (3) every box-generating absolute child's lines lie inside the final implicit grid: the estimate is computed over ALL box-generating
   children, the absolute ones included, and placement only ever grows the positive implicit counts *)
Theorem C03_grid_container_never_panics_absolute_ok :
  forall (T : Type) (NT : TV.Num.Num.Num T) (st : TV.Model.GridAlgBase.GStyle T) (children : list (TV.Model.GridAlgBase.GStyle T))
         (inp : TV.Model.FlexAlgBase.FIn T) m items,
    TV.Proofs.GridNoPanic.grid_domain st children inp ->
    TV.Model.GridAlg.place st (fst (TV.Model.GridAlg.explicit_counts st (TV.Model.GridAlg.grid_pre st inp)))
                              (snd (TV.Model.GridAlg.explicit_counts st (TV.Model.GridAlg.grid_pre st inp)))
                              (TV.Model.GridAlg.estimate_styles children) (TV.Model.GridAlg.in_flow_styles children) = Ok (m, items) ->
    forallb (TV.Model.GridAlg.oof_ok (track_counts m Horizontal) (track_counts m Vertical))
            (map TV.Model.GridAlg.oof_view children) = true.
Proof. exact (@TV.Proofs.GridNoPanic.grid_absolute_ok). Qed.

(* what matters for the engine: on the domain the total algorithm the engine theorems are about IS compute_grid_layout's model -- the
   stand-in for a panic (Model/GridAlgTotal.v) is never evaluated *)
Theorem C03_grid_alg_total_is_grid_alg :
  forall (T : Type) (NT : TV.Num.Num.Num T) (st : TV.Model.GridAlgBase.GStyle T) (children : list (TV.Model.GridAlgBase.GStyle T))
         (inp : TV.Model.FlexAlgBase.FIn T),
    TV.Proofs.GridNoPanic.grid_domain st children inp ->
    TV.Model.GridAlgTotal.grid_alg_total st children inp = TV.Model.GridAlg.grid_alg st children inp.
Proof. exact (@TV.Proofs.GridNoPanic.grid_alg_total_on_domain). Qed.

(* premise-free on the numbers AND on the input: templates without auto-repeat with at most 64 tracks *)
Theorem C03_grid_container_never_panics_static :
  forall (T : Type) (NT : TV.Num.Num.Num T) (st : TV.Model.GridAlgBase.GStyle T) (children : list (TV.Model.GridAlgBase.GStyle T)),
    TV.Proofs.GridNoPanic.grid_domain_static st children ->
    forall inp : TV.Model.FlexAlgBase.FIn T,
      TV.Model.GridAlg.grid_no_panic st children inp = true /\
      TV.Model.GridAlgTotal.grid_alg_total st children inp = TV.Model.GridAlg.grid_alg st children inp.
Proof.
  intros T NT st children Hd inp.
  split; [exact (TV.Proofs.GridNoPanic.grid_no_panic_static st children Hd inp)|exact (TV.Proofs.GridNoPanic.grid_alg_total_static st children Hd inp)].
Qed.

(* non-vacuity (Model/GridNoPanicExample.v: 3 x 2 explicit tracks; children `auto / -3`, `0 / span 3` x `-7 / span 2`, an ABSOLUTE child
   on `-9 / auto` x `12 / 12`, a display:none child, an auto child): the example is in both domains for every number structure, the
   predicate COMPUTES to true on it over the exact rationals, and to false with one more child outside the domain
   (grid-column: 32767 / span 2: `track + span` overflows i16 in the estimate) *)
Example C03_grid_container_example_in_domain :
  forall (T : Type) (NT : TV.Num.Num.Num T),
    TV.Proofs.GridNoPanic.grid_domain_static (T := T) TV.Model.GridNoPanicExample.ex_container TV.Model.GridNoPanicExample.ex_children /\
    forall inp, TV.Proofs.GridNoPanic.grid_domain (T := T) TV.Model.GridNoPanicExample.ex_container TV.Model.GridNoPanicExample.ex_children inp.
Proof. intros T NT. split; [exact TV.Proofs.GridNoPanic.example_in_domain_static|exact TV.Proofs.GridNoPanic.example_in_domain]. Qed.

Example C03_grid_container_example_computed :
  TV.Model.GridAlg.grid_no_panic (T := TV.Num.QNum.XQ) TV.Model.GridNoPanicExample.ex_container TV.Model.GridNoPanicExample.ex_children
                                 TV.Model.GridNoPanicExample.ex_input = true /\
  TV.Model.GridAlg.grid_no_panic (T := TV.Num.QNum.XQ) TV.Model.GridNoPanicExample.ex_container
                                 (TV.Model.GridNoPanicExample.ex_children ++ [TV.Model.GridNoPanicExample.ex_far_child])
                                 TV.Model.GridNoPanicExample.ex_input = false.
Proof. split; [exact TV.Proofs.GridNoPanic.example_computed|exact TV.Proofs.GridNoPanic.example_outside_domain]. Qed.

Print Assumptions C03_grid_container_never_panics.
Print Assumptions C03_grid_container_never_panics_placement_ok.
Print Assumptions C03_grid_container_never_panics_items_ok.
Print Assumptions C03_grid_container_never_panics_absolute_ok.
Print Assumptions C03_grid_alg_total_is_grid_alg.
Print Assumptions C03_grid_container_never_panics_static.
Print Assumptions C03_grid_container_example_in_domain.
Print Assumptions C03_grid_container_example_computed.

(* ------------------------------------------------------------------------------------------------------------------
   Fuel sufficiency of the sizing loops the grid / flex resumptions call (Model/GridAlg.v, Model/FlexAlg.v): with the FUEL
   EXPRESSION THE MODEL PASSES the loop has reached its exit test, and any additional fuel leaves the result unchanged.  The
   model's fuel exhaustion is its stand-in for a hang; an exhausted loop returns a normal-looking value, so these statements are
   what excludes "the model silently stopped early".  Table of all fuelled loops: notes/FUEL.md.
   Structurally counted loops: any `Num` instance, no premise.  `peq` (Model/FuelDefs.v): the same program of tree calls with the
   same results (Leibniz equality up to extensionality of the continuations). *)
From TV Require Model.Types Model.PlacementBase Model.GridAlgBase Model.GridIntrinsic Model.GridAlg Model.FuelDefs Proofs.GridIntrinsicProofs
                Proofs.FuelProofs Proofs.FuelNumProofs.

(* resolve_intrinsic_track_sizes of the resumption: `m_batch_loop (S (length items)) ffs 0 sorted tracks` (Model/GridAlg.v m_resolve_intrinsic) *)
Theorem C03_m_batch_loop_fuel_suffices :
  forall (T : Type) (H : TV.Num.Num.Num T) (ax : TV.Model.GridAlgBase.GAxis) (inner : TV.Model.Types.Size (option T))
         (avail : TV.Model.GridTracks.avail_space T) (fp : bool) (ot : list (TV.Model.GridTracks.track T)) (oa ffs : T)
         (items : list (@TV.Model.GridAlg.GItem T)) (tracks : list (TV.Model.GridTracks.track T)) (extra : nat),
    let sorted := TV.Model.GridAlg.sort_by (fun a b => TV.Model.GridIntrinsic.item_lt (TV.Model.GridAlg.view ax a) (TV.Model.GridAlg.view ax b)) items in
    TV.Model.FuelDefs.peq
      (TV.Model.GridAlg.m_batch_loop ax inner avail fp ot oa (S (length items) + extra) ffs 0 sorted tracks)
      (TV.Model.GridAlg.m_batch_loop ax inner avail fp ot oa (S (length items)) ffs 0 sorted tracks).
Proof. intros. apply TV.Proofs.FuelProofs.m_batch_loop_fuel_suffices. Qed.

(* ... from any offset, any item vector: length items - offset + 1 rounds are enough *)
Theorem C03_m_batch_loop_any_fuel :
  forall (T : Type) (H : TV.Num.Num.Num T) (ax : TV.Model.GridAlgBase.GAxis) (inner : TV.Model.Types.Size (option T))
         (avail : TV.Model.GridTracks.avail_space T) (fp : bool) (ot : list (TV.Model.GridTracks.track T)) (oa ffs : T)
         (f1 f2 off : nat) (items : list (@TV.Model.GridAlg.GItem T)) (tracks : list (TV.Model.GridTracks.track T)),
    (length items - off < f1)%nat -> (length items - off < f2)%nat ->
    TV.Model.FuelDefs.peq
      (TV.Model.GridAlg.m_batch_loop ax inner avail fp ot oa f1 ffs off items tracks)
      (TV.Model.GridAlg.m_batch_loop ax inner avail fp ot oa f2 ffs off items tracks).
Proof. intros. apply TV.Proofs.FuelProofs.m_batch_loop_any_fuel; assumption. Qed.

(* resolve_item_baselines of the resumption: `m_baseline_rows (length sorted) inner sorted` *)
Theorem C03_m_baseline_rows_fuel_suffices :
  forall (T : Type) (H : TV.Num.Num.Num T) (inner : TV.Model.Types.Size (option T)) (items : list (@TV.Model.GridAlg.GItem T)) (extra : nat),
    let sorted := TV.Model.GridAlg.sort_by
                    (fun a b => Z.ltb (TV.Model.PlacementBase.l_start (TV.Model.GridAlgBase.get_ax (TV.Model.GridAlg.g_line a) TV.Model.GridAlgBase.Block))
                                      (TV.Model.PlacementBase.l_start (TV.Model.GridAlgBase.get_ax (TV.Model.GridAlg.g_line b) TV.Model.GridAlgBase.Block))) items in
    TV.Model.FuelDefs.peq (TV.Model.GridAlg.m_baseline_rows (length sorted + extra) inner sorted)
                          (TV.Model.GridAlg.m_baseline_rows (length sorted) inner sorted).
Proof. intros. apply TV.Proofs.FuelProofs.m_baseline_rows_fuel_suffices. Qed.

(* the kernel's batch loop (Model/GridIntrinsic.v resolve_intrinsic_track_sizes, fuel intrinsic_fuel items = S (length items));
   = C09_intrinsic_terminates, restated here so that the list of fuelled loops is in one place *)
Theorem C03_batch_loop_fuel_suffices :
  forall (T : Type) (H : TV.Num.Num.Num T) contrib inner avail (items : list (TV.Model.GridIntrinsic.item T)) tracks extra,
    TV.Model.GridIntrinsic.resolve_intrinsic_fuelled contrib inner avail (TV.Model.GridIntrinsic.intrinsic_fuel items + extra) items tracks
    = TV.Model.GridIntrinsic.resolve_intrinsic_track_sizes contrib inner avail items tracks.
Proof. intros. apply TV.Proofs.GridIntrinsicProofs.intrinsic_terminates. Qed.

(* a fuelled loop whose result passes its own exit test is unchanged by more fuel: any `Num` *)
Theorem C03_distribute_loop_exit_is_stable :
  forall (T : Type) (H : TV.Num.Num.Num T) (aff : TV.Model.GridTracks.track T -> bool) (p pr lim : TV.Model.GridTracks.track T -> T)
         fuel extra space tracks,
    (let r := TV.Model.GridTracks.distribute_loop aff p pr lim fuel space tracks in
     TV.Model.GridTracks.distribute_step aff p pr lim (fst r) (snd r) = None) ->
    TV.Model.GridTracks.distribute_loop aff p pr lim (fuel + extra) space tracks = TV.Model.GridTracks.distribute_loop aff p pr lim fuel space tracks.
Proof. intros. apply TV.Proofs.FuelNumProofs.distribute_loop_stable. assumption. Qed.

(* numerically counted loops: exact instance XQ, on the stated classes *)

(* find_size_of_fr: finite tracks with base size >= 0 and flex factor >= 0 (track_ok2), finite space *)
Theorem C03_fr_loop_fuel_suffices :
  forall (tracks : list (TV.Model.GridTracks.track TV.Num.QNum.XQ)) (sp : QArith_base.Q),
    Forall TV.Proofs.GridTracksProofs.track_ok2 tracks ->
    snd (TV.Model.GridTracks.fr_exit tracks (TV.Num.QNum.Fin sp)) = true /\
    forall extra, TV.Model.GridTracks.fr_loop (TV.Model.GridTracks.fr_fuel tracks + extra) tracks (TV.Num.QNum.Fin sp) TV.Num.Num.infinity
                  = TV.Model.GridTracks.fr_exit tracks (TV.Num.QNum.Fin sp).
Proof. exact TV.Proofs.FuelNumProofs.fr_loop_fuel_suffices. Qed.

(* distribute_space_up_to_limits as maximise_tracks (11.6) calls it: base size, fit-content-limited growth limit and incurred
   increase finite, incurred >= 0 (tok), finite space *)
Theorem C03_maximise_distribute_fuel_suffices :
  forall (inner : option TV.Num.QNum.XQ) (sp : QArith_base.Q) (tracks : list (TV.Model.GridTracks.track TV.Num.QNum.XQ)),
    Forall (TV.Proofs.GridTracksProofs.tok inner) tracks ->
    let lim := TV.Model.GridTracks.fit_content_limited_growth_limit inner in
    let r := TV.Model.GridTracks.distribute_space_up_to_limits (TV.Num.QNum.Fin sp) tracks (fun _ => true) (fun _ => TV.Num.Num.one)
               TV.Model.GridTracks.base_size lim in
    TV.Model.GridTracks.distribute_step (fun _ => true) (fun _ => TV.Num.Num.one) TV.Model.GridTracks.base_size lim (fst r) (snd r) = None /\
    forall extra, TV.Model.GridTracks.distribute_loop (fun _ => true) (fun _ => TV.Num.Num.one) TV.Model.GridTracks.base_size lim
                    (TV.Model.GridTracks.distribute_fuel tracks + extra) (TV.Num.QNum.Fin sp) tracks = r.
Proof. exact TV.Proofs.FuelNumProofs.maximise_distribute_fuel_suffices. Qed.

(* flex_loop as resolve_flexible_lengths calls it (fuel S (length items)): any context, any items, NaN and infinities included *)
Theorem C03_flex_loop_fuel_suffices :
  forall (k : TV.Model.Flex.LoopCtx TV.Num.QNum.XQ) (items : list (TV.Model.Flex.FlexItem TV.Num.QNum.XQ)),
    exists res, TV.Model.Flex.flex_loop (S (length items)) k items = Some res /\
                forall extra, TV.Model.Flex.flex_loop (S (length items) + extra) k items = Some res.
Proof. exact TV.Proofs.FuelNumProofs.flex_loop_fuel_suffices. Qed.

Print Assumptions C03_m_batch_loop_fuel_suffices.
Print Assumptions C03_m_batch_loop_any_fuel.
Print Assumptions C03_m_baseline_rows_fuel_suffices.
Print Assumptions C03_batch_loop_fuel_suffices.
Print Assumptions C03_distribute_loop_exit_is_stable.
Print Assumptions C03_fr_loop_fuel_suffices.
Print Assumptions C03_maximise_distribute_fuel_suffices.
Print Assumptions C03_flex_loop_fuel_suffices.

(* ---- non-vacuity of the premises above, on inputs where the loop needs more than one round ----
   fr: two 1fr tracks, base sizes 100 and 0, space 120: the first round (h = 60) is invalid, the second (h = 20) exits; fuel 4.
   maximise: limits 10 and 100, space 60: round 1 gives 10 to both, round 2 the remaining 40 to the second, round 3 exits. *)
Definition C03_ex_fr_tracks : list (TV.Model.GridTracks.track TV.Num.QNum.XQ) :=
  let f := TV.Num.QNum.Fin in
  let z := f 0%Q in
  [ TV.Model.GridTracks.mk_track TV.Model.GridTracks.KTrack false TV.Model.GridTracks.SAuto (TV.Model.GridTracks.SFr (f 1%Q)) z (f 100%Q) (f 100%Q) z z z false;
    TV.Model.GridTracks.mk_track TV.Model.GridTracks.KTrack false TV.Model.GridTracks.SAuto (TV.Model.GridTracks.SFr (f 1%Q)) z z z z z z false ].
Example C03_fr_loop_fuel_example :
  Forall TV.Proofs.GridTracksProofs.track_ok2 C03_ex_fr_tracks /\
  snd (TV.Model.GridTracks.fr_loop 1 C03_ex_fr_tracks (TV.Num.QNum.Fin 120%Q) TV.Num.Num.infinity) = false /\
  TV.Model.GridTracks.fr_fuel C03_ex_fr_tracks = 4%nat /\
  TV.Model.GridTracks.fr_exit C03_ex_fr_tracks (TV.Num.QNum.Fin 120%Q) = (TV.Num.QNum.Fin (120 # 2)%Q, TV.Num.QNum.Fin 20%Q, true).
Proof.
  split; [|vm_compute; repeat split; reflexivity].
  repeat constructor; vm_compute; try exact I; discriminate.
Qed.
Definition C03_ex_max_tracks : list (TV.Model.GridTracks.track TV.Num.QNum.XQ) :=
  let f := TV.Num.QNum.Fin in
  let z := f 0%Q in
  [ TV.Model.GridTracks.mk_track TV.Model.GridTracks.KTrack false (TV.Model.GridTracks.SLength z) (TV.Model.GridTracks.SLength (f 10%Q)) z z (f 10%Q) z z z false;
    TV.Model.GridTracks.mk_track TV.Model.GridTracks.KTrack false (TV.Model.GridTracks.SLength z) (TV.Model.GridTracks.SLength (f 100%Q)) z z (f 100%Q) z z z false ].
Example C03_maximise_distribute_fuel_example :
  let lim := TV.Model.GridTracks.fit_content_limited_growth_limit None in
  let loop := TV.Model.GridTracks.distribute_loop (fun _ => true) (fun _ => TV.Num.Num.one) TV.Model.GridTracks.base_size lim in
  Forall (TV.Proofs.GridTracksProofs.tok None) C03_ex_max_tracks /\
  (let r := loop 1%nat (TV.Num.QNum.Fin 60%Q) C03_ex_max_tracks in
   TV.Model.GridTracks.distribute_step (fun _ => true) (fun _ => TV.Num.Num.one) TV.Model.GridTracks.base_size lim (fst r) (snd r) <> None) /\
  map TV.Model.GridTracks.incurred (snd (loop (TV.Model.GridTracks.distribute_fuel C03_ex_max_tracks) (TV.Num.QNum.Fin 60%Q) C03_ex_max_tracks))
  = [TV.Num.QNum.Fin 10%Q; TV.Num.QNum.Fin 50%Q].
Proof.
  cbv zeta. split; [|split; [vm_compute; discriminate|vm_compute; reflexivity]].
  repeat constructor; vm_compute; try exact I; discriminate.
Qed.

(* Outside the classes the fuel statement for distribute_space_up_to_limits is FALSE of the model: with a NaN distribution proportion
   (flex factor `fr(NaN)`; proportion = flex_factor is what distribute_item_space_to_base_size passes for a flexible batch) a round
   accepts no increase (`NaN > 0.0` is false) and leaves space and tracks unchanged, so the exit test is never reached with ANY fuel:
   the model returns the unchanged state after 2n+8 rounds, the Rust `while space_to_distribute > THRESHOLD` would not return.
   REPRODUCED on the implementation (notes/FUEL.nanfr.rs, a standalone program, run under `timeout 5`): a grid with
   `grid_template_columns: [fr(NaN)]` and one 50x20 child, compute_layout under max-content, does not return (with fr(1.0) it returns
   50x20).  Not an input CSS or the style generators produce; proposed as a known finding under C03 (notes/FUEL.md). *)
Definition C03_ex_nan_track : list (TV.Model.GridTracks.track TV.Num.QNum.XQ) :=
  let f := TV.Num.QNum.Fin in
  let z := f 0%Q in
  [ TV.Model.GridTracks.mk_track TV.Model.GridTracks.KTrack false TV.Model.GridTracks.SAuto (TV.Model.GridTracks.SFr TV.Num.QNum.XNaN) z z TV.Num.QNum.PInf z z z false ].
Theorem C03_distribute_loop_fuel_suffices_refuted :
  exists (tracks : list (TV.Model.GridTracks.track TV.Num.QNum.XQ)) (sp : TV.Num.QNum.XQ),
    forall fuel,
      let r := TV.Model.GridTracks.distribute_loop (fun _ => true) TV.Model.GridTracks.flex_factor TV.Model.GridTracks.base_size
                 TV.Model.GridTracks.growth_limit fuel sp tracks in
      TV.Model.GridTracks.distribute_step (fun _ => true) TV.Model.GridTracks.flex_factor TV.Model.GridTracks.base_size
        TV.Model.GridTracks.growth_limit (fst r) (snd r) <> None.
Proof.
  exists C03_ex_nan_track, (TV.Num.QNum.Fin 10%Q). intro fuel. cbv zeta.
  assert (Hs : TV.Model.GridTracks.distribute_step (fun _ => true) TV.Model.GridTracks.flex_factor TV.Model.GridTracks.base_size
                 TV.Model.GridTracks.growth_limit (TV.Num.QNum.Fin 10%Q) C03_ex_nan_track = Some (TV.Num.QNum.Fin 10%Q, C03_ex_nan_track))
    by (vm_compute; reflexivity).
  assert (Hl : TV.Model.GridTracks.distribute_loop (fun _ => true) TV.Model.GridTracks.flex_factor TV.Model.GridTracks.base_size
                 TV.Model.GridTracks.growth_limit fuel (TV.Num.QNum.Fin 10%Q) C03_ex_nan_track = (TV.Num.QNum.Fin 10%Q, C03_ex_nan_track)).
  { induction fuel as [|f IH]; [reflexivity|]. cbn [TV.Model.GridTracks.distribute_loop]. rewrite Hs. exact IH. }
  rewrite Hl. cbn [fst snd]. rewrite Hs. discriminate.
Qed.

Print Assumptions C03_distribute_loop_fuel_suffices_refuted.

(* ------------------------------------------------------------------------------------------------------------------
   Wave 9d: `distribute_loop` at the intrinsic-sizing call sites (rows (b), (c) of the table in notes/FUEL.md).
   `mstep_progress` generalised to an arbitrary affected-filter, proportion, affected property and limit (exact instance XQ).
   Class (Model/FuelDistDefs.v): `inc_inv f` -- f does not read item_incurred_increase, the only field a round writes (true of every
   function the model passes: C03_intrinsic_distribute_parameters_inc_inv); `dist_ok p prop lim` -- affected property finite, limit
   finite or +inf, incurred increase finite and >= 0, proportion finite and >= 0; finite space.
   Off the class the statement is false: C03_distribute_loop_fuel_suffices_refuted (NaN proportion). *)
From TV Require Model.FuelDistDefs Proofs.FuelDistProofs.

(* distribute_space_up_to_limits with the fuel it passes: the result passes the exit test, more fuel changes nothing, and the result is
   in the class again (so a second distribution over it is covered as well) *)
Theorem C03_distribute_loop_fuel_suffices :
  forall (aff : TV.Model.GridTracks.track TV.Num.QNum.XQ -> bool) (p prop lim : TV.Model.GridTracks.track TV.Num.QNum.XQ -> TV.Num.QNum.XQ),
    TV.Model.FuelDistDefs.inc_inv aff -> TV.Model.FuelDistDefs.inc_inv p -> TV.Model.FuelDistDefs.inc_inv prop -> TV.Model.FuelDistDefs.inc_inv lim ->
    forall (sp : QArith_base.Q) (tracks : list (TV.Model.GridTracks.track TV.Num.QNum.XQ)),
      Forall (TV.Model.FuelDistDefs.dist_ok p prop lim) tracks ->
      let r := TV.Model.GridTracks.distribute_space_up_to_limits (TV.Num.QNum.Fin sp) tracks aff p prop lim in
      TV.Model.GridTracks.distribute_step aff p prop lim (fst r) (snd r) = None /\
      (forall extra, TV.Model.GridTracks.distribute_loop aff p prop lim (TV.Model.GridTracks.distribute_fuel tracks + extra) (TV.Num.QNum.Fin sp) tracks = r) /\
      Forall (TV.Model.FuelDistDefs.dist_ok p prop lim) (snd r) /\ TV.Num.QNum.finite (fst r) /\ length (snd r) = length tracks.
Proof. exact TV.Proofs.FuelDistProofs.dist_fuel_suffices. Qed.

(* (b) distribute_item_space_to_base_size_inner: both of its calls of distribute_space_up_to_limits (the second runs on the result of the
   first, with the filter `base_filter2`) leave through the exit test, and the function is the same with any additional fuel at either
   call (`base_inner_fuelled 0 0` IS the model's function: C03_intrinsic_distribute_fuelled_copies) *)
Theorem C03_intrinsic_distribute_base_fuel_suffices :
  forall (sp : QArith_base.Q) (tracks : list (TV.Model.GridTracks.track TV.Num.QNum.XQ)) (aff : TV.Model.GridTracks.track TV.Num.QNum.XQ -> bool)
         (p lim : TV.Model.GridTracks.track TV.Num.QNum.XQ -> TV.Num.QNum.XQ) (ct : TV.Model.GridTracks.contribution_type),
    TV.Model.FuelDistDefs.inc_inv aff -> TV.Model.FuelDistDefs.inc_inv p -> TV.Model.FuelDistDefs.inc_inv lim ->
    Forall (TV.Model.FuelDistDefs.dist_ok p TV.Model.GridTracks.base_size lim) tracks ->
    let extra := TV.Num.Num.fmax TV.Num.Num.zero
                   (TV.Num.Num.sub (TV.Num.QNum.Fin sp) (TV.Num.Num.fsum (map TV.Model.GridTracks.base_size tracks))) in
    let r1 := TV.Model.GridTracks.distribute_space_up_to_limits extra tracks aff p TV.Model.GridTracks.base_size lim in
    let f2 := TV.Model.FuelDistDefs.base_filter2 ct aff (snd r1) in
    let r2 := TV.Model.GridTracks.distribute_space_up_to_limits (fst r1) (snd r1) f2 p TV.Model.GridTracks.base_size lim in
    TV.Model.GridTracks.distribute_step aff p TV.Model.GridTracks.base_size lim (fst r1) (snd r1) = None /\
    TV.Model.GridTracks.distribute_step f2 p TV.Model.GridTracks.base_size lim (fst r2) (snd r2) = None /\
    forall e1 e2, TV.Model.FuelDistDefs.base_inner_fuelled e1 e2 (TV.Num.QNum.Fin sp) tracks aff p lim ct
                  = TV.Model.GridTracks.distribute_item_space_to_base_size_inner (TV.Num.QNum.Fin sp) tracks aff p lim ct.
Proof. exact TV.Proofs.FuelDistProofs.base_inner_fuel_suffices. Qed.

(* (b) as `to_base` (every step of general_batch / m_general_batch) calls it: distribute_item_space_to_base_size picks the filter
   (`is_flexible && affected` for a flexible batch) and the proportion (flex_factor when use_flex_factor, else 1) *)
Theorem C03_intrinsic_distribute_base_size_fuel_suffices :
  forall (is_flex uff : bool) (sp : QArith_base.Q) (tracks : list (TV.Model.GridTracks.track TV.Num.QNum.XQ))
         (aff : TV.Model.GridTracks.track TV.Num.QNum.XQ -> bool) (lim : TV.Model.GridTracks.track TV.Num.QNum.XQ -> TV.Num.QNum.XQ)
         (ct : TV.Model.GridTracks.contribution_type),
    TV.Model.FuelDistDefs.inc_inv aff -> TV.Model.FuelDistDefs.inc_inv lim ->
    Forall (TV.Model.FuelDistDefs.dist_ok (TV.Model.FuelDistDefs.base_size_proportion is_flex uff) TV.Model.GridTracks.base_size lim) tracks ->
    forall e1 e2, TV.Model.FuelDistDefs.base_size_fuelled e1 e2 is_flex uff (TV.Num.QNum.Fin sp) tracks aff lim ct
                  = TV.Model.GridTracks.distribute_item_space_to_base_size is_flex uff (TV.Num.QNum.Fin sp) tracks aff lim ct.
Proof. exact TV.Proofs.FuelDistProofs.base_size_fuel_suffices. Qed.

(* (c) distribute_item_space_to_growth_limit (<- to_limit): proportion 1, affected property limit_or_base, limit fit_content_limit inner *)
Theorem C03_intrinsic_distribute_limit_fuel_suffices :
  forall (inner : option TV.Num.QNum.XQ) (sp : QArith_base.Q) (tracks : list (TV.Model.GridTracks.track TV.Num.QNum.XQ))
         (aff : TV.Model.GridTracks.track TV.Num.QNum.XQ -> bool),
    TV.Model.FuelDistDefs.inc_inv aff ->
    Forall (TV.Model.FuelDistDefs.dist_ok (fun _ => TV.Num.Num.one) TV.Model.GridIntrinsic.limit_or_base (TV.Model.GridTracks.fit_content_limit inner)) tracks ->
    let extra := TV.Num.Num.fmax TV.Num.Num.zero
                   (TV.Num.Num.sub (TV.Num.QNum.Fin sp) (TV.Num.Num.fsum (map TV.Model.GridIntrinsic.limit_or_base tracks))) in
    let r := TV.Model.GridTracks.distribute_space_up_to_limits extra tracks aff (fun _ => TV.Num.Num.one) TV.Model.GridIntrinsic.limit_or_base
               (TV.Model.GridTracks.fit_content_limit inner) in
    TV.Model.GridTracks.distribute_step aff (fun _ => TV.Num.Num.one) TV.Model.GridIntrinsic.limit_or_base (TV.Model.GridTracks.fit_content_limit inner)
      (fst r) (snd r) = None /\
    forall e, TV.Model.FuelDistDefs.growth_limit_fuelled inner e (TV.Num.QNum.Fin sp) tracks aff
              = TV.Model.GridIntrinsic.distribute_item_space_to_growth_limit inner (TV.Num.QNum.Fin sp) tracks aff.
Proof. exact TV.Proofs.FuelDistProofs.growth_limit_fuel_suffices. Qed.

(* the fuel-parametrised copies are the model's functions at 0 additional fuel (by computation, any `Num`) *)
Theorem C03_intrinsic_distribute_fuelled_copies :
  forall (T : Type) (H : TV.Num.Num.Num T),
    (forall space tracks aff (p lim : TV.Model.GridTracks.track T -> T) ct,
       TV.Model.FuelDistDefs.base_inner_fuelled 0 0 space tracks aff p lim ct
       = TV.Model.GridTracks.distribute_item_space_to_base_size_inner space tracks aff p lim ct) /\
    (forall is_flex uff space tracks aff (lim : TV.Model.GridTracks.track T -> T) ct,
       TV.Model.FuelDistDefs.base_size_fuelled 0 0 is_flex uff space tracks aff lim ct
       = TV.Model.GridTracks.distribute_item_space_to_base_size is_flex uff space tracks aff lim ct) /\
    (forall inner space tracks (aff : TV.Model.GridTracks.track T -> bool),
       TV.Model.FuelDistDefs.growth_limit_fuelled inner 0 space tracks aff
       = TV.Model.GridIntrinsic.distribute_item_space_to_growth_limit inner space tracks aff).
Proof. intros T H. repeat split. Qed.

(* every proportion, limit and filter the steps of general_batch pass (Model/GridIntrinsic.v step_minimums .. step_max_content_maximums)
   is `inc_inv`: they read the sizing functions, base size and growth limit only *)
Theorem C03_intrinsic_distribute_parameters_inc_inv :
  forall (inner : option TV.Num.QNum.XQ),
    TV.Model.FuelDistDefs.inc_inv (@TV.Model.GridTracks.flex_factor TV.Num.QNum.XQ _) /\
    TV.Model.FuelDistDefs.inc_inv (fun _ : TV.Model.GridTracks.track TV.Num.QNum.XQ => @TV.Num.Num.one TV.Num.QNum.XQ _) /\
    TV.Model.FuelDistDefs.inc_inv (@TV.Model.GridTracks.growth_limit TV.Num.QNum.XQ) /\
    TV.Model.FuelDistDefs.inc_inv (TV.Model.GridTracks.fit_content_limited_growth_limit inner) /\
    TV.Model.FuelDistDefs.inc_inv (fun _ : TV.Model.GridTracks.track TV.Num.QNum.XQ => @TV.Num.Num.infinity TV.Num.QNum.XQ _) /\
    TV.Model.FuelDistDefs.inc_inv (TV.Model.GridTracks.fit_content_limit inner) /\
    TV.Model.FuelDistDefs.inc_inv (@TV.Model.GridIntrinsic.limit_or_base TV.Num.QNum.XQ _) /\
    TV.Model.FuelDistDefs.inc_inv (TV.Model.GridIntrinsic.has_intrinsic_min inner) /\
    TV.Model.FuelDistDefs.inc_inv (fun t : TV.Model.GridTracks.track TV.Num.QNum.XQ => TV.Model.GridTracks.is_min_or_max_content (TV.Model.GridTracks.minf t)) /\
    TV.Model.FuelDistDefs.inc_inv (@TV.Model.GridIntrinsic.has_max_content_min TV.Num.QNum.XQ) /\
    TV.Model.FuelDistDefs.inc_inv (@TV.Model.GridIntrinsic.has_auto_min TV.Num.QNum.XQ) /\
    TV.Model.FuelDistDefs.inc_inv (fun t : TV.Model.GridTracks.track TV.Num.QNum.XQ => negb (TV.Model.GridIntrinsic.has_definite_value inner (TV.Model.GridTracks.maxf t))) /\
    TV.Model.FuelDistDefs.inc_inv (TV.Model.GridIntrinsic.has_max_content_max inner).
Proof. intro inner. repeat split. Qed.

Print Assumptions C03_distribute_loop_fuel_suffices.
Print Assumptions C03_intrinsic_distribute_base_fuel_suffices.
Print Assumptions C03_intrinsic_distribute_base_size_fuel_suffices.
Print Assumptions C03_intrinsic_distribute_limit_fuel_suffices.
Print Assumptions C03_intrinsic_distribute_fuelled_copies.
Print Assumptions C03_intrinsic_distribute_parameters_inc_inv.

(* ---- non-vacuity, on inputs where the loop needs more than one round ----
   (b) flexible batch, proportion = flex factor: factors 1, 3, 0 with growth limits 10, inf, inf, contribution 60.  Round 1: the
       head-room ratios are 10/1, inf, inf (zero proportion: `x / 0 = inf`), space / psum = 15: increase 10, the first track reaches its
       limit, 20 left.  Round 2: one growable track with a positive proportion, increase 20/3 per unit; the test of the loop body does not
       look at the incurred increase, so the first track accepts 20/3 more; -20/3 left: exit.  The zero-proportion track stays growable
       throughout and never receives anything.
   (c) two fit-content tracks (limits 10, 100; growth limit 5), contribution 70: extra space 60; round 1 gives 5 to both, round 2 the
       remaining 50 to the second. *)
Definition C03_ex_flex_tracks : list (TV.Model.GridTracks.track TV.Num.QNum.XQ) :=
  let f := TV.Num.QNum.Fin in
  let z := f 0%Q in
  [ TV.Model.GridTracks.mk_track TV.Model.GridTracks.KTrack false TV.Model.GridTracks.SAuto (TV.Model.GridTracks.SFr (f 1%Q)) z z (f 10%Q) z z z false;
    TV.Model.GridTracks.mk_track TV.Model.GridTracks.KTrack false TV.Model.GridTracks.SAuto (TV.Model.GridTracks.SFr (f 3%Q)) z z TV.Num.QNum.PInf z z z false;
    TV.Model.GridTracks.mk_track TV.Model.GridTracks.KTrack false TV.Model.GridTracks.SAuto (TV.Model.GridTracks.SFr (f 0%Q)) z z TV.Num.QNum.PInf z z z false ].
Example C03_intrinsic_distribute_base_fuel_example :
  let loop := TV.Model.GridTracks.distribute_loop (fun _ => true) TV.Model.GridTracks.flex_factor TV.Model.GridTracks.base_size TV.Model.GridTracks.growth_limit in
  Forall (TV.Model.FuelDistDefs.dist_ok TV.Model.GridTracks.flex_factor TV.Model.GridTracks.base_size TV.Model.GridTracks.growth_limit) C03_ex_flex_tracks /\
  Forall (TV.Model.FuelDistDefs.dist_ok (TV.Model.FuelDistDefs.base_size_proportion true true) TV.Model.GridTracks.base_size TV.Model.GridTracks.growth_limit) C03_ex_flex_tracks /\
  (let r := loop 1%nat (TV.Num.QNum.Fin 60%Q) C03_ex_flex_tracks in
   TV.Model.GridTracks.distribute_step (fun _ => true) TV.Model.GridTracks.flex_factor TV.Model.GridTracks.base_size TV.Model.GridTracks.growth_limit (fst r) (snd r) <> None) /\
  map TV.Model.GridTracks.incurred (snd (loop (TV.Model.GridTracks.distribute_fuel C03_ex_flex_tracks) (TV.Num.QNum.Fin 60%Q) C03_ex_flex_tracks))
  = [TV.Num.QNum.Fin (50 # 3)%Q; TV.Num.QNum.Fin (150 # 3)%Q; TV.Num.QNum.Fin 0%Q] /\
  map TV.Model.GridTracks.base_planned
      (TV.Model.GridTracks.distribute_item_space_to_base_size true true (TV.Num.QNum.Fin 60%Q) C03_ex_flex_tracks (fun _ => true)
         TV.Model.GridTracks.growth_limit TV.Model.GridTracks.CMinimum)
  = [TV.Num.QNum.Fin (50 # 3)%Q; TV.Num.QNum.Fin (150 # 3)%Q; TV.Num.QNum.Fin 0%Q].
Proof.
  cbv zeta. split; [|split; [|split; [vm_compute; discriminate|split; vm_compute; reflexivity]]];
    apply TV.Proofs.FuelDistProofs.dist_okb_sound; vm_compute; reflexivity.
Qed.
Definition C03_ex_fit_tracks : list (TV.Model.GridTracks.track TV.Num.QNum.XQ) :=
  let f := TV.Num.QNum.Fin in
  let z := f 0%Q in
  [ TV.Model.GridTracks.mk_track TV.Model.GridTracks.KTrack false TV.Model.GridTracks.SAuto (TV.Model.GridTracks.SFitPx (f 10%Q)) z z (f 5%Q) z z z false;
    TV.Model.GridTracks.mk_track TV.Model.GridTracks.KTrack false TV.Model.GridTracks.SAuto (TV.Model.GridTracks.SFitPx (f 100%Q)) z z (f 5%Q) z z z false ].
Example C03_intrinsic_distribute_limit_fuel_example :
  let lim := TV.Model.GridTracks.fit_content_limit (@None TV.Num.QNum.XQ) in
  let loop := TV.Model.GridTracks.distribute_loop (fun _ => true) (fun _ => TV.Num.Num.one) TV.Model.GridIntrinsic.limit_or_base lim in
  Forall (TV.Model.FuelDistDefs.dist_ok (fun _ => TV.Num.Num.one) TV.Model.GridIntrinsic.limit_or_base lim) C03_ex_fit_tracks /\
  (let r := loop 1%nat (TV.Num.QNum.Fin 60%Q) C03_ex_fit_tracks in
   TV.Model.GridTracks.distribute_step (fun _ => true) (fun _ => TV.Num.Num.one) TV.Model.GridIntrinsic.limit_or_base lim (fst r) (snd r) <> None) /\
  map TV.Model.GridTracks.limit_planned
      (TV.Model.GridIntrinsic.distribute_item_space_to_growth_limit None (TV.Num.QNum.Fin 70%Q) C03_ex_fit_tracks (fun _ => true))
  = [TV.Num.QNum.Fin 5%Q; TV.Num.QNum.Fin 55%Q].
Proof.
  cbv zeta. split; [|split; [vm_compute; discriminate|vm_compute; reflexivity]].
  apply TV.Proofs.FuelDistProofs.dist_okb_sound. vm_compute. reflexivity.
Qed.

(* `fr_loop` OUTSIDE the class of C03_fr_loop_fuel_suffices (finite space): with an infinite space to fill and a track `fr(0)` the
   hypothetical fr size is inf in every round, `0 * inf` is NaN, both disjuncts of the validity test compare with NaN and are false:
   no round is valid, the `loop` of find_size_of_fr is never left with ANY fuel (the model returns the flag `false` after
   length + 2 rounds).  REPRODUCED on the implementation (notes/FUEL.fr0inf.rs, run under `timeout 5`): a grid container with
   `size.width = length(INFINITY)`, `grid_template_columns: [fr(0.0)]` and one 50x20 child does not return from compute_layout (with
   fr(1.0) it returns inf x 20).  Not an input the style generators produce; proposed as a known finding under C03 (notes/FUEL.md). *)
Definition C03_ex_fr0_track : list (TV.Model.GridTracks.track TV.Num.QNum.XQ) :=
  let z := TV.Num.QNum.Fin 0%Q in
  [ TV.Model.GridTracks.mk_track TV.Model.GridTracks.KTrack false TV.Model.GridTracks.SAuto (TV.Model.GridTracks.SFr z) z z z z z z false ].
Theorem C03_fr_loop_infinite_space_refuted :
  exists (tracks : list (TV.Model.GridTracks.track TV.Num.QNum.XQ)) (sp : TV.Num.QNum.XQ),
    Forall TV.Proofs.GridTracksProofs.track_ok2 tracks /\
    forall fuel, snd (TV.Model.GridTracks.fr_loop fuel tracks sp TV.Num.Num.infinity) = false.
Proof.
  exists C03_ex_fr0_track, TV.Num.QNum.PInf. split.
  - repeat constructor; vm_compute; try exact I; discriminate.
  - intro fuel. change (@TV.Num.Num.infinity TV.Num.QNum.XQ _) with TV.Num.QNum.PInf.
    induction fuel as [|f IH]; [reflexivity|]. cbn [TV.Model.GridTracks.fr_loop].
    change (TV.Model.GridTracks.fr_next C03_ex_fr0_track TV.Num.QNum.PInf TV.Num.QNum.PInf) with TV.Num.QNum.PInf.
    change (TV.Model.GridTracks.fr_valid C03_ex_fr0_track TV.Num.QNum.PInf TV.Num.QNum.PInf) with false. exact IH.
Qed.
Print Assumptions C03_fr_loop_infinite_space_refuted.

(* ------------------------------------------------------------------------------------------------------------------
   Wave 9n: the WHOLE of step 11.5 does not depend on the fuel of the inner `distribute_loop`s.  Wave 9d was per call ("the slice is in
   `dist_ok` at the call" a premise); here the premise is discharged at every call made during the step: the class `tk_ok`
   (Model/FuelStepDefs.v: base size finite, growth limit finite or +inf, incurred increase finite >= 0, planned increases finite, the
   values inside the track sizing functions finite, flex factors >= 0) is an INVARIANT of every phase (to_base / to_limit of every
   step, both flushes, fix_growth_limits, the span-1 fast path) and implies `dist_ok` for every (proportion, property, limit) triple
   general_batch passes.  Input class: tracks in `tk_ok`, inner node size absent or finite (`inner_ok`), the oracle's three contributions
   and the margin sum of every item finite (`item_ok`); any available space (it only selects branches), any items otherwise.
   `resolve_intrinsic_f e1 e2 e3` = resolve_intrinsic_track_sizes with e1 / e2 more rounds at the first / second distribution of
   distribute_item_space_to_base_size_inner and e3 more at the one of distribute_item_space_to_growth_limit (the same triple at every
   call of the run; at (0,0,0) it IS the model: C03_intrinsic_step_fuelled_copy).  XQ (exact arithmetic) only. *)
From TV Require Model.FuelStepDefs Proofs.FuelStepProofs.

Theorem C03_intrinsic_step_fuel_independent :
  forall (contrib : TV.Model.GridIntrinsic.item TV.Num.QNum.XQ -> TV.Model.GridIntrinsic.ckind -> TV.Num.QNum.XQ)
         (inner : option TV.Num.QNum.XQ) (avail : TV.Model.GridTracks.avail_space TV.Num.QNum.XQ) (e1 e2 e3 : nat),
    TV.Model.FuelStepDefs.inner_ok inner ->
    forall (items : list (TV.Model.GridIntrinsic.item TV.Num.QNum.XQ)) (tracks : list (TV.Model.GridTracks.track TV.Num.QNum.XQ)),
      Forall (TV.Model.FuelStepDefs.item_ok contrib) items -> Forall TV.Model.FuelStepDefs.tk_ok tracks ->
      TV.Model.FuelStepDefs.resolve_intrinsic_f contrib inner avail e1 e2 e3 items tracks
      = TV.Model.GridIntrinsic.resolve_intrinsic_track_sizes contrib inner avail items tracks.
Proof. exact TV.Proofs.FuelStepProofs.resolve_intrinsic_fuel_independent. Qed.

(* the fuel-parametrised copy of the step at no additional fuel is the model's function (by computation, any `Num`) *)
Theorem C03_intrinsic_step_fuelled_copy :
  forall (T : Type) (H : TV.Num.Num.Num T) contrib inner avail (items : list (TV.Model.GridIntrinsic.item T)) tracks,
    TV.Model.FuelStepDefs.resolve_intrinsic_f contrib inner avail 0 0 0 items tracks
    = TV.Model.GridIntrinsic.resolve_intrinsic_track_sizes contrib inner avail items tracks.
Proof. intros. reflexivity. Qed.

(* the invariant, per batch: a batch that is not the span-1 fast path (flexible: is_flex = true, 4 phases; or not: 6 phases) is the same
   function with any additional fuel and keeps the class; the span-1 fast path keeps the class; hence every batch and the batch loop.
   (Per phase: step_minimums_ok .. step_max_content_maximums_ok, flush_planned_base_ok, flush_planned_limit_ok, fix_growth_limits_ok in
   Proofs/FuelStepProofs.v.) *)
Theorem C03_intrinsic_general_batch_invariant :
  forall (contrib : TV.Model.GridIntrinsic.item TV.Num.QNum.XQ -> TV.Model.GridIntrinsic.ckind -> TV.Num.QNum.XQ)
         (inner : option TV.Num.QNum.XQ) (avail : TV.Model.GridTracks.avail_space TV.Num.QNum.XQ) (e1 e2 e3 : nat),
    TV.Model.FuelStepDefs.inner_ok inner ->
    forall (is_flex uff : bool) (batch : list (TV.Model.GridIntrinsic.item TV.Num.QNum.XQ)) (tracks : list (TV.Model.GridTracks.track TV.Num.QNum.XQ)),
      Forall (TV.Model.FuelStepDefs.item_ok contrib) batch -> Forall TV.Model.FuelStepDefs.tk_ok tracks ->
      TV.Model.FuelStepDefs.general_batch_f contrib inner avail e1 e2 e3 is_flex uff batch tracks
      = TV.Model.GridIntrinsic.general_batch contrib inner avail is_flex uff batch tracks /\
      Forall TV.Model.FuelStepDefs.tk_ok (TV.Model.GridIntrinsic.general_batch contrib inner avail is_flex uff batch tracks).
Proof. exact TV.Proofs.FuelStepProofs.general_batch_ok. Qed.

Theorem C03_intrinsic_batch_loop_invariant :
  forall (contrib : TV.Model.GridIntrinsic.item TV.Num.QNum.XQ -> TV.Model.GridIntrinsic.ckind -> TV.Num.QNum.XQ)
         (inner : option TV.Num.QNum.XQ) (avail : TV.Model.GridTracks.avail_space TV.Num.QNum.XQ) (e1 e2 e3 : nat),
    TV.Model.FuelStepDefs.inner_ok inner ->
    forall (fuel : nat) (ffs : TV.Num.QNum.XQ) (off : nat) (items : list (TV.Model.GridIntrinsic.item TV.Num.QNum.XQ))
           (tracks : list (TV.Model.GridTracks.track TV.Num.QNum.XQ)),
      Forall (TV.Model.FuelStepDefs.item_ok contrib) items -> Forall TV.Model.FuelStepDefs.tk_ok tracks ->
      TV.Model.FuelStepDefs.batch_loop_f contrib inner avail e1 e2 e3 fuel ffs off items tracks
      = TV.Model.GridIntrinsic.batch_loop contrib inner avail fuel ffs off items tracks /\
      Forall TV.Model.FuelStepDefs.tk_ok (TV.Model.GridIntrinsic.batch_loop contrib inner avail fuel ffs off items tracks).
Proof. exact TV.Proofs.FuelStepProofs.batch_loop_ok. Qed.

(* the class implies the per-call class of wave 9d at both kinds of call site *)
Theorem C03_intrinsic_tk_ok_gives_dist_ok :
  forall (inner : option TV.Num.QNum.XQ) (tracks : list (TV.Model.GridTracks.track TV.Num.QNum.XQ)),
    TV.Model.FuelStepDefs.inner_ok inner -> Forall TV.Model.FuelStepDefs.tk_ok tracks ->
    (forall is_flex uff lim, (forall t, TV.Model.FuelStepDefs.tk_ok t -> TV.Model.FuelStepDefs.fin_or_pinf (lim t)) ->
       Forall (TV.Model.FuelDistDefs.dist_ok (TV.Model.FuelDistDefs.base_size_proportion is_flex uff) TV.Model.GridTracks.base_size lim) tracks) /\
    Forall (TV.Model.FuelDistDefs.dist_ok (fun _ => TV.Num.Num.one) TV.Model.GridIntrinsic.limit_or_base (TV.Model.GridTracks.fit_content_limit inner)) tracks.
Proof.
  intros inner tracks Hin Hts. split.
  - intros is_flex uff lim Hl. apply TV.Proofs.FuelStepProofs.tk_dist_base; assumption.
  - apply TV.Proofs.FuelStepProofs.tk_dist_limit; assumption.
Qed.

Print Assumptions C03_intrinsic_step_fuel_independent.
Print Assumptions C03_intrinsic_step_fuelled_copy.
Print Assumptions C03_intrinsic_general_batch_invariant.
Print Assumptions C03_intrinsic_batch_loop_invariant.
Print Assumptions C03_intrinsic_tk_ok_gives_dist_ok.

(* non-vacuity: 3 tracks (auto / minmax(auto, fit-content(30)) / minmax(min-content, max-content)) between 4 gutter entries, a leaf of
   size 20 in the first track and a leaf of size 100 spanning all three, max-content constraint: the span-1 fast path gives 20 to the
   first track, then the spanning batch distributes the missing 80 over the other two.  The inputs are in the classes, and the step with
   5 / 7 / 3 more rounds of fuel computes the same track sizes. *)
Definition C03_ex_step_tracks : list (TV.Model.GridTracks.track TV.Num.QNum.XQ) :=
  let f := TV.Num.QNum.Fin in
  let g := TV.Model.GridTracks.new_track TV.Model.GridTracks.KGutter (TV.Model.GridTracks.SLength (f 0%Q)) (TV.Model.GridTracks.SLength (f 0%Q)) in
  TV.Model.GridTracks.initialize_track_sizes None
    [ g; TV.Model.GridTracks.new_track TV.Model.GridTracks.KTrack TV.Model.GridTracks.SAuto TV.Model.GridTracks.SAuto;
      g; TV.Model.GridTracks.new_track TV.Model.GridTracks.KTrack TV.Model.GridTracks.SAuto (TV.Model.GridTracks.SFitPx (f 30%Q));
      g; TV.Model.GridTracks.new_track TV.Model.GridTracks.KTrack TV.Model.GridTracks.SMinContent TV.Model.GridTracks.SMaxContent; g ].
Definition C03_ex_step_items : list (TV.Model.GridIntrinsic.item TV.Num.QNum.XQ) :=
  [ TV.Model.GridIntrinsic.mk_axis_item 1 0 0 3 false (TV.Num.QNum.Fin 0%Q) C03_ex_step_tracks;
    TV.Model.GridIntrinsic.mk_axis_item 0 0 0 1 false (TV.Num.QNum.Fin 0%Q) C03_ex_step_tracks ].
Definition C03_ex_step_contrib := TV.Model.GridIntrinsic.leaf_contrib None C03_ex_step_tracks [TV.Num.QNum.Fin 20%Q; TV.Num.QNum.Fin 100%Q].
Example C03_intrinsic_step_fuel_independent_example :
  TV.Model.FuelStepDefs.inner_ok (@None TV.Num.QNum.XQ) /\
  Forall (TV.Model.FuelStepDefs.item_ok C03_ex_step_contrib) C03_ex_step_items /\
  Forall TV.Model.FuelStepDefs.tk_ok C03_ex_step_tracks /\
  map TV.Model.GridIntrinsic.it_span C03_ex_step_items = [3%nat; 1%nat] /\
  map TV.Model.GridTracks.base_size
      (TV.Model.FuelStepDefs.resolve_intrinsic_f C03_ex_step_contrib None TV.Model.GridTracks.MaxContentA 5 7 3 C03_ex_step_items C03_ex_step_tracks)
  = [TV.Num.QNum.Fin 0%Q; TV.Num.QNum.Fin 20%Q; TV.Num.QNum.Fin 0%Q; TV.Num.QNum.Fin (80 # 2)%Q; TV.Num.QNum.Fin 0%Q; TV.Num.QNum.Fin (80 # 2)%Q; TV.Num.QNum.Fin 0%Q] /\
  map TV.Model.GridTracks.base_size
      (TV.Model.GridIntrinsic.resolve_intrinsic_track_sizes C03_ex_step_contrib None TV.Model.GridTracks.MaxContentA C03_ex_step_items C03_ex_step_tracks)
  = [TV.Num.QNum.Fin 0%Q; TV.Num.QNum.Fin 20%Q; TV.Num.QNum.Fin 0%Q; TV.Num.QNum.Fin (80 # 2)%Q; TV.Num.QNum.Fin 0%Q; TV.Num.QNum.Fin (80 # 2)%Q; TV.Num.QNum.Fin 0%Q].
Proof.
  split; [exact I|]. split.
  - repeat constructor; try (vm_compute; exact I); intro k; destruct k; vm_compute; exact I.
  - split; [apply TV.Proofs.FuelStepProofs.tk_okb_sound; vm_compute; reflexivity|].
    split; [vm_compute; reflexivity|]. split; vm_compute; reflexivity.
Qed.
