(* compute_leaf_layout (src/compute/leaf.rs) for SizingMode::InherentSize, `Num`-generic, definitions only.
   The measure function is a parameter value: `MNone` (no context: returns zero) or `MFixed w h` (the harness's
   Ctx::Fixed); both ignore the available space, so the available-space computation of l.110-132 (which only feeds
   the measure function) is not modelled. *)
From Coq Require Import ZArith Bool List.
From TV Require Import Num.Num Gen.BlockGen Model.Block.
Import ListNotations.

Inductive Measure (T : Type) := MNone | MFixed (w h : T).
Arguments MNone {T}. Arguments MFixed {T}.
Inductive RunMode := ComputeSize | PerformLayout.

Section Leaf.
  Context {T : Type} `{Num T}.

  (* harness/src/treegen.rs `measure` restricted to None / Ctx::Fixed *)
  Definition measure_fn (m : Measure T) (known : BSize (option T)) : BSize T :=
    let r := match m with MNone => sz_zero | MFixed w h => mkSize w h end in
    mkSize (o_unwrap (s_w known) (s_w r)) (o_unwrap (s_h known) (s_h r)).

  Record LeafResolved := mkLeafResolved {
    lf_padding : BRect T; lf_border : BRect T; lf_pb : BRect T; lf_cbi : BRect T;
    lf_node_size : BSize (option T); lf_min : BSize (option T); lf_max : BSize (option T);
  }.

  Definition leaf_resolve (st : BStyle T) (known parent : BSize (option T)) : LeafResolved :=
    let pw := s_w parent in
    let padding := rect_resolve_or_zero (st_padding st) pw in
    let border := rect_resolve_or_zero (st_border st) pw in
    let pb := rect_add padding border in
    let pbs := sum_axes pb in
    let bsa := if st_content_box st then pbs else sz_zero in
    let ar := st_aspect_ratio st in
    let style_size := resolve_size_style (st_size st) parent ar bsa in
    let style_min := resolve_size_style (st_min_size st) parent ar bsa in
    (* max_size: no aspect ratio step in leaf.rs *)
    let style_max := resolve_size_style (st_max_size st) parent None bsa in
    let node_size := mkSize (o_or (s_w known) (s_w style_size)) (o_or (s_h known) (s_h style_size)) in
    let g := scrollbar_gutter st in
    let cbi := mkRect (r_left pb) (add (r_right pb) (r_right g)) (r_top pb) (add (r_bottom pb) (r_bottom g)) in
    mkLeafResolved padding border pb cbi node_size style_min style_max.

  (* has_styles_preventing_being_collapsed_through (leaf.rs l.76-85) *)
  Definition leaf_prevent_ct (st : BStyle T) (known parent : BSize (option T)) : bool :=
    let R := leaf_resolve st known parent in
    orb (negb (match st_display st with DBlock => true | _ => false end))
    (orb (is_scroll_container (st_overflow_x st))
    (orb (is_scroll_container (st_overflow_y st))
    (orb (position_is_absolute (st_position st))
    (orb (ltb zero (r_top (lf_padding R)))
    (orb (ltb zero (r_bottom (lf_padding R)))
    (orb (ltb zero (r_top (lf_border R)))
    (orb (ltb zero (r_bottom (lf_border R)))
    (orb (o_gt_zero (s_h (lf_node_size R))) (o_gt_zero (s_h (lf_min R))))))))))).

  Definition leaf_layout (st : BStyle T) (m : Measure T) (known parent : BSize (option T)) (run : RunMode) : ChildOut T :=
    let R := leaf_resolve st known parent in
    let prevent := leaf_prevent_ct st known parent in
    let pbs := sum_axes (lf_pb R) in
    let early :=
      match run, prevent, s_w (lf_node_size R), s_h (lf_node_size R) with
      | ComputeSize, true, Some w, Some h =>
          Some (mkSize (fmax (f_maybe_clamp w (s_w (lf_min R)) (s_w (lf_max R))) (s_w pbs))
                       (fmax (f_maybe_clamp h (s_h (lf_min R)) (s_h (lf_max R))) (s_h pbs)))
      | _, _, _, _ => None
      end in
    match early with
    | Some size => mkOut size sz_zero ms_ZERO ms_ZERO false
    | None =>
        let measured := measure_fn m (match run with ComputeSize => known | PerformLayout => sz_none end) in
        let cw := f_maybe_clamp (o_unwrap (o_or (s_w known) (s_w (lf_node_size R))) (add (s_w measured) (h_sum (lf_cbi R))))
                                (s_w (lf_min R)) (s_w (lf_max R)) in
        let ch := f_maybe_clamp (o_unwrap (o_or (s_h known) (s_h (lf_node_size R))) (add (s_h measured) (v_sum (lf_cbi R))))
                                (s_h (lf_min R)) (s_h (lf_max R)) in
        let h1 := fmax ch (match st_aspect_ratio st with Some ratio => div cw ratio | None => zero end) in
        let size := mkSize (fmax cw (s_w pbs)) (fmax h1 (s_h pbs)) in
        let content := mkSize (add (s_w measured) (h_sum (lf_padding R))) (add (s_h measured) (v_sum (lf_padding R))) in
        mkOut size content ms_ZERO ms_ZERO
              (andb (negb prevent) (andb (eqb (s_h size) zero) (eqb (s_h measured) zero)))
    end.
End Leaf.
Arguments LeafResolved : clear implicits.
