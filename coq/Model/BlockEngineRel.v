(* Relations on the vocabulary of the block engine (Model/BlockEngine.v, Model/BlockAlg.v) over the exact instance XQ,
   extending Model/ScaleBlock.v: LayoutInput (`BIn`), stored Layout (`BLayout`), nodes, and the premises on the two
   parameters of the block resumption.  Definitions only.  `X_rel k x x'` = x' is x with every length scaled by k (up to the
   equality of rationals); at k = 1 it is "equal as numbers" (Proofs/ScaleKit.v dl_sc1), which is the reading C12 uses. *)
From Coq Require Import QArith ZArith Bool List.
From TV Require Import Num.Num Num.QNum.
From TV Require Model.Types Model.Common Model.Leaf Model.Scale.
From TV Require Import Gen.BlockGen Model.Block Model.Engine Model.EngineRel Model.BlockAlg Model.ScaleBlock Model.BlockEngine.
Import ListNotations.

Definition bav_rel (k : Q) (a a' : Avail XQ) : Prop :=
  match a, a' with
  | Definite x, Definite y => sc k x y
  | MinContent, MinContent | MaxContent, MaxContent => True
  | _, _ => False
  end.
Definition bav_scale (k : Q) (a : Avail XQ) : Avail XQ := match a with Definite x => Definite (x_scale k x) | o => o end.

(* LayoutInput *)
Definition bin_rel (k : Q) (i i' : BIn XQ) : Prop :=
  bi_mode i' = bi_mode i /\ bi_inherent i' = bi_inherent i /\
  bsz_rel (op_rel (sc k)) (bi_known i) (bi_known i') /\ bsz_rel (op_rel (sc k)) (bi_parent i) (bi_parent i') /\
  bsz_rel (bav_rel k) (bi_avail i) (bi_avail i') /\ bi_collapsible i' = bi_collapsible i.
Definition bin_scale (k : Q) (i : BIn XQ) : BIn XQ :=
  mkBIn (bi_mode i) (bi_inherent i) (bsz_map (opt_scale k) (bi_known i)) (bsz_map (opt_scale k) (bi_parent i))
        (bsz_map (bav_scale k) (bi_avail i)) (bi_collapsible i).

(* the stored (unrounded) Layout *)
Definition blay_rel (k : Q) (l l' : BLayout XQ) : Prop :=
  bl_order l' = bl_order l /\ sc k (bl_x l) (bl_x l') /\ sc k (bl_y l) (bl_y l') /\ bsz_rel (sc k) (bl_size l) (bl_size l') /\
  bsz_rel (sc k) (bl_content_size l) (bl_content_size l') /\ bsz_rel (sc k) (bl_scrollbar l) (bl_scrollbar l') /\
  brc_rel (sc k) (bl_padding l) (bl_padding l') /\ brc_rel (sc k) (bl_border l) (bl_border l') /\
  brc_rel (sc k) (bl_margin l) (bl_margin l').
Definition blay_scale (k : Q) (l : BLayout XQ) : BLayout XQ :=
  mkLay (bl_order l) (x_scale k (bl_x l)) (x_scale k (bl_y l)) (bsz_map (x_scale k) (bl_size l))
        (bsz_map (x_scale k) (bl_content_size l)) (bsz_map (x_scale k) (bl_scrollbar l)) (brc_map (x_scale k) (bl_padding l))
        (brc_map (x_scale k) (bl_border l)) (brc_map (x_scale k) (bl_margin l)).

(* C04: a node of the scaled tree -- scaled style, and a measure function that is the scaled measure function *)
Definition bnode_rel (k : Q) (n n' : BNode XQ) : Prop :=
  bstyle_rel k (bn_style n) (bn_style n') /\ Scale.measure_homog k (bn_measure n) (bn_measure n').

(* what the BLOCK algorithm reads of a style (its own or a child's), up to scaling: every field except box_sizing / size /
   min_size / max_size, and those four only through the two resolutions the algorithm performs -- `block_resolve` (the
   container's own size / min / max against its parent size) and `generate_item` (a child's against the container's inner
   size).  bstyle_rel k implies it; so does the content-box -> border-box rewrite of an eligible style at k = 1. *)
Definition bstyle_wrel (k : Q) (s s' : BStyle XQ) : Prop :=
  st_display s' = st_display s /\ st_overflow_x s' = st_overflow_x s /\ st_overflow_y s' = st_overflow_y s /\
  sc k (st_scrollbar_width s) (st_scrollbar_width s') /\ st_position s' = st_position s /\
  brc_rel (blpa_rel k) (st_margin s) (st_margin s') /\ brc_rel (blpa_rel k) (st_padding s) (st_padding s') /\
  brc_rel (blpa_rel k) (st_border s) (st_border s') /\ st_text_align s' = st_text_align s /\
  (forall inp inp', binput_rel k inp inp' -> bresolved_rel k (block_resolve s inp) (block_resolve s' inp')) /\
  (forall nis nis' order, bsz_rel (op_rel (sc k)) nis nis' -> bitem_rel k (generate_item s nis order) (generate_item s' nis' order)).

Section Premises.
  Variable k : Q.
  Variable SR : BStyle XQ -> BStyle XQ -> Prop.          (* the relation between the styles of the two trees *)

  Notation BAlgRel := (AlgRel (BIn XQ) (ChildOut XQ) (BLayout XQ) (bin_rel k) (bout_rel k) (blay_rel k)).

  (* items of the two runs: the same child, related styles, related resolved records *)
  Definition aitem_rel (a a' : @AItem XQ) : Prop :=
    ai_node a' = ai_node a /\ SR (ai_style a) (ai_style a') /\ bitem_rel k (ai_item a) (ai_item a').

  (* premise on the absolute-item routine (parameter of Model/BlockAlg.v) *)
  Definition AbsChildRel (abs_child : @AbsChild XQ) : Prop :=
    forall st st' sz sz' a a' r r' (K K' : BSize XQ -> Engine.Alg (BIn XQ) (ChildOut XQ) (BLayout XQ)),
      SR st st' -> bsz_rel (sc k) sz sz' -> aitem_rel a a' -> bres_rel k r r' ->
      (forall v v', bsz_rel (sc k) v v' -> BAlgRel (K v) (K' v')) ->
      BAlgRel (abs_child st sz a r K) (abs_child st' sz' a' r' K').

  (* premise on the input preprocessing (parameter of Model/BlockAlg.v) *)
  Definition PreRel (pre : BStyle XQ -> BIn XQ -> BIn XQ) : Prop :=
    forall st st' i i', SR st st' -> bin_rel k i i' -> bin_rel k (pre st i) (pre st' i').
End Premises.
