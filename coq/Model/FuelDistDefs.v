(* Vocabulary of the fuel-sufficiency statements about `distribute_loop` at the intrinsic-sizing call sites
   (Props/C03.v, Proofs/FuelDistProofs.v).  Definitions only.

   `inc_inv f`          f does not read `item_incurred_increase` (the only field an iteration of the loop writes)
   `dist_ok p prop lim` the class of tracks the statements are about: affected property finite, limit finite or +infinity,
                        incurred increase finite and >= 0, distribution proportion finite and >= 0
   `base_inner_fuelled e1 e2`, `base_size_fuelled e1 e2`, `growth_limit_fuelled e`
                        distribute_item_space_to_base_size_inner / distribute_item_space_to_growth_limit with `e` more rounds of
                        fuel at their calls of distribute_space_up_to_limits (e = 0 is the model's function, by computation:
                        `base_inner_fuelled_0`, `growth_limit_fuelled_0` in Proofs/FuelDistProofs.v) *)
From Coq Require Import ZArith QArith Bool List.
From TV Require Import Num.Num Num.QNum Gen.GridTracksGen Model.GridTracks Model.GridIntrinsic.
Import ListNotations.

Definition inc_inv {A : Type} (f : track XQ -> A) : Prop := forall t v, f (set_incurred t v) = f t.

Definition dist_ok (p prop lim : track XQ -> XQ) (t : track XQ) : Prop :=
  finite (prop t) /\ (finite (lim t) \/ lim t = PInf) /\
  finite (incurred t) /\ (0 <= val (incurred t))%Q /\
  finite (p t) /\ (0 <= val (p t))%Q.

Section Fuelled.
  Context {T : Type} `{Num T}.
  Local Open Scope num_scope.
  Notation track := (track T).

  (* the filter of the second distribution of distribute_item_space_to_base_size_inner *)
  Definition base_filter1 (ct : contribution_type) : track -> bool :=
    match ct with
    | CMinimum => fun t => is_intrinsic (maxf t)
    | CMaximum => fun t => is_max_content (minf t) || is_max_or_fit_content (maxf t)
    end.
  Definition base_filter2 (ct : contribution_type) (is_affected : track -> bool) (ts1 : list track) : track -> bool :=
    match length (filter (fun t => is_affected t && base_filter1 ct t) ts1) with O => fun _ => true | _ => base_filter1 ct end.

  Definition base_inner_fuelled (e1 e2 : nat) (space : T) (tracks : list track) (is_affected : track -> bool)
             (proportion limit : track -> T) (ct : contribution_type) : list track :=
    if (space =? zero) || negb (existsb is_affected tracks) then tracks
    else
      let track_sizes := fsum (map base_size tracks) in
      let extra := fmax zero (space - track_sizes) in
      let '(extra1, ts1) := distribute_loop is_affected proportion base_size limit (e1 + distribute_fuel tracks) extra tracks in
      let ts2 :=
        if base_threshold <? extra1 then
          let filter1 := match ct with
                         | CMinimum => fun t => is_intrinsic (maxf t)
                         | CMaximum => fun t => is_max_content (minf t) || is_max_or_fit_content (maxf t)
                         end in
          let number := length (filter (fun t => is_affected t && filter1 t) ts1) in
          let filter2 := match number with O => fun _ => true | _ => filter1 end in
          snd (distribute_loop filter2 proportion base_size limit (e2 + distribute_fuel ts1) extra1 ts1)
        else ts1 in
      map (fun t => let t' := if base_planned t <? incurred t then set_base_planned t (incurred t) else t in
                    set_incurred t' zero) ts2.

  (* distribute_item_space_to_base_size (what `to_base` calls), over base_inner_fuelled *)
  Definition base_size_proportion (is_flex use_flex_factor : bool) : track -> T :=
    if is_flex && use_flex_factor then flex_factor else fun _ => one.
  Definition base_size_fuelled (e1 e2 : nat) (is_flex use_flex_factor : bool) (space : T) (tracks : list track)
             (is_affected : track -> bool) (limit : track -> T) (ct : contribution_type) : list track :=
    if is_flex then
      let flt := fun t => is_flexible t && is_affected t in
      if use_flex_factor then base_inner_fuelled e1 e2 space tracks flt flex_factor limit ct
      else base_inner_fuelled e1 e2 space tracks flt (fun _ => one) limit ct
    else base_inner_fuelled e1 e2 space tracks is_affected (fun _ => one) limit ct.

  Definition growth_limit_fuelled (inner : option T) (e : nat) (space : T) (tracks : list track) (is_affected : track -> bool)
    : list track :=
    if (space =? zero) || Nat.eqb (length (filter is_affected tracks)) 0 then tracks
    else
      let track_sizes := fsum (map limit_or_base tracks) in
      let extra_space := fmax zero (space - track_sizes) in
      let grows := fun t => is_affected t
                            && (infinitely_growable t || (fit_content_limited_growth_limit inner t =? infinity)) in
      let number_of_growable_tracks := length (filter grows tracks) in
      let ts1 :=
        match number_of_growable_tracks with
        | S _ =>
            let item_incurred_increase := extra_space / of_Z (Z.of_nat number_of_growable_tracks) in
            map (fun t => if grows t then set_incurred t item_incurred_increase else t) tracks
        | O => snd (distribute_loop is_affected (fun _ => one) limit_or_base (fit_content_limit inner)
                      (e + distribute_fuel tracks) extra_space tracks)
        end in
      map (fun t => let t' := if limit_planned t <? incurred t then set_limit_planned t (incurred t) else t in
                    set_incurred t' zero) ts1.
End Fuelled.
