(* C14 -- the method bodies translated from src/tree/taffy_tree.rs (Gen/TreeBodiesGen.v, target language
   Model/TreeImp.v) are equal to the hand-written methods of Model/Tree.v: every state, every argument. *)
From Coq Require Import NArith List Bool Arith Lia.
From TV Require Import Model.Tree Model.TreeImp Gen.TreeBodiesGen Proofs.TreeSlotMap.
Import ListNotations.

Ltac unf :=
  unfold st_set_parent, st_push_child, st_insert_child, st_vec_remove, st_vec_replace, st_vec_drain,
    st_vec_clear, st_get_mut_retain_ne, st_vec_write, st_mark_dirty, st_remove_children, st_remove_parents, st_remove_nodes,
    st_insert_nodes, st_insert_children, st_insert_parents, unwrap_ret, mark_dirty, of_opt, bind,
    set_parents_map, set_children_map, set_nodes in *.

Ltac red_ := cbn [fst snd t_nodes t_ctx t_children t_parents] in *.

Ltac case1 :=
  match goal with
  | H : ?x = _ |- context [match ?x with _ => _ end] => rewrite H
  | |- context [match ?x with _ => _ end] =>
      lazymatch x with
      | context [match _ with _ => _ end] => fail
      | _ => destruct x eqn:?
      end
  end.

Ltac crush := unf; red_; repeat (case1; red_); try reflexivity; try congruence.

Lemma gen_child_count_eq t p : gen_child_count t p = (n <- child_count t p ;; Ok (N.of_nat n)).
Proof. unfold gen_child_count, child_count. crush. Qed.

Lemma gen_child_at_index_eq t p i : gen_child_at_index t p i = child_at_index t p i.
Proof. unfold gen_child_at_index, child_at_index. crush. Qed.

Lemma gen_parent_eq t c : gen_parent t c = parent t c.
Proof. reflexivity. Qed.

Lemma gen_children_eq t p : gen_children t p = children t p.
Proof. unfold gen_children, children. crush. Qed.

Lemma gen_add_child_eq t p c : gen_add_child t p c = add_child t p c.
Proof. unfold gen_add_child, add_child. crush. Qed.

Lemma gen_insert_child_at_index_eq t p i c : gen_insert_child_at_index t p i c = insert_child_at_index t p i c.
Proof. unfold gen_insert_child_at_index, insert_child_at_index. crush. Qed.

Lemma gen_remove_child_at_index_eq t p i : gen_remove_child_at_index t p i = remove_child_at_index t p i.
Proof. unfold gen_remove_child_at_index, remove_child_at_index. crush. Qed.

Lemma gen_remove_child_eq t p c : gen_remove_child t p c = remove_child t p c.
Proof.
  unfold gen_remove_child, remove_child, position_N.
  unfold bind. destruct (sm_index (t_children t) p); [|reflexivity].
  destruct (position c a); cbn; [apply gen_remove_child_at_index_eq | reflexivity].
Qed.

Lemma gen_replace_child_at_index_eq t p i c : gen_replace_child_at_index t p i c = replace_child_at_index t p i c.
Proof. unfold gen_replace_child_at_index, replace_child_at_index. crush. Qed.

(* ---- loops *)
Lemma tree_eta t : mkTree (t_nodes t) (t_ctx t) (t_children t) (t_parents t) = t.
Proof. destruct t; reflexivity. Qed.

(* for child in l { self.parents[child] = v } *)
Lemma st_for_set_parent v : forall l t,
  st_for l (fun t1 c => t2 <- st_set_parent t1 c v ;; Ok t2) t =
  (p <- sm_set_all (t_parents t) l v ;; Ok (set_parents_map t p)).
Proof.
  induction l as [|c r IH]; intro t; cbn [st_for sm_set_all].
  - cbn. unfold set_parents_map. now rewrite tree_eta.
  - unfold st_set_parent at 1. unfold bind at 1 2 3. unfold bind at 2.
    destruct (sm_set (t_parents t) c v); [|reflexivity].
    rewrite IH. reflexivity.
Qed.

Lemma gen_remove_children_range_eq t p a b : gen_remove_children_range t p a b = remove_children_range t p a b.
Proof.
  unfold gen_remove_children_range, remove_children_range.
  unfold st_vec_drain. unfold bind at 1 2.
  destruct (sm_index (t_children t) p); [|reflexivity]. cbn [bind].
  destruct (N.ltb b a || N.ltb (N.of_nat (length a0)) b); [reflexivity|].
  unfold st_vec_write. unfold bind at 1 2. unfold bind at 4.
  destruct (sm_set (t_children t) p (vec_drain_rest a0 (N.to_nat a) (N.to_nat b))); [|reflexivity].
  cbn [bind fst snd]. rewrite st_for_set_parent. crush.
Qed.

Lemma gen_new_leaf_eq t : gen_new_leaf t = new_leaf t.
Proof. unfold gen_new_leaf, new_leaf. crush. Qed.

Lemma gen_new_with_children_eq t cs : gen_new_with_children t cs = new_with_children t cs.
Proof. unfold gen_new_with_children, new_with_children. cbv zeta. rewrite st_for_set_parent. crush. Qed.

Lemma gen_remove_eq t n : gen_remove t n = remove t n.
Proof.
  unfold gen_remove, remove. cbv zeta.
  destruct (sm_index (t_parents t) n) as [pp|]; cbn [bind]; [|reflexivity].
  destruct pp as [q|].
  - unfold st_get_mut_retain_ne, st_vec_write.
    destruct (sm_get (t_children t) q) eqn:Hq.
    + destruct (sm_set (t_children t) q (retain_ne n l)) eqn:Hs; cbn [bind]; [|reflexivity].
      unfold st_mark_dirty, mark_dirty, set_children_map. cbn [t_nodes bind].
      destruct (sm_contains (t_nodes t) q); cbn [bind t_children]; [|reflexivity].
      destruct (sm_get a n); [rewrite st_for_set_parent|]; crush.
    + unfold st_mark_dirty, mark_dirty. cbn [bind].
      destruct (sm_contains (t_nodes t) q); cbn [bind]; [|reflexivity].
      destruct (sm_get (t_children t) n); [rewrite st_for_set_parent|]; crush.
  - cbn [bind]. destruct (sm_get (t_children t) n); [rewrite st_for_set_parent|]; crush.
Qed.
