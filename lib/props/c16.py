"""C16 -- layout cost.  Accounting identities are theorems (Props/C16.v); the numeric bound is explored on the implementation:
random fresh trees (64 x node count) and a deterministic corpus of single-child chains of typical container styles.
The pinned tree violates both clauses on part of the chain corpus: those inputs (with their measure counts) are the
known finding, listed in corpus/C16-typical-baseline.json; any other failing input, or a listed one getting worse, is a violation."""
from ..common import *
from ..stages import *
from ..engine_k import engine_correspondence

LEVEL = 'other'
NTYP = 6561


def run(rep, tier, seed, replay=None):
    res, changed = proof_stage(rep, 'C16', extra_trusted=[
        'only the accounting identities are proved; the bound itself is established on the explored inputs only'])
    rc, out, binp, dt = build_harness('release')
    if rc != 0:
        rep.add_broken('build', 'harness', out[-1500:])
        return
    engine_correspondence(rep, binp, seed + 16, 200 if tier == 'quick' else 2000)
    # ---- the EXECUTABLE cost model (wave 6c): the engine with the real cache (Model/EngineReal.v `memo_real`, block algorithm + leaf
    # kernel) predicts every node's layout AND, per node and pass, the numbers of compute_cached_layout calls, cache hits and
    # measure-function calls of TaffyTree::compute_layout_with_measure without the exact-key hook: random trees + deterministic block
    # chains of depth 1..16 over a measured leaf, bit-exact and count-exact
    from . import _blockreal
    esc = bool([c for c in changed if c.startswith('gen_cache:') or 'compute_cached_layout' in c or 'compute_child_layout' in c
                or 'compute_hidden_layout' in c or 'compute_root_layout' in c or 'block' in c.lower()])
    _blockreal.real_tree_k(rep, 'C16', binp, seed + 1616, 3000 if tier != 'quick' or esc else 300)
    _blockreal.real_chain_k(rep, 'C16', binp)
    # ---- wave 7a: the COMPLETE engine (block + flex + grid + leaves) under the real cache: random mixed trees + deterministic chains
    # mixing the three container kinds (typical styles of the corpus below), layouts bit for bit, counts exactly; and the replay of the
    # computed chain theorems (C16_real_chain_growth_refuted = the known finding as a model theorem; C16_real_flex_chain_bound_partial)
    from . import _taffyreal
    esc7 = esc or bool([c for c in changed if 'flex' in c.lower() or 'grid' in c.lower() or 'leaf' in c.lower()])
    _taffyreal.real_tree_k(rep, 'C16', binp, seed + 1716, 2000 if tier != 'quick' or esc7 else 200)
    _taffyreal.real_chain_k(rep, 'C16', binp, _taffyreal.thorough_chain_spans() if tier != 'quick' or esc7 else None)
    _taffyreal.chain_witnesses(rep, binp)
    base = json.load(open(os.path.join(ROOT, 'corpus', 'C16-typical-baseline.json')))['failing']
    rc, out = vh(binp, ['c16', 'typical', 0, 0, NTYP], timeout=600)
    if 'DONE' not in out:
        rep.add_broken('search', 'vh c16 typical', out[-600:])
        return
    now = {}
    for l in out.split('\n'):
        m = re.match(r'FAIL (\d+) typical counts=([\d,]+) (.*)', l)
        if m:
            now[m.group(1)] = ([int(x) for x in m.group(2).split(',')], m.group(3))
    new, worse, same, gone = [], [], 0, 0
    for idx, (counts, desc) in now.items():
        if idx not in base:
            new.append((idx, counts, desc))
        else:
            b = base[idx]
            # worse = stops earlier (blow-up at a smaller depth) or more calls at the deepest common depth
            if len(counts) < len(b) or (len(counts) == len(b) and counts[-1] > b[-1]):
                worse.append((idx, counts, desc, b))
            else:
                same += 1
    gone = len([i for i in base if i not in now])
    rep.cov['typical_chain_cases'] = NTYP
    rep.cov['typical_failing_now'] = len(now)
    rep.cov['typical_failing_baseline'] = len(base)
    rep.cov['typical_baseline_no_longer_failing'] = gone
    if same:
        over = sum(1 for i, (c, d) in now.items() if i in base and (len(c) < 4 or c[-1] > 64 * 64))
        rep.known.append('chain-measure-growth: %d of %d single-child chains of typical flex/grid/block styles measure the leaf more often as the '
                         'chain gets deeper (linear growth), %d of them exceed 64 x node count or blow up exponentially (cache slot clobbering); '
                         'inputs and counts listed in corpus/C16-typical-baseline.json' % (same, NTYP, over))
    for idx, counts, desc in new[:3]:
        rep.add_violation('chain %s: leaf measure calls %s (not a recorded finding)' % (desc, counts), {'idx': int(idx), 'cmd': 'vh c16 typical 0 %s 1' % idx})
    for idx, counts, desc, b in worse[:3]:
        rep.add_violation('chain %s: leaf measure calls %s, worse than the recorded finding %s' % (desc, counts, b), {'idx': int(idx), 'cmd': 'vh c16 typical 0 %s 1' % idx})
    # ---- alternating chains (levels alternate between two variants of one container style; a definite cross available space far
    # above every max-size) and the enum sweep (one container kind per chain, every combination of the enum-valued properties that
    # decide which child queries are issued: grid auto-flow x align-items x justify-items, flex direction x align-items x wrap):
    # same baseline semantics as the typical corpus
    for fam, nfam in (('alternating', 216), ('enumsweep', 336)):
        abase = json.load(open(os.path.join(ROOT, 'corpus', 'C16-%s-baseline.json' % fam)))['failing']
        rc, out = vh(binp, ['c16', fam, 0, 0, nfam], timeout=300)
        if 'DONE' not in out:
            rep.add_broken('search', 'vh c16 %s' % fam, out[-600:])
            continue
        anow = {}
        for l in out.split('\n'):
            m = re.match(r'FAIL (\d+) %s counts=([\d,]+) (.*)' % fam, l)
            if m:
                anow[m.group(1)] = ([int(x) for x in m.group(2).split(',')], m.group(3))
        rep.cov['%s_chain_cases' % fam] = nfam
        rep.cov['%s_failing_now' % fam] = len(anow)
        rep.cov['%s_failing_baseline' % fam] = len(abase)
        rep.cov['evaluations'] = rep.cov.get('evaluations', 0) + nfam
        nrep = 0
        for idx, (counts, desc) in sorted(anow.items(), key=lambda kv: int(kv[0])):
            b = abase.get(idx)
            if b is None:
                what = 'chain %s: leaf measure calls %s (not a recorded finding)' % (desc, counts)
            elif len(counts) < len(b) or (len(counts) == len(b) and counts[-1] > b[-1]):
                what = 'chain %s: leaf measure calls %s, worse than the recorded finding %s' % (desc, counts, b)
            else:
                continue
            if nrep < 3:
                rep.add_violation(what, {'idx': int(idx), 'cmd': 'vh c16 %s 0 %s 1' % (fam, idx)})
            nrep += 1
    # random fresh trees: 64 x node count
    n = 600 if tier == 'quick' else 6000
    rc, out, _ = sh('ulimit -v 6000000; C16_TREES_ONLY=1 %s c16 oracle %d 0 %d' % (binp, seed, n), timeout=900)
    fails = [l for l in out.split('\n') if l.startswith('FAIL ') and ' tree ' in l]
    if 'DONE' not in out:
        rep.add_broken('search', 'vh c16 oracle', out[-600:])
    for l in fails[:3]:
        rep.add_violation(l[:400], {'seed': seed, 'idx': int(l.split()[1]), 'cmd': 'vh c16 oracle %d %s 1' % (seed, l.split()[1])})
    rep.cov['random_trees_checked'] = n
    rep.cov['evaluations'] = rep.cov.get('evaluations', 0) + NTYP + n
    rep.cov['explanation'] = ('Accounting identities (a hit evaluates nothing; an evaluated query is a hit afterwards; an exact memo never displaces a '
                              'size entry) are machine-checked for the engine skeleton. The numeric bound depends on the real algorithms\' query '
                              'sequences and the 9 lossy slots; for trees of block containers and leaves it is now the count of an executable '
                              'model (engine + real cache, Model/EngineReal.v) compared count for count on every run (blocktree_real_cache, '
                              'block_chains_real_cache; C16_real_miss_count, C16_real_chain_bound_partial), and since wave 7a the same for ALL '
                              'node kinds (taffytree_real_cache, taffy_chains_real_cache; C16_real_taffy_pass_counts; the known finding is the '
                              'model theorem C16_real_chain_growth_refuted, replayed). The bound itself is explored: %d deterministic chains (depths 9/18/36/63, 9 typical container '
                              'styles in period-3 mixes, 3 leaves, 3 available spaces) against the recorded baseline, and %d random fresh trees '
                              'against 64 x node count.' % (NTYP, n))
    rep.cov['rule'] = 'distinct = distinct chain/tree inputs; non-trivial = every case lays out a tree with a measured leaf and counts measure calls'
    rep.cov['distinct_nontrivial'] = max(rep.cov.get('distinct_nontrivial', 0), 2) + NTYP
