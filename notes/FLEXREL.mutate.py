#!/usr/bin/env python3
"""Mutation experiments for the wave-6b machinery (whole flex containers in ./check C04 and ./check C12; see notes/FLEXREL.md).
Never touches /repo: every mutant is applied to a scratch worktree /tmp/w6b-repo which is removed afterwards.
usage: python3 notes/FLEXREL.mutate.py [name ...]"""
import json
import os
import re
import subprocess
import sys
import time

ROOT = os.path.dirname(os.path.dirname(os.path.abspath(__file__)))
WT = '/tmp/w6b-repo'

MUT = {
    # --- must be reported
    # the floor of the known finding moved: the model's flex_alg (floor 1.0) no longer is the code
    'F1_floor_two': ('src/compute/flexbox.rs', ['C04'], [(
        "let scaled_shrink_factor = f32_max(1.0, item.flex_shrink * item.inner_flex_basis);",
        "let scaled_shrink_factor = f32_max(2.0, item.flex_shrink * item.inner_flex_basis);")]),
    # a second absolute length in the algorithm: the hypothetical cross size of every item is floored at 1px
    'F2_cross_size_floor_one_px': ('src/compute/flexbox.rs', ['C04'], [(
        "            .maybe_clamp(child.min_size.cross(constants.dir), child.max_size.cross(constants.dir))\n            .max(padding_border_sum)\n        });\n        let child_outer_cross",
        "            .maybe_clamp(child.min_size.cross(constants.dir), child.max_size.cross(constants.dir))\n            .max(padding_border_sum)\n            .max(1.0)\n        });\n        let child_outer_cross")]),
    # the flex-basis box-sizing adjustment dropped
    'F3_flex_basis_unadjusted': ('src/compute/flexbox.rs', ['C12'], [(
        "            .maybe_resolve(container_width, |val, basis| tree.calc(val, basis))\n            .maybe_add(box_sizing_adjustment);\n\n        drop(child_style);",
        "            .maybe_resolve(container_width, |val, basis| tree.calc(val, basis));\n        let _ = box_sizing_adjustment;\n\n        drop(child_style);")]),
    # --- must stay silent: two independent lets of determine_hypothetical_cross_size swapped
    'H1_swap_lets': ('src/compute/flexbox.rs', ['C04', 'C12'], [(
        "        let padding_border_sum = (child.padding + child.border).cross_axis_sum(constants.dir);\n\n        let child_known_main = constants.container_size.main(constants.dir).into();\n",
        "        let child_known_main = constants.container_size.main(constants.dir).into();\n\n        let padding_border_sum = (child.padding + child.border).cross_axis_sum(constants.dir);\n")]),
}


def sh(cmd, **kw):
    return subprocess.run(cmd, shell=True, stdout=subprocess.PIPE, stderr=subprocess.STDOUT, text=True, **kw)


def main():
    names = sys.argv[1:] or list(MUT)
    for name in names:
        rel, props, edits = MUT[name]
        sh('git -C /repo worktree remove --force %s' % WT)
        r = sh('git -C /repo worktree add --detach %s HEAD' % WT)
        if r.returncode != 0:
            print(r.stdout)
            sys.exit(1)
        try:
            p = os.path.join(WT, rel)
            s = open(p).read()
            for old, new in edits:
                assert s.count(old) == 1, (name, 'pattern not unique / not found', s.count(old))
                s = s.replace(old, new)
            open(p, 'w').write(s)
            for prop in props:
                t0 = time.time()
                env = dict(os.environ, VERIF_REPO=WT)
                r = sh('timeout 2400 ./check %s' % prop, cwd=ROOT, env=env)
                lines = [l for l in r.stdout.split('\n') if l.startswith(('VIOLATION', 'KNOWN-FINDING'))]
                print('== %s / %s: exit %d, %.0fs, %d VIOLATION, %d KNOWN-FINDING' % (
                    name, prop, r.returncode, time.time() - t0, sum(l.startswith('VIOLATION') for l in lines), sum(l.startswith('KNOWN') for l in lines)))
                shown = 0
                for l in r.stdout.split('\n'):
                    if 'BROKEN' in l and shown < 6:
                        shown += 1
                        print('   ', l[:260])
                for l in lines:
                    m = re.search(r'replay=(\S+)', l)
                    if m and os.path.exists(m.group(1)):
                        d = json.load(open(m.group(1)))
                        print('    %s | %s' % (str(d.get('what'))[:200], json.dumps(d.get('replay', {}))[:160]))
        finally:
            sh('git -C /repo worktree remove --force %s' % WT)


if __name__ == '__main__':
    main()
