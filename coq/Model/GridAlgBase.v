(* The tree interface as the grid algorithm sees it (src/tree/layout.rs LayoutInput / LayoutOutput / Layout, complete) and the
   style of a node as src/style/mod.rs `Style` gives it to compute_grid_layout (container AND item accessors: GridContainerStyle,
   GridItemStyle, CoreStyle).  Definitions only; shared by Model/GridAlg.v (the algorithm as a resumption) and Model/GridAlgRun.v
   (the K runner).

   LayoutOutput is Model/Leaf.v `LayoutOutput` (all six fields).  calc() values and named grid lines / areas are out of scope.
   The geometry types are those of Model/Types.v; the kernel translated from align_and_position_item (Gen/AbsPosGen.v
   grid_resolve / grid_known / grid_place) speaks Model/AbsPosBase.v: the conversions are here. *)
From Coq Require Import ZArith Bool List.
From TV Require Import Model.Common Model.Leaf Gen.GridTracksGen Model.GridTracks.
From TV Require Import Model.FiltersBase Gen.FiltersGen Model.ItemFilters.
From TV Require Model.PlacementBase Model.Placement Gen.AbsPosEnums Model.AbsPosBase Gen.AbsPosGen Model.Engine Model.FlexAlgBase.
Import ListNotations.
Close Scope Z_scope.

Module PB := PlacementBase.
Module PL := Placement.
Module AB := AbsPosBase.
Module AE := AbsPosEnums.
Module AG := AbsPosGen.

(* enum RequestedAxis, LayoutInput (all seven fields), Layout: the interface types of Model/FlexAlgBase.v, so that grid, flex and block
   containers can sit in one engine *)
Notation ReqAxis := FlexAlgBase.ReqAxis.
Notation AxHorizontal := FlexAlgBase.AxHorizontal.
Notation AxVertical := FlexAlgBase.AxVertical.
Notation AxBoth := FlexAlgBase.AxBoth.
Notation GIn := FlexAlgBase.FIn.
Notation mkGIn := FlexAlgBase.mkFIn.
Notation gi_mode := FlexAlgBase.qi_mode.
Notation gi_sizing := FlexAlgBase.qi_sizing.
Notation gi_axis := FlexAlgBase.qi_axis.
Notation gi_known := FlexAlgBase.qi_known.
Notation gi_parent := FlexAlgBase.qi_parent.
Notation gi_avail := FlexAlgBase.qi_avail.
Notation gi_collapsible := FlexAlgBase.qi_collapsible.
Notation GLay := FlexAlgBase.FLay.
Notation mkGLay := FlexAlgBase.mkFLay.
Notation gl_order := FlexAlgBase.fl_order.
Notation gl_location := FlexAlgBase.fl_location.
Notation gl_size := FlexAlgBase.fl_size.
Notation gl_content_size := FlexAlgBase.fl_content_size.
Notation gl_scrollbar_size := FlexAlgBase.fl_scrollbar_size.
Notation gl_border := FlexAlgBase.fl_border.
Notation gl_padding := FlexAlgBase.fl_padding.
Notation gl_margin := FlexAlgBase.fl_margin.
(* LayoutOutput / Layout up to content_size, Layout::with_order(i) *)
Notation gout_eq := FlexAlgBase.fout_eq.
Notation glay_eq := FlexAlgBase.flay_eq.
Notation g_with_order := FlexAlgBase.f_with_order.
Notation g_zeroish := FlexAlgBase.f_zeroish.

(* enum AbstractAxis / AbsoluteAxis (as_abs_naive: Inline = Horizontal, Block = Vertical) *)
Inductive GAxis := Inline | Block.
Definition other_ax (a : GAxis) : GAxis := match a with Inline => Block | Block => Inline end.
Definition req_of (a : GAxis) : ReqAxis := match a with Inline => AxHorizontal | Block => AxVertical end.

(* Style: the fields the grid algorithm reads of the container and of its children *)
Record GStyle (T : Type) := mkGStyle {
  gs_core : Style T;                          (* Model/Leaf.v: display position box_sizing overflow scrollbar_width size min_size max_size
                                                 aspect_ratio margin padding border *)
  gs_inset : Rect (LengthPercentageAuto T);
  (* GridContainerStyle *)
  gs_template_columns : list (tsf T); gs_template_rows : list (tsf T);
  gs_auto_columns : list (nrt T); gs_auto_rows : list (nrt T);
  gs_flow : PB.flow;
  gs_gap : Size (LengthPercentage T);
  gs_align_items : option AE.AlignItems; gs_justify_items : option AE.AlignItems;
  gs_align_content : option align_content; gs_justify_content : option align_content;
  (* GridItemStyle *)
  gs_row : PB.Ln PB.GP; gs_column : PB.Ln PB.GP;
  gs_align_self : option AE.AlignItems; gs_justify_self : option AE.AlignItems;
  gs_replaced : bool;                          (* is_compressible_replaced (Style::item_is_replaced) *)
}.
Arguments mkGStyle {T}. Arguments gs_core {T}. Arguments gs_inset {T}. Arguments gs_template_columns {T}. Arguments gs_template_rows {T}.
Arguments gs_auto_columns {T}. Arguments gs_auto_rows {T}. Arguments gs_flow {T}. Arguments gs_gap {T}. Arguments gs_align_items {T}.
Arguments gs_justify_items {T}. Arguments gs_align_content {T}. Arguments gs_justify_content {T}. Arguments gs_row {T}.
Arguments gs_column {T}. Arguments gs_align_self {T}. Arguments gs_justify_self {T}. Arguments gs_replaced {T}.

Section Base.
  Context {T : Type} `{Num T}.

  (* the two accessors the child iterators of compute_grid_layout test *)
  Definition g_position (s : GStyle T) : GPosition :=
    match position (gs_core s) with Relative => Position_Relative | Absolute => Position_Absolute end.
  Definition g_gdisplay (s : GStyle T) : GDisplay :=
    match display (gs_core s) with DBlock => Display_Block | DFlex => Display_Flex | DGrid => Display_Grid | DNone => Display_None end.
  Definition g_bgm (s : GStyle T) : GBoxGenerationMode := style_box_generation_mode (g_gdisplay s).

  Definition g_is_none (s : GStyle T) : bool := s_hidden g_bgm s.                              (* display: none *)
  Definition g_visible_absolute (s : GStyle T) : bool := s_visible_absolute g_position g_bgm s. (* box-generating and position: absolute *)
  Definition g_in_flow (s : GStyle T) : bool := s_in_flow g_position g_bgm s.

  (* the placement style of a child, as Model/Placement.v reads it *)
  Definition g_child (s : GStyle T) : PL.child := PL.mkChild (gs_row s) (gs_column s).

  Definition get_ax {A} (s : Size A) (a : GAxis) : A := match a with Inline => width s | Block => height s end.
  Definition set_ax {A} (s : Size A) (a : GAxis) (v : A) : Size A :=
    match a with Inline => mkSize v (height s) | Block => mkSize (width s) v end.
  Definition point_get_ax {A} (p : Point A) (a : GAxis) : A := match a with Inline => px p | Block => py p end.

  (* gap as a track sizing function (initialize_grid_tracks builds the gutters from it) *)
  Definition lp_sfn (g : LengthPercentage T) : sfn T := match g with LpLength v => SLength v | LpPercent v => SPercent v end.

  (* ---- conversions to the vocabulary of the translated kernel *)
  Definition a_size {A} (s : Size A) : AB.Size A := AB.mkSize (width s) (height s).
  Definition a_rect {A} (r : Rect A) : AB.Rect A := AB.mkRect (r_left r) (r_right r) (r_top r) (r_bottom r).
  Definition c_size {A} (s : AB.Size A) : Size A := mkSize (AB.s_width s) (AB.s_height s).
  Definition c_rect {A} (r : AB.Rect A) : Rect A := mkRect (AB.r_left r) (AB.r_right r) (AB.r_top r) (AB.r_bottom r).
  Definition c_point {A} (p : AB.Point A) : Point A := mkPoint (AB.p_x p) (AB.p_y p).
  Definition a_lpa (d : LengthPercentageAuto T) : AB.Dim T :=
    match d with Auto => AB.DAuto | Length v => AB.DLength v | Percent v => AB.DPercent v end.
  Definition a_lp (d : LengthPercentage T) : AB.Dim T :=
    match d with LpLength v => AB.DLength v | LpPercent v => AB.DPercent v end.

  (* the child style as align_and_position_item reads it *)
  Definition abs_style (st : GStyle T) : AB.AbsStyle T :=
    let c := gs_core st in
    AB.mkAbsStyle (a_size (size_map a_lpa (size c))) (a_size (size_map a_lpa (min_size c))) (a_size (size_map a_lpa (max_size c)))
                  (a_rect (rect_map a_lpa (gs_inset st))) (a_rect (rect_map a_lpa (margin c)))
                  (a_rect (rect_map a_lp (padding c))) (a_rect (rect_map a_lp (border c)))
                  (aspect_ratio c) (match box_sizing c with ContentBox => AE.BS_ContentBox | BorderBox => AE.BS_BorderBox end)
                  (gs_align_self st) (gs_justify_self st)
                  (match position c with Absolute => AE.Pos_Absolute | Relative => AE.Pos_Relative end).

  (* a bare display:none style: Style::DEFAULT with display None *)
  Definition lpa_auto_rect : Rect (LengthPercentageAuto T) := mkRect Auto Auto Auto Auto.
  Definition lpa_zero_rect : Rect (LengthPercentageAuto T) := mkRect (Length zero) (Length zero) (Length zero) (Length zero).
  Definition lp_zero_rect : Rect (LengthPercentage T) := mkRect (LpLength zero) (LpLength zero) (LpLength zero) (LpLength zero).
  Definition dim_auto_size : Size (Dimension T) := mkSize Auto Auto.
  Definition auto_ln : PB.Ln PB.GP := PB.mkLn PB.Auto PB.Auto.
  Definition default_core (d : Display) (p : Position) : Style T :=
    mkStyle d p BorderBox (mkPoint Visible Visible) zero dim_auto_size dim_auto_size dim_auto_size None lpa_zero_rect lp_zero_rect lp_zero_rect.
  Definition default_gstyle (d : Display) (p : Position) : GStyle T :=
    mkGStyle (default_core d p) lpa_auto_rect [] [] [] [] PB.FRow (mkSize (LpLength zero) (LpLength zero)) None None None None
             auto_ln auto_ln None None false.
  Definition bare_none_gstyle : GStyle T := default_gstyle DNone Relative.
  Definition g_hidden_view (s : GStyle T) : GStyle T := if g_is_none s then bare_none_gstyle else s.
  (* a bare absolute child that keeps only its grid lines (what the attribution run of the C06 oracle puts in place of an absolute subtree) *)
  Definition bare_abs_gstyle (row col : PB.Ln PB.GP) : GStyle T :=
    mkGStyle (default_core DBlock Absolute) lpa_auto_rect [] [] [] [] PB.FRow (mkSize (LpLength zero) (LpLength zero)) None None None None
             row col None None false.

End Base.
