"""Mutation experiments for the grid resumption (Model/GridAlg.v) and its K (never touches /repo: a scratch worktree, /tmp/w5a-repo or
$MUT_REPO).  usage: MUT_CHECKS=C05,C06,C09 python3 notes/GRIDALG.mutate.py [names...]   (creates the worktree if missing; remove it afterwards
with  git -C /repo worktree remove --force /tmp/w5a-repo)"""
import json
import os
import subprocess
import sys
import time

R = os.environ.get('MUT_REPO', '/tmp/w5a-repo')
W = os.path.dirname(os.path.dirname(os.path.abspath(__file__)))
GRID = 'src/compute/grid/mod.rs'
TS = 'src/compute/grid/track_sizing.rs'
GI = 'src/compute/grid/types/grid_item.rs'


def reset():
    subprocess.run(['git', '-C', R, 'checkout', '--', '.'], check=True)


# name -> ({check: expected to report}, [(file, old, new)])
MUT = {
    'G1_hidden_query_not_canonical': ({'C05': True, 'C06': True, 'C09': True}, [(GRID, """                Size::NONE,
                Size::NONE,
                Size::MAX_CONTENT,
                SizingMode::InherentSize,
                Line::FALSE,
            );
            // Set the order after the hidden layout""", """                Size::NONE,
                Size::NONE,
                Size::MIN_CONTENT,
                SizingMode::InherentSize,
                Line::FALSE,
            );
            // Set the order after the hidden layout""")]),
    'G2_placement_receives_display_none_children': ({'C05': True, 'C06': False, 'C09': True}, [(GRID, """            .filter(|(_, _, style)| {
                style.box_generation_mode() != BoxGenerationMode::None && style.position() != Position::Absolute
            })""", """            .filter(|(_, _, style)| style.position() != Position::Absolute)""")]),
    'G3_baselines_only_when_laying_out': ({'C05': True, 'C06': True, 'C09': True}, [(TS, """    if has_baseline_aligned_item {
        resolve_item_baselines(tree, axis, items, inner_node_size);
    }""", """    if has_baseline_aligned_item && inner_node_size.width.is_some() {
        resolve_item_baselines(tree, axis, items, inner_node_size);
    }""")]),
    # payload only: C05 / C06 stay silent (their theorems use no arithmetic fact), C09 owns the arithmetic
    'G4_top_margin_resolved_against_zero': ({'C05': False, 'C06': False, 'C09': True}, [(GI, """            top: self.margin.top.resolve_or_zero(inner_node_width, |val, basis| tree.calc(val, basis))
                + self.baseline_shim,""", """            top: self.margin.top.resolve_or_zero(Some(0.0), |val, basis| tree.calc(val, basis))
                + self.baseline_shim,""")]),
    'G5_order_not_advanced_for_absolute_children': ({'C05': True, 'C06': True, 'C09': True}, [(GRID, """                item_content_size_contribution = item_content_size_contribution.f32_max(content_size_contribution);
            }

            order += 1;
        }
    });""", """                item_content_size_contribution = item_content_size_contribution.f32_max(content_size_contribution);
            }
        }
    });""")]),
    'G6_row_rerun_test_filters_on_rows': ({'C05': True, 'C06': True, 'C09': True}, [(GRID, """                items.iter_mut().filter(|item| item.crosses_intrinsic_column).any(|item| {
                    let available_space = item.available_space(
                        AbstractAxis::Block,""", """                items.iter_mut().filter(|item| item.crosses_intrinsic_row).any(|item| {
                    let available_space = item.available_space(
                        AbstractAxis::Block,""")]),
    'G7_order_stored_before_the_hidden_layout': ({'C05': True, 'C06': False, 'C09': True}, [(GRID, """            drop(child_style);
            tree.perform_child_layout(
                child,
                Size::NONE,
                Size::NONE,
                Size::MAX_CONTENT,
                SizingMode::InherentSize,
                Line::FALSE,
            );
            // Set the order after the hidden layout (which zeroes the whole layout) so that it does not depend
            // on whether the child's hidden layout was served from the cache
            tree.set_unrounded_layout(child, &Layout::with_order(order));""", """            drop(child_style);
            tree.set_unrounded_layout(child, &Layout::with_order(order));
            tree.perform_child_layout(
                child,
                Size::NONE,
                Size::NONE,
                Size::MAX_CONTENT,
                SizingMode::InherentSize,
                Line::FALSE,
            );""")]),
    'G8_max_content_cache_not_cleared_in_rerun_test': ({'C05': True, 'C06': True, 'C09': True}, [(GRID, """                item.min_content_contribution_cache.width = Some(new_min_content_contribution);
                item.max_content_contribution_cache.width = None;
                item.minimum_contribution_cache.width = None;""", """                item.min_content_contribution_cache.width = Some(new_min_content_contribution);
                item.minimum_contribution_cache.width = None;""")]),
    # harmless rewrites: must stay silent
    'H1_harmless': ({'C05': False, 'C06': False, 'C09': False}, [
        (GRID, """        if child_style.box_generation_mode() == BoxGenerationMode::None {
            drop(child_style);""", """        if matches!(child_style.box_generation_mode(), BoxGenerationMode::None) {
            drop(child_style);"""),
        (GRID, """    let align_content = style.align_content().unwrap_or(AlignContent::Stretch);
    let justify_content = style.justify_content().unwrap_or(JustifyContent::Stretch);""", """    let justify_content = style.justify_content().unwrap_or(JustifyContent::Stretch);
    let align_content = style.align_content().unwrap_or(AlignContent::Stretch);""")]),
}


REDUCED = {
    'G1_hidden_query_not_canonical': ['C05', 'C09'],
    'G2_placement_receives_display_none_children': ['C05'],
    'G3_baselines_only_when_laying_out': ['C05', 'C09'],
    'G4_top_margin_resolved_against_zero': ['C05', 'C09'],
    'G5_order_not_advanced_for_absolute_children': ['C05', 'C06'],
    'G6_row_rerun_test_filters_on_rows': ['C06', 'C09'],
    'G7_order_stored_before_the_hidden_layout': ['C05'],
    'G8_max_content_cache_not_cleared_in_rerun_test': ['C06', 'C09'],
    'H1_harmless': ['C05', 'C06', 'C09'],
}


def main():
    if not os.path.isdir(R):
        subprocess.run(['git', '-C', '/repo', 'worktree', 'add', '--detach', R, 'HEAD'], check=True)
    names = sys.argv[1:] or list(MUT)
    all_checks = os.environ.get('MUT_CHECKS', 'C05,C06,C09').split(',')
    for name in names:
        checks = [c for c in all_checks if not os.environ.get('MUT_REDUCED') or c in REDUCED.get(name, all_checks)]
        reset()
        expect, edits = MUT[name]
        for f, old, new in edits:
            p = os.path.join(R, f)
            s = open(p).read()
            assert s.count(old) == 1, (name, f, s.count(old))
            open(p, 'w').write(s.replace(old, new))
        for pid in checks:
            t0 = time.time()
            cmd = 'ulimit -v 6000000; exec timeout 1500 ./check %s' % pid
            p = subprocess.run(['sh', '-c', cmd], cwd=W, env=dict(os.environ, VERIF_REPO=R), capture_output=True, text=True)
            dt = time.time() - t0
            want = expect.get(pid)
            print('=====', name, pid, 'rc', p.returncode, '%.0fs' % dt, 'expected-to-report' if want else 'expected-silent',
                  'OK' if (p.returncode != 0) == bool(want) else '*** UNEXPECTED ***', flush=True)
            for l in p.stdout.split('\n'):
                if l.strip() and not l.startswith('KNOWN-FINDING'):
                    print('   ', l[:220])
            try:
                ev = json.load(open(os.path.join(W, '.work', 'evidence-alt', pid + '.json')))
            except Exception as ex:
                print('    no evidence file:', ex)
                continue
            c = ev['coverage']
            print('    gridalg_k', {k: v for k, v in (c.get('gridalg_k') or {}).items() if k in ('cases', 'structure_agrees', 'bit_exact')},
                  'ns_witness', (c.get('grid_ns_witness') or {}).get('reproduces_on_implementation'),
                  'abs_witness', (c.get('grid_abs_witness') or {}).get('reproduces_on_implementation'),
                  'obligations', c.get('obligations'), 'discharged', c.get('discharged'))
            rd = os.path.join(W, '.work', 'evidence-alt', 'replay')
            seen = set()
            if os.path.isdir(rd):
                for f in sorted(os.listdir(rd)):
                    if f.startswith(pid + '-'):
                        d = json.load(open(os.path.join(rd, f)))
                        print('     ', f, '|', d['what'][:300])
                        for b in d.get('broken', []):
                            key = b['kind'] + ':' + b['name']
                            if key not in seen:
                                seen.add(key)
                                print('         broken', key[:90], '|', str(b.get('detail'))[:260].replace('\n', ' '))
                        os.remove(os.path.join(rd, f))
    reset()


if __name__ == '__main__':
    main()
