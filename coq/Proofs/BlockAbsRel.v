(* The REAL absolute-item routine of block containers (Model/BlockAbs.v `abs_child_block`: the translated kernel
   Gen/AbsPosGen.v behind the vocabulary adapter, one query + one stored layout) satisfies the premise `AbsChildRel` of the
   relational theorem about the block resumption (Proofs/BlockAlgRel.v), for any style relation SR that
     (1) implies the weak relation of everything the block algorithm reads of a style (SR_weak), and
     (2) makes the translated style resolution `block_resolve` of the absolute child relational (SR_abs).
   Instances:
     C04   SR = bstyle_rel k, k > 0: (2) is Proofs/ScaleAbsProofs.v rel_block_resolve (C04_abs_styles) through the adapter
     C12   SR = the content-box -> border-box rewrite of eligible styles at k = 1: (2) is Proofs/BoxSizingAbsProofs.v
           block_resolve_invariant (C12_abs_block) -- the adapter commutes with the rewrite -- composed with (C04) at k = 1 for
           areas that are only equal as numbers.
   The rest of the routine (known dimensions, the query's inputs, final size / margins / location, the stored layout, the content
   size contribution) only reads the resolved `AbsIn`: kernel lemmas rel_block_known / rel_block_place / rel_block_abs_area. *)
From Coq Require Import QArith Qabs Lqa Bool List ZArith Lia.
From TV Require Import Num.Num Num.QNum Gen.BlockGen Model.Block Model.Engine Model.EngineRel.
From TV Require Import Model.FiltersBase Gen.FiltersGen Model.ItemFilters Model.BlockAlg Model.ScaleBlock Model.BlockEngine Model.BlockEngineRel.
From TV Require Gen.AbsPosEnums Model.AbsPosBase Gen.AbsPosGen Model.BoxSizingAbs Proofs.BoxSizingAbsProofs.
From TV Require Import Model.ScaleAbs Proofs.ScaleAbsProofs Model.BlockAbs.
From TV Require Import Proofs.ScaleKit Proofs.ScaleBlock Proofs.BlockAlgRel Proofs.EngineHomog Proofs.EngineBoxSizing.
Import ListNotations.
Close Scope Z_scope.

(* ------------------------------------------------------------------------------------------------------------ *)
(** * The adapter preserves the relations *)

Section Adapter.
  Variable k : Q.
  Hypothesis Hk : 0 < k.
  Notation L := (sc k).
  Notation O := (op_rel (sc k)).

  Lemma ab_dim_rel d d' : blpa_rel k d d' -> dim_rel k (ab_dim d) (ab_dim d').
  Proof. destruct d, d'; cbn; auto. Qed.
  Lemma ab_size_rel {A B} (R : A -> A -> Prop) (R' : B -> B -> Prop) (f : A -> B) s s' :
    (forall x x', R x x' -> R' (f x) (f x')) -> bsz_rel R s s' -> asz_rel R' (ab_size f s) (ab_size f s').
  Proof. intros Hf [H1 H2]. split; cbn; apply Hf; assumption. Qed.
  Lemma ab_rect_rel {A B} (R : A -> A -> Prop) (R' : B -> B -> Prop) (f : A -> B) r r' :
    (forall x x', R x x' -> R' (f x) (f x')) -> brc_rel R r r' -> arc_rel R' (ab_rect f r) (ab_rect f r').
  Proof. intros Hf (H1 & H2 & H3 & H4). repeat split; cbn; apply Hf; assumption. Qed.
  Lemma ba_size_rel {A} (R : A -> A -> Prop) s s' : asz_rel R s s' -> bsz_rel R (ba_size s) (ba_size s').
  Proof. intros [H1 H2]. split; assumption. Qed.
  Lemma ba_rect_rel {A} (R : A -> A -> Prop) r r' : arc_rel R r r' -> brc_rel R (ba_rect r) (ba_rect r').
  Proof. intros (H1 & H2 & H3 & H4). repeat split; assumption. Qed.

  Lemma abs_style_of_rel s s' : bstyle_rel k s s' -> absstyle_rel k (abs_style_of s) (abs_style_of s').
  Proof.
    intros (Edisp & Etab & Ecb & Eox & Eoy & Hsw & Epos & Hinset & Hsize & Hmin & Hmax & Har & Hmargin & Hpad & Hbor & Eta).
    unfold absstyle_rel, abs_style_of.
    cbn [AbsPosBase.st_size AbsPosBase.st_min_size AbsPosBase.st_max_size AbsPosBase.st_inset AbsPosBase.st_margin
         AbsPosBase.st_padding AbsPosBase.st_border AbsPosBase.st_aspect_ratio AbsPosBase.st_box_sizing AbsPosBase.st_align_self
         AbsPosBase.st_justify_self AbsPosBase.st_position].
    rewrite Ecb, Epos.
    repeat match goal with |- _ /\ _ => split end; try reflexivity; try assumption;
      first [apply (ab_size_rel (blpa_rel k)); [apply ab_dim_rel|assumption]
            |apply (ab_rect_rel (blpa_rel k)); [apply ab_dim_rel|assumption]].
  Qed.

  (* the area absolute children are positioned against, from the weak relation on the container's style *)
  Lemma abs_area_rel st st' sz sz' : bstyle_wrel k st st' -> bsz_rel L sz sz' ->
    asz_rel L (fst (abs_area st sz)) (fst (abs_area st' sz')) /\ apt_rel L (snd (abs_area st sz)) (snd (abs_area st' sz')).
  Proof.
    intros (Wdisp & Wox & Woy & Wsw & Wpos & Wmargin & Wpad & Wbor & Wta & Wres & Witem) Hsz. unfold abs_area.
    first [apply (rel_block_abs_area k Hk)|apply (rel_block_abs_area k)].
    - apply (ab_size_rel L); [intros x x' Hx; exact Hx|exact Hsz].
    - apply (ab_rect_rel L); [intros x x' Hx; exact Hx|]. apply (rel_rect_resolve_or_zero k Hk); [exact Wbor|]. cbn [op_rel]. apply Hsz.
    - unfold abs_gutter_offsets. rewrite Wox, Woy. split; cbn [AbsPosBase.p_x AbsPosBase.p_y];
        match goal with |- context [if ?b then _ else _] => destruct b end; auto using sc_zero.
  Qed.

  Lemma abs_min_size_rel i i' : absin_rel k i i' -> asz_rel O (abs_min_size i) (abs_min_size i').
  Proof.
    intros (_ & _ & _ & _ & _ & [Hpw Hph] & _ & [Hmw Hmh] & _). unfold abs_min_size, AbsPosBase.size_zip2, AbsPosBase.size_or, AbsPosBase.size_map.
    cbn [AbsPosBase.s_width AbsPosBase.s_height].
    split; cbn [AbsPosBase.s_width AbsPosBase.s_height]; apply (rel_maybe_max_OF k Hk); try assumption;
      apply (arel_opt_or L); cbn [op_rel]; assumption.
  Qed.
End Adapter.

(* ------------------------------------------------------------------------------------------------------------ *)
(** * AbsChildRel for the real routine *)

Section AbsChildBlock.
  Variable k : Q.
  Hypothesis Hk : 0 < k.
  Variable SR : BStyle XQ -> BStyle XQ -> Prop.
  Hypothesis SR_weak : forall s s', SR s s' -> bstyle_wrel k s s'.
  Hypothesis SR_abs : forall s s' a a' o o', SR s s' -> asz_rel (sc k) a a' -> apt_rel (sc k) o o' ->
    absin_rel k (AbsPosGen.block_resolve a o (abs_style_of s)) (AbsPosGen.block_resolve a' o' (abs_style_of s')).
  Notation L := (sc k).
  Notation O := (op_rel (sc k)).

  Theorem abs_child_block_rel : AbsChildRel k SR (abs_child_block (T := XQ)).
  Proof.
    intros st st' sz sz' a a' r r' K K' Hst Hsz (En & Has & Hit) Hr HK. unfold abs_child_block. rewrite En.
    destruct (abs_area_rel k Hk st st' sz sz' (SR_weak _ _ Hst) Hsz) as [Harea Hoff].
    set (area := fst (abs_area st sz)) in *. set (area' := fst (abs_area st' sz')) in *.
    set (off := snd (abs_area st sz)) in *. set (off' := snd (abs_area st' sz')) in *.
    pose proof (SR_abs _ _ area area' off off' Has Harea Hoff) as Hi.
    set (i := AbsPosGen.block_resolve area off (abs_style_of (ai_style a))) in *.
    set (i' := AbsPosGen.block_resolve area' off' (abs_style_of (ai_style a'))) in *.
    destruct Hit as (Eord & Eitab & Hisz & Himin & Himax & Eiox & Eioy & Hisw & Eipos & Hiinset & Himargin & Hipad & Hibor & Hipb).
    destruct Hr as (Erord & Erin & Hrx & Hry & Hrsz & Hrm & Hrsb & Hrsx & Hrsy & _).
    assert (Hsp : apt_rel L (AbsPosBase.mkPoint (ir_static_x r) (ir_static_y r)) (AbsPosBase.mkPoint (ir_static_x r') (ir_static_y r')))
      by (split; assumption).
    pose proof (rel_block_known k Hk _ _ _ _ _ _ _ _ Harea Hoff Hsp Hi) as Hknown.
    apply AR_query.
    - unfold abs_query_input, bin_rel. cbn [bi_mode bi_inherent bi_known bi_parent bi_avail bi_collapsible].
      pose proof (abs_min_size_rel k Hk _ _ Hi) as [Hmnw Hmnh].
      pose proof Hi as (_ & _ & _ & _ & _ & _ & _ & _ & [Hmxw Hmxh] & _).
      destruct Harea as [Haw Hah].
      split; [reflexivity|]. split; [reflexivity|]. split; [apply ba_size_rel; exact Hknown|].
      split; [split; cbn [s_w s_h op_rel]; assumption|].
      split; [|reflexivity].
      split; cbn [s_w s_h bav_rel]; apply (rel_maybe_clamp_FOO k Hk); assumption.
    - intros o o' (Hos & Hoc & _).
      assert (Hm : asz_rel L (ab_size ab_id (co_size o)) (ab_size ab_id (co_size o')))
        by (apply (ab_size_rel L); [intros x x' Hx; exact Hx|exact Hos]).
      pose proof (rel_block_place k Hk _ _ _ _ _ _ _ _ _ _ Harea Hoff Hsp Hi Hm) as ([Hlx Hly] & Hosz & Hom).
      pose proof Hi as (_ & _ & _ & Hpad & Hbor & _).
      apply AR_set.
      + unfold abs_layout, blay_rel. cbn [bl_order bl_x bl_y bl_size bl_content_size bl_scrollbar bl_padding bl_border bl_margin].
        split; [exact Eord|]. split; [exact Hlx|]. split; [exact Hly|]. split; [apply ba_size_rel; exact Hosz|].
        split; [exact Hoc|]. split; [exact Hrsb|]. split; [apply ba_rect_rel; exact Hpad|].
        split; [apply ba_rect_rel; exact Hbor|apply ba_rect_rel; exact Hom].
      + apply HK. rewrite Eiox, Eioy. apply (rel_content_size_contribution k Hk); try assumption; apply ba_size_rel; exact Hosz.
  Qed.
End AbsChildBlock.

(* ------------------------------------------------------------------------------------------------------------ *)
(** * C04: styles related by scaling *)

Theorem abs_child_block_homog k : 0 < k -> AbsChildRel k (bstyle_rel k) (abs_child_block (T := XQ)).
Proof.
  intros Hk. apply (abs_child_block_rel k Hk (bstyle_rel k) (wrel_of_rel k Hk)).
  intros s s' a a' o o' Hs Ha Ho. apply (ScaleAbsProofs.rel_block_resolve k Hk); [exact Ha|exact Ho|apply abs_style_of_rel; exact Hs].
Qed.

(* ------------------------------------------------------------------------------------------------------------ *)
(** * C12: any subset of eligible styles rewritten from content-box to border-box, k = 1 *)

Lemma osc1_trans a b c : op_rel (sc 1) a b -> op_rel (sc 1) b c -> op_rel (sc 1) a c.
Proof. destruct a, b, c; cbn; try tauto. apply sc1_trans. Qed.
Lemma op_dl_trans a b c : op_rel dl a b -> op_rel dl b c -> op_rel dl a c.
Proof. destruct a, b, c; cbn; try tauto. apply dl_trans. Qed.
Lemma asz1_trans {A} (R : A -> A -> Prop) a b c : (forall x y z, R x y -> R y z -> R x z) ->
  asz_rel R a b -> asz_rel R b c -> asz_rel R a c.
Proof. intros HR [A1 A2] [B1 B2]. split; eapply HR; eassumption. Qed.
Lemma arc1_trans {A} (R : A -> A -> Prop) a b c : (forall x y z, R x y -> R y z -> R x z) ->
  arc_rel R a b -> arc_rel R b c -> arc_rel R a c.
Proof. intros HR (A1 & A2 & A3 & A4) (B1 & B2 & B3 & B4). repeat split; eapply HR; eassumption. Qed.

Lemma absin_rel1_trans a b c : absin_rel 1 a b -> absin_rel 1 b c -> absin_rel 1 a c.
Proof.
  intros (A1 & A2 & A3 & A4 & A5 & A6 & A7 & A8 & A9 & A10 & A11 & A12) (B1 & B2 & B3 & B4 & B5 & B6 & B7 & B8 & B9 & B10 & B11 & B12).
  unfold absin_rel.
  split; [eapply op_dl_trans; eassumption|].
  split; [eapply (arc1_trans (op_rel (sc 1))); [exact osc1_trans|eassumption|eassumption]|].
  split; [eapply (arc1_trans (op_rel (sc 1))); [exact osc1_trans|eassumption|eassumption]|].
  split; [eapply (arc1_trans (sc 1)); [exact sc1_trans|eassumption|eassumption]|].
  split; [eapply (arc1_trans (sc 1)); [exact sc1_trans|eassumption|eassumption]|].
  split; [eapply (asz1_trans (sc 1)); [exact sc1_trans|eassumption|eassumption]|].
  split; [eapply (asz1_trans (op_rel (sc 1))); [exact osc1_trans|eassumption|eassumption]|].
  split; [eapply (asz1_trans (op_rel (sc 1))); [exact osc1_trans|eassumption|eassumption]|].
  split; [eapply (asz1_trans (op_rel (sc 1))); [exact osc1_trans|eassumption|eassumption]|].
  repeat split; congruence.
Qed.

Lemma osc1_of_xeq a b : LeafAxis.opt_xeq b a -> op_rel (sc 1) a b.
Proof. destruct a, b; cbn; try tauto. apply sc1_iff. Qed.
Lemma arc_refl {A} (R : A -> A -> Prop) r : (forall x, R x x) -> arc_rel R r r.
Proof. intros H. repeat split; apply H. Qed.
Lemma asz_refl {A} (R : A -> A -> Prop) s : (forall x, R x x) -> asz_rel R s s.
Proof. intros H. split; apply H. Qed.

(* "equal up to the equality of rationals in the three sizes" (the conclusion of C12_abs_block) is the k = 1 relation *)
Lemma absin_rel1_of_xeq i i' : BoxSizingAbsProofs.absin_xeq i' i -> absin_rel 1 i i'.
Proof.
  intros (E1 & E2 & E3 & E4 & E5 & E6 & [S1 S2] & [M1 M2] & [X1 X2] & E10 & E11 & E12). unfold absin_rel.
  rewrite E1, E2, E3, E4, E5, E6, E10, E11, E12.
  split; [apply op_dl_refl|]. split; [apply arc_refl; apply osc1_refl|]. split; [apply arc_refl; apply osc1_refl|].
  split; [apply arc_refl; apply sc1_refl|]. split; [apply arc_refl; apply sc1_refl|]. split; [apply asz_refl; apply sc1_refl|].
  split; [split; apply osc1_of_xeq; assumption|]. split; [split; apply osc1_of_xeq; assumption|].
  split; [split; apply osc1_of_xeq; assumption|]. repeat split; reflexivity.
Qed.

Lemma dim_rel1_refl d : dim_rel 1 d d.
Proof. destruct d; cbn; [exact I|apply sc1_refl|apply dl_refl]. Qed.
Lemma absstyle_rel1_refl st : absstyle_rel 1 st st.
Proof.
  unfold absstyle_rel. repeat match goal with |- _ /\ _ => split end; try reflexivity; try apply op_dl_refl;
    first [apply asz_refl; apply dim_rel1_refl|apply arc_refl; apply dim_rel1_refl].
Qed.

(* the adapter commutes with the rewrite, and preserves eligibility *)
Lemma ab_resolve_none (d : LPA XQ) : AbsPosBase.dim_resolve_or_zero (ab_dim d) None = lpa_resolve_or_zero d None.
Proof. destruct d; reflexivity. Qed.
Lemma ab_style_pb (s : BStyle XQ) : BoxSizingAbs.abs_style_pb (abs_style_of s) = ab_size ab_id (b_style_pb s).
Proof.
  unfold BoxSizingAbs.abs_style_pb, b_style_pb, abs_style_of, ab_size, ab_id, ab_rect, sum_axes, h_sum, v_sum, rect_add, rect_resolve_or_zero,
    AbsPosBase.rect_sum_axes, AbsPosBase.rect_horizontal_axis_sum, AbsPosBase.rect_vertical_axis_sum, AbsPosBase.rect_add, AbsPosBase.rect_map.
  cbn [AbsPosBase.st_padding AbsPosBase.st_border AbsPosBase.r_left AbsPosBase.r_right AbsPosBase.r_top AbsPosBase.r_bottom
       r_left r_right r_top r_bottom s_w s_h].
  rewrite !ab_resolve_none. reflexivity.
Qed.
Lemma ab_grow (pb : XQ) (d : LPA XQ) : ab_dim (b_grow pb d) = BoxSizingAbs.abs_grow_dim pb (ab_dim d).
Proof. destruct d; reflexivity. Qed.
Lemma abs_style_of_to_border_box (s : BStyle XQ) :
  abs_style_of (b_to_border_box s) = BoxSizingAbs.abs_to_border_box (abs_style_of s).
Proof.
  unfold BoxSizingAbs.abs_to_border_box. rewrite ab_style_pb. unfold abs_style_of, b_to_border_box, BoxSizingAbs.abs_grow_size, b_grow_size, ab_size, ab_id.
  cbn [AbsPosBase.st_size AbsPosBase.st_min_size AbsPosBase.st_max_size AbsPosBase.st_inset AbsPosBase.st_margin
       AbsPosBase.st_padding AbsPosBase.st_border AbsPosBase.st_aspect_ratio AbsPosBase.st_box_sizing AbsPosBase.st_align_self
       AbsPosBase.st_justify_self AbsPosBase.st_position AbsPosBase.s_width AbsPosBase.s_height
       st_size st_min_size st_max_size st_inset st_margin st_padding st_border st_aspect_ratio st_content_box st_position s_w s_h].
  rewrite !ab_grow. reflexivity.
Qed.
Lemma abs_style_of_eligible (s : BStyle XQ) : b_eligibleb s = true -> BoxSizingAbs.abs_eligible (abs_style_of s).
Proof.
  intros El. destruct (b_eligible_parts s El) as (Ecb & Epad & Ebor & Ear & Esz & Emn & Emx).
  unfold BoxSizingAbs.abs_eligible, BoxSizingAbs.abs_eligibleb, abs_style_of.
  cbn [AbsPosBase.st_size AbsPosBase.st_min_size AbsPosBase.st_max_size AbsPosBase.st_padding AbsPosBase.st_border
       AbsPosBase.st_aspect_ratio AbsPosBase.st_box_sizing].
  rewrite Ecb, Ear.
  assert (Hlen : forall d : LPA XQ, BoxSizingAbs.dim_is_length (ab_dim d) = lpa_is_len d) by (intros d; destruct d; reflexivity).
  assert (Hpct : forall d : LPA XQ, BoxSizingAbs.abs_dim_not_percent (ab_dim d) = lpa_not_pct d) by (intros d; destruct d; reflexivity).
  unfold BoxSizingAbs.abs_rect_forallb, BoxSizingAbs.abs_size_forallb, ab_rect, ab_size.
  cbn [AbsPosBase.r_left AbsPosBase.r_right AbsPosBase.r_top AbsPosBase.r_bottom AbsPosBase.s_width AbsPosBase.s_height].
  rewrite !Hlen, !Hpct.
  unfold brect_forallb in Epad, Ebor. unfold bsize_forallb in Esz, Emn, Emx. rewrite Epad, Ebor, Esz, Emn, Emx. reflexivity.
Qed.

Theorem abs_child_block_box_sizing_blind : AbsChildRel 1 bb_rel (abs_child_block (T := XQ)).
Proof.
  apply (abs_child_block_rel 1 Q01 bb_rel bb_weak).
  intros s s' a a' o o' Hs Ha Ho.
  pose proof (ScaleAbsProofs.rel_block_resolve 1 Q01 a a' o o' _ _ Ha Ho (absstyle_rel1_refl (abs_style_of s))) as H1.
  destruct Hs as [->|[El ->]]; [exact H1|].
  eapply absin_rel1_trans; [exact H1|]. rewrite abs_style_of_to_border_box.
  apply absin_rel1_of_xeq. apply BoxSizingAbsProofs.block_resolve_invariant. apply abs_style_of_eligible. exact El.
Qed.
