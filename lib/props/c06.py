"""C06 -- absolutely positioned children influence nothing outside their subtree (except content size / paint order).
proof: Props/C06.v (grid placement: absolute children are never placed, but the size estimate reads their styles -- refuted with a
model witness, complement proved: nothing changes while every absolute child is `harmless`; engine skeleton: AbsBlind algorithms
keep trees related up to content size outside out-of-flow subtrees; block: the in-flow kernel, the translated item pipelines and the block
algorithm as a resumption ARE AbsBlind -- theorems, see notes/C06.md wave 3b);
K: grid containers with display:none / absolute children carrying definite lines vs Model/PlacementRun.v (`vh c05 cases`, the C08
protocol and runner, half of the children absolute) -- the model reproduces the known finding, so K covers it exactly; K3: block containers with absolute children between in-flow ones
(`vh c10 kcases3 .. 300 0`: recorded child outputs) vs Model/BlockRun.v run_case2 = generate_item_list + block_inflow + compute_inner's decisions;
search: metamorphic oracle on FRESH trees through the public API (`vh c06 oracle`): one absolute node neutralised to a bare
position:absolute leaf, everything outside its subtree compared bit for bit except content_size of its ancestors and order of its
siblings; mismatches of the known class (known_findings.json C06/grid-estimate-absolute) are KNOWN, anything else a VIOLATION."""
from ..common import *
from ..stages import *
from . import _hidabs as H
from . import _placement as P
from . import _flexalg as FA
from . import _gridalg as GA

THEOREMS = [
    'C06_grid_never_placed : Forall2 (same_but Absolute (fun _ _ => True)) cs cs\' -> in_flow_children cs = in_flow_children cs\'',
    'C06_grid_estimate_absolute_refuted : exists children (all Absolute) o o\' o\'\', run 0 0 FRow children = Ok o /\\ run .. (map (neutralise Absolute) children) = Ok o\' /\\ '
    'run .. [] = Ok o\'\' /\\ o_rows o = (0,0,4) /\\ o_rows o\' = (0,0,1) /\\ o_rows o\'\' = (0,0,0)',
    'C06_grid_known_class : 0 <= ec, er < 32768 -> Forall (fun kc => fst kc = Absolute -> harmless ec er (snd kc)) cs -> '
    'grid_placement_run ec er fl (map (neutralise Absolute) cs) = grid_placement_run ec er fl cs',
    'C06_abs_blind_engine_partial : AbsBlind algo ab oeq leq -> asim t t\' -> memo f t i = Some (o, t1) -> memo f\' t\' i = Some (o\', t1\') -> '
    'asim t1 t1\' /\\ (ab (style t) = false -> oeq o o\')',
    'C06_block_inflow_abs_blind : Forall2 xrel xs xs\' (both absolute, or same in-flow item and child outputs equal up to content_size) -> '
    'Forall2 rrel (io_results (block_inflow P xs)) (io_results (block_inflow P xs\')) /\\ same in-flow records /\\ same static positions /\\ '
    'io_height, io_first_set, io_last_set equal /\\ block_can_collapse_through, block_outer_height, block_output_margins equal /\\ '
    '(Forall2 xrel_strict xs xs\' -> io_content_size equal)   [any Num instance]',
    'C06_block_inflow_delete_absolute : block_inflow P (in_flow_only xs) = block_inflow P xs with the absolute records filtered out',
    'C06_flex_items_ignore_absolute : agree_except (s_absolute position) f f\' cs -> flex_generate_items f position bgm build cs = '
    'flex_generate_items f\' position bgm build cs   [flex_generate_items is TRANSLATED from generate_anonymous_flex_items on every run]',
    'C06_grid_items_ignore_absolute, C06_block_items_absolute_flagged, C06_block_source_predicates, C06_block_content_width_ignores_absolute',
    'C06_block_algorithm_abs_blind : AbsChildLocal abs_child -> AbsBlind (block_alg pre abs_child) bs_visible_absolute out_eq lay_eq   '
    '[block_alg = compute_inner as a resumption, Model/BlockAlg.v]',
    'C06_block_engine_instance_partial : the conclusion of C06_abs_blind_engine_partial for engines of block containers and leaves, no premise on the algorithms',
    'C06_flex_algorithm_abs_blind : AbsBlind flex_alg f_visible_absolute fout_eq flay_eq   [flex_alg = compute_flexbox_layout as a resumption, '
    'Model/FlexAlg.v, K-exact against the event trace of the implementation]',
    'C06_blockflex_engine_instance : the conclusion of C06_abs_blind_engine for engines of block containers, flex containers and leaves',
    'C06_grid_algorithm_abs_blind_refuted : Forall2 (arel g_visible_absolute) [abs child on grid_row 4] [bare abs child] /\\ grid_alg (grid-auto-rows 7px) returns heights 28 / 7 / 0 (no child) /\\ '
    '~ ABis .. /\\ ~ AbsBlind grid_alg g_visible_absolute gout_eq glay_eq   [grid_alg = compute_grid_layout as a resumption, Model/GridAlg.v, K-exact against the event trace]',
    'C06_grid_algorithm_abs_blind_lines : (forall ab <= g_visible_absolute, Forall2 (a = b \\/ (ab a /\\ ab b /\\ same grid_row /\\ same grid_column)) st st\' -> '
    'ABis (abmask ab st) (grid_alg s st i) (grid_alg s st\' i)) /\\ (forall r c, AbsBlind grid_alg (ab_lines r c) gout_eq glay_eq)',
    'C06_grid_engine_instance_partial : the conclusion of C06_abs_blind_engine for engines of grid containers and leaves, ab = box-generating absolute on lines (r, c)',
    'C06_abs_blind_engine_keyed : AbsBlindK algo ab key oeq leq -> asimK t t\' -> memo f t i = Some (o, t1) -> memo f\' t\' i = Some (o\', t1\') -> asimK t1 t1\' /\\ (ab (style t) = false -> oeq o o\');  AbsBlind -> AbsBlindK',
    'C06_grid_algorithm_abs_blind_keyed : AbsBlindK grid_alg g_visible_absolute (fun s => (gs_row s, gs_column s)) gout_eq glay_eq',
    'C06_taffy_engine_instance_partial : AbsChildLocal abs_child -> the keyed conclusion for engines of block, flex, grid containers and leaves (taffy_algo), ab = box-generating absolute, key = grid lines',
    'C06_taffy_layout_pass_partial, C06_taffy_layout_passes_partial (audit 7b) : AbsChildLocal abs_child -> asimK t t\' -> root not absolute -> taffy_compute_root / taffy_passes '
    '(what `vh taffytree` evaluates) = Some on both sides -> asimK of the resulting trees',
    'C06_bl_engine_real_instance_partial (audit 7b) : the conclusion of C06_abs_blind_engine_partial for bl_memo block_pre abs_child_block, the engine `vh blocktree` runs',
    'computed instances (audit 7b): C06_bl_engine_real_example, C06_grid_algorithm_abs_blind_lines_example, C06_grid_algorithm_abs_blind_refuted_no_panic, '
    'C06_taffy_engine_example (absolute flex container vs bare absolute leaf inside a GRID, same lines), C06_taffy_layout_passes_example (two passes)',
]


def finding(oracle_class):
    for f in known_findings('C06'):
        if f.get('oracle_class') == oracle_class and f.get('status') == 'known':
            return f
    return None


def run(rep, tier, seed, replay=None):
    res, changed = proof_stage(rep, 'C06', extra_trusted=[
        'grid placement model Model/Placement.v: hand transcription of placement.rs / implicit_grid.rs / the child filters of grid/mod.rs '
        '(tied by K + fingerprints); tables (child_min_line_max_line_span, ...) regenerated from the source',
        'engine skeleton Model/Engine.v is hand-written (tied by the engine correspondence of C01 / C05 / C15)',
        'interface hypothesis AbsBlind: PROVED for the block algorithm as modelled in Model/BlockAlg.v (compute_inner as a resumption, assembled from '
        'the translated item pipeline, Model/Block.v inflow_step (K1/K2/K3 of C10/C06) and an absolute-item routine abstracted to "addresses only '
        'item.node_id", which the translator checks syntactically) and for the FLEX algorithm as modelled in Model/FlexAlg.v (all of '
        'compute_flexbox_layout as a resumption; the absolute pass is the kernel translated for C11; hand model validated event by event, bit for bit, '
        'against the implementation by `vh flexalg cases` on every run); for the GRID algorithm as modelled in Model/GridAlg.v (all of compute_grid_layout '
        'as a resumption; the absolute pass is the kernel translated for C11; validated event by event, bit for bit, by `vh gridalg cases` on every run) full '
        'AbsBlind is REFUTED (C06_grid_algorithm_abs_blind_refuted = the known finding) and the complement "blind to everything about an absolute child but '
        'its grid lines" is PROVED (C06_grid_algorithm_abs_blind_lines)',
        'translator/gen_filters.py (item-generation pipelines, per-item predicates of block.rs, syntactic locality checks); fails closed',
        'that track counts determine the container size (track sizing, 7px auto rows: 28 vs 7) is observed on the implementation '
        '(`vh c06 witness`), not modelled'])
    rc, out, binp, dt = build_harness('release')
    if rc != 0:
        rep.add_broken('build', 'harness', out[-1500:])
        return
    escalate = bool(changed) or tier == 'thorough'
    # ---- K: grid placement with hidden / absolute children (different seed than C05)
    bad = []
    if replay and 'case' in replay:
        r, _ = P.run_one(binp, replay['case'])
        try:
            model = P.model_eval('C06', [replay['case']])
            bad = diff_results(rep, 'grid placement K (replay)', [replay['case']], [r], model)
        except RuntimeError as ex:
            rep.add_broken('correspondence', 'placement K', str(ex)[-1500:])
    else:
        bad = H.placement_k(rep, 'C06', binp, seed + 606, 12000 if escalate else 2500, kind=2)
    # ---- K3: block containers with absolute / hidden children interleaved, vs the block model the new theorems are about
    if not replay:
        H.block_k(rep, 'C06', binp, seed + 660, 3600 if escalate else 900, p_absolute=300, p_hidden=0)
        # ---- K4: the flex resumption (Model/FlexAlg.v) vs the event trace of compute_flexbox_layout (another seed than C05)
        FA.flexalg_k(rep, 'C06', binp, seed + 6060, 1500 if escalate else 400, payload_is_broken=False)
        # ---- K5: the grid resumption (Model/GridAlg.v) vs the event trace of compute_grid_layout (family 2: absolute children, no display:none
        #      ones), + the witness of C06_grid_algorithm_abs_blind_refuted on the implementation (heights 28 / 7 / 0, events reproduced)
        GA.gridalg_k(rep, 'C06', binp, seed + 6161, 1200 if escalate else 400, family=2, payload_is_broken=False)
        GA.abs_witness(rep, 'C06', binp)
        # ---- K6 (wave 6): WHOLE TREES mixing block / flex / grid containers and leaves, every tree with a position:absolute node: the
        #      engine C06_taffy_engine_instance_partial is about (Model/TaffyEngine.v taffy_algo with the real dispatch / leaf and block's real absolute
        #      routine, exact-key memo, root glue) vs TaffyTree::compute_layout_with_measure, every node's unrounded layout after every pass
        from . import _taffytree
        _taffytree.tree_k(rep, 'C06', binp, seed + 6262, 1500 if escalate else 300, family=2)
    for t in THEOREMS:
        rep.cov['samples'].append({'theorem': t})
    # ---- search
    big = bool(rep.broken) or tier == 'thorough'
    n = 400000 if big else 40000
    start = 0
    oseed = seed
    if replay and 'idx' in replay:
        start, n, oseed = replay['idx'], 1, replay.get('seed', seed)
    o = H.run_oracle(rep, binp, 'c06', oseed, start, n)
    if o is None:
        return
    rep.cov['oracle_trees'] = o['done'][0]
    rep.cov['oracle_nodes_compared_bitwise'] = o['done'][1]
    rep.cov['oracle_both_runs_panicked'] = o['done'][3]
    rep.cov['oracle_distribution'] = o['stat']
    rep.cov['oracle_known_class_mismatches'] = len(o['known'])
    rep.cov['evaluations'] = rep.cov.get('evaluations', 0) + o['done'][0]
    rc1, out1 = vh(binp, ['c06', 'one', oseed, start])
    rep.cov['samples'].append({'oracle_case': 'vh c06 one %d %d' % (oseed, start), 'tree_and_verdict': out1[:1800]})
    for f in o['fail'][:4]:
        rep.add_violation('an absolutely positioned node influences a node outside its subtree: %s' % f['line'][:700],
                          {'seed': oseed, 'idx': f['idx'], 'cmd': 'vh c06 one %d %d' % (oseed, f['idx'])})
    by_class = {}
    for k in o['known']:
        by_class.setdefault(k['class'], []).append(k)
    for cls, ks in by_class.items():
        f = finding(cls)
        if f is None:
            for k in ks[:2]:
                rep.add_violation('%s (class %s is not a known finding)' % (k['line'][:600], cls),
                                  {'seed': oseed, 'idx': k['idx'], 'cmd': 'vh c06 one %d %d' % (oseed, k['idx'])})
        else:
            rep.known.append('%s  [%d trees of this run, e.g. vh c06 one %d %d]' % (f['line'].split(' ', 2)[2], len(ks), oseed, ks[0]['idx']))
    # the refutation's witness must still fail on the implementation: 4 rows x 7px vs 1 row vs childless
    rc, out = vh(binp, ['c06', 'witness'])
    m = re.search(r'^W (\d+) (\d+) (\d+)$', out, re.M)
    if m:
        got = [int(m.group(i)) for i in (1, 2, 3)]
        expect = [0x41e00000, 0x40e00000, 0]   # 28.0, 7.0, 0.0
        rep.cov['grid_absolute_witness_reproduces'] = (got == expect)
        if got != expect:
            if got[0] == got[1]:
                log('[C06] known finding grid-estimate-absolute no longer reproduces on the implementation: the entry (and C06_grid_estimate_absolute_refuted / estimate_children) is stale')
            rep.add_broken('correspondence', 'C06_grid_estimate_absolute_refuted witness vs implementation (container heights)',
                           {'impl_bits': got, 'model_rows_x_7px_bits': expect})
    else:
        rep.add_broken('search', 'vh c06 witness', out[-300:])
    if not o['fail']:
        # a K disagreement on a concrete grid: decide on the implementation alone -- outside the known class the reported placement must not
        # change when the absolute children are neutralised
        for c, a, b in bad[:3]:
            d = P.decode(c)
            if not all(H.harmless(p, d['ec'], d['er']) for kind, p in d['children'] if kind == 2):
                continue
            neutral = list(c)
            for j, (kind, _) in enumerate(d['children']):
                if kind == 2:
                    neutral[4 + 9 * j + 1:4 + 9 * j + 9] = [0] * 8
            r2, _ = P.run_one(binp, neutral)
            if r2 != a:
                rep.add_violation('grid container: reported placement changes when harmless absolute children are neutralised -- %s' % P.describe(c),
                                  {'case': c, 'impl': a, 'impl_neutralised': r2, 'cmd': 'vh c08 one %s' % ' '.join(str(x) for x in c)})
    rep.cov['rule'] = ('K: `vh c05 cases .. 2`: grid container, explicit 0-4 x 0-4 fixed tracks, 4 auto-flow modes, 1-6 leaf children, half of them position:absolute, these '
                       'with a placement that is non-auto with p=0.8 per edge (lines -6..6 incl 0, spans 1-4); reported track counts and item areas vs the model; distinct_nontrivial = distinct cases with a position:absolute child that has a non-auto '
                       'placement.  search: `vh c06 oracle`: treegen trees (<= 14 nodes, depth <= 4, flex/grid/block containers, p_absolute 22%, one forced if '
                       'none outside display:none regions), insets / sizes / margins random, the target made loud (definite grid lines, sizes, margins, '
                       'flex grow) with p=1/2; the target is neutralised to Style::DEFAULT + position:absolute without children, both trees laid out from '
                       'scratch; every node outside the target subtree compared bit for bit (unrounded and rounded) except content_size of the target\'s '
                       'ancestors and `order` of its siblings; a mismatch is KNOWN iff the target is a child of a grid container and its placement is not '
                       'harmless w.r.t. the container\'s explicit track counts (read from detailed_layout_info)')
