(* Executable driver of the C14 correspondence check: replays an encoded history (`C` line of `vh c14 cases`) on the
   model of Model/Tree.v -- the same `step` the theorems are about -- and prints the integers of the `R` line.
   Encoding: see harness/src/c14.rs. *)
From Coq Require Import NArith List Bool Arith.
From TV Require Import Model.Tree.
Import ListNotations.
Open Scope N_scope.

(* NodeId raw = (version << 32) | idx ; KeyData::from_ffi forces the version odd *)
Definition dkey (raw : N) : key :=
  let idx := N.land raw (N.ones 32) in
  (N.to_nat (N.min idx 100000), N.lor (N.shiftr raw 32) 1).
Definition ekey (k : key) : N := N.shiftl (snd k) 32 + N.of_nat (fst k).

(* operations of a history: the structural methods and the read-only accessors *)
Inductive rop : Type :=
| RO (o : op)
| QGetCtx (k : key)
| QChildAt (p : key) (i : N)
| QParent (k : key)
| QChildCount (k : key)
| QBad.

Definition mk_rop (code a b c : N) (xs : list N) : rop :=
  match code with
  | 0 => RO ONewLeaf
  | 1 => RO (ONewLeafCtx a)
  | 2 => RO (ONewWithChildren (map dkey xs))
  | 3 => RO (OAddChild (dkey a) (dkey b))
  | 4 => RO (OInsertChild (dkey a) b (dkey c))
  | 5 => RO (OSetChildren (dkey a) (map dkey xs))
  | 6 => RO (ORemoveChild (dkey a) (dkey b))
  | 7 => RO (ORemoveChildAt (dkey a) b)
  | 8 => RO (ORemoveRange (dkey a) b c)
  | 9 => RO (OReplaceChildAt (dkey a) b (dkey c))
  | 10 => RO (ORemove (dkey a))
  | 11 => RO OClear
  | 12 => RO (OSetCtx (dkey a) (if b =? 0 then None else Some (b - 1)))
  | 13 => QGetCtx (dkey a)
  | 14 => QChildAt (dkey a) b
  | 15 => QParent (dkey a)
  | 16 => QChildCount (dkey a)
  | _ => QBad
  end.

Fixpoint decode (fuel : nat) (l : list N) : list rop :=
  match fuel with
  | O => []
  | S f =>
      match l with
      | code :: _flag :: a :: b :: c :: n :: rest =>
          mk_rop code a b c (firstn (N.to_nat n) rest) :: decode f (skipn (N.to_nat n) rest)
      | _ => []
      end
  end.

Definition enc_ret (r : ret) : list N :=
  match r with
  | RUnit => [0; 0; 0; 0]
  | RKey k => [1; ekey k; 0; 0]
  | RErr p i n => [2; ekey p; i; n]
  end.
Definition enc_ctx (c : option N) : N := match c with Some v => v + 1 | None => 0 end.
Definition enc_okey (k : option key) : N := match k with Some k => ekey k | None => 0 end.

(* the node record of one pool node *)
Definition observe_node (t : tree) (k : key) : list N :=
  [ekey k;
   match parent t k with Ok p => enc_okey p | Panic => 1 end;
   match child_count t k with Ok n => N.of_nat n | Panic => 1 end] ++
  match children t k with
  | Ok cs =>
      let n := length cs in
      [N.of_nat n] ++ map ekey cs ++
      map (fun i => match child_at_index t k (N.of_nat i) with
                    | Ok (RKey c) => ekey c
                    | Ok _ => 2
                    | Panic => 1
                    end) (seq 0 n) ++
      match child_at_index t k (N.of_nat n) with
      | Ok (RKey c) => [ekey c; 0; 0]
      | Ok (RErr p i m) => [ekey p; i; m]
      | Ok RUnit => [2; 0; 0]
      | Panic => [1; 0; 0]
      end
  | Panic => [1; 1; 0; 0]
  end ++
  [enc_ctx (get_node_context t k)].

Definition observe (t : tree) : list N :=
  let pool := sm_keys (t_nodes t) in
  [N.of_nat (total_node_count t); N.of_nat (length pool)] ++ flat_map (observe_node t) pool.

(* one operation: Some (new state, its integers) or None on panic *)
Definition run_rop (t : tree) (r : rop) : option (tree * list N) :=
  match r with
  | RO o => match step t o with Ok (t', out) => Some (t', enc_ret out) | Panic => None end
  | QGetCtx k => Some (t, [5; enc_ctx (get_node_context t k); 0; 0])
  | QChildAt p i => match child_at_index t p i with Ok out => Some (t, enc_ret out) | Panic => None end
  | QParent k => match parent t k with Ok p => Some (t, [5; enc_okey p; 0; 0]) | Panic => None end
  | QChildCount k => match child_count t k with Ok n => Some (t, [5; N.of_nat n; 0; 0]) | Panic => None end
  | QBad => None
  end.

Fixpoint run_rops (t : tree) (l : list rop) : list N :=
  match l with
  | [] => []
  | r :: rest =>
      match run_rop t r with
      | Some (t', out) => out ++ observe t' ++ run_rops t' rest
      | None => [3; 0; 0; 0]
      end
  end.

(* one case: [nops; op...]  ->  the fields the harness prints after `R` *)
Definition run_case (c : list N) : list N :=
  match c with
  | n :: rest => run_rops tree_new (firstn (N.to_nat n) (decode (length rest) rest))
  | [] => []
  end.

(* the comparison itself is done inside Coq (printing hundreds of thousands of numerals is what is slow):
   one case = [length of C; C...; R...]; the result is [] when the model reproduces R exactly, otherwise
   [position of the first difference; length of the model's output; the model's output from 2 before that position (8 values)] *)
Fixpoint first_diff (a b : list N) (i : N) : option N :=
  match a, b with
  | [], [] => None
  | x :: a', y :: b' => if x =? y then first_diff a' b' (i + 1) else Some i
  | _, _ => Some i
  end.

Definition check_case (cr : list N) : list N :=
  match cr with
  | n :: rest =>
      let c := firstn (N.to_nat n) rest in
      let r := skipn (N.to_nat n) rest in
      let m := run_case c in
      match first_diff m r 0 with
      | None => []
      | Some i => i :: N.of_nat (length m) :: firstn 8 (skipn (N.to_nat i - 2) m)
      end
  | [] => [0; 0]
  end.
