(* Lemmas about Model/Cache.v: slot table, invariant of reachable states, soundness of get, clear, hits after store.
   Everything in section Generic holds for every instance of Num (no number law is used); the reflexivity laws that
   C02_store_hit / C02_hit_persists need are proved for the exact instance XQ at the end of this file and for the
   binary32 instance in Proofs/CacheF32.v. *)
From Coq Require Import NArith Bool List Lia QArith Qabs.
From TV Require Import Num.Num Num.QNum Gen.CacheGen Model.Cache.
Import ListNotations.

(* ------------------------------------------------------------------ slot table (generated) vs documented classes *)

Lemma slot_lt_9 : forall hw hh aw ah, (slot hw hh aw ah < CACHE_SIZE)%N.
Proof. intros [] [] [] []; vm_compute; reflexivity. Qed.

Lemma cache_size_9 : CACHE_SIZE = 9%N.
Proof. reflexivity. Qed.

Lemma slot_is_class_index : forall hw hh aw ah, slot hw hh aw ah = class_index (class_of hw hh aw ah).
Proof. intros [] [] [] []; reflexivity. Qed.

Lemma class_index_inj : forall c c', class_index c = class_index c' -> c = c'.
Proof. intros [] []; simpl; intro E; try reflexivity; discriminate E. Qed.

Lemma slot_separates : forall hw hh aw ah hw' hh' aw' ah',
  slot hw hh aw ah = slot hw' hh' aw' ah' <-> class_of hw hh aw ah = class_of hw' hh' aw' ah'.
Proof.
  intros. rewrite !slot_is_class_index. split; [apply class_index_inj | intros ->; reflexivity].
Qed.

Lemma classes_inhabited : forall c, exists hw hh aw ah, class_of hw hh aw ah = c.
Proof.
  intros [].
  - exists true, true, KMaxContent, KMaxContent; reflexivity.
  - exists true, false, KMaxContent, KDefinite; reflexivity.
  - exists true, false, KMaxContent, KMinContent; reflexivity.
  - exists false, true, KDefinite, KMaxContent; reflexivity.
  - exists false, true, KMinContent, KMaxContent; reflexivity.
  - exists false, false, KDefinite, KMaxContent; reflexivity.
  - exists false, false, KMaxContent, KMinContent; reflexivity.
  - exists false, false, KMinContent, KDefinite; reflexivity.
  - exists false, false, KMinContent, KMinContent; reflexivity.
Qed.

(* ------------------------------------------------------------------ lists *)

Lemma set_nth_length : forall {A} n (x : A) l, length (set_nth n x l) = length l.
Proof. intros A n x l; revert n; induction l; intros [|n]; simpl; auto. Qed.

Lemma set_nth_same : forall {A} n (x y : A) l, nth_error (set_nth n x l) n = Some y -> y = x.
Proof.
  intros A n x y l; revert n; induction l; intros [|n]; simpl; intro E; try discriminate E.
  - congruence.
  - eauto.
Qed.

Lemma set_nth_hit : forall {A} n (x : A) l, (n < length l)%nat -> nth_error (set_nth n x l) n = Some x.
Proof.
  intros A n x l; revert n; induction l; intros [|n]; simpl; intro L; try lia; auto. apply IHl; lia.
Qed.

Lemma set_nth_other : forall {A} n n' (x : A) l, n <> n' -> nth_error (set_nth n x l) n' = nth_error l n'.
Proof.
  intros A n n' x l; revert n n'; induction l; intros [|n] [|n']; simpl; intro D; auto; try congruence.
Qed.

Lemma existsb_is_some_false : forall {A} (l : list (option A)),
  existsb is_some l = false <-> Forall (fun e => e = None) l.
Proof.
  intros A l; induction l as [|[a|] l IH]; simpl; split; intro Hx; auto.
  - discriminate Hx.
  - inversion Hx; subst; discriminate.
  - constructor; auto. apply IH; assumption.
  - inversion Hx; subst. apply IH; assumption.
Qed.

Lemma Forall_none_repeat : forall {A} n, Forall (fun e : option A => e = None) (repeat None n).
Proof. intros A n; induction n; simpl; constructor; auto. Qed.

Lemma Forall_none_nth : forall {A} (l : list (option A)) i e,
  Forall (fun e => e = None) l -> nth_error l i = Some (Some e) -> False.
Proof.
  intros A l i e F E. apply nth_error_In in E. rewrite Forall_forall in F. apply F in E. discriminate E.
Qed.

Section Generic.
  Context {T : Type} `{Num T}.

  Notation cache := (cache T).
  Notation key := (key T).
  Notation op := (op T).
  Notation output := (output T).
  Notation size := (size T).
  Notation entry := (entry T).

  (* ---------------------------------------------------------------- the lookup predicate, in the property's words *)

  Lemma compat_meaning : forall (k ek : key) (cs : size),
    compat k ek cs = true <->
      (opt_eqb (kd_w k) (kd_w ek) = true \/ opt_eqb (kd_w k) (Some (width cs)) = true) /\
      (opt_eqb (kd_h k) (kd_h ek) = true \/ opt_eqb (kd_h k) (Some (height cs)) = true) /\
      (kd_w k = None -> is_roughly_equal (av_w ek) (av_w k) = true) /\
      (kd_h k = None -> is_roughly_equal (av_h ek) (av_h k) = true).
  Proof.
    intros k ek cs. unfold compat. rewrite !andb_true_iff, !orb_true_iff.
    assert (S : forall (o : option T) P, (is_some o = true \/ P) <-> (o = None -> P)).
    { intros [x|] P; simpl; split; intro Hx; auto.
      - intro E; discriminate E.
      - destruct Hx as [E|p]; [discriminate E | auto]. }
    rewrite !S. tauto.
  Qed.

  Lemma self_compat_compat : forall (k : key) cs, self_compat k -> compat k k cs = true.
  Proof.
    intros k cs (A & B & C & D). apply compat_meaning. auto.
  Qed.

  Lemma refl_key_self_compat : forall (nonnan fin : T -> Prop),
    (forall x, nonnan x -> eqb x x = true) -> (forall x, fin x -> roughly x x = true) ->
    forall k : key, refl_key nonnan fin k -> self_compat k.
  Proof.
    intros nonnan fin He Hr k (A & B & C & D). unfold self_compat.
    assert (Ho : forall o : option T, (forall x, o = Some x -> nonnan x) -> opt_eqb o o = true).
    { intros [x|] Hx; simpl; auto. }
    assert (Ha : forall a : avail T, (forall v, a = Definite v -> fin v) -> is_roughly_equal a a = true).
    { intros [| |v] Hv; simpl; auto. }
    repeat split; auto.
  Qed.

  (* ---------------------------------------------------------------- invariant of reachable states *)

  Definition inv (c : cache) : Prop :=
    length (meas c) = N.to_nat CACHE_SIZE /\ (is_empty_flag c = true <-> all_none c).

  Lemma inv_new : inv new.
  Proof.
    split; [apply repeat_length|]. split; [|reflexivity]. intros _. split; [reflexivity|].
    apply Forall_none_repeat.
  Qed.

  Lemma slot_in_range : forall (c : cache) (k : key), inv c -> (N.to_nat (slot_of_key k) < length (meas c))%nat.
  Proof.
    intros c k [L _]. rewrite L. unfold slot_of_key.
    pose proof (slot_lt_9 (is_some (kd_w k)) (is_some (kd_h k)) (kind_of (av_w k)) (kind_of (av_h k))). lia.
  Qed.

  Lemma inv_store : forall (c : cache) k m o, inv c -> inv (store c k m o).
  Proof.
    intros c k m o I. destruct m; simpl; auto.
    - destruct I as [L _]. split; [exact L|]. simpl. split; [discriminate|]. intros [E _]. discriminate E.
    - pose proof (slot_in_range c k I) as R. destruct I as [L _]. split; simpl.
      + rewrite set_nth_length. exact L.
      + split; [discriminate|]. intros [_ F]. exfalso.
        eapply Forall_none_nth; [exact F|]. apply set_nth_hit. exact R.
  Qed.

  Lemma all_none_empty : all_none ({| final := None; meas := empty_meas; is_empty_flag := true |} : cache).
  Proof. split; [reflexivity | apply Forall_none_repeat]. Qed.

  Lemma inv_clear : forall c : cache, inv c -> inv (fst (clear c)).
  Proof.
    intros c I. unfold clear. destruct (is_empty_flag c) eqn:E; simpl; auto.
    split; [apply repeat_length|]. simpl. split; [intros _; apply all_none_empty | reflexivity].
  Qed.

  Lemma inv_step : forall c (x : op), inv c -> inv (step c x).
  Proof. intros c [k m|k m o|] I; simpl; auto using inv_store, inv_clear. Qed.

  Lemma inv_run_from : forall (ops : list op) c, inv c -> inv (run_from c ops).
  Proof. induction ops as [|x ops IH]; intros c I; simpl; auto. apply IH. apply inv_step; exact I. Qed.

  Lemma inv_run : forall ops : list op, inv (run ops).
  Proof. intro ops. apply inv_run_from. apply inv_new. Qed.

  Lemma run_snoc : forall (ops : list op) (x : op), run (ops ++ [x]) = step (run ops) x.
  Proof. intros. unfold run, run_from. rewrite fold_left_app. reflexivity. Qed.

  Lemma run_app : forall (ops ops' : list op), run (ops ++ ops') = run_from (run ops) ops'.
  Proof. intros. unfold run, run_from. rewrite fold_left_app. reflexivity. Qed.

  (* ---------------------------------------------------------------- flag and structural emptiness *)

  Lemma is_empty_all_none : forall c : cache, is_empty c = true <-> all_none c.
  Proof.
    intro c. unfold is_empty, all_none. rewrite andb_true_iff, !negb_true_iff, existsb_is_some_false.
    destruct (final c); simpl; split; intros [A B]; split; auto; discriminate.
  Qed.

  Lemma flag_exact : forall ops : list op, is_empty_flag (run ops) = true <-> all_none (run ops).
  Proof. intro ops. apply (inv_run ops). Qed.

  Lemma flag_is_empty : forall ops : list op, is_empty_flag (run ops) = is_empty (run ops).
  Proof.
    intro ops. pose proof (flag_exact ops) as F. pose proof (is_empty_all_none (run ops)) as E.
    destruct (is_empty_flag (run ops)), (is_empty (run ops)); auto.
    - symmetry. apply E. apply F. reflexivity.
    - apply F. apply E. reflexivity.
  Qed.

  Lemma clear_state_exact : forall ops : list op, snd (clear (run ops)) = AlreadyEmpty <-> is_empty (run ops) = true.
  Proof.
    intro ops. rewrite <- flag_is_empty. unfold clear. destruct (is_empty_flag (run ops)); simpl; split; auto; discriminate.
  Qed.

  (* ---------------------------------------------------------------- lookups in an empty cache *)

  Lemma find_compat_none : forall (k : key) es, Forall (fun e => e = None) es -> find_compat k es = None.
  Proof. intros k es F; induction F as [|e es E _ IH]; simpl; auto. subst e. exact IH. Qed.

  Lemma get_all_none : forall (c : cache) k m, all_none c -> get c k m = None.
  Proof.
    intros c k m [F M]. destruct m; simpl; auto.
    - rewrite F. reflexivity.
    - rewrite (find_compat_none k _ M). reflexivity.
  Qed.

  Lemma clear_all_none : forall c : cache, inv c -> all_none (fst (clear c)).
  Proof.
    intros c [_ I]. unfold clear. destruct (is_empty_flag c) eqn:E; simpl.
    - apply I. reflexivity.
    - apply all_none_empty.
  Qed.

  Lemma clear_spec : forall ops : list op, let c' := fst (clear (run ops)) in
    (forall k m, get c' k m = None) /\ is_empty c' = true /\ is_empty_flag c' = true.
  Proof.
    intros ops c'. pose proof (clear_all_none _ (inv_run ops)) as A. fold c' in A.
    split; [intros; apply get_all_none; exact A|]. split; [apply is_empty_all_none; exact A|].
    pose proof (inv_clear _ (inv_run ops)) as [_ I]. fold c' in I. apply I. exact A.
  Qed.

  (* ---------------------------------------------------------------- soundness of get *)

  Lemma find_compat_sound : forall (k : key) es cs, find_compat k es = Some cs ->
    exists i e, nth_error es i = Some (Some e) /\ compat k (e_key e) (e_content e) = true /\ cs = e_content e.
  Proof.
    intros k es cs; induction es as [|[e|] es IH]; simpl; intro E.
    - discriminate E.
    - destruct (compat k (e_key e) (e_content e)) eqn:C.
      + exists O, e. simpl. repeat split; auto. congruence.
      + destruct (IH E) as (i & e' & A & B & D). exists (S i), e'. auto.
    - destruct (IH E) as (i & e' & A & B & D). exists (S i), e'. auto.
  Qed.

  Lemma find_compat_complete : forall (k : key) es i e, nth_error es i = Some (Some e) ->
    compat k (e_key e) (e_content e) = true -> find_compat k es <> None.
  Proof.
    intros k es; induction es as [|[e0|] es IH]; intros [|i] e E C; simpl in *; try discriminate E.
    - injection E as ->. rewrite C. discriminate.
    - destruct (compat k (e_key e0) (e_content e0)); [discriminate | eauto].
    - eauto.
  Qed.

  (* a hit comes from an entry of the queried run mode that satisfies the lookup predicate *)
  Lemma get_sound_state : forall (c : cache) k m o, get c k m = Some o ->
    match m with
    | PerformLayout => exists e, final c = Some e /\ compat k (e_key e) (o_size (e_content e)) = true /\ o = e_content e
    | ComputeSize => exists i e, nth_error (meas c) i = Some (Some e) /\
                                 compat k (e_key e) (e_content e) = true /\ o = from_outer_size (e_content e)
    | PerformHiddenLayout => False
    end.
  Proof.
    intros c k m o G. destruct m; simpl in G.
    - destruct (final c) as [e|]; [|discriminate G].
      destruct (compat k (e_key e) (o_size (e_content e))) eqn:C; [|discriminate G].
      exists e. repeat split; auto. congruence.
    - destruct (find_compat k (meas c)) as [cs|] eqn:F; [|discriminate G].
      destruct (find_compat_sound _ _ _ F) as (i & e & A & B & D). exists i, e. simpl in G. repeat split; auto. congruence.
    - discriminate G.
  Qed.

  Lemma stored_live_snoc : forall (ops : list op) (x : op) k m o, x <> OClear -> stored_live ops k m o -> stored_live (ops ++ [x]) k m o.
  Proof.
    intros ops x k m o N (pre & post & E & F). exists pre, (post ++ [x]). split.
    - rewrite E. rewrite <- app_assoc. reflexivity.
    - apply Forall_app. split; auto.
  Qed.

  Lemma stored_live_last : forall (ops : list op) k m (o : output), stored_live (ops ++ [OStore k m o]) k m o.
  Proof. intros. exists ops, []. split; auto. Qed.

  (* every entry present was written by a store with exactly that key and mode, not followed by a clear;
     a measure entry sits in the slot of its key *)
  Definition from_stores (ops : list op) (c : cache) : Prop :=
    (forall e, final c = Some e -> stored_live ops (e_key e) PerformLayout (e_content e)) /\
    (forall i e, nth_error (meas c) i = Some (Some e) ->
       i = N.to_nat (slot_of_key (e_key e)) /\
       exists o, stored_live ops (e_key e) ComputeSize o /\ o_size o = e_content e).

  Lemma from_stores_all_none : forall (ops : list op) (c : cache), all_none c -> from_stores ops c.
  Proof.
    intros ops c [F M]. split.
    - intros e E. rewrite F in E. discriminate E.
    - intros i e E. exfalso. eapply Forall_none_nth; eauto.
  Qed.

  Lemma entries_from_stores : forall ops : list op, from_stores ops (run ops).
  Proof.
    induction ops as [|x ops IH] using rev_ind.
    - apply from_stores_all_none. apply all_none_empty.
    - rewrite run_snoc. pose proof (inv_run ops) as I. destruct IH as [IF IM]. destruct x as [k m|k m o|]; simpl.
      + split.
        * intros e E. apply stored_live_snoc; [discriminate | auto].
        * intros i e E. destruct (IM i e E) as (A & o & B & C). split; auto. exists o. split; auto.
          apply stored_live_snoc; [discriminate | auto].
      + destruct m; simpl.
        * split.
          -- intros e E. simpl in E. injection E as <-. simpl. apply stored_live_last.
          -- intros i e E. simpl in E. destruct (IM i e E) as (A & o' & B & C). split; auto. exists o'. split; auto.
             apply stored_live_snoc; [discriminate | auto].
        * split.
          -- intros e E. simpl in E. apply stored_live_snoc; [discriminate | auto].
          -- intros i e E. simpl in E.
             destruct (Nat.eq_dec (N.to_nat (slot_of_key k)) i) as [D|D].
             ++ subst i. apply set_nth_same in E. injection E as ->. simpl. split; auto.
                exists o. split; auto. apply stored_live_last.
             ++ rewrite set_nth_other in E by exact D. destruct (IM i e E) as (A & o' & B & C). split; auto.
                exists o'. split; auto. apply stored_live_snoc; [discriminate | auto].
        * split.
          -- intros e E. apply stored_live_snoc; [discriminate | auto].
          -- intros i e E. destruct (IM i e E) as (A & o' & B & C). split; auto. exists o'. split; auto.
             apply stored_live_snoc; [discriminate | auto].
      + apply from_stores_all_none. apply clear_all_none. exact I.
  Qed.

  Lemma get_sound : forall (ops : list op) k m o, get (run ops) k m = Some o ->
    m <> PerformHiddenLayout /\
    exists ek so, stored_live ops ek m so /\ compat k ek (o_size so) = true /\ o = out_of m so.
  Proof.
    intros ops k m o G. apply get_sound_state in G. destruct (entries_from_stores ops) as [IF IM]. destruct m.
    - split; [discriminate|]. destruct G as (e & A & B & C). exists (e_key e), (e_content e). simpl. auto.
    - split; [discriminate|]. destruct G as (i & e & A & B & C). destruct (IM i e A) as (_ & so & D & E).
      exists (e_key e), so. simpl. rewrite E. auto.
    - contradiction.
  Qed.

  (* ---------------------------------------------------------------- hits *)

  (* the result stored under (k, m) is still where store put it *)
  Definition present (c : cache) (k : key) (m : run_mode) (o : output) : Prop :=
    match m with
    | PerformLayout => final c = Some {| e_key := k; e_content := o |}
    | ComputeSize => nth_error (meas c) (N.to_nat (slot_of_key k)) = Some (Some {| e_key := k; e_content := o_size o |})
    | PerformHiddenLayout => False
    end.

  Lemma present_store : forall (c : cache) k m o, inv c -> m <> PerformHiddenLayout -> present (store c k m o) k m o.
  Proof.
    intros c k m o I Hm. destruct m; simpl; auto.
    apply set_nth_hit. apply slot_in_range. exact I.
  Qed.

  Lemma present_step : forall (c : cache) k m o (x : op), no_displace k m x -> present c k m o -> present (step c x) k m o.
  Proof.
    intros c k m o [k' m'|k' m' o'|] N P; simpl in *; auto; [|contradiction].
    destruct m, m'; simpl in *; auto; try contradiction.
    rewrite set_nth_other; auto. intro E. apply N. apply N2Nat.inj. exact E.
  Qed.

  Lemma present_run_from : forall (ops : list op) (c : cache) k m o, Forall (no_displace k m) ops -> present c k m o -> present (run_from c ops) k m o.
  Proof.
    induction ops as [|x ops IH]; intros c k m o F P; simpl; auto.
    inversion F; subst. apply IH; auto. apply present_step; auto.
  Qed.

  Lemma present_hit : forall (c : cache) k m o, self_compat k -> present c k m o -> get c k m <> None.
  Proof.
    intros c k m o S P. destruct m; simpl in *.
    - rewrite P. simpl. rewrite self_compat_compat by exact S. discriminate.
    - pose proof (find_compat_complete k (meas c) _ _ P (self_compat_compat k (o_size o) S)) as F.
      destruct (find_compat k (meas c)); [discriminate | contradiction].
    - contradiction.
  Qed.

  Lemma store_hit : forall (ops : list op) k m o, self_compat k -> m <> PerformHiddenLayout ->
    get (store (run ops) k m o) k m <> None.
  Proof.
    intros ops k m o S Hm. eapply present_hit; [exact S|]. apply present_store; [apply inv_run | exact Hm].
  Qed.

  Lemma hit_persists : forall (ops : list op) k m o ops', self_compat k -> m <> PerformHiddenLayout ->
    Forall (no_displace k m) ops' -> get (run (ops ++ OStore k m o :: ops')) k m <> None.
  Proof.
    intros ops k m o ops' S Hm F. rewrite run_app. simpl. eapply present_hit; [exact S|].
    apply present_run_from; [exact F|]. apply present_store; [apply inv_run | exact Hm].
  Qed.

  Lemma hidden_never_cached : forall (c : cache) k o,
    store c k PerformHiddenLayout o = c /\ get c k PerformHiddenLayout = None.
  Proof. intros; split; reflexivity. Qed.
End Generic.

(* ------------------------------------------------------------------ reflexivity laws for the exact instance *)

Lemma xq_eqb_refl : forall x : XQ, x <> XNaN -> eqb x x = true.
Proof.
  intros [q| | |] Hx; simpl; auto.
  apply Qeq_bool_iff. reflexivity.
Qed.

Lemma xq_roughly_fin : forall q : Q, x_ltb (x_abs (x_sub (Fin q) (Fin q))) (Fin (1 # 8388608)) = true.
Proof.
  intro q. unfold x_sub, x_neg, x_add, x_abs, x_ltb.
  destruct (Qle_bool (1 # 8388608) (Qabs (q + - q))) eqn:E; [|reflexivity].
  apply Qle_bool_iff in E. rewrite Qplus_opp_r in E. exfalso. revert E. compute. intro E; apply E; reflexivity.
Qed.

Lemma xq_roughly_refl : forall x : XQ, finite x -> roughly x x = true.
Proof.
  intros [q| | |] Hx; simpl in Hx; try contradiction. exact (xq_roughly_fin q).
Qed.

Lemma xq_refl_key : forall k : key XQ, refl_key (fun x => x <> XNaN) finite k -> self_compat k.
Proof. apply refl_key_self_compat; [exact xq_eqb_refl | exact xq_roughly_refl]. Qed.
