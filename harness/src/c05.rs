//! C05 / C06 search oracles (metamorphic, FRESH trees only, public API) and the K case family with hidden / absolute grid children.
//!
//! `vh c05 oracle <seed> <start> <n>`: random tree with >= 1 display:none node, laid out from scratch;
//!    (i)  every node of a display:none region has an all-zero Layout (unrounded and rounded; `order` is not constrained);
//!    (ii) ONE display:none node is replaced by a bare `display:none` leaf (Style::DEFAULT + display None, no children, no
//!         measure data), the tree is rebuilt and laid out from scratch: every node outside the replaced subtree must have
//!         bit-identical unrounded and rounded layouts, `order` included.
//!    (iii) the only non-fresh step: the tree is laid out with that node still VISIBLE, the node is then given its display:none
//!         style through set_style, and the tree is laid out again: the zero clause (i) must hold again (a subtree that had
//!         real layouts is zeroed).  Plus trace validation: every query that reaches a display:none child is the canonical
//!         perform_child_layout(NONE, NONE, MAX_CONTENT).
//! `vh c06 oracle <seed> <start> <n>`: random tree with >= 1 box-generating position:absolute node; ONE of them is neutralised
//!    to a bare `position:absolute` leaf (Style::DEFAULT + position Absolute), rebuilt, laid out from scratch: every node
//!    outside its subtree must be bit-identical except `content_size` of its ancestors and `order` of its siblings.
//!    Mismatches whose target is in the known class (known_findings.json C06/grid-estimate-absolute) print `KNOWN`.
//! lines: `FAIL <idx> class=<..> <msg>` | `KNOWN <idx> class=gridabs|hiddenroot <msg>` | `PANIC <idx> <which>` | `STAT k=v ...` | `DONE <n> <compared nodes> <zero-checked nodes> <both-panic> <hidden-child queries validated>`
//! `vh c05|c06 one <seed> <idx>`: verbose replay of one case.
//! `vh c05 cases <seed> <n> [start] [skipped=1|2]`: K family in the `vh c08 cases` protocol (same C/R lines, same model runner
//!    Model/PlacementRun.v) but with half of the children display:none (1, C05) or position:absolute (2, C06), most with definite lines.
//! `vh c06 witness`: the known finding's reproducer (container height with / without the absolute child's grid line).
use crate::c08;
use crate::rng::Rng;
use crate::treegen::*;
use std::io::Write;
use taffy::prelude::*;
use taffy::{DetailedLayoutInfo, GridPlacement};

const NAMES: [&str; 21] =
    ["order", "x", "y", "w", "h", "cw", "ch", "sbw", "sbh", "bl", "br", "bt", "bb", "pl", "pr", "pt", "pb", "ml", "mr", "mt", "mb"];

/// pre-order flattening: (parent index, subtree size) per node
pub fn flatten(spec: &NodeSpec) -> Vec<(Option<usize>, usize)> {
    fn rec(s: &NodeSpec, parent: Option<usize>, out: &mut Vec<(Option<usize>, usize)>) {
        let me = out.len();
        out.push((parent, s.count()));
        for c in &s.children {
            rec(c, Some(me), out);
        }
    }
    let mut v = vec![];
    rec(spec, None, &mut v);
    v
}

pub fn node_at<'a>(spec: &'a NodeSpec, idx: usize) -> &'a NodeSpec {
    fn rec<'a>(s: &'a NodeSpec, idx: usize, cur: &mut usize) -> Option<&'a NodeSpec> {
        if *cur == idx {
            return Some(s);
        }
        *cur += 1;
        for c in &s.children {
            if let Some(r) = rec(c, idx, cur) {
                return Some(r);
            }
        }
        None
    }
    rec(spec, idx, &mut 0).unwrap()
}

pub fn node_at_mut<'a>(spec: &'a mut NodeSpec, idx: usize) -> &'a mut NodeSpec {
    fn rec<'a>(s: &'a mut NodeSpec, idx: usize, cur: &mut usize) -> Option<&'a mut NodeSpec> {
        if *cur == idx {
            return Some(s);
        }
        *cur += 1;
        for c in s.children.iter_mut() {
            if let Some(r) = rec(c, idx, cur) {
                return Some(r);
            }
        }
        None
    }
    rec(spec, idx, &mut 0).unwrap()
}

fn styles(spec: &NodeSpec) -> Vec<&Style> {
    fn rec<'a>(s: &'a NodeSpec, out: &mut Vec<&'a Style>) {
        out.push(&s.style);
        for c in &s.children {
            rec(c, out);
        }
    }
    let mut v = vec![];
    rec(spec, &mut v);
    v
}

/// per node: is it display:none itself or below a display:none node
fn hidden_region(spec: &NodeSpec) -> Vec<bool> {
    let flat = flatten(spec);
    let st = styles(spec);
    let mut h = vec![false; flat.len()];
    for i in 0..flat.len() {
        let up = flat[i].0.map(|p| h[p]).unwrap_or(false);
        h[i] = up || st[i].display == Display::None;
    }
    h
}

pub type Lays = Vec<(Vec<u32>, Vec<u32>)>;

/// explicit track counts (rows, columns) reported for a grid container, if it ran the grid algorithm
type Explicit = Vec<Option<(i64, i64)>>;

/// Build from scratch, lay out, return (unrounded bits, rounded bits) per node in pre-order; None on panic.
pub fn layout_all(spec: &NodeSpec, a: Size<AvailableSpace>) -> Option<(Lays, Explicit)> {
    let spec = spec.clone();
    std::panic::catch_unwind(move || {
        let mut t: TaffyTree<Ctx> = TaffyTree::new();
        let mut ids = vec![];
        let root = build(&mut t, &spec, &mut ids);
        compute(&mut t, root, a);
        let lays = ids.iter().map(|n| (layout_bits(t.unrounded_layout(*n)), layout_bits(t.layout(*n).unwrap()))).collect();
        let ex = ids
            .iter()
            .map(|n| match t.detailed_layout_info(*n) {
                DetailedLayoutInfo::Grid(g) => Some((g.rows.explicit_tracks as i64, g.columns.explicit_tracks as i64)),
                _ => None,
            })
            .collect();
        (lays, ex)
    })
    .ok()
}

/// "Calm" trees: no block container and no baseline alignment anywhere.  For them (exact memo key) a relayout after any history
/// stores the same layouts as a fresh tree -- theorem C01_taffy_engine_layouts_equal_fresh_partial -- so clause (c) of the C06
/// oracle cannot raise a false alarm there; outside this class the recorded ComputeSize-scribble finding would.
fn calm(spec: &NodeSpec) -> bool {
    let s = &spec.style;
    let base = |a: Option<AlignItems>| a == Some(AlignItems::Baseline);
    if base(s.align_items) || base(s.align_self) || base(s.justify_items) || base(s.justify_self) {
        return false;
    }
    if !spec.children.is_empty() && s.display == Display::Block {
        return false;
    }
    spec.children.iter().all(calm)
}

/// Exact-key mode (hook): (fresh layout of `spec`; layout of the same tree first laid out with `target` IN FLOW
/// (position: relative), then given its real absolute style through set_style and laid out again).  Unrounded layout bits.
#[cfg(taffy_verif)]
pub fn fresh_and_after_making_absolute(spec: &NodeSpec, target: usize, a: Size<AvailableSpace>) -> Option<(Vec<Vec<u32>>, Vec<Vec<u32>>)> {
    let spec = spec.clone();
    let r = std::panic::catch_unwind(move || {
        taffy::verif_hooks::set_exact_key(true);
        let mut t: TaffyTree<Ctx> = TaffyTree::new();
        t.disable_rounding();
        let mut ids = vec![];
        let root = build(&mut t, &spec, &mut ids);
        compute(&mut t, root, a);
        let fresh: Vec<Vec<u32>> = ids.iter().map(|n| layout_bits(t.unrounded_layout(*n))).collect();
        let mut inflow = spec.clone();
        node_at_mut(&mut inflow, target).style.position = Position::Relative;
        let mut t: TaffyTree<Ctx> = TaffyTree::new();
        t.disable_rounding();
        let mut ids = vec![];
        let root = build(&mut t, &inflow, &mut ids);
        compute(&mut t, root, a);
        t.set_style(ids[target], node_at(&spec, target).style.clone()).unwrap();
        compute(&mut t, root, a);
        let after: Vec<Vec<u32>> = ids.iter().map(|n| layout_bits(t.unrounded_layout(*n))).collect();
        (fresh, after)
    });
    taffy::verif_hooks::set_exact_key(false);
    r.ok()
}

/// Lay the tree out with node `target` VISIBLE (display `vis`), then give it its real (display:none) style through
/// set_style and lay out again: layouts after the second pass; None on panic.
pub fn layout_after_hiding(spec: &NodeSpec, target: usize, vis: Display, a: Size<AvailableSpace>) -> Option<Lays> {
    let spec = spec.clone();
    std::panic::catch_unwind(move || {
        // every display:none node inside the target's subtree (the target included) is shown for the first pass, so that the
        // whole subtree -- also below NESTED display:none nodes -- holds non-zero layouts before it is hidden
        let n_sub = flatten(&spec)[target].1;
        let mut shown = spec.clone();
        let mut to_hide: Vec<(usize, Style)> = vec![];
        for k in target..target + n_sub {
            let st = node_at(&spec, k).style.clone();
            if st.display == Display::None {
                node_at_mut(&mut shown, k).style.display = if k == target { vis } else { [Display::Block, Display::Flex, Display::Grid][k % 3] };
                to_hide.push((k, st));
            }
        }
        let mut t: TaffyTree<Ctx> = TaffyTree::new();
        let mut ids = vec![];
        let root = build(&mut t, &shown, &mut ids);
        compute(&mut t, root, a);
        for (k, st) in to_hide {
            t.set_style(ids[k], st).unwrap();
        }
        compute(&mut t, root, a);
        ids.iter().map(|n| (layout_bits(t.unrounded_layout(*n)), layout_bits(t.layout(*n).unwrap()))).collect()
    })
    .ok()
}

/// Trace validation of the part of HiddenBlind that is visible in a trace: every query that reaches a display:none node
/// through compute_cached_layout (i.e. issued by its parent's algorithm) is the canonical one
/// perform_child_layout(child, NONE, NONE, MAX_CONTENT, InherentSize, FALSE): it carries no information about anything.
/// Returns (hidden-child queries seen, descriptions of non-canonical ones).
#[cfg(taffy_verif)]
pub fn hidden_queries(spec: &NodeSpec, a: Size<AvailableSpace>) -> (u64, Vec<String>) {
    use taffy::verif_hooks::Event;
    let spec = spec.clone();
    std::panic::catch_unwind(move || {
        let mut t: TaffyTree<Ctx> = TaffyTree::new();
        let mut ids = vec![];
        let root = build(&mut t, &spec, &mut ids);
        taffy::verif_hooks::start_trace();
        compute(&mut t, root, a);
        let trace = taffy::verif_hooks::take_trace();
        let st = styles(&spec);
        let (mut seen, mut bad) = (0u64, vec![]);
        for ev in &trace {
            if let Event::Query { node, input, .. } = ev {
                let k = match ids.iter().position(|x| x == node) {
                    Some(k) => k,
                    None => continue,
                };
                if k == 0 || st[k].display != Display::None {
                    continue;
                }
                seen += 1;
                let canonical = input.run_mode == taffy::RunMode::PerformLayout
                    && input.sizing_mode == taffy::SizingMode::InherentSize
                    && input.known_dimensions == Size::NONE
                    && input.parent_size == Size::NONE
                    && input.available_space == Size::MAX_CONTENT
                    && input.vertical_margins_are_collapsible == Line::FALSE;
                if !canonical {
                    bad.push(format!("node#{k} (display:none) was queried with {:?}", input));
                }
            }
        }
        (seen, bad)
    })
    .unwrap_or((0, vec![]))
}

fn diff_fields(a: &(Vec<u32>, Vec<u32>), b: &(Vec<u32>, Vec<u32>), ignore: &dyn Fn(usize) -> bool) -> Vec<String> {
    let mut f = vec![];
    for (which, (x, y)) in [(&a.0, &b.0), (&a.1, &b.1)].iter().enumerate() {
        for j in 0..21 {
            if x[j] != y[j] && !ignore(j) {
                f.push(format!("{}{}", if which == 0 { "u." } else { "r." }, NAMES[j]));
            }
        }
    }
    f
}

fn floats(v: &[u32]) -> Vec<f32> {
    v[1..].iter().map(|b| f32::from_bits(*b)).collect()
}

fn disp(d: Display) -> &'static str {
    match d {
        Display::Flex => "flex",
        Display::Grid => "grid",
        Display::Block => "block",
        Display::None => "none",
    }
}

fn definite_line(rng: &mut Rng) -> GridPlacement {
    GridPlacement::from_line_index(*rng.pick(&[-6i16, -4, -3, -2, -1, 1, 2, 3, 4, 5, 7]))
}

/// give a node loud grid placement / size / margin styles (so that a leak into the container is visible)
fn make_loud(rng: &mut Rng, cfg: &GenCfg, s: &mut Style) {
    if rng.chance(2, 3) {
        let pl = |rng: &mut Rng| match rng.below(6) {
            0 => GridPlacement::Auto,
            1 => GridPlacement::Span(1 + rng.below(4) as u16),
            _ => definite_line(rng),
        };
        s.grid_row = Line { start: pl(rng), end: pl(rng) };
        s.grid_column = Line { start: pl(rng), end: pl(rng) };
    }
    if rng.chance(1, 2) {
        s.size = Size { width: Dimension::length(1.0 + len_value(rng, cfg, 150)), height: Dimension::length(1.0 + len_value(rng, cfg, 150)) };
    }
    if rng.chance(1, 3) {
        s.min_size = Size { width: Dimension::length(len_value(rng, cfg, 90)), height: Dimension::length(len_value(rng, cfg, 90)) };
    }
    if rng.chance(1, 3) {
        s.margin = Rect { left: lpa(rng, cfg, 30, true, true), right: lpa(rng, cfg, 30, true, true), top: lpa(rng, cfg, 30, true, true), bottom: lpa(rng, cfg, 30, true, true) };
    }
    if rng.chance(1, 4) {
        s.flex_grow = 3.0;
        s.flex_basis = Dimension::length(len_value(rng, cfg, 120));
    }
}

pub struct Case {
    pub spec: NodeSpec,
    pub avail: Size<AvailableSpace>,
    /// pre-order index of the node to replace / neutralise (None: nothing to replace, e.g. hidden root)
    pub target: Option<usize>,
}

/// C05 case: tree with at least one display:none node; target = one of them (top-level hidden nodes preferred)
pub fn case05(seed: u64, idx: u64) -> Case {
    let mut rng = Rng::new(seed.wrapping_mul(0x9E37_79B9_7F4A_7C15).wrapping_add(idx) ^ 0xC05);
    let mut cfg = GenCfg::default();
    cfg.max_nodes = 14;
    cfg.p_hidden = 180;
    cfg.p_absolute = 70;
    cfg.fractional = idx % 2 == 1;
    let mut spec = tree(&mut rng, &cfg);
    if spec.count() == 1 {
        spec.children.push(NodeSpec { style: style(&mut rng, &cfg, false, true), ctx: ctx(&mut rng, &cfg), children: vec![] });
    }
    let avail = avail(&mut rng, &cfg);
    if idx % 64 == 63 {
        // a display:none root: only clause (i) applies
        spec.style.display = Display::None;
        return Case { spec, avail, target: None };
    }
    let n = spec.count();
    let hidden: Vec<usize> = (1..n).filter(|i| node_at(&spec, *i).style.display == Display::None).collect();
    if hidden.is_empty() {
        let k = 1 + rng.below(n as u64 - 1) as usize;
        node_at_mut(&mut spec, k).style.display = Display::None;
    }
    let region = hidden_region(&spec);
    let flat = flatten(&spec);
    let hidden: Vec<usize> = (1..n).filter(|i| node_at(&spec, *i).style.display == Display::None).collect();
    let top: Vec<usize> = hidden.iter().copied().filter(|i| !region[flat[*i].0.unwrap()]).collect();
    let target = if !top.is_empty() && rng.chance(9, 10) { *rng.pick(&top) } else { *rng.pick(&hidden) };
    if rng.chance(1, 2) {
        make_loud(&mut rng, &cfg, &mut node_at_mut(&mut spec, target).style);
    }
    Case { spec, avail, target: Some(target) }
}

/// C06 case: tree with at least one box-generating position:absolute node outside display:none regions
pub fn case06(seed: u64, idx: u64) -> Case {
    let mut rng = Rng::new(seed.wrapping_mul(0x9E37_79B9_7F4A_7C15).wrapping_add(idx) ^ 0xC06);
    let mut cfg = GenCfg::default();
    cfg.max_nodes = 14;
    cfg.p_hidden = 40;
    cfg.p_absolute = 220;
    cfg.fractional = idx % 2 == 1;
    let mut spec = tree(&mut rng, &cfg);
    if spec.count() == 1 {
        spec.children.push(NodeSpec { style: style(&mut rng, &cfg, false, true), ctx: ctx(&mut rng, &cfg), children: vec![] });
    }
    let avail = avail(&mut rng, &cfg);
    let n = spec.count();
    let eligible = |spec: &NodeSpec| -> Vec<usize> {
        let region = hidden_region(spec);
        (1..n).filter(|i| !region[*i] && node_at(spec, *i).style.position == Position::Absolute).collect()
    };
    if eligible(&spec).is_empty() {
        let region = hidden_region(&spec);
        let vis: Vec<usize> = (1..n).filter(|i| !region[*i]).collect();
        if vis.is_empty() {
            // everything below the root is hidden: un-hide the first child
            node_at_mut(&mut spec, 1).style.display = Display::Block;
            node_at_mut(&mut spec, 1).style.position = Position::Absolute;
        } else {
            let k = *rng.pick(&vis);
            let s = &mut node_at_mut(&mut spec, k).style;
            s.position = Position::Absolute;
            let mut f = |rng: &mut Rng| if rng.chance(1, 2) { LengthPercentageAuto::auto() } else { lpa(rng, &cfg, 40, false, true) };
            s.inset = Rect { left: f(&mut rng), right: f(&mut rng), top: f(&mut rng), bottom: f(&mut rng) };
        }
    }
    let el = eligible(&spec);
    let target = *rng.pick(&el);
    if rng.chance(1, 2) {
        make_loud(&mut rng, &cfg, &mut node_at_mut(&mut spec, target).style);
    }
    Case { spec, avail, target: Some(target) }
}

fn bare(hidden: bool) -> NodeSpec {
    let mut s = Style::DEFAULT;
    if hidden {
        s.display = Display::None;
    } else {
        s.position = Position::Absolute;
    }
    NodeSpec { style: s, ctx: None, children: vec![] }
}

/// line of one axis in origin-zero coordinates: (min line, max line, span) as compute_grid_size_estimate sees a child
fn estimate_contribution(l: &Line<GridPlacement>, explicit: i64) -> (i64, i64, i64) {
    let oz = |p: &GridPlacement| -> (u8, i64) {
        match p {
            GridPlacement::Auto => (0, 0),
            GridPlacement::Span(s) => (2, *s as i64),
            GridPlacement::Line(gl) => {
                let v = gl.as_i16() as i64;
                if v == 0 {
                    (0, 0)
                } else if v > 0 {
                    (1, v - 1)
                } else {
                    (1, v + explicit + 1)
                }
            }
        }
    };
    match (oz(&l.start), oz(&l.end)) {
        ((1, a), (1, b)) => {
            if a == b {
                (a, a + 1, 1)
            } else {
                (a.min(b), a.max(b), (a - b).abs())
            }
        }
        ((1, a), (2, s)) => (a, a + s, s),
        ((1, a), _) => (a, a + 1, 1),
        ((2, s), (1, b)) => (b - s, b, s),
        (_, (1, b)) => (b - 1, b, 1),
        ((2, s), _) => (0, 0, s),
        (_, (2, s)) => (0, 0, s),
        _ => (0, 0, 1),
    }
}

/// explicit track count of a template when every auto-fill / auto-fit repetition is instantiated once: what
/// compute_explicit_grid_size_in_axis returns when the container size is indefinite in that axis (sizing passes)
fn one_repetition_count(template: &[TrackSizingFunction]) -> (i64, bool) {
    let mut n = 0i64;
    let mut auto = false;
    for t in template {
        match t {
            TrackSizingFunction::Single(_) => n += 1,
            TrackSizingFunction::Repeat(GridTrackRepetition::Count(c), v) => n += *c as i64 * v.len() as i64,
            TrackSizingFunction::Repeat(_, v) => {
                auto = true;
                n += v.len() as i64
            }
        }
    }
    (n, auto)
}

/// the known class of C06/grid-estimate-absolute: a box-generating absolute child of a GRID container whose placement, in
/// some axis, has a definite (non-zero) line outside the explicit grid -- itself or through its span -- or a span larger
/// than the explicit track count.  The explicit track count of an axis is the one reported by detailed_layout_info, or,
/// for a template with an auto-fill / auto-fit repetition, the smaller one of a sizing pass with an indefinite container
/// size (one repetition); "outside" is monotone in the count, so the smallest count decides.
fn in_known_class(style: &Style, parent: &Style, explicit: Option<(i64, i64)>) -> bool {
    if parent.display != Display::Grid {
        return false;
    }
    let low = |template: &[TrackSizingFunction], reported: Option<i64>| -> i64 {
        let (n, auto) = one_repetition_count(template);
        match reported {
            Some(e) if auto => e.min(n),
            Some(e) => e,
            None => n,
        }
    };
    let er = low(&parent.grid_template_rows, explicit.map(|x| x.0));
    let ec = low(&parent.grid_template_columns, explicit.map(|x| x.1));
    let out = |l: &Line<GridPlacement>, e: i64| {
        let (mn, mx, sp) = estimate_contribution(l, e);
        mn < 0 || mx > e || sp > e.max(1)
    };
    out(&style.grid_row, er) || out(&style.grid_column, ec)
}

pub struct Verdict {
    pub fails: Vec<(String, String)>, // (class, message)
    pub known: Vec<(String, String)>, // (class, message)
    pub compared: u64,
    pub zero_checked: u64,
    pub both_panic: bool,
    pub parent_display: &'static str,
    pub nested: bool,
    pub target_has_children: bool,
    pub target_known_class: bool,
    pub hidden_queries: u64,
    pub became_absolute_checked: bool,
}

fn new_verdict() -> Verdict {
    Verdict {
        fails: vec![],
        known: vec![],
        compared: 0,
        zero_checked: 0,
        both_panic: false,
        parent_display: "-",
        nested: false,
        target_has_children: false,
        target_known_class: false,
        hidden_queries: 0,
        became_absolute_checked: false,
    }
}

fn check_zero(spec: &NodeSpec, lays: &Lays, v: &mut Verdict, what: &str) {
    let region = hidden_region(spec);
    for i in 0..lays.len() {
        if !region[i] {
            continue;
        }
        v.zero_checked += 1;
        for (which, bits) in [&lays[i].0, &lays[i].1].iter().enumerate() {
            let nz: Vec<usize> = (1..21).filter(|j| f32::from_bits(bits[*j]) != 0.0).collect();
            if nz.is_empty() {
                continue;
            }
            let msg = format!(
                "{what}: node#{i} in a display:none region has a non-zero {} layout, fields={} :: {:?}",
                if which == 0 { "unrounded" } else { "rounded" },
                nz.iter().map(|j| NAMES[*j]).collect::<Vec<_>>().join(","),
                floats(bits)
            );
            // known finding C05/hidden-root-box-fields: compute_root_layout writes the ROOT's scrollbar_size, border, padding
            // and margin from its style even when the root is display:none (fields 7..=20); nothing else
            if i == 0 && nz.iter().all(|j| *j >= 7) {
                if v.known.is_empty() {
                    v.known.push(("hiddenroot".to_string(), msg));
                }
                continue;
            }
            v.fails.push(("zero".to_string(), msg));
            return;
        }
    }
}

pub fn run05(c: &Case) -> Verdict {
    let mut v = new_verdict();
    let a = layout_all(&c.spec, c.avail);
    let target = match c.target {
        Some(t) => t,
        None => {
            match &a {
                Some((l, _)) => check_zero(&c.spec, l, &mut v, "hidden root"),
                None => v.both_panic = true,
            }
            return v;
        }
    };
    let flat = flatten(&c.spec);
    let st = styles(&c.spec);
    let region = hidden_region(&c.spec);
    let parent = flat[target].0.unwrap();
    v.parent_display = disp(st[parent].display);
    v.nested = region[parent];
    v.target_has_children = flat[target].1 > 1;
    let mut spec2 = c.spec.clone();
    *node_at_mut(&mut spec2, target) = bare(true);
    let b = layout_all(&spec2, c.avail);
    let (la, lb) = match (a, b) {
        (Some(a), Some(b)) => (a.0, b.0),
        (None, None) => {
            v.both_panic = true;
            return v;
        }
        (x, _) => {
            v.fails.push(("panic".to_string(), format!("layout panics only {} the hidden subtree is replaced by a bare leaf", if x.is_some() { "after" } else { "before" })));
            return v;
        }
    };
    check_zero(&c.spec, &la, &mut v, "original tree");
    if v.fails.is_empty() {
        check_zero(&spec2, &lb, &mut v, "tree with the bare leaf");
    }
    // (ii) every node outside the replaced subtree
    let cnt = flat[target].1;
    for i in 0..la.len() {
        if i >= target && i < target + cnt {
            continue;
        }
        let j = if i < target { i } else { i - (cnt - 1) };
        v.compared += 1;
        let f = diff_fields(&la[i], &lb[j], &|_| false);
        if !f.is_empty() {
            v.fails.push((
                "leak".to_string(),
                format!(
                    "node#{i} ({}, parent of target: {}) differs when hidden node#{target} (child of a {} container) is replaced by a bare display:none leaf: fields={} :: {:?} vs {:?}",
                    disp(st[i].display),
                    i == parent,
                    v.parent_display,
                    f.join(","),
                    floats(&la[i].0),
                    floats(&lb[j].0)
                ),
            ));
            break;
        }
    }
    // (iii) the same tree laid out while the target is still visible, then hidden through set_style and laid out again:
    //       the zero clause must hold as well (what was laid out before is zeroed by compute_hidden_layout's recursion)
    if v.fails.is_empty() {
        let vis = [Display::Flex, Display::Grid, Display::Block][target % 3];
        match layout_after_hiding(&c.spec, target, vis, c.avail) {
            Some(lh) => check_zero(&c.spec, &lh, &mut v, "laid out with the target visible, target then set to display:none, laid out again"),
            None => {} // a panic while the target is visible is not about display:none
        }
    }
    #[cfg(taffy_verif)]
    if v.fails.is_empty() {
        let (seen, bad) = hidden_queries(&c.spec, c.avail);
        v.hidden_queries = seen;
        if let Some(b) = bad.first() {
            v.fails.push(("hyp".to_string(), format!("HiddenBlind (trace): {b}")));
        }
    }
    v
}

pub fn run06(c: &Case) -> Verdict {
    let mut v = new_verdict();
    let target = c.target.unwrap();
    let flat = flatten(&c.spec);
    let st = styles(&c.spec);
    let parent = flat[target].0.unwrap();
    v.parent_display = disp(st[parent].display);
    v.target_has_children = flat[target].1 > 1;
    let mut anc = vec![];
    let mut cur = Some(parent);
    while let Some(p) = cur {
        anc.push(p);
        cur = flat[p].0;
    }
    v.nested = anc.len() > 1;
    let mut spec2 = c.spec.clone();
    *node_at_mut(&mut spec2, target) = bare(false);
    let a = layout_all(&c.spec, c.avail);
    let b = layout_all(&spec2, c.avail);
    // the explicit track counts of the container (identical in both runs unless the container's size changed)
    let explicit = match (&a, &b) {
        (_, Some(b)) if b.1[parent].is_some() => b.1[parent],
        (Some(a), _) => a.1[parent],
        _ => None,
    };
    let mut known = in_known_class(st[target], st[parent], explicit);
    v.target_known_class = known;
    let (la, lb) = match (a, b) {
        (Some(a), Some(b)) => (a.0, b.0),
        (None, None) => {
            v.both_panic = true;
            return v;
        }
        (x, _) => {
            let m = format!("layout panics only {} the absolute node is neutralised", if x.is_some() { "after" } else { "before" });
            if known {
                v.known.push(("gridabs".to_string(), m));
            } else {
                v.fails.push(("panic".to_string(), m));
            }
            return v;
        }
    };
    let cnt = flat[target].1;
    if known && la.iter().enumerate().any(|(i, x)| !(i >= target && i < target + cnt) && *x != lb[if i < target { i } else { i - (cnt - 1) }]) {
        // attribute the difference: a bare absolute leaf that keeps ONLY the grid placement must reproduce the original layouts
        // everywhere outside the subtree (then nothing but grid_row / grid_column of the absolute child is responsible)
        let mut spec3 = spec2.clone();
        {
            let s3 = &mut node_at_mut(&mut spec3, target).style;
            s3.grid_row = st[target].grid_row.clone();
            s3.grid_column = st[target].grid_column.clone();
        }
        match layout_all(&spec3, c.avail) {
            Some((lc, _)) => {
                for i in 0..la.len() {
                    if i >= target && i < target + cnt {
                        continue;
                    }
                    let j = if i < target { i } else { i - (cnt - 1) };
                    let is_anc = anc.contains(&i);
                    let is_sibling = flat[i].0 == Some(parent);
                    if !diff_fields(&la[i], &lc[j], &|k| (is_anc && (k == 5 || k == 6)) || (is_sibling && k == 0)).is_empty() {
                        known = false; // something else of the absolute node leaks as well
                    }
                }
            }
            None => known = false,
        }
    }
    for i in 0..la.len() {
        if i >= target && i < target + cnt {
            continue;
        }
        let j = if i < target { i } else { i - (cnt - 1) };
        v.compared += 1;
        let is_anc = anc.contains(&i);
        let is_sibling = flat[i].0 == Some(parent);
        // allowed to depend on the absolute child: content_size of its ancestors, order of its siblings
        let f = diff_fields(&la[i], &lb[j], &|k| (is_anc && (k == 5 || k == 6)) || (is_sibling && k == 0));
        if !f.is_empty() {
            let msg = format!(
                "node#{i} ({}{}) differs when absolute node#{target} (child of a {} container, grid_row {:?}, grid_column {:?}, explicit {:?}) is neutralised: fields={} :: {:?} vs {:?}",
                disp(st[i].display),
                if i == parent { ", its container" } else if is_anc { ", an ancestor" } else if is_sibling { ", a sibling" } else { "" },
                v.parent_display,
                st[target].grid_row,
                st[target].grid_column,
                explicit,
                f.join(","),
                floats(&la[i].0),
                floats(&lb[j].0)
            );
            if known {
                v.known.push(("gridabs".to_string(), msg));
            } else {
                v.fails.push(("leak".to_string(), msg));
            }
            break;
        }
    }
    // (b) presence vs absence: REMOVE the absolute node altogether (the neutralised leaf above is still an absolute item, so a
    // defect triggered by the mere presence of an absolute item -- e.g. margin-collapsing bookkeeping in block layout -- is
    // invisible to (a)). Skipped when the container would become childless (it would then be laid out as a leaf) and for grid
    // containers (known finding: the size estimate sees absolute children, even a bare one creates an implicit track).
    if v.fails.is_empty() && st[parent].display != Display::Grid && node_at(&c.spec, parent).children.len() > 1 {
        let mut spec4 = c.spec.clone();
        remove_node(&mut spec4, target);
        if let Some((ld, _)) = layout_all(&spec4, c.avail) {
            for i in 0..la.len() {
                if i >= target && i < target + cnt {
                    continue;
                }
                let j = if i < target { i } else { i - cnt };
                let is_anc = anc.contains(&i);
                let is_sibling = flat[i].0 == Some(parent);
                let f = diff_fields(&la[i], &ld[j], &|k| (is_anc && (k == 5 || k == 6)) || (is_sibling && k == 0));
                if !f.is_empty() {
                    v.fails.push((
                        "presence".to_string(),
                        format!(
                            "node#{i} ({}{}) differs when absolute node#{target} (child of a {} container) is removed altogether: fields={} :: {:?} vs {:?}",
                            disp(st[i].display),
                            if i == parent { ", its container" } else if is_anc { ", an ancestor" } else if is_sibling { ", a sibling" } else { "" },
                            v.parent_display,
                            f.join(","),
                            floats(&la[i].0),
                            floats(&ld[j].0)
                        ),
                    ));
                    break;
                }
            }
        }
    }
    // (c) a node that BECOMES absolute: the tree laid out with the target in flow, the target then given its absolute style through
    // set_style, laid out again -- nothing outside its subtree may remember the in-flow pass.  Exact memo key, calm trees only (see
    // `calm`): there the relayout equals the fresh layout by theorem, so every difference is a real staleness.
    #[cfg(taffy_verif)]
    if v.fails.is_empty() && calm(&c.spec) {
        if let Some((fresh, after)) = fresh_and_after_making_absolute(&c.spec, target, c.avail) {
            v.became_absolute_checked = true;
            for i in 0..fresh.len() {
                if fresh[i] != after[i] {
                    v.fails.push((
                        "became-absolute".to_string(),
                        format!(
                            "node#{i} ({}{}): laid out with node#{target} in flow, node#{target} then set to position:absolute (child of a {} container), laid out again: {:?} but a fresh tree gives {:?} (exact memo key, no block container, no baseline alignment)",
                            disp(st[i].display),
                            if i == parent { ", its container" } else if anc.contains(&i) { ", an ancestor" } else if i >= target && i < target + cnt { ", inside its subtree" } else { "" },
                            v.parent_display,
                            floats(&after[i]),
                            floats(&fresh[i])
                        ),
                    ));
                    break;
                }
            }
        }
    }
    v
}

/// remove the node with pre-order index `idx` (not the root) from its parent's child list
fn remove_node(spec: &mut NodeSpec, idx: usize) {
    fn rec(s: &mut NodeSpec, idx: usize, cur: &mut usize) -> bool {
        let mut k = 0;
        while k < s.children.len() {
            *cur += 1;
            if *cur == idx {
                s.children.remove(k);
                return true;
            }
            if rec(&mut s.children[k], idx, cur) {
                return true;
            }
            k += 1;
        }
        false
    }
    rec(spec, idx, &mut 0);
}

// ------------------------------------------------------------------------------------------------ K family

fn k_placement(rng: &mut Rng, line_range: i64, max_span: u64, p_auto: u64) -> (i64, i64) {
    if rng.below(10) < p_auto {
        return (0, 0);
    }
    match rng.below(6) {
        0..=3 => (1, rng.below(2 * line_range as u64 + 1) as i64 - line_range),
        _ => (2, 1 + rng.below(max_span) as i64),
    }
}

/// grid containers with skipped children carrying random (mostly definite) placements; `skipped` = 1: half of the children are
/// display:none (C05), 2: half of them position:absolute (C06) -- the mix of both kinds is covered by `vh c08 cases`
pub fn k_case(seed: u64, idx: u64, skipped: i64) -> c08::Case {
    let mut rng = Rng::new(seed.wrapping_mul(0x9E37_79B9_7F4A_7C15).wrapping_add(idx) ^ 0x05C0_5C06);
    let ec = rng.below(5) as i64;
    let er = rng.below(5) as i64;
    let flow = rng.below(4) as i64;
    let n = 1 + rng.below(6) as usize;
    let children = (0..n)
        .map(|_| {
            let kind = if rng.below(2) == 0 { 0 } else { skipped };
            // skipped children get definite placements more often (they are what this family is about)
            let p_auto = if kind == 0 { 5 } else { 2 };
            c08::Child {
                kind,
                p: [k_placement(&mut rng, 6, 4, p_auto), k_placement(&mut rng, 6, 4, p_auto), k_placement(&mut rng, 6, 4, p_auto), k_placement(&mut rng, 6, 4, p_auto)],
            }
        })
        .collect();
    c08::Case { ec, er, flow, children }
}

// ------------------------------------------------------------------------------------------------ known-finding witness

/// grid container, no explicit tracks, grid_auto_rows 7px, one in-flow child; an absolute child with `grid_row: 4`
fn witness_heights() -> (f32, f32, f32) {
    let run = |abs: Option<Style>| -> f32 {
        let mut t: TaffyTree<()> = TaffyTree::new();
        let mut kids = vec![];
        if let Some(s) = abs {
            kids.push(t.new_leaf(s).unwrap());
        }
        let mut s = Style::default();
        s.display = Display::Grid;
        s.grid_auto_rows = vec![length(7.0)];
        let root = if kids.is_empty() { t.new_leaf(s).unwrap() } else { t.new_with_children(s, &kids).unwrap() };
        t.compute_layout(root, Size::MAX_CONTENT).unwrap();
        t.layout(root).unwrap().size.height
    };
    let mut a = Style::DEFAULT;
    a.position = Position::Absolute;
    let bare = run(Some(a.clone()));
    a.grid_row = Line { start: GridPlacement::from_line_index(4), end: GridPlacement::Auto };
    let with_line = run(Some(a));
    let none = run(None);
    (with_line, bare, none)
}


// ------------------------------------------------------------------------------------------------ readable replay output

/// `{:?}` of a style value with the CompactLength blobs decoded (`12.5px`, `25%`, `auto`, `1fr`, ...)
fn decode_lengths(d: &str) -> String {
    const PAT: &str = "CompactLength(CompactLengthInner { tagged_ptr: 0x";
    let mut out = String::new();
    let mut rest = d;
    while let Some(i) = rest.find(PAT) {
        out.push_str(&rest[..i]);
        let tail = &rest[i + PAT.len()..];
        let n = tail.find(|ch: char| !ch.is_ascii_hexdigit()).unwrap_or(tail.len());
        let w = u64::from_str_radix(&tail[..n], 16).unwrap_or(0);
        let v = f32::from_bits((w >> 32) as u32);
        let txt = match w & 0xff {
            1 => format!("{v}px"),
            2 => format!("{}%", v * 100.0),
            3 => "auto".to_string(),
            4 => format!("{v}fr"),
            7 => "min-content".to_string(),
            15 => "max-content".to_string(),
            23 => format!("fit-content({v}px)"),
            31 => format!("fit-content({}%)", v * 100.0),
            t => format!("tag{t}({v})"),
        };
        out.push_str(&txt);
        let after = &tail[n..];
        rest = after.strip_prefix(" })").unwrap_or(after);
    }
    out.push_str(rest);
    for w in ["LengthPercentageAuto", "LengthPercentage", "Dimension", "MinTrackSizingFunction", "MaxTrackSizingFunction"] {
        out = out.replace(&format!("{w}("), "(");
    }
    out
}

/// top-level `name: value` fields of a struct's `{:?}`
fn top_fields(d: &str) -> Vec<String> {
    let inner = &d[d.find('{').map(|i| i + 1).unwrap_or(0)..d.rfind('}').unwrap_or(d.len())];
    let mut v = vec![];
    let (mut depth, mut cur) = (0i32, String::new());
    for ch in inner.chars() {
        match ch {
            '(' | '{' | '[' => depth += 1,
            ')' | '}' | ']' => depth -= 1,
            _ => {}
        }
        if ch == ',' && depth == 0 {
            v.push(cur.trim().to_string());
            cur.clear();
        } else {
            cur.push(ch);
        }
    }
    if !cur.trim().is_empty() {
        v.push(cur.trim().to_string());
    }
    v
}

/// the style fields that differ from Style::DEFAULT
pub fn style_brief(s: &Style) -> String {
    let a = top_fields(&decode_lengths(&format!("{:?}", s)));
    let b = top_fields(&decode_lengths(&format!("{:?}", Style::DEFAULT)));
    a.iter().zip(b.iter()).filter(|(x, y)| x != y).map(|(x, _)| x.clone()).collect::<Vec<_>>().join("; ")
}

pub fn spec_brief(spec: &NodeSpec, depth: usize, idx: &mut usize, out: &mut String) {
    out.push_str(&format!("{}#{} {{{}}}{}\n", "  ".repeat(depth), *idx, style_brief(&spec.style), spec.ctx.as_ref().map(|c| format!(" measure={:?}", c)).unwrap_or_default()));
    *idx += 1;
    for c in &spec.children {
        spec_brief(c, depth + 1, idx, out);
    }
}

// ------------------------------------------------------------------------------------------------ main

fn oracle(which: u32, args: &[String]) {
    let seed: u64 = args[1].parse().unwrap();
    let start: u64 = args[2].parse().unwrap();
    let n: u64 = args[3].parse().unwrap();
    let (mut compared, mut zero, mut bp, mut hq) = (0u64, 0u64, 0u64, 0u64);
    let mut stat: std::collections::BTreeMap<String, u64> = Default::default();
    for idx in start..start + n {
        let r = std::panic::catch_unwind(|| {
            let c = if which == 5 { case05(seed, idx) } else { case06(seed, idx) };
            let nodes = c.spec.count();
            let v = if which == 5 { run05(&c) } else { run06(&c) };
            (v, nodes)
        });
        match r {
            Ok((v, nodes)) => {
                compared += v.compared;
                zero += v.zero_checked;
                bp += v.both_panic as u64;
                hq += v.hidden_queries;
                *stat.entry(format!("parent_{}", v.parent_display)).or_default() += 1;
                *stat.entry(format!("nested_{}", v.nested as u8)).or_default() += 1;
                *stat.entry(format!("target_has_children_{}", v.target_has_children as u8)).or_default() += 1;
                *stat.entry(format!("nodes_{}", if nodes <= 3 { "le3" } else if nodes <= 7 { "4to7" } else { "8plus" })).or_default() += 1;
                if which == 6 {
                    *stat.entry(format!("became_absolute_clause_checked_{}", v.became_absolute_checked as u8)).or_default() += 1;
                    *stat.entry(format!("target_in_known_class_{}", v.target_known_class as u8)).or_default() += 1;
                }
                for (class, m) in v.fails.iter().take(1) {
                    println!("FAIL {idx} class={class} {}", m.replace('\n', " "));
                }
                for (class, m) in v.known.iter().take(1) {
                    println!("KNOWN {idx} class={class} {}", m.replace('\n', " "));
                }
            }
            Err(_) => println!("PANIC {idx} harness"),
        }
    }
    println!("STAT {}", stat.iter().map(|(k, v)| format!("{k}={v}")).collect::<Vec<_>>().join(" "));
    println!("DONE {n} {compared} {zero} {bp} {hq}");
}

fn one(which: u32, args: &[String]) {
    let seed: u64 = args[1].parse().unwrap();
    let idx: u64 = args[2].parse().unwrap();
    let c = if which == 5 { case05(seed, idx) } else { case06(seed, idx) };
    let mut txt = String::new();
    spec_brief(&c.spec, 0, &mut 0, &mut txt);
    println!("avail={} target={:?}\ntree (style fields differing from Style::DEFAULT):\n{}", avail_str(c.avail), c.target, txt);
    if args.len() > 3 && args[3] == "full" {
        println!("{:#?}", c.spec);
    }
    let v = if which == 5 { run05(&c) } else { run06(&c) };
    if let Some((l, _)) = layout_all(&c.spec, c.avail) {
        for (i, x) in l.iter().enumerate() {
            println!("layout node#{i}: order={} {:?}", x.0[0], floats(&x.0));
        }
    }
    for (class, m) in &v.fails {
        println!("FAIL {idx} class={class} {m}");
    }
    for (class, m) in &v.known {
        println!("KNOWN {idx} class={class} {m}");
    }
    println!("DONE 1 {} {} {}", v.compared, v.zero_checked, v.both_panic as u8);
}

/// known finding C05/hidden-root-box-fields: a display:none root leaf with padding 3, border 2, margin 5, scroll gutter 4
fn root_witness() -> Vec<f32> {
    let mut t: TaffyTree<()> = TaffyTree::new();
    let mut s = Style::DEFAULT;
    s.display = Display::None;
    s.padding = Rect::length(3.0);
    s.border = Rect::length(2.0);
    s.margin = Rect::length(5.0);
    s.overflow = taffy::Point { x: taffy::Overflow::Scroll, y: taffy::Overflow::Scroll };
    s.scrollbar_width = 4.0;
    let root = t.new_leaf(s).unwrap();
    t.compute_layout(root, Size::MAX_CONTENT).unwrap();
    layout_floats(t.unrounded_layout(root))
}

/// Witness of C05_attach_below_hidden_refuted (Props/C05.v; known finding C01/hidden-region-stale) on the implementation:
/// root > hidden (display:none) > mid, laid out; a subtree sub > leaf (5 x 5) laid out as a root of its own; then
/// set_children(target, [sub]); mark_dirty(root); compute_layout(root).  With target = mid (two levels below the clean
/// display:none node: mark_dirty stops at mid's empty cache) the leaf keeps its 5 x 5 layout inside a display:none region;
/// with target = hidden it is zeroed.  Returns the leaf's (width, height) in both scenarios.
fn stale_witness() -> [f32; 4] {
    let mut out = [0.0f32; 4];
    // scenario 0: two levels below the display:none node (the known finding); scenarios 1..: directly under the display:none node, through
    // every attaching method, with and without an explicit mark_dirty(root) -- all of them must zero the attached subtree
    for (k, below_mid, method, dirty_root) in [
        (0usize, true, 0u8, true),
        (1, false, 0, true),
        (1, false, 0, false),
        (1, false, 1, false),
        (1, false, 2, false),
        (1, false, 3, false),
    ] {
        let mut t: TaffyTree<()> = TaffyTree::new();
        t.disable_rounding();
        let mid = t.new_with_children(Style::DEFAULT, &[]).unwrap();
        let mut hs = Style::DEFAULT;
        hs.display = Display::None;
        let hidden = t.new_with_children(hs, &[mid]).unwrap();
        let root = t.new_with_children(Style::DEFAULT, &[hidden]).unwrap();
        t.compute_layout(root, Size::MAX_CONTENT).unwrap();
        let mut ls = Style::DEFAULT;
        ls.size = Size::from_lengths(5.0, 5.0);
        let leaf = t.new_leaf(ls).unwrap();
        let sub = t.new_with_children(Style::DEFAULT, &[leaf]).unwrap();
        t.compute_layout(sub, Size::MAX_CONTENT).unwrap();
        let target = if below_mid { mid } else { hidden };
        match method {
            0 => t.set_children(target, &[sub]).unwrap(),
            1 => {
                t.add_child(target, sub).unwrap();
            }
            2 => {
                t.insert_child_at_index(target, 0, sub).unwrap();
            }
            _ => {
                t.replace_child_at_index(target, 0, sub).unwrap();
            }
        }
        if dirty_root {
            t.mark_dirty(root).unwrap();
        }
        t.compute_layout(root, Size::MAX_CONTENT).unwrap();
        let l = t.unrounded_layout(leaf);
        out[2 * k] = out[2 * k].max(l.size.width);
        out[2 * k + 1] = out[2 * k + 1].max(l.size.height);
    }
    out
}

pub fn main05(args: &[String]) {
    std::panic::set_hook(Box::new(|_| {}));
    match args[0].as_str() {
        "oracle" => oracle(5, args),
        "rootwitness" => {
            let f = root_witness();
            // x y w h cw ch | sbw sbh | border l r t b | padding l r t b | margin l r t b
            println!("W {}", f.iter().map(|x| x.to_bits().to_string()).collect::<Vec<_>>().join(" "));
            println!("display:none root leaf: {:?}", f);
        }
        "stalewitness" => {
            let f = stale_witness();
            println!("S {} {} {} {}", f[0].to_bits(), f[1].to_bits(), f[2].to_bits(), f[3].to_bits());
            println!("leaf attached two levels below a clean display:none node: {} x {}; attached to the display:none node: {} x {}", f[0], f[1], f[2], f[3]);
        }
        "one" => one(5, args),
        "cases" => {
            let num = |i: usize| -> u64 { args[i].parse().unwrap() };
            let (seed, n) = (num(1), num(2));
            let start = if args.len() > 3 { num(3) } else { 0 };
            let skipped = if args.len() > 4 { num(4) as i64 } else { 1 };
            let out = std::io::stdout();
            for idx in start..start + n {
                let c = k_case(seed, idx, skipped);
                {
                    let mut o = out.lock();
                    writeln!(o, "C {}", c.line()).unwrap();
                    o.flush().unwrap();
                }
                println!("{}", c08::result_line(&c08::run_impl(&c)));
            }
        }
        _ => std::process::exit(2),
    }
}

pub fn main06(args: &[String]) {
    std::panic::set_hook(Box::new(|_| {}));
    match args[0].as_str() {
        "oracle" => oracle(6, args),
        "one" => one(6, args),
        "witness" => {
            let (a, b, c) = witness_heights();
            // heights: absolute child with grid_row 4 | bare absolute child | no child at all
            println!("W {} {} {}", a.to_bits(), b.to_bits(), c.to_bits());
            println!("heights: grid_row 4 -> {a}, bare absolute leaf -> {b}, childless -> {c}");
        }
        _ => std::process::exit(2),
    }
}
