(* Executable driver of the WHOLE-TREE correspondence of the complete engine: decodes a case printed by `vh taffytree cases` (number of
   passes, the available space of each pass, then a tree of block / flex / grid containers and leaves in pre-order), runs
   compute_root_layout + the memoised evaluation (Model/TaffyRoot.v `real_layout_passes f32_seqb` = `taffy_memo f32_seqb taffy_dispatch
   block_pre abs_child_block taffy_leaf`: Model/Engine.v `memo` with the exact-key caches -- key = every field of the LayoutInput,
   numbers compared by representation (Model/TaffyKey.v: what the hook's Debug-string key does) -- over Model/TaffyEngine.v `taffy_algo`:
   the definitions C05_taffy_engine_hidden_invisible, C06_taffy_engine_instance_partial and C01_taffy_engine_* are about) over the bit-exact F32 instance,
   starting from a FRESH tree, once per pass on the same tree, and encodes every node's stored layout after every pass as the harness
   prints it after `R`: per pass, per node, pre-order,
   [order; x; y; w; h; content w; content h; scrollbar w; scrollbar h; border l r t b; padding l r t b; margin l r t b].

   node   = <72 ints + 4 track lists: Model/GridAlgRun.v dec_style> flex_direction(0 row 1 column 2 row-reverse 3 column-reverse)
            flex_wrap(0 nowrap 1 wrap 2 wrap-reverse) flex_basis(kind bits) grow shrink item_is_table text_align(0 auto 1 left 2 right
            3 center) measure(kind a b: 0 none / 1 fixed w h / 2 text n unit / 3 echo base) child-count, then the children
   Markers (never a normal-looking value):  [-1] out of fuel   [-3] the model of a Rust panic was evaluated (placement's checked
   arithmetic, an absolute grid child's line outside the implicit grid)   [-4] the case does not decode. *)
From Coq Require Import ZArith NArith Bool List.
From TV Require Import Num.Num Num.F32 Model.Common Model.Leaf Gen.GridTracksGen Model.GridTracks.
From TV Require Import Model.FlexAlgBase Model.BlockFlexEngine Model.GridAlgBase Model.GridAlg Model.TaffyEngine Model.TaffyRoot.
From TV Require Model.GridAlgRun Model.FlexAlgRun Model.MeasureFamily Model.Engine Gen.FlexGen Model.Block Model.EngineRel.
From TV Require Import Model.TaffyKey.
Import ListNotations.
Open Scope Z_scope.

Module GR := Model.GridAlgRun.
Module FR := Model.FlexAlgRun.

Definition fb (z : Z) : f32 := f_of_bits z.

(* align-content / justify-content as `vh gridalg` prints them: 0 = unset, 1.. = declaration order *)
Definition dec_fac (z : Z) : option FlexGen.AlignContent :=
  if z <=? 0 then None else nth_error FlexGen.all_align_content (Z.to_nat (z - 1)).

Definition EXTRA : nat := 12.

(* one node header: the style, the child count, the rest of the stream *)
Definition dec_node (l : list Z) : option (TStyle f32 * nat * list Z) :=
  let '(g, r) := GR.dec_style l in
  match nth_error r 11 with
  | None => None
  | Some nkids =>
      let z (i : nat) : Z := nth i r 0 in
      let dir := z 0%nat in
      let wrap := z 1%nat in
      let fs := mkFStyle (gs_core g) (gs_inset g) ((dir =? 0) || (dir =? 2)) (2 <=? dir) (negb (wrap =? 0)) (wrap =? 2)
                         (FR.r_align (GR.nz l 57)) (FR.r_align (GR.nz l 59)) (dec_fac (GR.nz l 61)) (dec_fac (GR.nz l 62))
                         (gs_gap g) (FR.r_lpa (z 2%nat) (z 3%nat)) (fb (z 4%nat)) (fb (z 5%nat)) in
      let bf := mkBF fs (negb (z 6%nat =? 0))
                     (match z 7%nat with 0 => Block.TAAuto | 1 => Block.TALeft | 2 => Block.TARight | _ => Block.TACenter end) in
      let m := MeasureFamily.family_measure
                 (match z 8%nat with
                  | 0 => MeasureFamily.MNone
                  | 1 => MeasureFamily.MFixed (fb (z 9%nat)) (fb (z 10%nat))
                  | 2 => MeasureFamily.MText (z 9%nat) (fb (z 10%nat))
                  | _ => MeasureFamily.MEcho (fb (z 9%nat))
                  end) in
      Some (mkTS bf (gs_template_columns g) (gs_template_rows g) (gs_auto_columns g) (gs_auto_rows g) (gs_flow g)
                 (gs_justify_items g) (gs_justify_self g) (gs_row g) (gs_column g) (gs_replaced g) m,
            Z.to_nat nkids, skipn EXTRA r)
  end.

Notation sk := (Engine.sk (TStyle f32)).
Notation tree := (Engine.tree (TStyle f32) (FIn f32) (LayoutOutput f32) (FLay f32)).

(* pre-order decoder: the node header, then `count` subtrees; None = malformed / out of fuel *)
Fixpoint dec_tree (fuel : nat) (l : list Z) : option (sk * list Z) :=
  match fuel with
  | O => None
  | S f =>
      match dec_node l with
      | None => None
      | Some (s, n, rest) =>
          match (fix dec_kids (n : nat) (l : list Z) : option (list sk * list Z) :=
                   match n with
                   | O => Some ([], l)
                   | S m =>
                       match dec_tree f l with
                       | Some (t, l1) => match dec_kids m l1 with Some (ts, l2) => Some (t :: ts, l2) | None => None end
                       | None => None
                       end
                   end) n rest with
          | Some (kids, rest') => Some (Engine.SNode _ s kids, rest')
          | None => None
          end
      end
  end.

Fixpoint dec_avails (n : nat) (l : list Z) : list (Size (AvailableSpace f32)) * list Z :=
  match n, l with
  | S m, _ :: _ :: _ :: _ :: _ =>
      let '(as_, rest') := dec_avails m (skipn 4 l) in (mkSize (GR.dec_avail l 0) (GR.dec_avail l 2) :: as_, rest')
  | _, _ => ([], l)
  end.

Definition enc_layout := FR.enc_layout.

Definition RUN_FUEL : nat := 12.

(* ---- has the model of a Rust panic been evaluated?  Every evaluation of a node's algorithm ends in a cache entry of that node
   (Model/Engine.v cstore), so the inputs still in the caches after the passes are checked with Model/GridAlg.v grid_no_panic
   (integer arithmetic only).  For trees that CAN panic by construction (a grid container with a box-generating absolute child that
   names a grid line) the passes are evaluated a second time with a TAINTED copy of the algorithm whose outputs carry a flag *)
Definition node_panics (s : TStyle f32) (kids : list (TStyle f32)) (i : FIn f32) : bool :=
  match taffy_dispatch s (length kids) with
  | TKGrid => negb (grid_no_panic (to_gstyle s) (map to_gstyle kids) i)
  | _ => false
  end.
Fixpoint cache_panics (t : tree) : bool :=
  match t with
  | Engine.Node _ _ _ _ s c _ kids =>
      let st := map (Engine.style_of _ _ _ _) kids in
      (if t_is_none s then false
       else existsb (fun e => node_panics s st (fst e))
                    ((match Engine.final _ _ c with Some e => [e] | None => [] end) ++ Engine.meas _ _ c))
      || existsb cache_panics kids
  end.

Definition names_line (l : PB.Ln PB.GP) : bool :=
  match PB.l_start l, PB.l_end l with PB.Auto, PB.Auto => false | _, _ => true end.
Fixpoint may_panic (t : sk) : bool :=
  match t with
  | Engine.SNode _ s kids =>
      (match taffy_dispatch s (length kids) with
       | TKGrid => negb (t_is_none s)
                   && existsb (fun k => let ks := Engine.sstyle _ k in
                                        t_visible_absolute ks && (names_line (ts_row ks) || names_line (ts_column ks))) kids
       | _ => false
       end)
      || existsb may_panic kids
  end.

Notation Alg2 := (Engine.Alg (FIn f32) (LayoutOutput f32 * bool) (FLay f32)).
Fixpoint taint (b : bool) (a : Engine.Alg (FIn f32) (LayoutOutput f32) (FLay f32)) : Alg2 :=
  match a with
  | Engine.Ret _ _ _ o => Engine.Ret _ _ _ (o, b)
  | Engine.Query _ _ _ c i k => Engine.Query _ _ _ c i (fun ob => taint (b || snd ob) (k (fst ob)))
  | Engine.SetLayout _ _ _ c l k => Engine.SetLayout _ _ _ c l (taint b k)
  end.
Definition tainted_algo (s : TStyle f32) (st : list (TStyle f32)) (i : FIn f32) : Alg2 :=
  taint (node_panics s st i) (real_algo s st i).
Definition tainted_memo :=
  Engine.memo (TStyle f32) (FIn f32) (LayoutOutput f32 * bool) (FLay f32) qi_mode (fin_eqb_with f32_seqb) t_is_none (output_HIDDEN, false)
              (f_with_order 0) tainted_algo.
Fixpoint tainted_passes (t : Engine.tree (TStyle f32) (FIn f32) (LayoutOutput f32 * bool) (FLay f32))
         (avails : list (Size (AvailableSpace f32))) : bool :=
  match avails with
  | [] => false
  | a :: rest =>
      match tainted_memo RUN_FUEL t (taffy_root_input (Engine.style_of _ _ _ _ t) a) with
      | Some ((_, b), t') => b || tainted_passes t' rest
      | None => false
      end
  end.

Definition run_case (c : list Z) : list Z :=
  match c with
  | np :: rest0 =>
      let '(avails, rest) := dec_avails (Z.to_nat np) rest0 in
      match dec_tree RUN_FUEL rest with
      | Some (t, []) =>
          match real_layout_passes f32_seqb RUN_FUEL t avails with
          | Some (lss, t') =>
              if cache_panics t' then [-3]
              else if may_panic t
                   then (if tainted_passes (Engine.fresh _ _ _ _ (f_with_order 0) t) avails then [-3]
                         else flat_map (flat_map enc_layout) lss)
                   else flat_map (flat_map enc_layout) lss
          | None => [-1]
          end
      | _ => [-4]
      end
  | _ => [-4]
  end.
