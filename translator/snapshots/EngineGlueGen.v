(* GENERATED on every run by /verif/translator/gen_engine.py from src/compute/mod.rs, src/tree/taffy_tree.rs, src/tree/cache.rs -- do not edit. *)
From Coq Require Import String List Bool Arith.
Import ListNotations.
Open Scope string_scope.

(* ---- (a) src/compute/mod.rs: compute_cached_layout ---- *)
Definition glue_cache_key_fields : list string := ["known_dimensions"; "available_space"; "run_mode"].
Section GlueCached.
  Variables (Tree Node In Out Key : Type).
  Variable key_of : In -> Key.                         (* let LayoutInput { known_dimensions, available_space, run_mode, .. } = inputs *)
  Variable cache_get : Tree -> Node -> Key -> option Out.
  Variable cache_store : Tree -> Node -> Key -> Out -> Tree.
  Definition glue_compute_cached_layout (tree : Tree) (node : Node) (inputs : In)
      (compute_uncached : Tree -> Node -> In -> option (Tree * Out)) : option (Tree * Out) :=
    let key := key_of inputs in
    let cache_entry := cache_get tree node key in
    match cache_entry with
    | Some cached_size_and_baselines => Some (tree, cached_size_and_baselines)
    | None =>
        match compute_uncached tree node inputs with
        | Some (tree, computed_size_and_baselines) => Some (cache_store tree node key computed_size_and_baselines, computed_size_and_baselines)
        | None => None
        end
    end.
End GlueCached.

(* ---- (b) src/tree/taffy_tree.rs: TaffyView::compute_child_layout ---- *)
Inductive GlueDisplay := GD_Block | GD_Flex | GD_Grid | GD_None.                (* src/style/mod.rs: enum Display *)
Inductive GKind := GK_hidden | GK_block | GK_flex | GK_grid | GK_leaf.
(* let has_children = tree.child_count(node) > 0 *)
Definition glue_has_children (child_count : nat) : bool := Nat.ltb 0 child_count.
(* match (display_mode, has_children): the table, arm by arm, in source order *)
Definition glue_dispatch (display_mode : GlueDisplay) (has_children : bool) : GKind :=
  match display_mode, has_children with
  | GD_None, _ => GK_hidden
  | GD_Block, true => GK_block
  | GD_Flex, true => GK_flex
  | GD_Grid, true => GK_grid
  | _, false => GK_leaf
  end.
Definition glue_dispatch_arms : list (string * string * GKind) := [("GD_None", "_", GK_hidden); ("GD_Block", "true", GK_block); ("GD_Flex", "true", GK_flex); ("GD_Grid", "true", GK_grid); ("_", "false", GK_leaf)].
Section GlueChild.
  Variables (Tree Node In Out : Type).
  Variable is_hidden_mode : In -> bool.                (* inputs.run_mode == RunMode::PerformHiddenLayout *)
  Variable compute_hidden_layout : Tree -> Node -> option (Tree * Out).
  Variable compute_cached_layout : Tree -> Node -> In -> (Tree -> Node -> In -> option (Tree * Out)) -> option (Tree * Out).
  Variable display_of : Tree -> Node -> GlueDisplay.      (* tree.taffy.nodes[node.into()].style.display *)
  Variable child_count : Tree -> Node -> nat.
  Variables compute_block_layout compute_flexbox_layout compute_grid_layout compute_leaf_layout : Tree -> Node -> In -> option (Tree * Out).
  Definition glue_compute_uncached (tree : Tree) (node : Node) (inputs : In) : option (Tree * Out) :=
    let display_mode := display_of tree node in
    let has_children := glue_has_children (child_count tree node) in
    match glue_dispatch display_mode has_children with
    | GK_hidden => compute_hidden_layout tree node
    | GK_block => compute_block_layout tree node inputs
    | GK_flex => compute_flexbox_layout tree node inputs
    | GK_grid => compute_grid_layout tree node inputs
    | GK_leaf => compute_leaf_layout tree node inputs
    end.
  Definition glue_compute_child_layout (tree : Tree) (node : Node) (inputs : In) : option (Tree * Out) :=
    if is_hidden_mode inputs then compute_hidden_layout tree node
    else compute_cached_layout tree node inputs glue_compute_uncached.
End GlueChild.

(* ---- (c) src/tree/cache.rs: Cache::clear; src/tree/taffy_tree.rs: NodeData::mark_dirty, TaffyTree::mark_dirty ---- *)
Inductive GClearState := GCS_Cleared | GCS_AlreadyEmpty.
Section GlueCacheClear.
  Variable C : Type.
  Variable c_is_empty : C -> bool.                      (* the field self.is_empty *)
  Variable c_set_is_empty : C -> bool -> C.
  Variable c_clear_final_layout_entry : C -> C.         (* self.final_layout_entry = None *)
  Variable c_clear_measure_entries : C -> C.            (* self.measure_entries = [None; CACHE_SIZE] *)
  Definition glue_cache_clear (self : C) : C * GClearState :=
    if c_is_empty self then (self, GCS_AlreadyEmpty)
    else
      let self := c_set_is_empty self true in
      let self := c_clear_final_layout_entry self in
      let self := c_clear_measure_entries self in
      (self, GCS_Cleared).
End GlueCacheClear.
Section GlueMarkDirty.
  Variables (Nodes Key NodeId : Type).
  Variable nodes_mark_dirty : Nodes -> Key -> Nodes * GClearState.   (* nodes[node_key].mark_dirty() = nodes[node_key].cache.clear(), in place *)
  Variable parents_get : Key -> option (option NodeId).              (* parents.get(node_key) *)
  Variable key_of_node : NodeId -> Key.                              (* NodeId::into *)
  Fixpoint glue_mark_dirty_recursive (fuel : nat) (nodes : Nodes) (node_key : Key) : Nodes :=
    match fuel with
    | O => nodes
    | S fuel =>
        let (nodes, r) := nodes_mark_dirty nodes node_key in
        match r with
        | GCS_AlreadyEmpty => nodes
        | GCS_Cleared => match parents_get node_key with
            | Some (Some node) => glue_mark_dirty_recursive fuel nodes (key_of_node node)
            | _ => nodes
            end
        end
    end.
  Definition glue_mark_dirty (fuel : nat) (nodes : Nodes) (node : NodeId) : Nodes :=
    glue_mark_dirty_recursive fuel nodes (key_of_node node).
End GlueMarkDirty.

(* ---- (d) src/compute/mod.rs: compute_hidden_layout ---- *)
Section GlueHidden.
  Variables (Tree Node In Out Lay : Type).
  Variable cache_clear : Tree -> Node -> Tree.
  Variable set_unrounded_layout : Tree -> Node -> Lay -> Tree.
  Variable child_count : Tree -> Node -> nat.
  Variable get_child_id : Tree -> Node -> nat -> Node.
  Variable layout_with_order : nat -> Lay.             (* Layout::with_order *)
  Variable input_HIDDEN : In.                          (* LayoutInput::HIDDEN *)
  Variable output_HIDDEN : Out.                        (* LayoutOutput::HIDDEN *)
  Variable compute_child_layout : Tree -> Node -> In -> Tree * Out.   (* the recursive call through the trait *)
  Definition glue_compute_hidden_layout (tree : Tree) (node : Node) : Tree * Out :=
    let tree := cache_clear tree node in
    let tree := set_unrounded_layout tree node (layout_with_order 0) in
    let tree := fold_left (fun tree index =>
                             let child_id := get_child_id tree node index in
                             fst (compute_child_layout tree child_id input_HIDDEN))
                          (seq 0 (child_count tree node)) tree in
    (tree, output_HIDDEN).
End GlueHidden.

(* ---- (e) src/tree/taffy_tree.rs: every mutator ends its edit with ONE unconditional self.mark_dirty(x)?; the node it names ---- *)
Definition glue_mutator_marks : list (string * string) := [("set_node_context", "node"); ("add_child", "parent"); ("insert_child_at_index", "parent"); ("set_children", "parent"); ("remove_child_at_index", "parent"); ("remove_children_range", "parent"); ("replace_child_at_index", "parent"); ("set_style", "node")].

