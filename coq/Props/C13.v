(* C13 -- pixel rounding is integral, within one pixel, drift-free and seam-free.
   Statements only.  They are about Model.Rounding (tree recursion, flag state machine) over Gen.RoundingGen, which the
   translator regenerates on every run from round_layout / round_layout_inner / round_content_size (src/compute/mod.rs),
   struct Layout, util::sys::round and the rounding-flag methods of TaffyTree (src/tree/taffy_tree.rs).

   Vocabulary (Model/Rounding.v, Proofs/RoundingProofs.v):
     tree XQ                 a tree of layouts over the exact numbers XQ = Fin q | PInf | NInf | XNaN
     fin_layout l            every f32 field of l is finite
     node_at t p             the layout of the node reached by the child indices p
     ancestors t p           the layouts of its proper ancestors, root first; sum_x / sum_y add up their locations
     round_layout t          what round_layout leaves in the final_layout slots for the unrounded tree t
     integral x              x = Fin q with q an integer;  on_half x : q = z + 1/2 for an integer z
     reported_floats l       location, size, padding, border (the property's list), scrollbar_size, content_size
     length_pairs u r        (unrounded, rounded) size / padding / border / content-size components
     point_pairs u r         (unrounded, rounded) location / scrollbar-size components
     within d (a, b)         b finite and |b - a| <= d *)
From Coq Require Import ZArith QArith Qabs Bool List Reals.
From Flocq Require Import IEEE754.BinarySingleNaN.
From TV Require Import Num.Num Num.QNum Num.F32 Model.Rounding Proofs.RoundingProofs Proofs.RoundingF32.
Import ListNotations.
Open Scope Q_scope.

(* (1) every reported location, size, padding, border (and scrollbar size, content size) of every node is an integer *)
Theorem C13_integral : forall (t : tree XQ) (p : list nat) (r : layout XQ),
  tree_all fin_layout t -> node_at (round_layout t) p = Some r ->
  all_in integral (reported_floats r).
Proof. exact integral_all. Qed.

(* ... and in binary32, for every input whatsoever (no bound on magnitudes): a field that is finite is an integer *)
Theorem C13_integral_f32 : forall (t : tree f32) (p : list nat) (r : layout f32),
  node_at (round_layout t) p = Some r ->
  all_in (fun x : f32 => is_finite x = true -> exists z : Z, B2R x = IZR z) (reported_floats r).
Proof. exact integral_f32_all. Qed.

(* (2) every rounded size (padding, border, content-size component) is within one pixel of the unrounded one; locations
   and scrollbar sizes within half a pixel *)
Theorem C13_within_one : forall (t : tree XQ) (p : list nat) (u r : layout XQ),
  tree_all fin_layout t -> node_at t p = Some u -> node_at (round_layout t) p = Some r ->
  all_in (within 1) (length_pairs u r) /\ all_in (within (1 # 2)) (point_pairs u r).
Proof. exact within_one_all. Qed.

(* strictly less than one pixel unless both the near and the far absolute edge lie exactly on half pixels *)
Theorem C13_within_one_strict : forall (t : tree XQ) (p : list nat) (u r : layout XQ),
  tree_all fin_layout t -> node_at t p = Some u -> node_at (round_layout t) p = Some r ->
  let ax := add (sum_x (ancestors t p)) (location_x u) in
  let ay := add (sum_y (ancestors t p)) (location_y u) in
  (~ on_half ax \/ ~ on_half (add ax (size_width u)) -> Qabs (val (size_width r) - val (size_width u)) < 1) /\
  (~ on_half ay \/ ~ on_half (add ay (size_height u)) -> Qabs (val (size_height r) - val (size_height u)) < 1).
Proof. exact within_one_strict_all. Qed.

(* (3) The unrounded layout is never written by the rounding pass or by a toggle: after any operation it is what the last
   compute_layout left there.  Any Num instance (binary32 included). *)
Theorem C13_unrounded_untouched : forall (T : Type) (N : Num T) (s : state T) (o : op T),
  unrounded_layout (step s o) = match o with ComputeLayout u => u | _ => unrounded_layout s end.
Proof. intros T N. exact step_unrounded. Qed.

(* the final layout only ever changes to round_layout of the current unrounded tree, and only in compute_layout with the
   flag set: rounding is a function of the unrounded tree alone *)
Theorem C13_final_is_function_of_unrounded : forall (T : Type) (N : Num T) (s : state T) (o : op T),
  final_layout (step s o) = final_layout s \/
  exists u, o = ComputeLayout u /\ use_rounding s = true /\ final_layout (step s o) = round_layout u.
Proof. intros T N. exact step_final. Qed.

(* no drift: once one rounding pass has run, any history of compute_layout calls (each recomputing the same unrounded
   tree u: unchanged styles and available space) and enable/disable toggles leaves both trees as the single pass did *)
Theorem C13_no_drift : forall (T : Type) (N : Num T) (u : tree T) (ops : list (op T)) (s : state T),
  Forall (computes u) ops -> unrounded_layout s = u -> final_layout s = round_layout u ->
  unrounded_layout (run s ops) = u /\ final_layout (run s ops) = round_layout u.
Proof. intros T N. exact no_drift. Qed.

(* a new TaffyTree (use_rounding = TaffyConfig::default()), one compute_layout, then any such history: layout() reports
   the one-pass rounding of u when the flag is on and u itself when it is off *)
Theorem C13_no_drift_from_new : forall (T : Type) (N : Num T) (s0 : state T) (u : tree T) (ops : list (op T)),
  use_rounding s0 = default_use_rounding -> Forall (computes u) ops ->
  let s := run s0 (ComputeLayout u :: ops) in
  unrounded_layout s = u /\ final_layout s = round_layout u /\
  layout_of s = if use_rounding s then round_layout u else u.
Proof. intros T N. exact no_drift_from_new. Qed.

(* (4) edges.  A node all of whose proper ancestors sit at integral unrounded offsets, and whose near absolute edge is not
   exactly on a half pixel: its rounded absolute edges (sum of the reported parent-relative locations, plus the reported
   size) are the roundings of its unrounded absolute edges.  Per axis.  The far edge needs no premise of its own. *)
Theorem C13_edges : forall (t : tree XQ) (p : list nat) (u r : layout XQ),
  tree_all fin_layout t -> node_at t p = Some u -> node_at (round_layout t) p = Some r ->
  let A := ancestors t p in
  let RA := ancestors (round_layout t) p in
  let ax := add (sum_x A) (location_x u) in
  let ay := add (sum_y A) (location_y u) in
  let rx := add (sum_x RA) (location_x r) in
  let ry := add (sum_y RA) (location_y r) in
  (Forall (fun a => integral (location_x a)) A -> ~ on_half ax ->
     xeq rx (fround ax) /\ xeq (add rx (size_width r)) (fround (add ax (size_width u)))) /\
  (Forall (fun a => integral (location_y a)) A -> ~ on_half ay ->
     xeq ry (fround ay) /\ xeq (add ry (size_height r)) (fround (add ay (size_height u)))).
Proof. exact edges_thm. Qed.

(* The half-pixel premise is only needed when the node's offset and its absolute position lie on different sides of zero
   (f32::round rounds half away from zero, which is not translation invariant across zero) *)
Theorem C13_edges_nonneg : forall (t : tree XQ) (p : list nat) (u r : layout XQ),
  tree_all fin_layout t -> node_at t p = Some u -> node_at (round_layout t) p = Some r ->
  let A := ancestors t p in
  let RA := ancestors (round_layout t) p in
  let ax := add (sum_x A) (location_x u) in
  let ay := add (sum_y A) (location_y u) in
  let rx := add (sum_x RA) (location_x r) in
  let ry := add (sum_y RA) (location_y r) in
  (Forall (fun a => integral (location_x a)) A -> 0 <= val (location_x u) -> 0 <= val ax ->
     xeq rx (fround ax) /\ xeq (add rx (size_width r)) (fround (add ax (size_width u)))) /\
  (Forall (fun a => integral (location_y a)) A -> 0 <= val (location_y u) -> 0 <= val ay ->
     xeq ry (fround ay) /\ xeq (add ry (size_height r)) (fround (add ay (size_height u)))).
Proof. exact edges_nonneg_thm. Qed.

(* the border and padding insets are rounded as absolute edges too (each measured from the outer edge on its side) *)
Theorem C13_inner_edges : forall (t : tree XQ) (p : list nat) (u r : layout XQ),
  tree_all fin_layout t -> node_at t p = Some u -> node_at (round_layout t) p = Some r ->
  let A := ancestors t p in
  let RA := ancestors (round_layout t) p in
  let ax := add (sum_x A) (location_x u) in
  let ay := add (sum_y A) (location_y u) in
  let rx := add (sum_x RA) (location_x r) in
  let ry := add (sum_y RA) (location_y r) in
  (Forall (fun a => integral (location_x a)) A -> ~ on_half ax ->
     xeq (add rx (border_left r)) (fround (add ax (border_left u))) /\
     xeq (sub (add rx (size_width r)) (border_right r)) (fround (sub (add ax (size_width u)) (border_right u))) /\
     xeq (add rx (padding_left r)) (fround (add ax (padding_left u))) /\
     xeq (sub (add rx (size_width r)) (padding_right r)) (fround (sub (add ax (size_width u)) (padding_right u)))) /\
  (Forall (fun a => integral (location_y a)) A -> ~ on_half ay ->
     xeq (add ry (border_top r)) (fround (add ay (border_top u))) /\
     xeq (sub (add ry (size_height r)) (border_bottom r)) (fround (sub (add ay (size_height u)) (border_bottom u))) /\
     xeq (add ry (padding_top r)) (fround (add ay (padding_top u))) /\
     xeq (sub (add ry (size_height r)) (padding_bottom r)) (fround (sub (add ay (size_height u)) (padding_bottom u)))).
Proof. exact inner_edges_thm. Qed.

(* Without any premise on the ancestors, and for every Num instance (binary32 included): a reported size is the difference
   of the two rounded absolute edges -- "always round based on the cumulative x/y coordinates (relative to the viewport)
   rather than parent-relative coordinates" -- and a reported location is the rounded parent-relative location *)
Theorem C13_size_from_absolute_edges : forall (T : Type) (N : Num T) (t : tree T) (p : list nat) (u r : layout T),
  node_at t p = Some u -> node_at (round_layout t) p = Some r ->
  let ax := add (sum_x (ancestors t p)) (location_x u) in
  let ay := add (sum_y (ancestors t p)) (location_y u) in
  size_width r = sub (fround (add ax (size_width u))) (fround ax) /\
  size_height r = sub (fround (add ay (size_height u))) (fround ay) /\
  location_x r = fround (location_x u) /\ location_y r = fround (location_y u).
Proof. intros T N. exact size_from_absolute_edges. Qed.

(* no seam: two boxes anywhere in the tree (under integral ancestors, near edges off half pixels) whose edges coincide
   before rounding -- far edge of box 1 = near edge of box 2 -- have coinciding edges afterwards: no gap, no overlap *)
Theorem C13_no_seam : forall (t : tree XQ) p1 u1 r1 p2 u2 r2,
  tree_all fin_layout t ->
  node_at t p1 = Some u1 -> node_at (round_layout t) p1 = Some r1 ->
  node_at t p2 = Some u2 -> node_at (round_layout t) p2 = Some r2 ->
  let ax1 := add (sum_x (ancestors t p1)) (location_x u1) in
  let ay1 := add (sum_y (ancestors t p1)) (location_y u1) in
  let rx1 := add (sum_x (ancestors (round_layout t) p1)) (location_x r1) in
  let ry1 := add (sum_y (ancestors (round_layout t) p1)) (location_y r1) in
  let ax2 := add (sum_x (ancestors t p2)) (location_x u2) in
  let ay2 := add (sum_y (ancestors t p2)) (location_y u2) in
  let rx2 := add (sum_x (ancestors (round_layout t) p2)) (location_x r2) in
  let ry2 := add (sum_y (ancestors (round_layout t) p2)) (location_y r2) in
  (Forall (fun a => integral (location_x a)) (ancestors t p1) -> Forall (fun a => integral (location_x a)) (ancestors t p2) ->
   ~ on_half ax1 -> ~ on_half ax2 ->
   xeq (add ax1 (size_width u1)) ax2 -> xeq (add rx1 (size_width r1)) rx2) /\
  (Forall (fun a => integral (location_y a)) (ancestors t p1) -> Forall (fun a => integral (location_y a)) (ancestors t p2) ->
   ~ on_half ay1 -> ~ on_half ay2 ->
   xeq (add ay1 (size_height u1)) ay2 -> xeq (add ry1 (size_height r1)) ry2).
Proof. exact no_seam_thm. Qed.

(* boxes that do not overlap before rounding do not overlap afterwards (x axis) *)
Theorem C13_no_overlap : forall (t : tree XQ) p1 u1 r1 p2 u2 r2,
  tree_all fin_layout t ->
  node_at t p1 = Some u1 -> node_at (round_layout t) p1 = Some r1 ->
  node_at t p2 = Some u2 -> node_at (round_layout t) p2 = Some r2 ->
  let ax1 := add (sum_x (ancestors t p1)) (location_x u1) in
  let rx1 := add (sum_x (ancestors (round_layout t) p1)) (location_x r1) in
  let ax2 := add (sum_x (ancestors t p2)) (location_x u2) in
  let rx2 := add (sum_x (ancestors (round_layout t) p2)) (location_x r2) in
  Forall (fun a => integral (location_x a)) (ancestors t p1) -> Forall (fun a => integral (location_x a)) (ancestors t p2) ->
  ~ on_half ax1 -> ~ on_half ax2 ->
  val (add ax1 (size_width u1)) <= val ax2 -> val (add rx1 (size_width r1)) <= val rx2.
Proof. exact no_overlap_thm. Qed.

(* non-vacuity: a finite tree with fractional offsets under an ancestor at the integral offset (3, 2); its two leaves
   touch at x = 3.8 before rounding and at x = 4 afterwards *)
Example C13_example_premises :
  tree_all fin_layout ex_tree /\
  Forall (fun a => integral (location_x a)) (ancestors ex_tree [0; 0]%nat) /\
  ~ on_half (abs_left ex_tree [0; 0]%nat) /\ ~ on_half (abs_left ex_tree [0; 1]%nat) /\
  xeq (abs_right ex_tree [0; 0]%nat) (abs_left ex_tree [0; 1]%nat) /\
  xeq (x_red (abs_left ex_tree [0; 1]%nat)) (Fin (19 # 5)) /\
  x_red (abs_right (round_layout ex_tree) [0; 0]%nat) = Fin 4 /\
  x_red (abs_left (round_layout ex_tree) [0; 1]%nat) = Fin 4.
Proof. split; [exact ex_tree_fin | exact ex_premises]. Qed.

(* The half-pixel premise cannot be dropped, even in exact arithmetic: parent at x = 2, boxes at -3.5 (width 3) and -0.5
   touch at the absolute half pixel 1.5; after rounding the first ends at 2, the second starts at 1 (a one pixel overlap),
   while round(1.5) = 2.  (`vh c13 half` shows the same numbers on the implementation; the property excludes this case.) *)
Theorem C13_half_pixel_premise_needed :
  tree_all fin_layout half_tree /\
  Forall (fun a => integral (location_x a)) (ancestors half_tree [0; 0]%nat) /\
  Forall (fun a => integral (location_x a)) (ancestors half_tree [0; 1]%nat) /\
  xeq (abs_right half_tree [0; 0]%nat) (abs_left half_tree [0; 1]%nat) /\
  on_half (abs_left half_tree [0; 1]%nat) /\
  x_red (abs_right (round_layout half_tree) [0; 0]%nat) = Fin 2 /\
  x_red (abs_left (round_layout half_tree) [0; 1]%nat) = Fin 1 /\
  x_red (fround (abs_left half_tree [0; 1]%nat)) = Fin 2.
Proof. split; [exact half_tree_fin | exact half_counterexample]. Qed.

(* API pitfall recorded as a known finding: enable_rounding does not round.  After disable_rounding; compute_layout;
   enable_rounding, layout() returns whatever final_layout held before (Layout::new() on a new tree) *)
Theorem C13_enable_without_compute_is_stale : forall (T : Type) (N : Num T) (s : state T),
  layout_of (step s EnableRounding) = final_layout s.
Proof. intros T N. exact enable_is_stale. Qed.

Print Assumptions C13_integral.
Print Assumptions C13_integral_f32.
Print Assumptions C13_within_one.
Print Assumptions C13_within_one_strict.
Print Assumptions C13_unrounded_untouched.
Print Assumptions C13_final_is_function_of_unrounded.
Print Assumptions C13_no_drift.
Print Assumptions C13_no_drift_from_new.
Print Assumptions C13_edges.
Print Assumptions C13_edges_nonneg.
Print Assumptions C13_inner_edges.
Print Assumptions C13_size_from_absolute_edges.
Print Assumptions C13_no_seam.
Print Assumptions C13_no_overlap.
Print Assumptions C13_half_pixel_premise_needed.
Print Assumptions C13_enable_without_compute_is_stale.
