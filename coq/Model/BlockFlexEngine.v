(* One engine for block containers, flex containers and leaves: the node style is the flex view of `Style` (Model/FlexAlgBase.v `FStyle`)
   plus the two fields only block layout reads (item_is_table, text_align); the interface is the complete one (FIn / LayoutOutput / FLay).
   The block algorithm (Model/BlockAlg.v, written against BIn / ChildOut / BLayout and the geometry types of Model/Block.v) is transported
   with Proofs/EngineLift.v `lift`: its queries get `axis = Both`, it reads size / content size / margin sets / collapse-through of an
   answer, its own output has no baselines (compute_block_layout returns `first_baselines: Point::NONE`).  Definitions only. *)
From Coq Require Import ZArith Bool List.
From TV Require Import Model.Common Model.Leaf Model.FlexAlgBase Model.FlexAlg.
From TV Require Gen.BlockGen Model.Block Model.BlockAlg Model.Engine.
From TV Require Import Model.EngineLift.
Import ListNotations.
Close Scope Z_scope.

Module B := Block.
Module BA := BlockAlg.

Record BFStyle (T : Type) := mkBF { bf_flex : FStyle T; bf_is_table : bool; bf_text_align : B.BTextAlign }.
Arguments mkBF {T}. Arguments bf_flex {T}. Arguments bf_is_table {T}. Arguments bf_text_align {T}.

Section Conv.
  Context {T : Type} `{Num T}.

  Definition b_lpa (d : LengthPercentageAuto T) : B.LPA T :=
    match d with Auto => B.Auto | Length v => B.Len v | Percent v => B.Pct v end.
  Definition b_lp (d : LengthPercentage T) : B.LPA T := match d with LpLength v => B.Len v | LpPercent v => B.Pct v end.
  Definition b_size {A B0} (f : A -> B0) (s : Size A) : B.BSize B0 := B.mkSize (f (width s)) (f (height s)).
  Definition b_rect {A B0} (f : A -> B0) (r : Rect A) : B.BRect B0 := B.mkRect (f (r_left r)) (f (r_right r)) (f (r_top r)) (f (r_bottom r)).
  Definition f_size {A} (s : B.BSize A) : Size A := mkSize (B.s_w s) (B.s_h s).
  Definition f_rect {A} (r : B.BRect A) : Rect A := mkRect (B.r_left r) (B.r_right r) (B.r_top r) (B.r_bottom r).
  Definition b_overflow (o : Overflow) : B.BOverflow :=
    match o with Visible => B.OVisible | Clip => B.OClip | Hidden => B.OHidden | Scroll => B.OScroll end.
  Definition b_avail (a : AvailableSpace T) : B.Avail T :=
    match a with Definite v => B.Definite v | MinContent => B.MinContent | MaxContent => B.MaxContent end.
  Definition f_avail (a : B.Avail T) : AvailableSpace T :=
    match a with B.Definite v => Definite v | B.MinContent => MinContent | B.MaxContent => MaxContent end.
  Definition b_ms (m : MarginSet T) : BlockGen.MarginSet T := BlockGen.mkMS (ms_positive m) (ms_negative m).
  Definition f_ms (m : BlockGen.MarginSet T) : MarginSet T := mkMarginSet (BlockGen.ms_positive m) (BlockGen.ms_negative m).

  (* the block view of a node's style *)
  Definition to_bstyle (s : BFStyle T) : B.BStyle T :=
    let c := fs_core (bf_flex s) in
    B.mkStyle (match display c with DBlock => B.DBlock | DFlex => B.DFlex | DGrid => B.DGrid | DNone => B.DNone end)
              (bf_is_table s) (match box_sizing c with ContentBox => true | BorderBox => false end)
              (b_overflow (px (overflow c))) (b_overflow (py (overflow c))) (scrollbar_width c)
              (match position c with Relative => B.PRelative | Absolute => B.PAbsolute end)
              (b_rect b_lpa (fs_inset (bf_flex s))) (b_size b_lpa (size c)) (b_size b_lpa (min_size c)) (b_size b_lpa (max_size c))
              (aspect_ratio c) (b_rect b_lpa (margin c)) (b_rect b_lp (padding c)) (b_rect b_lp (border c)) (bf_text_align s).

  (* LayoutInput: BIn has no `axis` *)
  Definition to_bin (i : FIn T) : BA.BIn T :=
    BA.mkBIn (qi_mode i) (match qi_sizing i with InherentSize => true | ContentSize => false end)
             (b_size (fun x => x) (qi_known i)) (b_size (fun x => x) (qi_parent i)) (b_size b_avail (qi_avail i))
             (B.mkLine (l_start (qi_collapsible i)) (l_end (qi_collapsible i))).
  Definition of_bin (i : BA.BIn T) : FIn T :=
    mkFIn (BA.bi_mode i) (if BA.bi_inherent i then InherentSize else ContentSize) AxBoth
          (f_size (BA.bi_known i)) (f_size (BA.bi_parent i)) (mkSize (f_avail (B.s_w (BA.bi_avail i))) (f_avail (B.s_h (BA.bi_avail i))))
          (mkLine (B.l_start (BA.bi_collapsible i)) (B.l_end (BA.bi_collapsible i))).

  (* LayoutOutput: ChildOut has no `first_baselines` *)
  Definition to_bout (o : LayoutOutput T) : B.ChildOut T :=
    B.mkOut (b_size (fun x => x) (out_size o)) (b_size (fun x => x) (out_content_size o)) (b_ms (top_margin o)) (b_ms (bottom_margin o))
            (margins_can_collapse_through o).
  Definition of_bout (o : B.ChildOut T) : LayoutOutput T :=
    mkOutput (f_size (B.co_size o)) (f_size (B.co_content_size o)) (mkPoint None None) (f_ms (B.co_top o)) (f_ms (B.co_bottom o)) (B.co_ct o).

  Definition of_blay (l : BA.BLayout T) : FLay T :=
    mkFLay (BA.bl_order l) (mkPoint (BA.bl_x l) (BA.bl_y l)) (f_size (BA.bl_size l)) (f_size (BA.bl_content_size l))
           (f_size (BA.bl_scrollbar l)) (f_rect (BA.bl_border l)) (f_rect (BA.bl_padding l)) (f_rect (BA.bl_margin l)).

  Definition bf_is_none (s : BFStyle T) : bool := f_is_none (bf_flex s).
  Definition bf_visible_absolute (s : BFStyle T) : bool := f_visible_absolute (bf_flex s).

  (* the block algorithm over the complete interface and the combined style *)
  Definition block_alg_bf (pre : B.BStyle T -> BA.BIn T -> BA.BIn T) (abs_child : @BA.AbsChild T)
    : BFStyle T -> list (BFStyle T) -> FIn T -> Engine.Alg (FIn T) (LayoutOutput T) (FLay T) :=
    style_comap (B.BStyle T) (BFStyle T) (FIn T) (LayoutOutput T) (FLay T) to_bstyle
      (lift_algo (BA.BIn T) (B.ChildOut T) (BA.BLayout T) (FIn T) (LayoutOutput T) (FLay T) of_bin to_bout of_bout of_blay (B.BStyle T) to_bin
                 (BA.block_alg pre abs_child)).
  Definition flex_alg_bf : BFStyle T -> list (BFStyle T) -> FIn T -> Engine.Alg (FIn T) (LayoutOutput T) (FLay T) :=
    style_comap (FStyle T) (BFStyle T) (FIn T) (LayoutOutput T) (FLay T) bf_flex flex_alg.

  (* TaffyView::compute_child_layout's dispatch: (Display::Block, has children) / (Display::Flex, has children) / leaf.  `kind` decides *)
  Inductive NodeKind := NKBlock | NKFlex | NKLeaf.
  Definition blockflex_algo (kind : BFStyle T -> NodeKind) pre abs_child (leaf : BFStyle T -> FIn T -> LayoutOutput T)
    : BFStyle T -> list (BFStyle T) -> FIn T -> Engine.Alg (FIn T) (LayoutOutput T) (FLay T) :=
    fun s st i =>
      if match kind s with NKBlock => true | _ => false end then block_alg_bf pre abs_child s st i
      else if match kind s with NKFlex => true | _ => false end then flex_alg_bf s st i
      else Engine.Ret (FIn T) (LayoutOutput T) (FLay T) (leaf s i).
End Conv.
