(* C04 -- homogeneity of the primitive layer over the exact instance XQ, for a scale factor k > 0:
   + - neg max min abs commute with the scaling of lengths, comparisons of two lengths are invariant, length * factor and
   length / factor are lengths, length / length is dimensionless.  Shape of every lemma: related inputs give related
   outputs (Model/ScaleBase.v: sc k = "is the k-fold of", dl = "is the same dimensionless number", both up to the
   equality of rationals).  No finiteness premise is needed: infinities and NaN are fixed points of the scaling and every
   operation treats them alike on both sides (the lemmas are stated for all of XQ and proved by cases). *)
From Coq Require Import QArith Qabs Lqa Bool List ZArith Lia.
From TV Require Import Num.Num Num.QNum Model.ScaleBase.

(* ------------------------------------------------------------------------------------------------------------ *)
(** * Signs *)

Lemma q_sign_spec q : match q_sign q with Gt => 0 < q | Eq => q == 0 | Lt => q < 0 end.
Proof. unfold q_sign. destruct (Z.compare_spec (Qnum q) 0) as [E|L|G]; unfold Qeq, Qlt; simpl; lia. Qed.

Lemma q_sign_of q : (0 < q -> q_sign q = Gt) /\ (q == 0 -> q_sign q = Eq) /\ (q < 0 -> q_sign q = Lt).
Proof. pose proof (q_sign_spec q) as S. destruct (q_sign q); repeat split; intros; try reflexivity; exfalso; lra. Qed.

Lemma q_sign_scale k a a' : 0 < k -> a' == k * a -> q_sign a' = q_sign a.
Proof.
  intros Hk E. pose proof (q_sign_spec a) as S. destruct (q_sign_of a') as (P & Z & N).
  destruct (q_sign a); [apply Z | apply N | apply P]; nra.
Qed.

Lemma q_sign_eq a a' : a' == a -> q_sign a' = q_sign a.
Proof.
  intros E. pose proof (q_sign_spec a) as S. destruct (q_sign_of a') as (P & Z & N).
  destruct (q_sign a); [apply Z | apply N | apply P]; lra.
Qed.

Lemma q_sign_nz r : q_sign r <> Eq -> ~ r == 0.
Proof. intros H E. apply H. apply q_sign_of. exact E. Qed.

(* ------------------------------------------------------------------------------------------------------------ *)
(** * Comparisons of rationals *)

Lemma qle_bool_scale k a a' b b' : 0 < k -> a' == k * a -> b' == k * b -> Qle_bool a' b' = Qle_bool a b.
Proof.
  intros Hk Ea Eb. destruct (Qle_bool a b) eqn:E.
  - apply Qle_bool_iff in E. apply Qle_bool_iff. nra.
  - destruct (Qle_bool a' b') eqn:E'; [|reflexivity]. apply Qle_bool_iff in E'.
    assert (H : a <= b) by nra. apply Qle_bool_iff in H. congruence.
Qed.

Lemma qeq_bool_scale k a a' b b' : 0 < k -> a' == k * a -> b' == k * b -> Qeq_bool a' b' = Qeq_bool a b.
Proof.
  intros Hk Ea Eb. destruct (Qeq_bool a b) eqn:E.
  - apply Qeq_bool_iff in E. apply Qeq_bool_iff. rewrite Ea, Eb, E. reflexivity.
  - destruct (Qeq_bool a' b') eqn:E'; [|reflexivity]. apply Qeq_bool_iff in E'.
    assert (H : a == b) by (assert (a <= b /\ b <= a) by (split; nra); lra).
    apply Qeq_bool_iff in H. congruence.
Qed.

(* ------------------------------------------------------------------------------------------------------------ *)
(** * The primitive operations *)

Lemma x_scale_is_mul k x : 0 < k -> x_scale k x = x_mul (Fin k) x.
Proof.
  intros Hk. destruct x; cbn; try reflexivity.
  - destruct (q_sign_of k) as (P & _). rewrite (P Hk). reflexivity.
  - destruct (q_sign_of k) as (P & _). rewrite (P Hk). reflexivity.
Qed.

Lemma sc_self k x : sc k x (x_scale k x).
Proof. unfold sc. destruct x; cbn; try exact I. reflexivity. Qed.
Lemma dl_refl x : dl x x.
Proof. unfold dl. destruct x; cbn; try exact I. reflexivity. Qed.

Lemma sc_zero k : sc k zero zero.
Proof. unfold sc. cbn. ring. Qed.
Lemma sc_infinity k : sc k infinity infinity.
Proof. exact I. Qed.
Lemma dl_of_Z n : dl (of_Z n) (of_Z n).
Proof. apply dl_refl. Qed.

Lemma sc_is_nan k a a' : sc k a a' -> x_is_nan a' = x_is_nan a.
Proof. unfold sc. destruct a, a'; cbn; intros H; try contradiction; reflexivity. Qed.

Lemma sc_add k a a' b b' : sc k a a' -> sc k b b' -> sc k (add a b) (add a' b').
Proof.
  unfold sc. destruct a, a', b, b'; cbn; intros H1 H2; try contradiction; try exact I.
  rewrite H1, H2. ring.
Qed.
Lemma sc_neg k a a' : sc k a a' -> sc k (neg a) (neg a').
Proof. unfold sc. destruct a, a'; cbn; intros H1; try contradiction; try exact I. rewrite H1. ring. Qed.
Lemma sc_sub k a a' b b' : sc k a a' -> sc k b b' -> sc k (sub a b) (sub a' b').
Proof.
  unfold sc. destruct a, a', b, b'; cbn; intros H1 H2; try contradiction; try exact I.
  rewrite H1, H2. ring.
Qed.

(* comparisons of two lengths are invariant; infinities compare alike on both sides, NaN compares false on both *)
Lemma sc_x_ltb k a a' b b' : 0 < k -> sc k a a' -> sc k b b' -> x_ltb a' b' = x_ltb a b.
Proof.
  unfold sc. intros Hk. destruct a, a', b, b'; cbn; intros H1 H2; try contradiction; try reflexivity.
  f_equal. apply (qle_bool_scale k); assumption.
Qed.
Lemma sc_x_leb k a a' b b' : 0 < k -> sc k a a' -> sc k b b' -> x_leb a' b' = x_leb a b.
Proof.
  unfold sc. intros Hk. destruct a, a', b, b'; cbn; intros H1 H2; try contradiction; try reflexivity.
  apply (qle_bool_scale k); assumption.
Qed.
Lemma sc_x_eqb k a a' b b' : 0 < k -> sc k a a' -> sc k b b' -> x_eqb a' b' = x_eqb a b.
Proof.
  unfold sc. intros Hk. destruct a, a', b, b'; cbn; intros H1 H2; try contradiction; try reflexivity.
  apply (qeq_bool_scale k); assumption.
Qed.
Lemma sc_ltb k a a' b b' : 0 < k -> sc k a a' -> sc k b b' -> ltb a' b' = ltb a b.
Proof. exact (sc_x_ltb k a a' b b'). Qed.
Lemma sc_leb k a a' b b' : 0 < k -> sc k a a' -> sc k b b' -> leb a' b' = leb a b.
Proof. exact (sc_x_leb k a a' b b'). Qed.
Lemma sc_eqb k a a' b b' : 0 < k -> sc k a a' -> sc k b b' -> eqb a' b' = eqb a b.
Proof. exact (sc_x_eqb k a a' b b'). Qed.
Lemma sc_gtb k a a' b b' : 0 < k -> sc k a a' -> sc k b b' -> gtb a' b' = gtb a b.
Proof. intros. unfold gtb. apply (sc_ltb k); assumption. Qed.
Lemma sc_geb k a a' b b' : 0 < k -> sc k a a' -> sc k b b' -> geb a' b' = geb a b.
Proof. intros. unfold geb. apply (sc_leb k); assumption. Qed.

Lemma sc_max k a a' b b' : 0 < k -> sc k a a' -> sc k b b' -> sc k (fmax a b) (fmax a' b').
Proof.
  intros Hk H1 H2. change (sc k (x_max a b) (x_max a' b')). unfold x_max.
  rewrite (sc_is_nan _ _ _ H1), (sc_is_nan _ _ _ H2), (sc_x_ltb k a a' b b' Hk H1 H2).
  destruct (x_is_nan a), (x_is_nan b), (x_ltb a b); assumption.
Qed.
Lemma sc_min k a a' b b' : 0 < k -> sc k a a' -> sc k b b' -> sc k (fmin a b) (fmin a' b').
Proof.
  intros Hk H1 H2. change (sc k (x_min a b) (x_min a' b')). unfold x_min.
  rewrite (sc_is_nan _ _ _ H1), (sc_is_nan _ _ _ H2), (sc_x_ltb k b b' a a' Hk H2 H1).
  destruct (x_is_nan a), (x_is_nan b), (x_ltb b a); assumption.
Qed.
Lemma sc_abs k a a' : 0 < k -> sc k a a' -> sc k (fabs a) (fabs a').
Proof.
  unfold sc. intros Hk. destruct a, a'; cbn; intros H1; try contradiction; try exact I.
  rewrite H1, Qabs_Qmult, (Qabs_pos k) by lra. reflexivity.
Qed.

(* length * dimensionless factor (percentage, aspect ratio, flex factor) is a length *)
Lemma sc_mul_dl k a a' p p' : 0 < k -> sc k a a' -> dl p p' -> sc k (mul a p) (mul a' p').
Proof.
  unfold sc, dl. intros Hk. destruct a, a', p, p'; cbn; intros H1 H2; try contradiction; try exact I.
  all: try rewrite (q_sign_scale k _ _ Hk H1); try rewrite (q_sign_eq _ _ H2).
  all: try match goal with |- context [q_sign ?x] => destruct (q_sign x) end; cbn; try exact I.
  rewrite H1, H2. ring.
Qed.
Lemma sc_dl_mul k a a' p p' : 0 < k -> dl p p' -> sc k a a' -> sc k (mul p a) (mul p' a').
Proof.
  unfold sc, dl. intros Hk. destruct a, a', p, p'; cbn; intros H2 H1; try contradiction; try exact I.
  all: try rewrite (q_sign_scale k _ _ Hk H1); try rewrite (q_sign_eq _ _ H2).
  all: try match goal with |- context [q_sign ?x] => destruct (q_sign x) end; cbn; try exact I.
  rewrite H1, H2. ring.
Qed.
(* length / dimensionless (count of auto margins, aspect ratio, 2) is a length *)
Lemma sc_div_dl k a a' r r' : 0 < k -> sc k a a' -> dl r r' -> sc k (div a r) (div a' r').
Proof.
  unfold sc, dl. intros Hk. destruct a, a', r, r'; cbn; intros H1 H2; try contradiction; try exact I.
  - rewrite (q_sign_scale k _ _ Hk H1), (q_sign_eq _ _ H2).
    destruct (q_sign q1) eqn:E; cbn.
    + destruct (q_sign q); exact I.
    + rewrite H1, H2. field. apply q_sign_nz. congruence.
    + rewrite H1, H2. field. apply q_sign_nz. congruence.
  - ring.
  - ring.
  - rewrite (q_sign_eq _ _ H2). destruct (q_sign q); exact I.
  - rewrite (q_sign_eq _ _ H2). destruct (q_sign q); exact I.
Qed.
(* length / length is dimensionless *)
Lemma dl_div_sc k a a' b b' : 0 < k -> sc k a a' -> sc k b b' -> dl (div a b) (div a' b').
Proof.
  unfold sc, dl. intros Hk. destruct a, a', b, b'; cbn; intros H1 H2; try contradiction; try exact I.
  - rewrite (q_sign_scale k _ _ Hk H1), (q_sign_scale k _ _ Hk H2).
    destruct (q_sign q1) eqn:E; cbn.
    + destruct (q_sign q); cbn; try exact I.
    + rewrite H1, H2. field. split; [apply q_sign_nz; congruence | lra].
    + rewrite H1, H2. field. split; [apply q_sign_nz; congruence | lra].
  - reflexivity.
  - reflexivity.
  - rewrite (q_sign_scale k _ _ Hk H2). destruct (q_sign q); exact I.
  - rewrite (q_sign_scale k _ _ Hk H2). destruct (q_sign q); exact I.
Qed.
(* dimensionless numbers: everything is preserved *)
Lemma dl_x_ltb a a' b b' : dl a a' -> dl b b' -> x_ltb a' b' = x_ltb a b.
Proof.
  intros H1 H2. apply (sc_x_ltb 1); [lra | |]; unfold sc, dl in *.
  - destruct a, a'; cbn in *; try contradiction; try exact I. rewrite H1. ring.
  - destruct b, b'; cbn in *; try contradiction; try exact I. rewrite H2. ring.
Qed.

#[global] Hint Resolve sc_zero sc_infinity dl_of_Z sc_add sc_sub sc_neg sc_max sc_min sc_abs sc_mul_dl sc_div_dl : sc.

(* Option *)
Lemma rel_option_map {A B} (R : A -> A -> Prop) (S : B -> B -> Prop) f f' a a' :
  op_rel R a a' -> (forall x x', R x x' -> S (f x) (f' x')) -> op_rel S (option_map f a) (option_map f' a').
Proof. destruct a, a'; cbn; intros; try contradiction; auto. Qed.
Lemma rel_Some {A} (R : A -> A -> Prop) a a' : R a a' -> op_rel R (Some a) (Some a').
Proof. exact (fun H => H). Qed.
Lemma rel_None {A} (R : A -> A -> Prop) : op_rel R None None.
Proof. exact I. Qed.
Lemma op_rel_scale k o : op_rel (sc k) o (opt_scale k o).
Proof. destruct o; cbn; [apply sc_self | exact I]. Qed.
Lemma op_dl_refl o : op_rel dl o o.
Proof. destruct o; cbn; [apply dl_refl | exact I]. Qed.
Lemma xeq_trans a b c : xeq a b -> xeq b c -> xeq a c.
Proof. destruct a, b, c; cbn; try tauto. intros H1 H2. rewrite H1. exact H2. Qed.
Lemma xeq_sym a b : xeq a b -> xeq b a.
Proof. destruct a, b; cbn; try tauto. intros H. symmetry. exact H. Qed.
Lemma x_scale_xeq k a b : xeq a b -> xeq (x_scale k a) (x_scale k b).
Proof. destruct a, b; cbn; try tauto. intros H. rewrite H. reflexivity. Qed.
