(* CompactLength: the public constructors as one family over the generated bit-level definitions.
   Definitions only (no proofs) so that the model still runs when a proof breaks. *)
From Coq Require Import NArith Bool List.
From TV Require Import Gen.CompactLengthGen.
Import ListNotations.
Open Scope N_scope.


Inductive kind := KLength | KPercent | KFr | KFitPx | KFitPct | KAuto | KMinContent | KMaxContent.

Definition kind_eqb (a b : kind) : bool :=
  match a, b with
  | KLength, KLength | KPercent, KPercent | KFr, KFr | KFitPx, KFitPx | KFitPct, KFitPct
  | KAuto, KAuto | KMinContent, KMinContent | KMaxContent, KMaxContent => true
  | _, _ => false
  end.

Definition all_kinds := [KLength; KPercent; KFr; KFitPx; KFitPct; KAuto; KMinContent; KMaxContent].
Definition has_value (k : kind) : bool :=
  match k with KAuto | KMinContent | KMaxContent => false | _ => true end.

(* what the public constructor of each kind builds from a 32-bit pattern *)
Definition build (k : kind) (v : N) : N :=
  match k with
  | KLength => cl_length v
  | KPercent => cl_percent v
  | KFr => cl_fr v
  | KFitPx => cl_fit_content_px v
  | KFitPct => cl_fit_content_percent v
  | KAuto => cl_auto
  | KMinContent => cl_min_content
  | KMaxContent => cl_max_content
  end.

(* the tag constant the documentation associates with each kind *)
Definition kind_tag (k : kind) : N :=
  match k with
  | KLength => LENGTH_TAG
  | KPercent => PERCENT_TAG
  | KFr => FR_TAG
  | KFitPx => FIT_CONTENT_PX_TAG
  | KFitPct => FIT_CONTENT_PERCENT_TAG
  | KAuto => AUTO_TAG
  | KMinContent => MIN_CONTENT_TAG
  | KMaxContent => MAX_CONTENT_TAG
  end.


Definition in_kinds (k : kind) (ks : list kind) : bool := existsb (kind_eqb k) ks.
