(* collect_flex_lines (src/compute/flexbox.rs, 9.3 step 5), `Num`-generic, definitions only.
   Hand transcription, same order of floating-point operations:

     if !is_wrap                          -> one line with all the items (also when there is no item)
     main_axis_available_space            -> lines_available   (the container's max/min main size override)
       MaxContent                         -> one line with all the items
       MinContent                         -> every item on a line of its own
       Definite(a)                        -> `while !flex_items.is_empty()`: index = position of the first item with
                                             idx != 0 whose running `line_length` exceeds a (`find`), or len();
                                             split_at_mut(index)               -> collect_definite

   The items are abstract: any type A with the projection `hyp` = hypothetical_outer_size.main(dir).  A FlexLine is the
   list of its items, in document order; the order of the lines is the order of creation (wrap-reverse does not
   reorder anything here: it only changes the direction in which final_layout_pass / align-content walk the lines). *)
From Coq Require Import ZArith Bool List.
From TV Require Import Model.Common.
Import ListNotations.

Section FlexLines.
  Context {T : Type} `{Num T}.
  Context {A : Type} (hyp : A -> T).
  Local Open Scope num_scope.

  (* match constants.max_size.main { Some(max) => Definite(avail.into_option().unwrap_or(max).maybe_max(min_size.main)),
                                     None => avail } *)
  Definition lines_available (max_main min_main : option T) (avail : AvailableSpace T) : AvailableSpace T :=
    match max_main with
    | Some max_size =>
        Definite (maybe_max_fo (opt_unwrap_or (avail_into_option avail) max_size) min_main)
    | None => avail
    end.

  (* the closure of `find`, for the item at position idx of the remaining slice, with the captured `line_length`:
     returns the new line_length and the verdict *)
  Definition break_test (avail gap line_length : T) (idx : nat) (c : A) : T * bool :=
    let gap_contribution := match idx with O => zero | S _ => gap end in
    let line_length := line_length + (hyp c + gap_contribution) in
    (line_length, gtb line_length avail && negb (Nat.eqb idx 0)).

  (* `.iter().enumerate().find(..).map(|(idx, _)| idx).unwrap_or(flex_items.len())` *)
  Fixpoint find_break (avail gap line_length : T) (idx : nat) (l : list A) : nat :=
    match l with
    | [] => idx
    | c :: r =>
        let '(line_length, stop) := break_test avail gap line_length idx c in
        if stop then idx else find_break avail gap line_length (S idx) r
    end.

  (* the `while` loop; fuel = number of items (every round takes at least one item: C07_lines_partition) *)
  Fixpoint collect_definite (fuel : nat) (avail gap : T) (items : list A) : list (list A) :=
    match fuel with
    | O => []
    | S fuel' =>
        match items with
        | [] => []
        | _ :: _ =>
            let index := find_break avail gap zero 0 items in
            firstn index items :: collect_definite fuel' avail gap (skipn index items)
        end
    end.

  Definition collect_flex_lines (is_wrap : bool) (max_main min_main : option T) (avail : AvailableSpace T) (gap : T)
             (items : list A) : list (list A) :=
    if negb is_wrap then [items]
    else
      match lines_available max_main min_main avail with
      | MaxContent => [items]
      | MinContent => map (fun c => [c]) items
      | Definite a => collect_definite (length items) a gap items
      end.

  (* the line length the loop computed for a whole line (first item without gap), in its order of operations *)
  Fixpoint line_length_from (gap line_length : T) (idx : nat) (l : list A) : T :=
    match l with
    | [] => line_length
    | c :: r => line_length_from gap (line_length + (hyp c + match idx with O => zero | S _ => gap end)) (S idx) r
    end.
  Definition line_length (gap : T) (l : list A) : T := line_length_from gap zero 0 l.
End FlexLines.
