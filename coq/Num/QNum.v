(* Exact instance of Num: rationals extended with +infinity, -infinity and NaN, operations as in IEEE-754
   except that finite arithmetic is exact and there is a single (unsigned) zero.  This is the instance the
   length laws are proved over; definitions only -- lemmas are in Proofs/QNumFacts.v. *)
From Coq Require Import ZArith QArith Qround Qabs Bool List.
From TV Require Import Num.Num.

Inductive XQ := Fin (q : Q) | PInf | NInf | XNaN.

Definition q_sign (q : Q) : comparison := (Qnum q ?= 0)%Z.   (* Gt positive, Eq zero, Lt negative *)

Definition x_neg (x : XQ) : XQ :=
  match x with Fin q => Fin (- q) | PInf => NInf | NInf => PInf | XNaN => XNaN end.

Definition x_add (x y : XQ) : XQ :=
  match x, y with
  | XNaN, _ | _, XNaN => XNaN
  | Fin a, Fin b => Fin (a + b)
  | PInf, NInf | NInf, PInf => XNaN
  | PInf, _ | _, PInf => PInf
  | NInf, _ | _, NInf => NInf
  end.

Definition x_sub (x y : XQ) : XQ := x_add x (x_neg y).

Definition inf_of_sign (c : comparison) : XQ :=
  match c with Gt => PInf | Lt => NInf | Eq => XNaN end.

Definition x_sign (x : XQ) : option comparison :=
  match x with Fin q => Some (q_sign q) | PInf => Some Gt | NInf => Some Lt | XNaN => None end.

Definition mul_sign (a b : comparison) : comparison :=
  match a, b with
  | Eq, _ | _, Eq => Eq
  | Gt, Gt | Lt, Lt => Gt
  | _, _ => Lt
  end.

Definition x_mul (x y : XQ) : XQ :=
  match x, y with
  | XNaN, _ | _, XNaN => XNaN
  | Fin a, Fin b => Fin (a * b)
  | Fin a, PInf | PInf, Fin a => inf_of_sign (q_sign a)
  | Fin a, NInf | NInf, Fin a => inf_of_sign (mul_sign (q_sign a) Lt)
  | PInf, PInf | NInf, NInf => PInf
  | PInf, NInf | NInf, PInf => NInf
  end.

(* division by the (unsigned) zero: +-infinity by the sign of the dividend, 0/0 = NaN *)
Definition x_div (x y : XQ) : XQ :=
  match x, y with
  | XNaN, _ | _, XNaN => XNaN
  | Fin a, Fin b =>
      match q_sign b with
      | Eq => inf_of_sign (q_sign a)
      | _ => Fin (a / b)
      end
  | Fin _, (PInf | NInf) => Fin 0
  | PInf, Fin b => match q_sign b with Lt => NInf | _ => PInf end
  | NInf, Fin b => match q_sign b with Lt => PInf | _ => NInf end
  | (PInf | NInf), (PInf | NInf) => XNaN
  end.

Definition x_eqb (x y : XQ) : bool :=
  match x, y with
  | Fin a, Fin b => Qeq_bool a b
  | PInf, PInf | NInf, NInf => true
  | _, _ => false
  end.

Definition x_leb (x y : XQ) : bool :=
  match x, y with
  | XNaN, _ | _, XNaN => false
  | Fin a, Fin b => Qle_bool a b
  | NInf, _ => true
  | _, PInf => true
  | _, _ => false
  end.

Definition x_ltb (x y : XQ) : bool :=
  match x, y with
  | XNaN, _ | _, XNaN => false
  | Fin a, Fin b => negb (Qle_bool b a)
  | PInf, _ => false
  | _, NInf => false
  | _, _ => true
  end.

Definition x_is_nan (x : XQ) : bool := match x with XNaN => true | _ => false end.

Definition x_max (a b : XQ) : XQ :=
  if x_is_nan a then b else if x_is_nan b then a else if x_ltb a b then b else a.
Definition x_min (a b : XQ) : XQ :=
  if x_is_nan a then b else if x_is_nan b then a else if x_ltb b a then b else a.

Definition x_abs (x : XQ) : XQ :=
  match x with Fin q => Fin (Qabs q) | PInf | NInf => PInf | XNaN => XNaN end.

(* round half away from zero *)
Definition q_round (q : Q) : Z :=
  match q_sign q with
  | Lt => (- Qfloor (- q + (1 # 2)))%Z
  | _ => Qfloor (q + (1 # 2))
  end.

Definition x_lift (f : Q -> Z) (x : XQ) : XQ :=
  match x with Fin q => Fin (inject_Z (f q)) | other => other end.

Definition x_is_normal (x : XQ) : bool :=
  match x with Fin q => negb (Qeq_bool q 0) | _ => false end.

#[global] Instance QNum : Num XQ := {
  zero := Fin 0; one := Fin 1;
  add := x_add; sub := x_sub; mul := x_mul; div := x_div; neg := x_neg;
  eqb := x_eqb; ltb := x_ltb; leb := x_leb;
  fmax := x_max; fmin := x_min; fabs := x_abs;
  fround := x_lift q_round; ffloor := x_lift Qfloor; fceil := x_lift Qceiling;
  infinity := PInf; of_Z := fun z => Fin (inject_Z z); of_Q := Fin;
  is_nan := x_is_nan; is_normal := x_is_normal;
}.

Definition finite (x : XQ) : Prop := match x with Fin _ => True | _ => False end.
Definition val (x : XQ) : Q := match x with Fin q => q | _ => 0 end.
(* equality up to Qeq on finite values *)
Definition xeq (x y : XQ) : Prop :=
  match x, y with
  | Fin a, Fin b => a == b
  | PInf, PInf | NInf, NInf | XNaN, XNaN => True
  | _, _ => False
  end.
Definition x_red (x : XQ) : XQ := match x with Fin q => Fin (Qred q) | o => o end.
