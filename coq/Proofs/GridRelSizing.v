(* The two top programs of the grid sizing phase (Model/GridAlg.v: `m_track_sizing` = track_sizing_algorithm, `m_size_grid` = steps 6-7 of
   compute_grid_layout: the two sizing passes, the container size, the percentage re-resolution and the re-runs) are relational (`ProgRel` of
   Model/GridAlgRel.v), GIVEN that step 11.5 (`m_resolve_intrinsic`) is: the premise `Hintr` (proved in Proofs/GridRelBatch.v).  The absolute
   THRESHOLD of maximise_tracks makes the statement depend on `Hthr` (true at k = 1 only: the known finding). *)
From Coq Require Import QArith Bool List ZArith Lia.
From TV Require Import Num.Num Num.QNum Model.Common Model.Leaf Gen.GridTracksGen Model.GridTracks Model.GridIntrinsic.
From TV Require Import Model.GridAlgBase Model.GridAlg Model.FlexAlgBase Model.FlexAlgRel Model.GridAlgRel.
From TV Require Import Model.Scale Model.ScaleGrid Model.Engine Model.EngineRel.
From TV Require Import Proofs.ScalePrim Proofs.ScaleKit Proofs.ScaleProofs Proofs.ScaleGrid Proofs.GridRelKit Proofs.GridRelKernels Proofs.GridRelItems.
Import Model.GridAlg.
Import ListNotations.
Close Scope Z_scope.

Section Sizing.
  Variable k : Q.
  Hypothesis Hk : (0 < k)%Q.
  Hypothesis Hthr : sc k (threshold (T := XQ)) threshold.
  Hypothesis Hthr2 : sc k (base_threshold (T := XQ)) base_threshold.
  Notation L := (sc k).
  Notation O := (op_rel (sc k)).
  Notation VB := (pair_rel (tracks_rel k) (Forall2 (gitem_rel k))).

  (* step 11.5 is relational (Proofs/GridRelBatch.v) *)
  Hypothesis Hintr : forall ax inner inner' avail avail' fp ot ot' oadj oadj' items items' ts ts',
    sz_rel O inner inner' -> gavail_rel k avail avail' -> tracks_rel k ot ot' -> L oadj oadj' ->
    Forall2 (gitem_rel k) items items' -> tracks_rel k ts ts' ->
    ProgRel k VB (m_resolve_intrinsic ax inner avail fp ot oadj items ts) (m_resolve_intrinsic ax inner' avail' fp ot' oadj' items' ts').

  (* ---- the shared state *)
  Lemma rel_ss_tracks s s' ax : sstate_rel k s s' -> tracks_rel k (ss_tracks s ax) (ss_tracks s' ax).
  Proof. intros (Hc & Hr & _). destruct ax; assumption. Qed.
  Lemma rel_ss_adj s s' ax : sstate_rel k s s' -> L (ss_adj s ax) (ss_adj s' ax).
  Proof. intros (_ & _ & Hc & Hr & _). destruct ax; assumption. Qed.
  Lemma rel_ss_items s s' : sstate_rel k s s' -> Forall2 (gitem_rel k) (ss_items s) (ss_items s').
  Proof. intros (_ & _ & _ & _ & Hi). exact Hi. Qed.
  Lemma rel_ss_set s s' ax ts ts' a a' items items' :
    sstate_rel k s s' -> tracks_rel k ts ts' -> L a a' -> Forall2 (gitem_rel k) items items' ->
    sstate_rel k (ss_set s ax ts a items) (ss_set s' ax ts' a' items').
  Proof.
    intros (Hc & Hr & Hac & Har & Hi) Hts Ha Hit. destruct ax; unfold ss_set, sstate_rel; cbn [ss_cols ss_rows ss_adj_cols ss_adj_rows ss_items];
      repeat split; assumption.
  Qed.
  Lemma rel_ss_set_items s s' items items' :
    sstate_rel k s s' -> Forall2 (gitem_rel k) items items' -> sstate_rel k (ss_set_items s items) (ss_set_items s' items').
  Proof.
    intros (Hc & Hr & Hac & Har & Hi) Hit. unfold ss_set_items, sstate_rel; cbn [ss_cols ss_rows ss_adj_cols ss_adj_rows ss_items];
      repeat split; assumption.
  Qed.
  Lemma rel_mkSS c c' r r' ac ac' ar ar' items items' :
    tracks_rel k c c' -> tracks_rel k r r' -> L ac ac' -> L ar ar' -> Forall2 (gitem_rel k) items items' ->
    sstate_rel k (mkSS c r ac ar items) (mkSS c' r' ac' ar' items').
  Proof. intros. unfold sstate_rel; cbn [ss_cols ss_rows ss_adj_cols ss_adj_rows ss_items]. repeat split; assumption. Qed.

  Lemma rel_to_track_avail a a' : av_rel L a a' -> gavail_rel k (to_track_avail a) (to_track_avail a').
  Proof. destruct a, a'; cbn [av_rel to_track_avail gavail_rel]; intros H; try contradiction; exact H. Qed.
  Lemma rel_avail_is_definite a a' : av_rel L a a' -> avail_is_definite a' = avail_is_definite a.
  Proof. destruct a, a'; cbn [av_rel avail_is_definite]; intros H; try contradiction; reflexivity. Qed.
  Lemma rel_all_sized ts ts' : tracks_rel k ts ts' ->
    forallb (fun t => (base_size t =? growth_limit t)%num) ts' = forallb (fun t => (base_size t =? growth_limit t)%num) ts.
  Proof. intros Hts. apply (rel_forallb (track_rel k)); [|exact Hts]. intros t t' Ht. track_open Ht. apply (sc_eqb k); assumption. Qed.
  Lemma rel_has_baseline l l' : Forall2 (gitem_rel k) l l' ->
    existsb (fun g => ai_is_baseline (g_align g)) l' = existsb (fun g => ai_is_baseline (g_align g)) l.
  Proof. intros Hl. apply (rel_existsb (gitem_rel k)); [|exact Hl]. intros g g' Hg. gi_open Hg. rewrite Ega. reflexivity. Qed.
  Lemma rel_has_percentage ts ts' : tracks_rel k ts ts' -> existsb track_uses_percentage ts' = existsb track_uses_percentage ts.
  Proof. intros Hts. apply (rel_existsb (track_rel k)); [|exact Hts]. intros t t' Ht. apply (rel_track_uses_percentage k). exact Ht. Qed.

  (* ---- track_sizing_algorithm *)
  Lemma rel_m_track_sizing ax amin amin' amax amax' al oal ga ga' inner inner' fp hb s s' :
    O amin amin' -> O amax amax' -> sz_rel (av_rel L) ga ga' -> sz_rel O inner inner' -> sstate_rel k s s' ->
    ProgRel k (sstate_rel k) (m_track_sizing ax amin amax al oal ga inner fp hb s) (m_track_sizing ax amin' amax' al oal ga' inner' fp hb s').
  Proof.
    intros Hmn Hmx Hga Hin Hs. unfold m_track_sizing.
    pose proof (rel_get_ax O _ _ ax Hin) as Hai.
    pose proof (rel_to_track_avail _ _ (rel_get_ax (av_rel L) _ _ ax Hga)) as Hav.
    pose proof (initialize_track_sizes_homog k Hk _ _ _ _ Hai (rel_ss_tracks _ _ ax Hs)) as H0.
    set (ts0 := initialize_track_sizes (get_ax inner ax) (ss_tracks s ax)) in *.
    set (ts0' := initialize_track_sizes (get_ax inner' ax) (ss_tracks s' ax)) in *.
    set (avail := to_track_avail (get_ax ga ax)) in *. set (avail' := to_track_avail (get_ax ga' ax)) in *.
    eapply pbind_rel with (RA := Forall2 (gitem_rel k)).
    { destruct hb; [apply rel_m_resolve_item_baselines; [exact Hk|exact Hin|apply rel_ss_items; exact Hs]|constructor; apply rel_ss_items; exact Hs]. }
    intros items1 items1' Hit1. rewrite (rel_all_sized _ _ H0).
    destruct (forallb _ ts0).
    { constructor. apply rel_ss_set; [exact Hs|exact H0|apply rel_ss_adj; exact Hs|exact Hit1]. }
    pose proof (rel_ss_tracks _ _ (other_ax ax) Hs) as Hot.
    assert (Hoadj : L (if Nat.ltb 3 (length (ss_tracks s (other_ax ax)))
                       then compute_alignment_gutter_adjustment oal (get_ax inner (other_ax ax)) fp (ss_tracks s (other_ax ax))
                       else ss_adj s (other_ax ax))
                      (if Nat.ltb 3 (length (ss_tracks s' (other_ax ax)))
                       then compute_alignment_gutter_adjustment oal (get_ax inner' (other_ax ax)) fp (ss_tracks s' (other_ax ax))
                       else ss_adj s' (other_ax ax))).
    { rewrite (rel_length (track_rel k) _ _ Hot). destruct (Nat.ltb 3 _).
      - apply (rel_compute_alignment_gutter_adjustment k Hk); [apply rel_get_ax; exact Hin|exact Hot].
      - apply rel_ss_adj; exact Hs. }
    cbv zeta.
    set (oadj := if Nat.ltb 3 (length (ss_tracks s (other_ax ax))) then _ else _) in *.
    set (oadj' := if Nat.ltb 3 (length (ss_tracks s' (other_ax ax))) then _ else _) in *.
    eapply pbind_rel with (RA := VB).
    { apply Hintr; assumption. }
    intros [ts1 items2] [ts1' items2'] [Hts1 Hit2]. cbn [fst snd] in Hts1, Hit2.
    pose proof (maximise_tracks_homog k Hk _ _ _ _ _ _ _ _ Hthr Hai Hav Hts1) as H2.
    rewrite !maximise_tracks_t_threshold in H2.
    assert (Hae : gavail_rel k (match get_ax inner ax with Some sz => Definite sz | None => match avail with MinContentA => MinContentA | _ => MaxContentA end end)
                               (match get_ax inner' ax with Some sz => Definite sz | None => match avail' with MinContentA => MinContentA | _ => MaxContentA end end)).
    { destruct (get_ax inner ax), (get_ax inner' ax); cbn [op_rel] in Hai; try contradiction; [exact Hai|].
      destruct avail, avail'; cbn [gavail_rel] in Hav; try contradiction; exact I. }
    set (ae := match get_ax inner ax with Some sz => Definite sz | None => _ end) in *.
    set (ae' := match get_ax inner' ax with Some sz => Definite sz | None => _ end) in *.
    eapply pbind_rel with (RA := pair_rel (Forall2 (fitem_rel k)) (Forall2 (gitem_rel k))).
    { apply rel_m_flex_items; assumption. }
    intros [fi items3] [fi' items3'] [Hfi Hit3]. cbn [fst snd] in Hfi, Hit3.
    pose proof (expand_flexible_tracks_homog k Hk _ _ _ _ _ _ _ _ _ _ Hmn Hmx Hae Hfi H2) as H3.
    constructor. apply rel_ss_set; [exact Hs| |exact Hoadj|exact Hit3].
    destruct (is_stretch_content al); [apply (stretch_auto_tracks_homog k Hk); assumption|exact H3].
  Qed.
  (* ---- the container size *)
  Lemma rel_container_size P P' i i' cs cs' rs rs' :
    pre_rel k P P' -> fin_rel k i i' -> L cs cs' -> L rs rs' ->
    pair_rel (sz_rel L) (sz_rel L) (container_size P i cs rs) (container_size P' i' cs' rs').
  Proof.
    intros (Hpad & Hbor & Hpb & Hmin & Hmax & Hpref & Hgut & Hinset & Hga & Hout & Hinn) (_ & _ & _ & Hkn & _) Hcs Hrs.
    unfold container_size, pair_rel. cbn [fst snd]. unfold_lifts. hm k Hk.
  Qed.

  (* ---- steps 6-7 of compute_grid_layout *)
  Notation VZ := (pair_rel (sized_rel k) (@eq bool)).
  Lemma rel_mkSized s s' bb bb' cb cb' (b : bool) :
    sstate_rel k s s' -> sz_rel L bb bb' -> sz_rel L cb cb' -> ProgRel k VZ (PRet (mkSized s bb cb, b)) (PRet (mkSized s' bb' cb', b)).
  Proof. intros Hs Hbb Hcb. constructor. split; cbn [fst snd]; [|reflexivity]. unfold sized_rel. cbn [z_state z_border_box z_content_box]. auto. Qed.

  Lemma rel_rerun_step ax (c : bool) inner inner' ot ot' oadj oadj' s s' :
    sz_rel O inner inner' -> tracks_rel k ot ot' -> L oadj oadj' -> sstate_rel k s s' ->
    ProgRel k (pair_rel (@eq bool) (sstate_rel k))
      (if c then PRet (true, ss_set_items s (map (clear_axis_caches ax) (ss_items s)))
       else pbind (m_rerun_any ax inner ot oadj (ss_items s)) (fun '(b, items') => PRet (b, ss_set_items s items')))
      (if c then PRet (true, ss_set_items s' (map (clear_axis_caches ax) (ss_items s')))
       else pbind (m_rerun_any ax inner' ot' oadj' (ss_items s')) (fun '(b, items') => PRet (b, ss_set_items s' items'))).
  Proof.
    intros Hin Hot Hadj Hs. pose proof (rel_ss_items _ _ Hs) as Hit. destruct c.
    - constructor. split; cbn [fst snd]; [reflexivity|]. apply rel_ss_set_items; [exact Hs|].
      apply (rel_map (gitem_rel k) (gitem_rel k)); [|exact Hit]. intros g g' Hg. apply rel_clear_axis_caches. exact Hg.
    - eapply pbind_rel with (RA := pair_rel eq (Forall2 (gitem_rel k))).
      { apply (rel_m_rerun_any k Hk); assumption. }
      intros [b it] [b' it'] [Eb Hit']. cbn [fst snd] in Eb, Hit'. subst b'. constructor. split; cbn [fst snd]; [reflexivity|].
      apply rel_ss_set_items; assumption.
  Qed.

  Lemma rel_m_size_grid st st' P P' i i' s0 s0' :
    gstyle_wrel k st st' -> pre_rel k P P' -> fin_rel k i i' -> sstate_rel k s0 s0' ->
    ProgRel k VZ (m_size_grid st P i s0) (m_size_grid st' P' i' s0').
  Proof.
    intros Hst HP Hi Hs0. unfold m_size_grid. ws_open Hst.
    pose proof HP as (Hpad & Hbor & Hpb & Hmin & Hmax & Hpref & Hgut & Hinset & Hga & Hout & Hinn).
    pose proof Hi as (Emode & _ & _ & Hkn & _ & Hgav & _).
    rewrite Walc, Wjc, Emode, (rel_has_baseline _ _ (rel_ss_items _ _ Hs0)).
    destruct Hmin as [Hminw Hminh], Hmax as [Hmaxw Hmaxh].
    pose proof Hga as [Hgaw Hgah]. pose proof Hgav as [Hgavw Hgavh]. pose proof Hinn as [Hinw Hinh].
    rewrite (rel_avail_is_definite _ _ Hgaw), (rel_avail_is_definite _ _ Hgah), (rel_avail_is_definite _ _ Hgavw), (rel_avail_is_definite _ _ Hgavh).
    cbv zeta.
    set (jc := opt_unwrap_or (gs_justify_content st) AStretch). set (ac := opt_unwrap_or (gs_align_content st) AStretch).
    set (hb := existsb (fun g => ai_is_baseline (g_align g)) (ss_items s0)).
    eapply pbind_rel with (RA := sstate_rel k).
    { apply rel_m_track_sizing; assumption. }
    intros s1 s1' Hs1. pose proof Hs1 as (Hc1 & Hr1 & Hac1 & Har1 & Hi1).
    pose proof (rel_base_sizes k _ _ Hc1) as Hics.
    set (ics := fsum (map base_size (ss_cols s1))) in *. set (ics' := fsum (map base_size (ss_cols s1'))) in *.
    assert (Hin1 : sz_rel O (mkSize (opt_or (width (p_inner P)) (Some ics)) (height (p_inner P)))
                            (mkSize (opt_or (width (p_inner P')) (Some ics')) (height (p_inner P')))).
    { split; cbn [width height]; [apply rel_opt_or; [exact Hinw|exact Hics]|exact Hinh]. }
    set (inner1 := mkSize (opt_or (width (p_inner P)) (Some ics)) (height (p_inner P))) in *.
    set (inner1' := mkSize (opt_or (width (p_inner P')) (Some ics')) (height (p_inner P'))) in *.
    eapply pbind_rel with (RA := sstate_rel k).
    { apply rel_m_track_sizing; try assumption. apply rel_ss_set_items; [exact Hs1|].
      apply (rel_map (gitem_rel k) (gitem_rel k)); [|exact Hi1]. intros g g' Hg. apply rel_set_ic_avail; [exact Hg|exact I]. }
    intros s2 s2' Hs2. pose proof Hs2 as (Hc2 & Hr2 & Hac2 & Har2 & Hi2).
    pose proof (rel_base_sizes k _ _ Hr2) as Hirs.
    set (irs := fsum (map base_size (ss_rows s2))) in *. set (irs' := fsum (map base_size (ss_rows s2'))) in *.
    assert (Hin2 : sz_rel O (mkSize (width inner1) (opt_or (height inner1) (Some irs))) (mkSize (width inner1') (opt_or (height inner1') (Some irs')))).
    { destruct Hin1 as [H1w H1h]. split; cbn [width height]; [exact H1w|apply rel_opt_or; [exact H1h|exact Hirs]]. }
    set (inner2 := mkSize (width inner1) (opt_or (height inner1) (Some irs))) in *.
    set (inner2' := mkSize (width inner1') (opt_or (height inner1') (Some irs'))) in *.
    pose proof (rel_container_size P P' i i' _ _ _ _ HP Hi Hics Hirs) as Hcz.
    destruct (container_size P i ics irs) as [bb cb], (container_size P' i' ics' irs') as [bb' cb'].
    destruct Hcz as [Hbb Hcb]. cbn [fst snd] in Hbb, Hcb.
    assert (Hc3 : tracks_rel k (if avail_is_definite (width (p_grid_avail P)) then ss_cols s2 else reresolve_percent (width cb) (ss_cols s2))
                               (if avail_is_definite (width (p_grid_avail P)) then ss_cols s2' else reresolve_percent (width cb') (ss_cols s2'))).
    { destruct (avail_is_definite (width (p_grid_avail P))); [exact Hc2|apply (rel_reresolve_percent k Hk); [apply Hcb|exact Hc2]]. }
    assert (Hr3 : tracks_rel k (if avail_is_definite (height (p_grid_avail P)) then ss_rows s2 else reresolve_percent (height cb) (ss_rows s2))
                               (if avail_is_definite (height (p_grid_avail P)) then ss_rows s2' else reresolve_percent (height cb') (ss_rows s2'))).
    { destruct (avail_is_definite (height (p_grid_avail P))); [exact Hr2|apply (rel_reresolve_percent k Hk); [apply Hcb|exact Hr2]]. }
    set (cols3 := if avail_is_definite (width (p_grid_avail P)) then ss_cols s2 else _) in *.
    set (cols3' := if avail_is_definite (width (p_grid_avail P)) then ss_cols s2' else _) in *.
    set (rows3 := if avail_is_definite (height (p_grid_avail P)) then ss_rows s2 else _) in *.
    set (rows3' := if avail_is_definite (height (p_grid_avail P)) then ss_rows s2' else _) in *.
    pose proof (rel_mkSS _ _ _ _ _ _ _ _ _ _ Hc3 Hr3 Hac2 Har2 Hi2) as Hs3.
    rewrite (rel_has_percentage _ _ Hc3).
    destruct (qi_mode i); [|apply rel_mkSized; assumption|].
    all: (eapply pbind_rel with (RA := pair_rel eq (sstate_rel k));
      [ apply (rel_rerun_step Inline _ inner2 inner2' rows3 rows3' _ _ _ _ Hin2 Hr3 Har2 Hs3) |]);
      intros [rr s4] [rr' s4'] [Err Hs4]; cbn [fst snd] in Err, Hs4; subst rr';
      (destruct rr; [|apply rel_mkSized; assumption]);
      (eapply pbind_rel with (RA := sstate_rel k); [apply rel_m_track_sizing; assumption|]);
      intros s5 s5' Hs5; pose proof Hs5 as (Hc5 & Hr5 & Hac5 & Har5 & Hi5);
      rewrite (rel_has_percentage _ _ Hr5);
      (eapply pbind_rel with (RA := pair_rel eq (sstate_rel k));
      [ apply (rel_rerun_step Block _ inner2 inner2' _ _ _ _ _ _ Hin2 Hc5 Hac5 Hs5) |]);
      intros [rr2 s6] [rr2' s6'] [Err2 Hs6]; cbn [fst snd] in Err2, Hs6; subst rr2';
      (destruct rr2; [|apply rel_mkSized; assumption]);
      (eapply pbind_rel with (RA := sstate_rel k); [apply rel_m_track_sizing; assumption|]);
      intros s7 s7' Hs7; apply rel_mkSized; assumption.
  Qed.
End Sizing.
