(* TOTALITY of the engines the correspondence runs.  Proofs/EngineTotal.v `memo_total`: for an algorithm that addresses only existing
   children (`Bounded (length st) (algo s st i)`), fuel >= tree height makes `memo` succeed for EVERY cache content, input and key
   equality.  Here the premise is proved for the real algorithms:
     lift_bounded / style_comap   the transports of Model/EngineLift.v keep the child indices
     taffy_algo_bounded           Model/TaffyEngine.v `taffy_algo` for every dispatch `disp`, preprocessing `pre`, leaf function, and every
                                  absolute-item routine that addresses only the item's own node (block: Proofs/BlockAlgBounded.v, flex:
                                  Proofs/FlexAlgBounded.v, grid incl. the panic stand-in: Proofs/GridAlgBounded.v)
     real_algo_bounded            Model/TaffyRoot.v `real_algo`
     bl_algo_bounded              Model/BlockEngine.v `bl_algo` (block containers + leaves)
   and memo_total instantiated: taffy_memo_total, real_memo_total, real_compute_root_total, real_passes_total, bl_memo_total.
   So a `None` of these engines at fuel >= height is impossible: every `... = Some ...` premise of the engine theorems is satisfiable at
   every tree, and the fuel-exhaustion marker of the runners (fuel 64 / tree depth <= 64) can never be printed for a tree of height <= 64. *)
From Coq Require Import ZArith Bool List Arith Lia.
From TV Require Import Num.Num.
From TV Require Import Model.Engine Model.EngineLift Proofs.EngineTotal.
From TV Require Model.Common Model.Leaf Model.FlexAlgBase Model.BlockFlexEngine Model.TaffyEngine Model.TaffyRoot Model.GridAlgBase.
From TV Require Model.Block Model.BlockAlg Model.BlockEngine Model.BlockAbs Model.EngineRel Proofs.EngineMemo.
From TV Require Proofs.BlockAlgBounded Proofs.FlexAlgBounded Proofs.GridAlgBounded Proofs.BlockAbsLocal.
Import ListNotations.

Section Lift.
  Variables (In1 Out1 Lay1 In2 Out2 Lay2 : Type).
  Variable fi : In1 -> In2.
  Variable po : Out2 -> Out1.
  Variable eo : Out1 -> Out2.
  Variable el : Lay1 -> Lay2.

  Lemma lift_bounded n (a : Alg In1 Out1 Lay1) :
    Bounded In1 Out1 Lay1 n a -> Bounded In2 Out2 Lay2 n (lift In1 Out1 Lay1 In2 Out2 Lay2 fi po eo el a).
  Proof.
    induction 1 as [o|c i k Hc Hk IH|c l k Hc Hk IH]; cbn [lift].
    - constructor.
    - constructor; [exact Hc|]. intros o. apply IH.
    - constructor; [exact Hc|exact IH].
  Qed.
End Lift.

Section Taffy.
  Import Model.Common Model.Leaf Model.FlexAlgBase Model.BlockFlexEngine Model.TaffyEngine Model.TaffyRoot.
  Context {T : Type} `{Num T}.
  Notation Bd := (Bounded (FIn T) (LayoutOutput T) (FLay T)).
  Notation ttree := (Engine.tree (TStyle T) (FIn T) (LayoutOutput T) (FLay T)).
  Notation theight := (EngineTotal.height (TStyle T) (FIn T) (LayoutOutput T) (FLay T)).

  Lemma block_alg_bf_bounded pre abs_child (Hloc : BlockAlg.AbsChildLocal abs_child) (s : BFStyle T) st i :
    Bd (length st) (block_alg_bf pre abs_child s st i).
  Proof.
    unfold block_alg_bf, style_comap, lift_algo. apply lift_bounded.
    rewrite <- (map_length to_bstyle st). apply BlockAlgBounded.block_alg_bounded. exact Hloc.
  Qed.

  Lemma flex_alg_bf_bounded (s : BFStyle T) st i : Bd (length st) (flex_alg_bf s st i).
  Proof. unfold flex_alg_bf, style_comap. rewrite <- (map_length bf_flex st). apply FlexAlgBounded.flex_alg_bounded. Qed.

  Theorem taffy_algo_bounded disp pre abs_child leaf (Hloc : BlockAlg.AbsChildLocal abs_child) (s : TStyle T) st i :
    Bd (length st) (taffy_algo disp pre abs_child leaf s st i).
  Proof.
    unfold taffy_algo. destruct (disp s (length st)).
    - unfold block_alg_t, style_comap. rewrite <- (map_length ts_bf st). apply block_alg_bf_bounded. exact Hloc.
    - unfold flex_alg_t, style_comap. rewrite <- (map_length ts_bf st). apply flex_alg_bf_bounded.
    - unfold grid_alg_t, style_comap. rewrite <- (map_length to_gstyle st). apply GridAlgBounded.grid_alg_total_bounded.
    - constructor.
  Qed.

  Theorem real_algo_bounded (s : TStyle T) st i : Bd (length st) (real_algo s st i).
  Proof. apply taffy_algo_bounded. apply BlockAbsLocal.abs_child_block_local. Qed.

  (* memo_total for the complete engine: every key equality, every cache content and stored layouts, every input *)
  Theorem taffy_memo_total teq disp pre abs_child leaf (Hloc : BlockAlg.AbsChildLocal abs_child) fuel (t : ttree) i :
    theight t <= fuel -> exists o t', taffy_memo teq disp pre abs_child leaf fuel t i = Some (o, t').
  Proof. unfold taffy_memo. apply memo_total. intros s st j. apply taffy_algo_bounded. exact Hloc. Qed.

  Theorem real_memo_total teq fuel (t : ttree) i : theight t <= fuel -> exists o t', real_memo teq fuel t i = Some (o, t').
  Proof. unfold real_memo. apply taffy_memo_total. apply BlockAbsLocal.abs_child_block_local. Qed.

  (* compute_root_layout and sequences of passes: the skeleton (hence the height) is unchanged by a pass *)
  Lemma real_compute_root_skel teq fuel (t t' : ttree) avail :
    real_compute_root teq fuel t avail = Some t' -> skel _ _ _ _ t' = skel _ _ _ _ t.
  Proof.
    unfold real_compute_root, taffy_compute_root.
    destruct (taffy_memo _ _ _ _ _ fuel t _) as [[o t1]|] eqn:E; [|discriminate]. intros Heq. injection Heq as <-.
    rewrite skel_set_lay. unfold taffy_memo in E. eapply memo_skel. exact E.
  Qed.

  Theorem real_compute_root_total teq fuel (t : ttree) avail : theight t <= fuel -> exists t', real_compute_root teq fuel t avail = Some t'.
  Proof.
    intros Hh. unfold real_compute_root, taffy_compute_root.
    destruct (real_memo_total teq fuel t (taffy_root_input (Engine.style_of _ _ _ _ t) avail) Hh) as (o & t' & E).
    unfold real_memo in E. rewrite E. eauto.
  Qed.

  Theorem real_passes_total teq fuel avails : forall (t : ttree), theight t <= fuel ->
    exists ls t', taffy_passes teq taffy_dispatch BlockEngine.block_pre BlockAbs.abs_child_block taffy_leaf fuel t avails = Some (ls, t').
  Proof.
    induction avails as [|a rest IH]; intros t Hh; cbn [taffy_passes]; [eauto|].
    destruct (real_compute_root_total teq fuel t a Hh) as (t1 & E1). unfold real_compute_root in E1. rewrite E1.
    destruct (IH t1) as (ls & t2 & E2).
    - unfold EngineTotal.height. rewrite (real_compute_root_skel teq fuel t t1 a E1). exact Hh.
    - rewrite E2. eauto.
  Qed.

  Lemma height_fresh (k : Engine.sk (TStyle T)) : theight (taffy_fresh k) = sheight (TStyle T) k.
  Proof. unfold EngineTotal.height, taffy_fresh. rewrite (EngineMemo.skel_fresh (TStyle T) (FIn T) (LayoutOutput T) (FLay T)). reflexivity. Qed.

  Theorem real_layout_passes_total teq fuel (k : Engine.sk (TStyle T)) avails : sheight (TStyle T) k <= fuel ->
    exists ls t', real_layout_passes teq fuel k avails = Some (ls, t').
  Proof.
    intros Hh. unfold real_layout_passes, taffy_layout_passes. apply real_passes_total. rewrite height_fresh. exact Hh.
  Qed.
End Taffy.

Section BlockLeaf.
  Import Model.Block Model.BlockAlg Model.BlockEngine.
  Context {T : Type} `{Num T}.

  Theorem bl_algo_bounded pre abs_child (Hloc : AbsChildLocal abs_child) (n : BNode T) kids i :
    Bounded (BIn T) (ChildOut T) (BLayout T) (length kids) (bl_algo pre abs_child n kids i).
  Proof.
    unfold bl_algo. destruct kids as [|k0 kids]; [constructor|].
    rewrite <- (map_length bn_style (k0 :: kids)). apply BlockAlgBounded.block_alg_bounded. exact Hloc.
  Qed.

  Theorem bl_memo_total pre abs_child (Hloc : AbsChildLocal abs_child) fuel (t : Engine.tree (BNode T) (BIn T) (ChildOut T) (BLayout T)) i :
    EngineTotal.height (BNode T) (BIn T) (ChildOut T) (BLayout T) t <= fuel -> exists o t', bl_memo pre abs_child fuel t i = Some (o, t').
  Proof. unfold bl_memo. apply memo_total. intros s st j. apply bl_algo_bounded. exact Hloc. Qed.
End BlockLeaf.
