(* Facts about the exact instance XQ used by the C07 proofs: finite arithmetic is Q arithmetic (`val`),
   min/max/clamp on Q, sums over lists and their relation with fold_left over x_add. *)
From Coq Require Import ZArith QArith Qabs Bool List Lia Lqa Morphisms Setoid.
From TV Require Import Num.Num Num.QNum.
Import ListNotations.
Open Scope Q_scope.

(* ---------- finite XQ values *)
Lemma fin_inv x : finite x -> x = Fin (val x).
Proof. destruct x; simpl; tauto. Qed.

Lemma fin_Fin q : finite (Fin q). Proof. exact I. Qed.
#[global] Hint Resolve fin_Fin : flexq.

Lemma add_fin (x y : XQ) : finite x -> finite y -> finite (add x y) /\ val (add x y) = val x + val y.
Proof. destruct x, y; simpl; tauto. Qed.
Lemma sub_fin (x y : XQ) : finite x -> finite y -> finite (sub x y) /\ val (sub x y) = val x - val y.
Proof. destruct x, y; simpl; tauto. Qed.
Lemma mul_fin (x y : XQ) : finite x -> finite y -> finite (mul x y) /\ val (mul x y) = val x * val y.
Proof. destruct x, y; simpl; tauto. Qed.

Lemma q_sign_eq (b : Q) : q_sign b = Eq <-> b == 0.
Proof.
  unfold q_sign, Qeq. simpl. rewrite Z.compare_eq_iff. split; intro; lia.
Qed.

Lemma div_fin (x y : XQ) : finite x -> finite y -> ~ val y == 0 ->
  finite (div x y) /\ val (div x y) = val x / val y.
Proof.
  destruct x, y; simpl; try tauto. intros _ _ Hn.
  destruct (q_sign q0) eqn:E; simpl; try tauto.
  apply q_sign_eq in E. tauto.
Qed.

Definition qmx (a b : Q) : Q := if Qle_bool b a then a else b.
Definition qmn (a b : Q) : Q := if Qle_bool a b then a else b.

Lemma fmax_fin (x y : XQ) : finite x -> finite y -> finite (fmax x y) /\ val (fmax x y) = qmx (val x) (val y).
Proof.
  destruct x, y; simpl; try tauto. intros _ _. unfold x_max, qmx. simpl.
  destruct (Qle_bool q0 q); simpl; auto.
Qed.
Lemma fmin_fin (x y : XQ) : finite x -> finite y -> finite (fmin x y) /\ val (fmin x y) = qmn (val x) (val y).
Proof.
  destruct x, y; simpl; try tauto. intros _ _. unfold x_min, qmn. simpl.
  destruct (Qle_bool q q0); simpl; auto.
Qed.

Lemma ltb_fin (x y : XQ) : finite x -> finite y -> ltb x y = negb (Qle_bool (val y) (val x)).
Proof. destruct x, y; simpl; tauto. Qed.
Lemma eqb_fin (x y : XQ) : finite x -> finite y -> eqb x y = Qeq_bool (val x) (val y).
Proof. destruct x, y; simpl; tauto. Qed.

Lemma ltb_true (x y : XQ) : finite x -> finite y -> (ltb x y = true <-> val x < val y).
Proof.
  intros Hx Hy. rewrite ltb_fin by assumption. rewrite negb_true_iff.
  split.
  - intro E. apply Qnot_le_lt. intro L. apply Qle_bool_iff in L. congruence.
  - intro L. destruct (Qle_bool (val y) (val x)) eqn:E; auto. apply Qle_bool_iff in E. exfalso. lra.
Qed.
Lemma ltb_false (x y : XQ) : finite x -> finite y -> (ltb x y = false <-> val y <= val x).
Proof.
  intros Hx Hy. rewrite ltb_fin by assumption. rewrite negb_false_iff. apply Qle_bool_iff.
Qed.
Lemma eqb_true (x y : XQ) : finite x -> finite y -> (eqb x y = true <-> val x == val y).
Proof. intros. rewrite eqb_fin by assumption. apply Qeq_bool_iff. Qed.
Lemma eqb_false (x y : XQ) : finite x -> finite y -> (eqb x y = false <-> ~ val x == val y).
Proof.
  intros. rewrite eqb_fin by assumption. split.
  - intros E F. apply Qeq_bool_iff in F. congruence.
  - intro F. destruct (Qeq_bool (val x) (val y)) eqn:E; auto. apply Qeq_bool_iff in E. tauto.
Qed.

Lemma is_normal_fin (x : XQ) : finite x -> (is_normal x = true <-> ~ val x == 0).
Proof.
  destruct x; simpl; try tauto. intros _. rewrite negb_true_iff. split.
  - intros E F. apply Qeq_bool_iff in F. congruence.
  - intro F. destruct (Qeq_bool q 0) eqn:E; auto. apply Qeq_bool_iff in E. tauto.
Qed.

Lemma val_zero : val (zero : XQ) = 0. Proof. reflexivity. Qed.
Lemma val_one : val (one : XQ) = 1. Proof. reflexivity. Qed.
Lemma fin_zero : finite (zero : XQ). Proof. exact I. Qed.
Lemma fin_one : finite (one : XQ). Proof. exact I. Qed.
Lemma fin_negzero : finite (neg_zero : XQ) /\ val (neg_zero : XQ) == 0.
Proof. split; [exact I | reflexivity]. Qed.
Lemma of_Z_fin z : finite (of_Z z : XQ) /\ val (of_Z z : XQ) = inject_Z z.
Proof. split; [exact I | reflexivity]. Qed.

(* ---------- min / max on Q *)
Lemma qmx_cases a b : (b <= a /\ qmx a b = a) \/ (a < b /\ qmx a b = b).
Proof.
  unfold qmx. destruct (Qle_bool b a) eqn:E.
  - left. apply Qle_bool_iff in E. auto.
  - right. split; auto. apply Qnot_le_lt. intro L. apply Qle_bool_iff in L. congruence.
Qed.
Lemma qmn_cases a b : (a <= b /\ qmn a b = a) \/ (b < a /\ qmn a b = b).
Proof.
  unfold qmn. destruct (Qle_bool a b) eqn:E.
  - left. apply Qle_bool_iff in E. auto.
  - right. split; auto. apply Qnot_le_lt. intro L. apply Qle_bool_iff in L. congruence.
Qed.

(* clamp of the loop: max(maybe_clamp(x, Some mn, mx), 0) *)
Definition qclamp (mn : Q) (mx : option Q) (x : Q) : Q :=
  qmx (match mx with Some m => qmx (qmn x m) mn | None => qmx x mn end) 0.
Definition effmin (mn : Q) : Q := qmx mn 0.
Definition effmax (mn m : Q) : Q := qmx (qmx m mn) 0.

Ltac qcases :=
  repeat match goal with
         | |- context [qmx ?a ?b] => let H := fresh in let E := fresh in
                                     destruct (qmx_cases a b) as [[H E] | [H E]]; rewrite E in *; clear E
         | |- context [qmn ?a ?b] => let H := fresh in let E := fresh in
                                     destruct (qmn_cases a b) as [[H E] | [H E]]; rewrite E in *; clear E
         | H0 : context [qmx ?a ?b] |- _ => let H := fresh in let E := fresh in
                                     destruct (qmx_cases a b) as [[H E] | [H E]]; rewrite E in *; clear E
         | H0 : context [qmn ?a ?b] |- _ => let H := fresh in let E := fresh in
                                     destruct (qmn_cases a b) as [[H E] | [H E]]; rewrite E in *; clear E
         end.

Lemma qclamp_mono mn mx x y : x <= y -> qclamp mn mx x <= qclamp mn mx y.
Proof. intro L. unfold qclamp. destruct mx; qcases; lra. Qed.
Lemma qclamp_ext mn mx x y : x == y -> qclamp mn mx x == qclamp mn mx y.
Proof.
  intro E. apply Qle_antisym; apply qclamp_mono; lra.
Qed.
#[global] Instance qclamp_proper mn mx : Proper (Qeq ==> Qeq) (qclamp mn mx).
Proof. intros x y E. apply qclamp_ext; assumption. Qed.
Lemma qclamp_idem mn mx x : qclamp mn mx (qclamp mn mx x) == qclamp mn mx x.
Proof. unfold qclamp. destruct mx; qcases; lra. Qed.
Lemma qclamp_nonneg mn mx x : 0 <= qclamp mn mx x.
Proof. unfold qclamp. destruct mx; qcases; lra. Qed.
Lemma qclamp_ge_effmin mn mx x : effmin mn <= qclamp mn mx x.
Proof. unfold qclamp, effmin. destruct mx; qcases; lra. Qed.
Lemma qclamp_le_effmax mn m x : qclamp mn (Some m) x <= effmax mn m.
Proof. unfold qclamp, effmax. qcases; lra. Qed.
Lemma qclamp_lt_max mn mx x : qclamp mn mx x < x -> exists m, mx = Some m /\ qclamp mn mx x == effmax mn m.
Proof.
  unfold qclamp, effmax. destruct mx.
  - intro L. exists q. split; auto. qcases; lra.
  - intro L. exfalso. qcases; lra.
Qed.
Lemma qclamp_gt_min mn mx x : x < qclamp mn mx x -> qclamp mn mx x == effmin mn.
Proof. unfold qclamp, effmin. destruct mx; intro L; qcases; lra. Qed.
Lemma qclamp_min_stable mn mx b t : b <= t -> t < qclamp mn mx t -> qclamp mn mx b == qclamp mn mx t.
Proof.
  intros L1 L2. pose proof (qclamp_gt_min _ _ _ L2). pose proof (qclamp_mono mn mx _ _ L1).
  pose proof (qclamp_ge_effmin mn mx b). lra.
Qed.
Lemma qclamp_max_stable mn mx b t : t <= b -> qclamp mn mx t < t -> qclamp mn mx b == qclamp mn mx t.
Proof.
  intros L1 L2. destruct (qclamp_lt_max _ _ _ L2) as [m [-> E]]. pose proof (qclamp_mono mn (Some m) _ _ L1).
  pose proof (qclamp_le_effmax mn m b). lra.
Qed.
Lemma effmin_le_effmax mn m : effmin mn <= effmax mn m.
Proof. unfold effmin, effmax. qcases; lra. Qed.

(* ---------- sums over lists *)
Section Sums.
  Context {A : Type}.
  Fixpoint qsum (f : A -> Q) (l : list A) : Q :=
    match l with [] => 0 | x :: r => f x + qsum f r end.

    Lemma qsum_ext f g l : (forall x, In x l -> f x == g x) -> qsum f l == qsum g l.
  Proof.
    induction l; simpl; intro Hx; [reflexivity|].
    rewrite (Hx a) by auto. rewrite IHl by auto. reflexivity.
  Qed.
  Lemma qsum_le f g l : (forall x, In x l -> f x <= g x) -> qsum f l <= qsum g l.
  Proof.
    induction l; simpl; intro Hx; [lra|].
    pose proof (Hx a (or_introl eq_refl)). pose proof (IHl (fun x Hi => Hx x (or_intror Hi))). lra.
  Qed.
  Lemma qsum_add f g l : qsum (fun x => f x + g x) l == qsum f l + qsum g l.
  Proof. induction l; simpl; lra. Qed.
  Lemma qsum_sub f g l : qsum (fun x => f x - g x) l == qsum f l - qsum g l.
  Proof. induction l; simpl; lra. Qed.
  Lemma qsum_scale k f l : qsum (fun x => k * f x) l == k * qsum f l.
  Proof. induction l; simpl; lra. Qed.
  Lemma qsum_zero f l : (forall x, In x l -> f x == 0) -> qsum f l == 0.
  Proof. induction l; simpl; intro Hx; [reflexivity|]. rewrite (Hx a) by auto. rewrite IHl by auto. lra. Qed.
  Lemma qsum_nonneg f l : (forall x, In x l -> 0 <= f x) -> 0 <= qsum f l.
  Proof.
    induction l; simpl; intro Hx; [lra|].
    pose proof (Hx a (or_introl eq_refl)). pose proof (IHl (fun x Hi => Hx x (or_intror Hi))). lra.
  Qed.
  Lemma qsum_nonpos f l : (forall x, In x l -> f x <= 0) -> qsum f l <= 0.
  Proof.
    induction l; simpl; intro Hx; [lra|].
    pose proof (Hx a (or_introl eq_refl)). pose proof (IHl (fun x Hi => Hx x (or_intror Hi))). lra.
  Qed.
  (* a positive sum has a positive term *)
  Lemma qsum_pos_ex f l : 0 < qsum f l -> exists x, In x l /\ 0 < f x.
  Proof.
    induction l; simpl; intro Hp; [lra|].
    destruct (Qlt_le_dec 0 (f a)).
    - exists a; auto.
    - destruct IHl as [x [Hi Hx]]; [lra|]. exists x; auto.
  Qed.
  Lemma qsum_neg_ex f l : qsum f l < 0 -> exists x, In x l /\ f x < 0.
  Proof.
    induction l; simpl; intro Hp; [lra|].
    destruct (Qlt_le_dec (f a) 0).
    - exists a; auto.
    - destruct IHl as [x [Hi Hx]]; [lra|]. exists x; auto.
  Qed.
  Lemma qsum_filter (p : A -> bool) f l : qsum f (filter p l) == qsum (fun x => if p x then f x else 0) l.
  Proof. induction l; simpl; [reflexivity|]. destruct (p a); simpl; lra. Qed.

  (* fold_left of x_add over finite values *)
  Lemma fold_add_fin (F : A -> XQ) l : (forall x, In x l -> finite (F x)) ->
    forall acc, finite acc ->
      finite (fold_left (fun a x => add a (F x)) l acc) /\
      val (fold_left (fun a x => add a (F x)) l acc) == val acc + qsum (fun x => val (F x)) l.
  Proof.
    induction l; simpl; intros Hf acc Ha.
    - split; [assumption | lra].
    - destruct (add_fin acc (F a) Ha (Hf a (or_introl eq_refl))) as [H1 H2].
      destruct (IHl (fun x Hi => Hf x (or_intror Hi)) _ H1) as [H3 H4].
      split; [assumption|]. rewrite H4, H2. lra.
  Qed.
End Sums.

Lemma qsum_map {A B} (g : B -> A) (f : A -> Q) l : qsum f (map g l) = qsum (fun x => f (g x)) l.
Proof. induction l; simpl; congruence. Qed.

Lemma fsum_fin {A} (F : A -> XQ) (l : list A) : (forall x, In x l -> finite (F x)) ->
  finite (fsum (map F l)) /\ val (fsum (map F l)) == qsum (fun x => val (F x)) l.
Proof.
  intro Hf. unfold fsum.
  assert (E : forall acc, fold_left add (map F l) acc = fold_left (fun a x => add a (F x)) l acc).
  { clear Hf. induction l; simpl; intros; auto. }
  rewrite E. destruct (fold_add_fin F l Hf neg_zero (proj1 fin_negzero)) as [H1 H2].
  split; [assumption|]. rewrite H2. simpl. lra.
Qed.
