"""C19 -- a single leaf is sized per the box model.
T  Gen/MathGen.v (MaybeMath / MaybeResolve / AvailableSpace tables, maybe_apply_aspect_ratio) regenerated from /repo;
   fingerprints of compute_leaf_layout, compute_root_layout, compute_child_layout and the generic lifts.
P  Props/C19.v (leaf_spec equality, floor, clamping, location, measure arguments, KnownDimsRespected; refuted witnesses).
K  `vh c19 cases`: one-node TaffyTree (unrounded_layout + logged measure arguments) and direct compute_leaf_layout calls
   vs Model.LeafRun.run_case over F32, bit for bit.
S  `vh c19 oracle`: leaf_spec restated over f32 as a predicate on the implementation + "measure only for childless,
   box-generating nodes" on random multi-node trees."""
from ..common import *
from ..stages import *

DISPLAYS = ['block', 'flex', 'grid', 'none']
KNOWN_ID = 'leaf-aspect-ratio-after-clamp'


def describe(c):
    return {'entry': 'TaffyTree root' if c[0] == 0 else 'compute_leaf_layout', 'display': DISPLAYS[c[1]],
            'box_sizing': 'content-box' if c[3] else 'border-box', 'aspect_ratio': bool(c[19]),
            'run_mode': ['PerformLayout', 'ComputeSize', 'PerformHiddenLayout'][c[52]],
            'sizing_mode': 'InherentSize' if c[53] else 'ContentSize'}


def eval_model(cases):
    """run_model, retried once with fewer parallel coqc processes when a shard dies without a Coq error message
    (observed on a heavily loaded machine: a killed coqc, not a property of the model)"""
    try:
        return run_model('C19', 'From TV Require Import Model.LeafRun.', 'run_case', cases, scope='Z', elem='list Z')
    except RuntimeError as ex:
        if 'Error' in str(ex) or 'timed out' in str(ex):
            raise
        log('[C19] model evaluation died without an error message (%s); retrying with 6 shards' % str(ex)[:80])
        return run_model('C19r', 'From TV Require Import Model.LeafRun.', 'run_case', cases, scope='Z', elem='list Z', shards=6)


def run(rep, tier, seed, replay=None):
    trusted = [
        'hand models Model/Leaf.v (compute_leaf_layout) and Model/Root.v (root_input / root_assemble): PROVED equal to the translation of the '
        'whole bodies of compute_leaf_layout / compute_root_layout regenerated on every run (Gen/LeafGen.v, Gen/RootGen.v by translator/gen_leaf.py; '
        'C19_translated_*_is_model) -- and tied by K; Model/Common.v (generic lifts to Size/Rect) and Root.childless_child_layout '
        '(TaffyView::compute_child_layout dispatch): hand-written, tied by K and fingerprints only',
        'a fresh TaffyTree has an empty layout cache (the cache is not modelled here: property C02)',
        'calc() lengths are out of scope; the high-level API resolves them to 0',
        'theorems are over exact rationals (XQ); the F32 instance is only run, its rounding is not analysed']
    res, changed = proof_stage(rep, 'C19', extra_trusted=trusted)
    if not res['compiled'] and 'Error' not in res.get('output', ''):
        # a build that stops without a Coq error (killed compiler on a loaded machine) says nothing about the proofs: once more
        log('[C19] proof build stopped without a Coq error; retrying once')
        rep.broken = [b for b in rep.broken if b['kind'] != 'proof']
        res, changed = proof_stage(rep, 'C19', extra_trusted=trusted)
    rc, out, binp, dt = build_harness('release')
    if rc != 0:
        rep.add_broken('build', 'harness', out[-1500:])
        return
    mine = [k for k in changed if k.startswith(('gen_math:', 'gen_leaf:'))]
    n = 2000 if tier == 'quick' else 40000
    if mine:
        n = max(n, 12000)
    if replay and 'case' in replay:
        rc, out = vh(binp, ['c19', 'one'] + replay['case'])
    else:
        rc, out = vh(binp, ['c19', 'cases', seed, n])
    try:
        cases, impl = parse_cr(out)
    except RuntimeError as ex:
        cases, impl = [], []
        out += str(ex)
    if rc != 0 or not cases:
        rep.add_broken('correspondence', 'vh c19 cases', 'harness failed: ' + out[-500:])
        return
    bad = []
    try:
        with Lock('coq'):
            rcm, outm, _ = coq_make(['Model/LeafRun.vo'])
        if rcm != 0:
            raise RuntimeError(outm[-1500:])
        model = eval_model(cases)
        bad = diff_results(rep, 'root_leaf / compute_leaf_layout over F32 vs the implementation', cases, impl, model)
    except RuntimeError as ex:
        rep.add_broken('correspondence', 'model evaluation', str(ex)[-1500:])
    dist = {}
    for c in cases:
        d = describe(c)
        for k in ('entry', 'display', 'box_sizing', 'run_mode'):
            key = '%s=%s' % (k, d[k])
            dist[key] = dist.get(key, 0) + 1
        if d['aspect_ratio']:
            dist['aspect_ratio'] = dist.get('aspect_ratio', 0) + 1
    rep.cov['distinct_nontrivial'] = len(set(tuple(c) for c in cases))
    rep.cov['rule'] = ('case = 62 integers (style: display, position, box-sizing, overflow x/y, scrollbar width, size/min/max kinds and '
                       'values, aspect ratio, margin/padding/border kinds and values; measure context Fixed/Text/Echo/none; available '
                       'space kinds and values; for the direct entry point also run mode, sizing mode, known dimensions, parent size); '
                       'fixed corpus (the refuted-theorem witnesses, display:none, content-box + percent padding + gutters) then one PRNG '
                       'stream, alternating TaffyTree-root and direct compute_leaf_layout cases, every fifth with exotic floats '
                       '(negative, -0.0, 1e7, inf, 3.4e38, ratio 0); lengths in quarters or tenths; distinct = distinct integer vectors; '
                       'every case compares all layout fields, the number of measure calls and the arguments of the call bit for bit')
    rep.cov['input_distribution'] = dist
    rep.cov['samples'] = [{'case': c, 'impl': a, 'shape': describe(c)} for c, a in list(zip(cases, impl))[:2] + list(zip(cases, impl))[-2:]]
    rep.cov['samples'].append({'theorem': 'C19_spec_partial : fin_style st -> size_all fin_avail av -> fin_measure measure -> nonneg_padding_border st av -> '
                               'display st <> DNone -> aspect_ratio st = None -> exists lay aa, root_leaf st measure av = Some (lay, [(size_NONE, aa)]) /\\ '
                               'size_rel avail_xeq aa (leaf_spec_measure_avail st av) /\\ layout_xeq lay (leaf_spec st av (measure size_NONE aa))'})
    rep.cov['samples'].append({'theorem': 'C19_floor : fin_style st -> size_all fin_avail av -> display st <> DNone -> root_leaf st measure av = Some (lay, calls) -> '
                               'x_leb (width (sp_pb st av)) (width (l_size lay)) = true /\\ x_leb (height (sp_pb st av)) (height (l_size lay)) = true'})

    # ---- search: the property stated directly on the implementation (always run; larger when something no longer checks)
    big = tier == 'thorough' or rep.broken or mine
    nor = 250000 if big else 40000
    fails, ratio, summary = [], [], {}
    if replay and 'case' in replay:
        rc, out = vh(binp, ['c19', 'show'] + replay['case'])
        for l in out.split('\n'):
            if l.startswith('FAIL '):
                fails.append((l[5:], replay['case']))
            elif l.startswith('RATIO '):
                ratio.append((l[6:], replay['case']))
    elif replay and 'tree' in replay:
        rc, out = vh(binp, ['c19', 'tree'] + replay['tree'])
        last = out.strip().split('\n')[-1]
        if last.startswith('Some('):
            fails.append((last, None, replay['tree']))
    else:
        rc, out = vh(binp, ['c19', 'oracle', seed, nor], timeout=900)
        for l in out.split('\n'):
            if l.startswith('FAIL tree '):
                p = l.split('::')
                fails.append((p[0][5:].strip(), None, [int(x) for x in p[1].split()]))
            elif l.startswith('FAIL '):
                p = l.split('::')
                fails.append((p[0][5:].strip().split(' ', 1)[1], [int(x) for x in p[1].split()]))
            elif l.startswith('RATIO '):
                p = l.split('::')
                ratio.append((p[0][6:].strip(), [int(x) for x in p[1].split()]))
            elif l.startswith('ORACLE '):
                summary = dict((kv.split('=')[0], int(kv.split('=')[1])) for kv in l.split()[1:])
        if rc != 0 or not summary:
            rep.add_broken('search', 'vh c19 oracle', out[-500:])
        rep.cov['oracle'] = summary
    for f in fails[:3]:
        if f[1] is None:
            rep.add_violation('measure function dispatch: %s' % f[0], {'tree': f[2], 'cmd': 'vh c19 tree %d %d' % tuple(f[2])})
        else:
            rep.add_violation(f[0], {'case': f[1], 'shape': describe(f[1]), 'cmd': 'vh c19 show ' + ' '.join(map(str, f[1]))})
    # the aspect-ratio deviation: a recorded finding (Props/C19.v C19_spec_refuted, C19_clamped_refuted); its witnesses are
    # in the fixed corpus of the oracle, so it must reproduce on every run
    known = [k for k in known_findings('C19') if k.get('id') == KNOWN_ID and k.get('status') == 'known']
    if ratio:
        if known:
            rep.known.append('%s (%d of %s generated styles with an aspect ratio; first: %s)'
                             % (known[0]['line'].replace('known: property=C19 ', ''), summary.get('ratio_deviations', len(ratio)), summary.get('with_ratio', '?'), ratio[0][0]))
        else:
            for r in ratio[:2]:
                rep.add_violation('aspect ratio: ' + r[0], {'case': r[1], 'shape': describe(r[1]), 'cmd': 'vh c19 show ' + ' '.join(map(str, r[1]))})
    elif known and not replay:
        rep.cov['stale_known_finding'] = KNOWN_ID
        log('[C19] known finding %s did not reproduce: the entry in known_findings.json is stale' % KNOWN_ID)
    # a disagreement of K on a concrete input: decide on the implementation alone whether the property is violated there
    if not fails:
        for c, a, b in bad[:20]:
            if c[0] != 0:
                continue
            rc, out = vh(binp, ['c19', 'show'] + c)
            fl = [l[5:] for l in out.split('\n') if l.startswith('FAIL ')]
            if fl:
                rep.add_violation(fl[0], {'case': c, 'impl': a, 'model': b, 'shape': describe(c), 'cmd': 'vh c19 show ' + ' '.join(map(str, c))})
                if len(rep.violations) >= 3:
                    break
