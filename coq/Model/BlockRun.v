(* Executable driver of the C10 correspondence: decodes a case printed by `vh c10 cases` (container style, available
   space, child styles + measure data; all f32 as bit patterns), runs Model.BlockTree.block_root_layout over F32 --
   i.e. the very `block_inflow` the theorems of Props/C10.v are about -- and encodes what the harness prints after `R`. *)
From Coq Require Import ZArith Bool List.
From TV Require Import Num.Num Num.F32 Gen.BlockGen Model.Block Model.BlockLeaf Model.BlockTree.
Import ListNotations.
Open Scope Z_scope.

Definition STYLE_LEN : nat := 57.

Definition g (l : list Z) (i : nat) : Z := nth i l 0.
Definition fb (z : Z) : f32 := f_of_bits z.

Definition dec_lpa (l : list Z) (i : nat) : LPA f32 :=
  match g l i with 0 => Len (fb (g l (S i))) | 1 => Pct (fb (g l (S i))) | _ => Auto end.
Definition dec_rect (l : list Z) (i : nat) : BRect (LPA f32) :=
  mkRect (dec_lpa l i) (dec_lpa l (i + 2)) (dec_lpa l (i + 4)) (dec_lpa l (i + 6)).
Definition dec_size (l : list Z) (i : nat) : BSize (LPA f32) := mkSize (dec_lpa l i) (dec_lpa l (i + 2)).
Definition dec_overflow (z : Z) : BOverflow := match z with 0 => OVisible | 1 => OClip | 2 => OHidden | _ => OScroll end.

Definition dec_style (l : list Z) : BStyle f32 * Measure f32 :=
  (mkStyle
     (match g l 0 with 0 => DBlock | 1 => DFlex | 2 => DGrid | _ => DNone end)
     (Z.eqb (g l 1) 1) (Z.eqb (g l 2) 1)
     (dec_overflow (g l 3)) (dec_overflow (g l 4)) (fb (g l 5))
     (match g l 6 with 0 => PRelative | _ => PAbsolute end)
     (dec_rect l 7) (dec_size l 15) (dec_size l 19) (dec_size l 23)
     (if Z.eqb (g l 27) 1 then Some (fb (g l 28)) else None)
     (dec_rect l 29) (dec_rect l 37) (dec_rect l 45)
     (match g l 53 with 0 => TAAuto | 1 => TALeft | 2 => TARight | _ => TACenter end),
   match g l 54 with 0 => MNone | _ => MFixed (fb (g l 55)) (fb (g l 56)) end).

Fixpoint dec_styles (n : nat) (l : list Z) : list (BStyle f32 * Measure f32) :=
  match n with
  | O => []
  | S k => dec_style (firstn STYLE_LEN l) :: dec_styles k (skipn STYLE_LEN l)
  end.

Definition dec_avail (tag bits : Z) : Avail f32 :=
  match tag with 0 => Definite (fb bits) | 1 => MinContent | _ => MaxContent end.

Definition tb (x : f32) : Z := f_to_bits x.

(* one child in document order: [order; x; y; w; h; ml; mr; mt; mb; sbw; sbh; pl; pr; pt; pb; bl; br; bt; bb] *)
Definition enc_inflow (it : Item f32) (r : ItemResult f32) : list Z :=
  [ir_order r; tb (ir_x r); tb (ir_y r); tb (s_w (ir_size r)); tb (s_h (ir_size r));
   tb (r_left (ir_margin r)); tb (r_right (ir_margin r)); tb (r_top (ir_margin r)); tb (r_bottom (ir_margin r));
   tb (s_w (ir_scrollbar r)); tb (s_h (ir_scrollbar r));
   tb (r_left (it_padding it)); tb (r_right (it_padding it)); tb (r_top (it_padding it)); tb (r_bottom (it_padding it));
   tb (r_left (it_border it)); tb (r_right (it_border it)); tb (r_top (it_border it)); tb (r_bottom (it_border it))].

Definition zeros (n : nat) : list Z := repeat 0 n.

(* absolutely positioned child of the restricted class: location = static position + (non-auto, length) margin *)
Definition enc_abs (st : BStyle f32) (r : ItemResult f32) : list Z :=
  let ml := match r_left (st_margin st) with Len v => v | _ => zero end in
  let mt := match r_top (st_margin st) with Len v => v | _ => zero end in
  [ir_order r; tb (add (ir_static_x r) ml); tb (add (ir_static_y r) mt)] ++ zeros 16.

Fixpoint enc_children (idx : Z) (cs : list (BStyle f32 * Measure f32)) (items : list (Item f32)) (rs : list (ItemResult f32)) : list Z :=
  match cs with
  | [] => []
  | (st, m) :: rest =>
      match st_display st with
      | DNone => (idx :: zeros 18) ++ enc_children (idx + 1) rest items rs
      | _ =>
          match items, rs with
          | it :: items', r :: rs' =>
              (if ir_inflow r then enc_inflow it r else enc_abs st r) ++ enc_children (idx + 1) rest items' rs'
          | _, _ => [(-1)]
          end
      end
  end.

Definition has_abs (cs : list (BStyle f32 * Measure f32)) : bool :=
  existsb (fun c => andb (position_is_absolute (st_position (fst c))) (negb (match st_display (fst c) with DNone => true | _ => false end))) cs.

Definition run_case (c : list Z) : list Z :=
  match c with
  | awt :: awb :: aht :: ahb :: n :: rest =>
      let avail := mkSize (dec_avail awt awb) (dec_avail aht ahb) in
      let '(rst, _) := dec_style (firstn STYLE_LEN rest) in
      let children := dec_styles (Z.to_nat n) (skipn STYLE_LEN rest) in
      let out := block_root_layout rst avail children in
      let parent := mkSize (avail_into_option (s_w avail)) (avail_into_option (s_h avail)) in
      let inp := mkInput (block_styled_known rst (root_known rst avail) parent) parent (mkLine false false) in
      let items := generate_item_list (map fst children) (block_node_inner_size rst inp) in
      let io := to_inflow out in
      let cs := if has_abs children then sz_zero else io_content_size io in
      [tb (s_w (to_size out)); tb (s_h (to_size out)); tb (s_w cs); tb (s_h cs)]
        ++ enc_children 0 children items (io_results io)
  | _ => []
  end.

(* ---- K2: one block container of an arbitrary tree, its children's recorded LayoutOutputs as oracle values.
   case: [kw?; kw; kh?; kh; pw?; pw; ph?; ph; coll_start; coll_end; n] ++ style(57) ++ n * (style(57) ++ [has; w; h; cw; ch; tp; tn; bp; bn; ct])
   result: [outer_w; outer_h; ct; top_pos; top_neg; bottom_pos; bottom_neg]
           ++ per in-flow child [order; x; y; w; h; ml; mr; mt; mb; kw?; kw; kh?; kh; avail_w]
   [-1]: the container's width is not known on entry (content-based width: outside this class) *)
Definition dec_opt (l : list Z) (i : nat) : option f32 := if Z.eqb (g l i) 1 then Some (fb (g l (S i))) else None.
Definition CHILD2_LEN : nat := 67.

Fixpoint dec_children2 (n : nat) (l : list Z) : list (BStyle f32 * ChildOut f32) :=
  match n with
  | O => []
  | S k =>
      let c := firstn CHILD2_LEN l in
      let o := skipn STYLE_LEN c in
      (fst (dec_style (firstn STYLE_LEN c)),
       mkOut (mkSize (fb (g o 1)) (fb (g o 2))) (mkSize (fb (g o 3)) (fb (g o 4)))
             (mkMS (fb (g o 5)) (fb (g o 6))) (mkMS (fb (g o 7)) (fb (g o 8))) (Z.eqb (g o 9) 1))
        :: dec_children2 k (skipn CHILD2_LEN l)
  end.

Definition enc_opt (o : option f32) : list Z := match o with Some v => [1; tb v] | None => [0; 0] end.
Definition b2z (b : bool) : Z := if b then 1 else 0.

Definition enc_inflow2 (r : ItemResult f32) : list Z :=
  [ir_order r; tb (ir_x r); tb (ir_y r); tb (s_w (ir_size r)); tb (s_h (ir_size r));
   tb (r_left (ir_margin r)); tb (r_right (ir_margin r)); tb (r_top (ir_margin r)); tb (r_bottom (ir_margin r))]
  ++ enc_opt (s_w (ir_known r)) ++ enc_opt (s_h (ir_known r)) ++ [tb (ir_avail_w r)].

Definition is_visible (st : BStyle f32) : bool := match st_display st with DNone => false | _ => true end.

Definition run_case2 (c : list Z) : list Z :=
  let known0 := mkSize (dec_opt c 0) (dec_opt c 2) in
  let parent := mkSize (dec_opt c 4) (dec_opt c 6) in
  let coll := mkLine (Z.eqb (g c 8) 1) (Z.eqb (g c 9) 1) in
  let n := Z.to_nat (g c 10) in
  let rest := skipn 11 c in
  let st := fst (dec_style (firstn STYLE_LEN rest)) in
  let children := dec_children2 n (skipn STYLE_LEN rest) in
  let known := block_styled_known st known0 parent in
  match s_w known with
  | None => [(-1)]
  | Some outer_w =>
      let inp := mkInput known parent coll in
      let items := generate_item_list (map fst children) (block_node_inner_size st inp) in
      let outs := map snd (filter (fun x => is_visible (fst x)) children) in
      let P := block_params st inp outer_w in
      let io := block_inflow P (combine items outs) in
      let outer_h := block_outer_height st inp (io_height io) in
      let ms := block_output_margins st inp io in
      [tb outer_w; tb outer_h; b2z (block_can_collapse_through st inp (io_results io));
       tb (ms_positive (fst ms)); tb (ms_negative (fst ms)); tb (ms_positive (snd ms)); tb (ms_negative (snd ms))]
      ++ flat_map (fun r => if ir_inflow r then enc_inflow2 r else []) (io_results io)
  end.
