(* C18 -- style lengths are encoded losslessly (64-bit representation).
   Statements only; every proof is `exact <lemma>`.  The definitions these statements are about
   (from_val, tag, value, cl_*, *_TAG) are regenerated from src/style/compact_length.rs on every run. *)
From Coq Require Import NArith Bool List.
From TV Require Import Gen.CompactLengthGen Model.CompactLength Proofs.CompactLengthProofs.
From TV Require Num.Num.
From TV Require Import Model.Types Gen.MathGen.
Import ListNotations.
Open Scope N_scope.

(* every f32 bit pattern v, every constructor kind k: the packed word reports k's tag and returns v *)
Theorem C18_roundtrip : forall k v, v < 2 ^ 32 ->
  tag (build k v) = kind_tag k /\ (has_value k = true -> value (build k v) = v).
Proof. intros k v Hv. split; [exact (tag_build k v Hv) | exact (value_build k v Hv)]. Qed.

(* no bits are lost: the word fits the 64-bit pointer, and equal words come from equal (kind, value) *)
Theorem C18_no_truncation : forall k v, v < 2 ^ 32 -> build k v < 2 ^ 64.
Proof. exact build_lt. Qed.

Theorem C18_injective : forall k v k' v', v < 2 ^ 32 -> v' < 2 ^ 32 ->
  build k v = build k' v' -> k = k' /\ (has_value k = true -> v = v').
Proof. exact build_inj. Qed.

Theorem C18_tags_distinct_lt256 : NoDup all_tags /\ forallb (fun t => N.ltb t 256) all_tags = true.
Proof. split; [exact tags_nodup | exact tags_lt_256]. Qed.

(* each predicate is true exactly for its constructor(s); no non-calc value is mistaken for calc *)
Theorem C18_kind_exact : forall k v, v < 2 ^ 32 ->
  cl_is_length_or_percentage (build k v) = in_kinds k [KLength; KPercent] /\
  cl_is_auto (build k v) = in_kinds k [KAuto] /\
  cl_is_min_content (build k v) = in_kinds k [KMinContent] /\
  cl_is_max_content (build k v) = in_kinds k [KMaxContent] /\
  cl_is_fit_content (build k v) = in_kinds k [KFitPx; KFitPct] /\
  cl_is_max_or_fit_content (build k v) = in_kinds k [KMaxContent; KFitPx; KFitPct] /\
  cl_is_max_content_alike (build k v) = in_kinds k [KAuto; KMaxContent; KFitPx; KFitPct] /\
  cl_is_min_or_max_content (build k v) = in_kinds k [KMinContent; KMaxContent] /\
  cl_is_intrinsic (build k v) = in_kinds k [KAuto; KMinContent; KMaxContent; KFitPx; KFitPct] /\
  cl_is_fr (build k v) = in_kinds k [KFr] /\
  cl_uses_percentage (build k v) = in_kinds k [KPercent; KFitPct] /\
  cl_is_calc (build k v) = false.
Proof. exact kind_exact. Qed.

Theorem C18_is_zero : forall k v, v < 2 ^ 32 ->
  cl_is_zero (build k v) = (kind_eqb k KLength && N.eqb v 0)%bool.
Proof. exact is_zero_build. Qed.

(* calc handles: non-null 8-aligned pointers are accepted, recognised, returned intact, and never equal
   to -- or tagged like -- any non-calc value; everything else is rejected by the assertion *)
Theorem C18_calc_disjoint : forall p, 0 < p -> p < 2 ^ 64 -> p mod 8 = 0 ->
  exists w, cl_calc p = Some w /\ cl_is_calc w = true /\ cl_calc_value w = p /\ w < 2 ^ 64 /\
            ~ In (tag w) noncalc_tags /\ forall k v, v < 2 ^ 32 -> w <> build k v.
Proof.
  intros p H0 H1 H2. destruct (calc_ok p H0 H1 H2) as [w [Hc [Hi [Hv Hl]]]].
  exists w. repeat split; try assumption.
  - exact (calc_tag_not_a_tag p w Hc).
  - intros k v Hv'. exact (calc_disjoint p w k v Hc Hv').
Qed.

Theorem C18_calc_rejects : forall p, p = 0 \/ p mod 8 <> 0 -> cl_calc p = None.
Proof. exact calc_rejects. Qed.

Theorem C18_fit_content : forall v, v < 2 ^ 32 ->
  cl_fit_content (build KLength v) = Some (build KFitPx v) /\
  cl_fit_content (build KPercent v) = Some (build KFitPct v).
Proof. intros v Hv. split; [exact (fit_content_length v Hv) | exact (fit_content_percent v Hv)]. Qed.

(* non-vacuity: a NaN payload and -0.0 survive *)
Example C18_example_nan : value (build KPercent 0x7fc00001) = 0x7fc00001 /\ tag (build KFr 0x80000000) = FR_TAG.
Proof. vm_compute. split; reflexivity. Qed.

(* non-vacuity of the calc premises: an 8-aligned pointer with all 61 upper bits in use is accepted, comes back intact and
   carries none of the eight value tags; a pointer that is only 4-aligned is rejected *)
Example C18_example_calc :
  (0 < 0xfffffffffffffff8 /\ 0xfffffffffffffff8 < 2 ^ 64 /\ 0xfffffffffffffff8 mod 8 = 0) /\
  (exists w, cl_calc 0xfffffffffffffff8 = Some w /\ cl_is_calc w = true /\ cl_calc_value w = 0xfffffffffffffff8 /\
             ~ In (tag w) noncalc_tags) /\
  cl_calc 0x7ffc = None.
Proof.
  split; [vm_compute; repeat split; reflexivity|]. split; [|vm_compute; reflexivity].
  eexists. split; [vm_compute; reflexivity|]. split; [vm_compute; reflexivity|]. split; [vm_compute; reflexivity|].
  vm_compute. intuition discriminate.
Qed.

(* ---- last sentence of the property: resolution.  A length resolves to its number whatever the basis, a percentage to
   basis * fraction (to nothing without a basis), auto to nothing.  Stated for every number structure about
   Gen.MathGen.maybe_resolve_dim / maybe_resolve_lpa, regenerated on every run from the `MaybeResolve` impls of
   src/util/resolve.rs, which dispatch on the packed value's tag.  What is NOT a theorem: that the regenerated match on the
   abstract constructors Auto | Length v | Percent v is the Rust match on `self.0.tag()` / `self.0.value()` -- that step is the
   translator's constructor-to-tag naming plus the C19 correspondence, which resolves real packed styles bit for bit. *)
Theorem C18_resolution : forall (T : Type) (NT : Num.Num T) (v b : T) (basis : option T),
  maybe_resolve_dim (Length v) basis = Some v /\
  maybe_resolve_dim (Percent v) (Some b) = Some (Num.mul b v) /\ maybe_resolve_dim (Percent v) None = None /\
  maybe_resolve_dim (@Auto T) basis = None /\
  maybe_resolve_lpa (Length v) basis = Some v /\
  maybe_resolve_lpa (Percent v) (Some b) = Some (Num.mul b v) /\ maybe_resolve_lpa (Percent v) None = None /\
  maybe_resolve_lpa (@Auto T) basis = None.
Proof. intros. repeat split; reflexivity. Qed.

Print Assumptions C18_roundtrip.
Print Assumptions C18_no_truncation.
Print Assumptions C18_injective.
Print Assumptions C18_tags_distinct_lt256.
Print Assumptions C18_kind_exact.
Print Assumptions C18_is_zero.
Print Assumptions C18_calc_disjoint.
Print Assumptions C18_calc_rejects.
Print Assumptions C18_fit_content.
Print Assumptions C18_resolution.
