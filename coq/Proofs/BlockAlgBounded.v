(* The block resumption (Model/BlockAlg.v `block_alg`) addresses only existing children: every Query / SetLayout of
   content_width_alg, inflow_alg, abs_pass (for an absolute-item routine that addresses only the item's own node: AbsChildLocal,
   proved for the real abs_child_block in Proofs/BlockAbsLocal.v) and hidden_pass carries an index < number of children.
   This is the premise `Bounded` of Proofs/EngineTotal.v `memo_total`.  Any `Num`, any preprocessing `pre`; no arithmetic fact. *)
From Coq Require Import ZArith Bool List Arith Lia.
From TV Require Import Num.Num Gen.BlockGen Model.Block Model.Engine.
From TV Require Import Model.FiltersBase Gen.FiltersGen Model.ItemFilters Model.BlockAlg Model.BlockAbs.
From TV Require Import Proofs.BlockAlgBlind Proofs.BlockAbsLocal Proofs.EngineTotal.
Import ListNotations.
Close Scope Z_scope.

Section BlockBounded.
  Context {T : Type} `{Num T}.
  Notation BAlg := (Engine.Alg (BIn T) (ChildOut T) (BLayout T)).
  Notation Query := (Engine.Query (BIn T) (ChildOut T) (BLayout T)).
  Notation SetLayout := (Engine.SetLayout (BIn T) (ChildOut T) (BLayout T)).
  Notation Ret := (Engine.Ret (BIn T) (ChildOut T) (BLayout T)).
  Notation Bd := (EngineTotal.Bounded (BIn T) (ChildOut T) (BLayout T)).
  Notation is_absi a := (position_is_absolute (it_position (ai_item a))).
  Notation AItem := (@BlockAlg.AItem T).

  Variable n : nat.
  Notation NOK := (fun a : AItem => ai_node a < n).

  Lemma cw_bounded aw : forall items mx (k : T -> BAlg), Forall NOK items -> (forall m, Bd n (k m)) ->
    Bd n (content_width_alg aw items mx k).
  Proof.
    induction items as [|a rest IH]; intros mx k Hi Hk; cbn [content_width_alg]; [apply Hk|].
    inversion Hi as [|? ? Ha Hr]; subst.
    destruct (is_absi a); [apply IH; assumption|]. cbv zeta.
    destruct (s_w (sz_maybe_clamp (it_size (ai_item a)) (it_min_size (ai_item a)) (it_max_size (ai_item a)))); [apply IH; assumption|].
    constructor; [exact Ha|]. intros o. apply IH; assumption.
  Qed.

  Lemma inflow_bounded Pm : forall items st acc (k : State T -> list (AItem * ItemResult T) -> BAlg),
    Forall NOK items -> Forall NOK (map fst acc) ->
    (forall s ars, Forall NOK (map fst ars) -> Bd n (k s ars)) -> Bd n (inflow_alg Pm st items acc k).
  Proof.
    induction items as [|a rest IH]; intros st acc k Hi Hacc Hk; cbn [inflow_alg].
    - apply Hk. rewrite map_rev. apply Forall_rev. exact Hacc.
    - inversion Hi as [|? ? Ha Hr]; subst. destruct (is_absi a).
      + apply IH; [exact Hr| |exact Hk]. cbn [map fst]. constructor; assumption.
      + constructor; [exact Ha|]. intros co. constructor; [exact Ha|].
        apply IH; [exact Hr| |exact Hk]. cbn [map fst]. constructor; assumption.
  Qed.

  Lemma only_child_bounded c (K : BSize T -> BAlg) a : c < n -> (forall v, Bd n (K v)) -> OnlyChild c K a -> Bd n a.
  Proof.
    intros Hc HK. induction 1 as [v|i k Hk IH|l a Ha IH]; [apply HK|constructor; [exact Hc|exact IH]|constructor; [exact Hc|exact IH]].
  Qed.

  Lemma abs_bounded abs_child (Hloc : AbsChildLocal abs_child) st sz : forall ars content (k : BSize T -> BAlg),
    Forall NOK (map fst ars) -> (forall c, Bd n (k c)) -> Bd n (abs_pass abs_child st sz ars content k).
  Proof.
    induction ars as [|[a r] rest IH]; intros content k Hi Hk; cbn [abs_pass]; [apply Hk|].
    cbn [map fst] in Hi. inversion Hi as [|? ? Ha Hr]; subst.
    destruct (is_absi a); [|apply IH; assumption].
    eapply only_child_bounded; [exact Ha| |apply Hloc]. intros v. apply IH; assumption.
  Qed.

  Lemma hidden_bounded : forall flags order k, order + length flags <= n -> Bd n k -> Bd n (hidden_pass flags order k).
  Proof.
    induction flags as [|h r IH]; intros order k Hn Hk; cbn [hidden_pass]; [exact Hk|]. cbn [length] in Hn.
    destruct h; [|apply IH; [lia|exact Hk]].
    constructor; [lia|]. intros _. constructor; [lia|]. apply IH; [lia|exact Hk].
  Qed.
End BlockBounded.

Section BlockAlgBounded.
  Context {T : Type} `{Num T}.
  Notation Bd := (EngineTotal.Bounded (BIn T) (ChildOut T) (BLayout T)).

  Lemma alg_items_lt children nis : Forall (fun a : @BlockAlg.AItem T => ai_node a < length children) (block_alg_items children nis).
  Proof.
    apply Forall_forall. intros a Hin. destruct (alg_items_sound children nis a Hin) as (Hn & _).
    apply nth_error_Some. rewrite Hn. discriminate.
  Qed.

  Theorem block_alg_bounded pre abs_child (Hloc : AbsChildLocal abs_child) (st : BStyle T) children inp :
    Bd (length children) (block_alg pre abs_child st children inp).
  Proof.
    unfold block_alg, block_inner_alg. cbv zeta. set (i := pre st inp). clearbody i.
    set (items := block_alg_items children _). assert (Hit : Forall (fun a => ai_node a < length children) items) by apply alg_items_lt.
    clearbody items.
    assert (Hmain : forall w P0 (k : State T -> list (BlockAlg.AItem * ItemResult T) -> Engine.Alg (BIn T) (ChildOut T) (BLayout T)),
              (forall s ars, Forall (fun a => ai_node a < length children) (map fst ars) -> Bd (length children) (k s ars)) ->
              Bd (length children)
                 (match is_compute_size (bi_mode i), s_h (bi_known i) with
                  | true, Some h => Engine.Ret _ _ _ (from_outer_size (mkSize w h))
                  | _, _ => inflow_alg P0 (init_state P0) items [] k
                  end)).
    { intros w P0 k Hk.
      assert (Hin : Bd (length children) (inflow_alg P0 (init_state P0) items [] k)) by (apply inflow_bounded; [exact Hit|constructor|exact Hk]).
      destruct (is_compute_size (bi_mode i)); [destruct (s_h (bi_known i)); [constructor|]|]; exact Hin. }
    destruct (s_w (bi_known i)).
    - apply Hmain. intros s ars Hars.
      destruct (is_compute_size (bi_mode i)); [constructor|].
      apply abs_bounded; [exact Hloc|exact Hars|]. intros c. apply hidden_bounded; [rewrite map_length; lia|constructor].
    - apply cw_bounded; [exact Hit|]. intros m. apply Hmain. intros s ars Hars.
      destruct (is_compute_size (bi_mode i)); [constructor|].
      apply abs_bounded; [exact Hloc|exact Hars|]. intros c. apply hidden_bounded; [rewrite map_length; lia|constructor].
  Qed.

  Corollary real_block_alg_bounded pre (st : BStyle T) children inp :
    Bd (length children) (block_alg pre abs_child_block st children inp).
  Proof. apply block_alg_bounded. apply abs_child_block_local. Qed.
End BlockAlgBounded.
