(* C02 -- cache lookups only return results stored for compatible inputs.
   Statements only; every proof is `exact <lemma>` (or a two-line glue).  The definitions the statements are about:
   Model/Cache.v (get / store / clear / is_empty / compat / roughly, hand-transcribed from src/tree/cache.rs and tied by
   the correspondence check) and Gen/CacheGen.v (slot, CACHE_SIZE: regenerated from compute_cache_slot on every run).
   `run ops` is the state reached from Cache::new() by the history `ops` of get / store / clear calls.
   All theorems but the two `_XQ` / `_F32` pairs hold for every instance of the number structure. *)
From Coq Require Import NArith Bool List QArith.
From Flocq Require IEEE754.BinarySingleNaN.
From TV Require Import Num.Num Num.QNum Num.F32 Gen.CacheGen Model.Cache Proofs.CacheProofs Proofs.CacheF32.
From TV Require Import Gen.CacheBodyGen Proofs.CacheBodyProofs.
From TV Require Model.Engine Model.EngineReal Proofs.EngineReal.
Import ListNotations.

Section AnyNum.
  Context {T : Type} `{Num T}.

  (* First sentence of the property.  A hit is never a hidden-layout lookup, and it returns (the size of) a result that
     some `store` of the SAME run mode put there under a key `ek` after the last clear, such that `ek` passes the lookup
     predicate against the query -- whose meaning is spelled out by C02_compat_meaning. *)
  Theorem C02_get_sound : forall (ops : list (op T)) k m o, get (run ops) k m = Some o ->
    m <> PerformHiddenLayout /\
    exists ek so, stored_live ops ek m so /\ compat k ek (o_size so) = true /\ o = out_of m so.
  Proof. exact get_sound. Qed.

  (* per axis: same known dimension, or the queried known dimension equals the stored size on that axis; and on an axis
     with no queried known dimension the available-space constraints are roughly equal *)
  Theorem C02_compat_meaning : forall (k ek : key T) (cs : size T),
    compat k ek cs = true <->
      (opt_eqb (kd_w k) (kd_w ek) = true \/ opt_eqb (kd_w k) (Some (width cs)) = true) /\
      (opt_eqb (kd_h k) (kd_h ek) = true \/ opt_eqb (kd_h k) (Some (height cs)) = true) /\
      (kd_w k = None -> is_roughly_equal (av_w ek) (av_w k) = true) /\
      (kd_h k = None -> is_roughly_equal (av_h ek) (av_h k) = true).
  Proof. exact compat_meaning. Qed.

  (* every entry present in a reachable state was written by a store with exactly that key and mode that no clear
     followed; measure entries sit in the slot of their key *)
  Theorem C02_entries_from_stores : forall ops : list (op T),
    (forall e, final (run ops) = Some e -> stored_live ops (e_key e) PerformLayout (e_content e)) /\
    (forall i e, nth_error (meas (run ops)) i = Some (Some e) ->
       i = N.to_nat (slot_of_key (e_key e)) /\
       exists o, stored_live ops (e_key e) ComputeSize o /\ o_size o = e_content e).
  Proof. exact entries_from_stores. Qed.

  (* after clear() every lookup misses and the cache reports empty (structurally and by its flag) *)
  Theorem C02_clear : forall ops : list (op T),
    (forall k m, get (fst (clear (run ops))) k m = None) /\
    is_empty (fst (clear (run ops))) = true /\ is_empty_flag (fst (clear (run ops))) = true.
  Proof. exact clear_spec. Qed.

  (* the private flag agrees with the entries in every reachable state; hence with the public is_empty(), and
     clear() reports AlreadyEmpty exactly on an empty cache *)
  Theorem C02_flag_exact : forall ops : list (op T),
    (is_empty_flag (run ops) = true <-> final (run ops) = None /\ Forall (fun e => e = None) (meas (run ops))) /\
    is_empty_flag (run ops) = is_empty (run ops) /\
    (snd (clear (run ops)) = AlreadyEmpty <-> is_empty (run ops) = true) /\
    length (meas (run ops)) = 9%nat.
  Proof.
    intro ops. split; [exact (flag_exact ops)|]. split; [exact (flag_is_empty ops)|].
    split; [exact (clear_state_exact ops) | exact (proj1 (inv_run ops))].
  Qed.

  (* a lookup under the key of a result just stored hits, for every key that matches itself (see refl_key below) *)
  Theorem C02_store_hit : forall (ops : list (op T)) k m o, self_compat k -> m <> PerformHiddenLayout ->
    get (store (run ops) k m o) k m <> None.
  Proof. exact store_hit. Qed.

  (* ... and keeps hitting until a clear, a later PerformLayout store (final layouts) or a later ComputeSize store that
     maps to the same slot (measurements) *)
  Theorem C02_hit_persists : forall (ops : list (op T)) k m o ops', self_compat k -> m <> PerformHiddenLayout ->
    Forall (no_displace k m) ops' -> get (run (ops ++ OStore k m o :: ops')) k m <> None.
  Proof. exact hit_persists. Qed.

  Theorem C02_hidden_never_cached : forall (c : cache T) k o,
    store c k PerformHiddenLayout o = c /\ get c k PerformHiddenLayout = None.
  Proof. exact hidden_never_cached. Qed.
  (* ---- the TRANSLATED cache.  Gen/CacheBodyGen.v is regenerated on every run from the BODIES of Cache::new / get / store /
     clear / is_empty (src/tree/cache.rs) and AvailableSpace::is_roughly_equal (src/style/available_space.rs), statement by
     statement (translator/gen_cachebody.py; it refuses unknown forms).  The translated functions are extensionally the
     hand-written model the theorems above are about -- so those theorems are about the code as translated, and a change of
     a Rust body that changes its translation breaks these proofs. *)
  Theorem C02_translated_is_roughly_equal_is_model : forall a b : avail T, gen_is_roughly_equal a b = is_roughly_equal a b.
  Proof. exact gen_is_roughly_equal_eq. Qed.

  Theorem C02_translated_get_is_model : forall (c : cache T) k m, gen_get c k m = get c k m.
  Proof. exact gen_get_eq. Qed.

  Theorem C02_translated_store_is_model : forall (c : cache T) k m o, gen_store c k m o = store c k m o.
  Proof. exact gen_store_eq. Qed.

  Theorem C02_translated_clear_is_model : forall c : cache T, gen_clear c = clear c.
  Proof. exact gen_clear_eq. Qed.

  Theorem C02_translated_new_is_empty_is_model : gen_new = (new : cache T) /\ forall c : cache T, gen_is_empty c = is_empty c.
  Proof. split; [exact gen_new_eq | exact gen_is_empty_eq]. Qed.

  (* C02_get_sound restated about the translated functions only: `gen_run ops` folds gen_store / gen_clear from gen_new, the
     lookup is gen_get, and the compatibility condition is the translated boolean expression of Cache::get itself *)
  Theorem C02_translated_get_sound : forall (ops : list (op T)) k m o, gen_get (gen_run ops) k m = Some o ->
    m <> PerformHiddenLayout /\
    exists ek so, stored_live ops ek m so /\
      ((opt_eqb (kd_w k) (kd_w ek) || opt_eqb (kd_w k) (Some (width (o_size so))))
       && (opt_eqb (kd_h k) (kd_h ek) || opt_eqb (kd_h k) (Some (height (o_size so))))
       && (is_some (kd_w k) || gen_is_roughly_equal (av_w ek) (av_w k))
       && (is_some (kd_h k) || gen_is_roughly_equal (av_h ek) (av_h k)))%bool = true /\
      o = out_of m so.
  Proof. exact gen_get_sound. Qed.

  (* ... and C02_clear: after the translated clear() every translated lookup misses and the translated is_empty() holds *)
  Theorem C02_translated_clear : forall ops : list (op T),
    (forall k m, gen_get (fst (gen_clear (gen_run ops))) k m = None) /\
    gen_is_empty (fst (gen_clear (gen_run ops))) = true.
  Proof. exact gen_clear_spec. Qed.
End AnyNum.

(* `self_compat` holds when the known dimensions are not NaN and, on every axis without known dimension, a definite
   available space is finite: exact instance ... *)
Theorem C02_refl_key_XQ : forall k : key XQ, refl_key (fun x => x <> XNaN) finite k -> self_compat k.
Proof. exact xq_refl_key. Qed.

(* ... and binary32 (x == x unless NaN; x - x = +-0 for finite x) *)
Theorem C02_refl_key_F32 : forall k : key f32,
  refl_key (fun x => f_is_nan x = false) (fun x => BinarySingleNaN.is_finite x = true) k -> self_compat k.
Proof. exact f32_refl_key. Qed.

Theorem C02_store_hit_F32 : forall (ops : list (op f32)) k m o,
  refl_key (fun x => f_is_nan x = false) (fun x => BinarySingleNaN.is_finite x = true) k -> m <> PerformHiddenLayout ->
  get (store (run ops) k m o) k m <> None.
Proof. intros ops k m o R. apply store_hit. exact (f32_refl_key k R). Qed.

Theorem C02_hit_persists_F32 : forall (ops : list (op f32)) k m o ops',
  refl_key (fun x => f_is_nan x = false) (fun x => BinarySingleNaN.is_finite x = true) k -> m <> PerformHiddenLayout ->
  Forall (no_displace k m) ops' -> get (run (ops ++ OStore k m o :: ops')) k m <> None.
Proof. intros ops k m o ops' R. apply hit_persists. exact (f32_refl_key k R). Qed.

(* slot table regenerated from compute_cache_slot: in range, and its fibres are exactly the nine documented classes *)
Theorem C02_slot_lt_9 : forall hw hh aw ah, (slot hw hh aw ah < CACHE_SIZE)%N /\ CACHE_SIZE = 9%N.
Proof. intros. split; [apply slot_lt_9 | reflexivity]. Qed.

Theorem C02_slot_separates : forall hw hh aw ah hw' hh' aw' ah',
  (slot hw hh aw ah = slot hw' hh' aw' ah' <-> class_of hw hh aw ah = class_of hw' hh' aw' ah') /\
  slot hw hh aw ah = class_index (class_of hw hh aw ah) /\
  (forall c, exists hw hh aw ah, class_of hw hh aw ah = c).
Proof.
  intros. split; [apply slot_separates|]. split; [apply slot_is_class_index | exact classes_inhabited].
Qed.

(* ---- non-vacuity *)
Open Scope Q_scope.
Definition ex_size : size XQ := {| width := Fin 10; height := Fin 20 |}.
Definition ex_out (p : N) : output XQ := {| o_size := ex_size; o_payload := p |}.
Definition k_wmin : key XQ := {| kd_w := Some (Fin 1); kd_h := None; av_w := MaxContent; av_h := MinContent |}.
Definition k_wmax : key XQ := {| kd_w := Some (Fin 1); kd_h := None; av_w := MaxContent; av_h := MaxContent |}.

(* a 4-op history: width-known/min-content and width-known/max-content land in slots 2 and 1, both stay retrievable;
   a third store into slot 2 displaces the first *)
Example C02_example_history :
  slot_of_key k_wmin = 2%N /\ slot_of_key k_wmax = 1%N /\
  let ops := [OStore k_wmin ComputeSize (ex_out 1); OStore k_wmax ComputeSize (ex_out 2); OGet k_wmin ComputeSize; OClear] in
  get (run (firstn 2 ops)) k_wmin ComputeSize = Some (from_outer_size ex_size) /\
  get (run (firstn 2 ops)) k_wmax ComputeSize = Some (from_outer_size ex_size) /\
  get (run (firstn 2 ops)) k_wmax PerformLayout = None /\
  is_empty (run (firstn 2 ops)) = false /\
  get (run ops) k_wmin ComputeSize = None /\ is_empty (run ops) = true.
Proof. vm_compute. repeat split; reflexivity. Qed.

(* the translated functions run: the history of C02_example_history through gen_store / gen_get / gen_clear / gen_is_empty
   (premise of C02_translated_get_sound satisfied with a hit in each cached mode, and a miss after the displacing store) *)
Example C02_example_translated_history :
  let ops := [OStore k_wmin ComputeSize (ex_out 1); OStore k_wmax ComputeSize (ex_out 2); OStore k_wmin PerformLayout (ex_out 3)] in
  gen_get (gen_run ops) k_wmin ComputeSize = Some (from_outer_size ex_size) /\
  gen_get (gen_run ops) k_wmin PerformLayout = Some (ex_out 3) /\
  gen_get (gen_run ops) k_wmax PerformLayout = None /\
  gen_get (gen_run ops) k_wmin PerformHiddenLayout = None /\
  gen_is_empty (gen_run ops) = false /\ snd (gen_clear (gen_run ops)) = Cleared /\
  gen_is_empty (fst (gen_clear (gen_run ops))) = true /\ snd (gen_clear (@gen_new XQ)) = AlreadyEmpty /\
  gen_is_roughly_equal (Definite (Fin 1)) (Definite (Fin (1 + (1 # 16777216)))) = true /\
  gen_is_roughly_equal (Definite (Fin 1)) (Definite (Fin (1 + (1 # 8388608)))) = false.
Proof. vm_compute. repeat split; reflexivity. Qed.

(* refl_key is satisfiable, and its premises are needed: a NaN known dimension or an infinite definite available space
   does not even match itself *)
Example C02_example_refl_key :
  refl_key (fun x => x <> XNaN) finite k_wmin /\
  (let k := {| kd_w := Some XNaN; kd_h := None; av_w := MaxContent; av_h := MaxContent |} in
   get (store (@new XQ) k PerformLayout (ex_out 1)) k PerformLayout = None) /\
  (let k := {| kd_w := None; kd_h := None; av_w := Definite PInf; av_h := MaxContent |} in
   get (store (@new XQ) k PerformLayout (ex_out 1)) k PerformLayout = None).
Proof.
  split; [|split; vm_compute; reflexivity].
  unfold refl_key, k_wmin; simpl. repeat split; intros; try discriminate.
  injection H as <-. discriminate.
Qed.

(* the premises of C02_hit_persists on a non-trivial tail: after the store under k_wmin (slot 2), a measurement store into
   slot 1, a lookup, a FINAL-layout store under the very same key and a hidden-mode store displace nothing; a measurement
   store into slot 2 or a clear would (no_displace is then False) *)
Example C02_example_hit_persists_premises :
  self_compat k_wmin /\ ComputeSize <> PerformHiddenLayout /\
  Forall (no_displace k_wmin ComputeSize)
         [OStore k_wmax ComputeSize (ex_out 2); OGet k_wmax ComputeSize; OStore k_wmin PerformLayout (ex_out 3);
          OStore k_wmin PerformHiddenLayout (ex_out 4)] /\
  ~ no_displace k_wmin ComputeSize (OStore k_wmin ComputeSize (ex_out 5)) /\ ~ no_displace k_wmin ComputeSize (@OClear XQ).
Proof.
  split; [apply C02_refl_key_XQ; unfold refl_key, k_wmin; simpl; repeat split; intros; try discriminate;
          injection H as <-; discriminate|].
  split; [discriminate|]. split; [repeat constructor; vm_compute; discriminate|].
  split; [intro H; apply H; reflexivity | intro H; exact H].
Qed.

(* a different known dimension is accepted exactly when it equals the stored size on that axis *)
Example C02_example_known_equals_size :
  let c := store (@new XQ) k_wmax ComputeSize (ex_out 1) in
  get c {| kd_w := Some (Fin 10); kd_h := None; av_w := MinContent; av_h := MaxContent |} ComputeSize <> None /\
  get c {| kd_w := Some (Fin 11); kd_h := None; av_w := MinContent; av_h := MaxContent |} ComputeSize = None /\
  get c {| kd_w := Some (Fin 1); kd_h := None; av_w := MinContent; av_h := MinContent |} ComputeSize = None.
Proof. vm_compute. repeat split; discriminate. Qed.

(* binary32: 1 and 1 + 2^-23 are exactly EPSILON apart, hence not roughly equal; 0.5 and 0.5 + 2^-24 are *)
Example C02_example_epsilon_F32 :
  roughly (f_of_bits 0x3f800000) (f_of_bits 0x3f800001) = false /\
  roughly (f_of_bits 0x3f000000) (f_of_bits 0x3f000001) = true /\
  roughly (f_of_bits 0x7f800000) (f_of_bits 0x7f800000) = false.
Proof. vm_compute. repeat split; reflexivity. Qed.

(* The cache the ENGINE model runs with (wave 6c: Model/EngineReal.v `rcache`, the cache of `memo_real`, which the whole-tree
   correspondence `vh blocktree cases .. real` compares with TaffyTree::compute_layout_with_measure without the exact-key hook, layouts
   and query / hit / measure counts) IS this file's cache: its entries carry the complete LayoutInput / LayoutOutput they were stored
   with as ghost state; erasing the ghost state (`erase`: keep (known_dimensions, available_space) = `key_of` of the input and the size
   + an opaque payload `pl` of the output) commutes with get / store / clear / is_empty of Model/Cache.v, for every projection
   `key_of`, every run mode of the input, provided from_outer_size keeps the size and has the default payload 0.  So the theorems
   above speak about the cache inside the engine. *)
Theorem C02_engine_cache_is_this_cache :
  forall (T : Type) (NT : Num T) (In Out : Type) (mode : In -> TV.Model.Engine.RunMode) (key_of : In -> key T)
         (osize : Out -> size T) (from_outer : size T -> Out) (pl : Out -> N),
    (forall s, osize (from_outer s) = s) -> (forall s, pl (from_outer s) = 0%N) ->
    forall (c : TV.Model.EngineReal.rcache In Out) (i : In) (o : Out),
      let E := TV.Model.EngineReal.erase In Out key_of osize pl in
      let m := TV.Model.EngineReal.cmode (mode i) in
      option_map (TV.Model.EngineReal.eout Out osize pl) (TV.Model.EngineReal.rget In Out mode key_of osize from_outer c i)
        = get (E c) (key_of i) m /\
      E (TV.Model.EngineReal.rstore In Out mode key_of c i o) = store (E c) (key_of i) m (TV.Model.EngineReal.eout Out osize pl o) /\
      E (TV.Model.EngineReal.rclear In Out c) = fst (clear (E c)) /\
      TV.Model.EngineReal.rdirty In Out c = is_empty (E c) /\
      E (TV.Model.EngineReal.rnew In Out) = new.
Proof.
  intros T NT In Out mode key_of osize from_outer pl H1 H2 c i o. cbv zeta.
  split; [apply TV.Proofs.EngineReal.real_get_erase; assumption|].
  split; [apply TV.Proofs.EngineReal.real_store_erase|].
  split; [apply TV.Proofs.EngineReal.real_clear_erase|].
  split; [apply TV.Proofs.EngineReal.real_dirty_erase|reflexivity].
Qed.

Print Assumptions C02_get_sound.
Print Assumptions C02_compat_meaning.
Print Assumptions C02_entries_from_stores.
Print Assumptions C02_clear.
Print Assumptions C02_flag_exact.
Print Assumptions C02_store_hit.
Print Assumptions C02_hit_persists.
Print Assumptions C02_hidden_never_cached.
Print Assumptions C02_refl_key_XQ.
Print Assumptions C02_refl_key_F32.
Print Assumptions C02_store_hit_F32.
Print Assumptions C02_hit_persists_F32.
Print Assumptions C02_slot_lt_9.
Print Assumptions C02_slot_separates.
Print Assumptions C02_engine_cache_is_this_cache.
Print Assumptions C02_translated_is_roughly_equal_is_model.
Print Assumptions C02_translated_get_is_model.
Print Assumptions C02_translated_store_is_model.
Print Assumptions C02_translated_clear_is_model.
Print Assumptions C02_translated_new_is_empty_is_model.
Print Assumptions C02_translated_get_sound.
Print Assumptions C02_translated_clear.
