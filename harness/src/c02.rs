//! C02: node cache (src/tree/cache.rs) through its public API: Cache::new / get / store / clear / is_empty.
//!
//! A case is a sequence of operations on one fresh `Cache`, flattened to integers (f32 = bit pattern):
//!   get    0 KEY MODE                (10 ints)
//!   store  1 KEY MODE sw sh payload  (13 ints)   sw/sh = stored size bits, payload = id carried by the other fields
//!   clear  2                         ( 1 int)
//!   KEY  = kwf kwb khf khb awk awb ahk ahb   (kd flag 0/1 + bits; available space kind 0 MinContent 1 MaxContent 2 Definite + bits)
//!   MODE = 0 PerformLayout, 1 ComputeSize, 2 PerformHiddenLayout
//! Result line: per op  get -> hit wbits hbits payload (0 0 0 0 on a miss);  store -> is_empty() after;
//!                      clear -> 1 if ClearState::Cleared else 0, is_empty() after.
//! The payload of a store is written into `first_baselines.y` and `content_size`, so that a returned LayoutOutput is
//! identifiable; a ComputeSize hit is `LayoutOutput::from_outer_size(size)`, which reads back as payload 0.
//!
//! `cases`      fixed corpus + random sequences;  `exhaustive <level>` all sequences of length <= 2 over a small sub-domain;
//! `oracle`     the property stated directly on the implementation with an independent shadow list of stores (FAIL lines);
//! `one <ints>` one case: C/R lines plus the oracle on exactly that sequence.
use crate::rng::Rng;
use taffy::geometry::{Point, Size};
use taffy::tree::ClearState;
use taffy::{AvailableSpace, Cache, LayoutOutput, RunMode};

const NAN: u32 = 0x7fc0_0000;
/// 0, 0.5, 0.5+2^-24 (roughly equal to 0.5), 0.5+2^-23 (exactly EPSILON above 0.5), 1, 1+2^-23 (exactly EPSILON above 1:
/// not roughly equal), 100, -0.0, 2^-24 (roughly equal to 0, not == 0), +inf, NaN; neighbouring floats of larger magnitude
/// (100 / 100+2^-17, 1000 / 1000+2^-14, 1e6 / 1e6+2^-4: one ulp apart is far more than EPSILON there, so never roughly equal)
const VALS: [u32; 16] = [
    0, 0x3f00_0000, 0x3f00_0001, 0x3f00_0002, 0x3f80_0000, 0x3f80_0001, 0x42c8_0000, 0x8000_0000, 0x3380_0000, 0x7f80_0000, NAN,
    0x42c8_0001, 0x447a_0000, 0x447a_0001, 0x4974_2400, 0x4974_2401,
];
/// pairs one ulp apart
const NEIGHBOURS: [(u32, u32); 5] =
    [(0x3f80_0000, 0x3f80_0001), (0x42c8_0000, 0x42c8_0001), (0x447a_0000, 0x447a_0001), (0x4974_2400, 0x4974_2401), (0x3f00_0000, 0x3f00_0001)];
const BAD_PAYLOAD: u64 = 0xffff_ffff;

#[derive(Clone, Copy, PartialEq, Eq, Debug)]
pub struct Key {
    kw: Option<u32>,
    kh: Option<u32>,
    aw: (u64, u32),
    ah: (u64, u32),
}

#[derive(Clone, Copy, PartialEq, Eq, Debug)]
pub enum Op {
    Get(Key, u64),
    Store(Key, u64, u32, u32, u64),
    Clear,
}

fn canon(b: u32) -> u32 {
    if f32::from_bits(b).is_nan() {
        NAN
    } else {
        b
    }
}
fn f(b: u32) -> f32 {
    f32::from_bits(b)
}
fn avail(a: (u64, u32)) -> AvailableSpace {
    match a.0 {
        0 => AvailableSpace::MinContent,
        1 => AvailableSpace::MaxContent,
        _ => AvailableSpace::Definite(f(a.1)),
    }
}
fn mode(m: u64) -> RunMode {
    match m {
        0 => RunMode::PerformLayout,
        1 => RunMode::ComputeSize,
        _ => RunMode::PerformHiddenLayout,
    }
}
impl Key {
    fn kd(&self) -> Size<Option<f32>> {
        Size { width: self.kw.map(f), height: self.kh.map(f) }
    }
    fn av(&self) -> Size<AvailableSpace> {
        Size { width: avail(self.aw), height: avail(self.ah) }
    }
    fn ints(&self, out: &mut Vec<u64>) {
        out.push(self.kw.is_some() as u64);
        out.push(self.kw.unwrap_or(0) as u64);
        out.push(self.kh.is_some() as u64);
        out.push(self.kh.unwrap_or(0) as u64);
        out.push(self.aw.0);
        out.push(if self.aw.0 == 2 { self.aw.1 as u64 } else { 0 });
        out.push(self.ah.0);
        out.push(if self.ah.0 == 2 { self.ah.1 as u64 } else { 0 });
    }
}

pub fn encode(ops: &[Op]) -> Vec<u64> {
    let mut v = vec![];
    for op in ops {
        match op {
            Op::Get(k, m) => {
                v.push(0);
                k.ints(&mut v);
                v.push(*m);
            }
            Op::Store(k, m, w, h, p) => {
                v.push(1);
                k.ints(&mut v);
                v.push(*m);
                v.push(*w as u64);
                v.push(*h as u64);
                v.push(*p);
            }
            Op::Clear => v.push(2),
        }
    }
    v
}

pub fn decode(v: &[u64]) -> Vec<Op> {
    fn key(v: &[u64]) -> Key {
        Key {
            kw: if v[0] != 0 { Some(canon(v[1] as u32)) } else { None },
            kh: if v[2] != 0 { Some(canon(v[3] as u32)) } else { None },
            aw: (v[4].min(2), if v[4] >= 2 { canon(v[5] as u32) } else { 0 }),
            ah: (v[6].min(2), if v[6] >= 2 { canon(v[7] as u32) } else { 0 }),
        }
    }
    let mut ops = vec![];
    let mut i = 0;
    while i < v.len() {
        match v[i] {
            0 if i + 10 <= v.len() => {
                ops.push(Op::Get(key(&v[i + 1..]), v[i + 9].min(2)));
                i += 10;
            }
            1 if i + 13 <= v.len() => {
                ops.push(Op::Store(key(&v[i + 1..]), v[i + 9].min(2), canon(v[i + 10] as u32), canon(v[i + 11] as u32), v[i + 12]));
                i += 13;
            }
            2 => {
                ops.push(Op::Clear);
                i += 1;
            }
            _ => panic!("c02: malformed case"),
        }
    }
    ops
}

fn output(w: u32, h: u32, payload: u64) -> LayoutOutput {
    let p = payload as f32;
    LayoutOutput::from_sizes_and_baselines(Size { width: f(w), height: f(h) }, Size { width: p, height: p + 0.5 }, Point { x: None, y: Some(p) })
}

/// payload id of a returned LayoutOutput (0 = exactly what from_outer_size builds); BAD_PAYLOAD when the fields disagree
fn payload_of(o: &LayoutOutput) -> u64 {
    let pristine = LayoutOutput::from_outer_size(o.size);
    if o.first_baselines.x.is_none()
        && o.first_baselines.y.is_none()
        && o.content_size.width.to_bits() == pristine.content_size.width.to_bits()
        && o.content_size.height.to_bits() == pristine.content_size.height.to_bits()
        && o.top_margin == pristine.top_margin
        && o.bottom_margin == pristine.bottom_margin
        && !o.margins_can_collapse_through
    {
        return 0;
    }
    match o.first_baselines.y {
        Some(p)
            if p >= 1.0
                && o.first_baselines.x.is_none()
                && o.content_size.width == p
                && o.content_size.height == p + 0.5
                && o.top_margin == pristine.top_margin
                && o.bottom_margin == pristine.bottom_margin
                && !o.margins_can_collapse_through =>
        {
            p as u64
        }
        _ => BAD_PAYLOAD,
    }
}

struct GetRes {
    hit: bool,
    w: u32,
    h: u32,
    payload: u64,
}

fn do_get(c: &Cache, k: &Key, m: u64) -> GetRes {
    match c.get(k.kd(), k.av(), mode(m)) {
        Some(o) => GetRes { hit: true, w: canon(o.size.width.to_bits()), h: canon(o.size.height.to_bits()), payload: payload_of(&o) },
        None => GetRes { hit: false, w: 0, h: 0, payload: 0 },
    }
}

fn do_clear(c: &mut Cache) -> bool {
    matches!(c.clear(), ClearState::Cleared)
}

/// run the ops on a fresh real Cache; the observable results as integers
pub fn run_impl(ops: &[Op]) -> Vec<u64> {
    let mut c = Cache::new();
    let mut r = vec![];
    for op in ops {
        match op {
            Op::Get(k, m) => {
                let g = do_get(&c, k, *m);
                r.extend([g.hit as u64, g.w as u64, g.h as u64, g.payload]);
            }
            Op::Store(k, m, w, h, p) => {
                c.store(k.kd(), k.av(), mode(*m), output(*w, *h, *p));
                r.push(c.is_empty() as u64);
            }
            Op::Clear => {
                let st = do_clear(&mut c);
                r.push(st as u64);
                r.push(c.is_empty() as u64);
            }
        }
    }
    r
}

fn line(xs: &[u64]) -> String {
    xs.iter().map(|x| x.to_string()).collect::<Vec<_>>().join(" ")
}

fn print_case(ops: &[Op]) {
    println!("C {}\nR {}", line(&encode(ops)), line(&run_impl(ops)));
}

// ------------------------------------------------------------------------------------------------ generator

struct Gen {
    pool: Vec<u32>,
    next_payload: u64,
    stored: Vec<(Key, u64, u32, u32)>,
}

impl Gen {
    fn new(rng: &mut Rng) -> Gen {
        // most sequences draw from a small pool so that keys collide; the rest from the whole domain
        let pool = match rng.below(5) {
            4 => {
                let (a, b) = *rng.pick(&NEIGHBOURS);
                vec![a, b]
            }
            0 => VALS.to_vec(),
            1 => vec![*rng.pick(&VALS), *rng.pick(&VALS)],
            2 => vec![0x3f00_0000, 0x3f00_0001, 0x3f00_0002, *rng.pick(&VALS)],
            _ => vec![*rng.pick(&VALS), *rng.pick(&VALS), *rng.pick(&VALS), 0x3f80_0000],
        };
        Gen { pool, next_payload: 1, stored: vec![] }
    }
    fn val(&self, rng: &mut Rng) -> u32 {
        *rng.pick(&self.pool)
    }
    fn kd(&self, rng: &mut Rng) -> Option<u32> {
        if rng.chance(2, 5) {
            None
        } else {
            Some(self.val(rng))
        }
    }
    fn av(&self, rng: &mut Rng) -> (u64, u32) {
        match rng.below(4) {
            0 => (0, 0),
            1 => (1, 0),
            _ => (2, self.val(rng)),
        }
    }
    fn key(&self, rng: &mut Rng) -> Key {
        Key { kw: self.kd(rng), kh: self.kd(rng), aw: self.av(rng), ah: self.av(rng) }
    }
    fn mode(&self, rng: &mut Rng) -> u64 {
        match rng.below(10) {
            0..=3 => 0,
            4..=8 => 1,
            _ => 2,
        }
    }
    fn op(&mut self, rng: &mut Rng) -> Op {
        match rng.below(20) {
            0..=8 => {
                let k = self.key(rng);
                let m = self.mode(rng);
                let (w, h) = (self.val(rng), self.val(rng));
                let p = self.next_payload;
                self.next_payload += 1;
                self.stored.push((k, m, w, h));
                Op::Store(k, m, w, h, p)
            }
            9..=17 => {
                if !self.stored.is_empty() && rng.chance(3, 4) {
                    // a stored key, possibly perturbed in one place (other known dimension, the cached size as known
                    // dimension, another available space, another mode)
                    let (mut k, mut m, w, h) = *rng.pick(&self.stored);
                    match rng.below(9) {
                        0 => k.kw = self.kd(rng),
                        1 => k.kh = self.kd(rng),
                        2 => k.kw = Some(w),
                        3 => k.kh = Some(h),
                        4 => k.aw = self.av(rng),
                        5 => k.ah = self.av(rng),
                        6 => m = self.mode(rng),
                        _ => {}
                    }
                    Op::Get(k, m)
                } else {
                    Op::Get(self.key(rng), self.mode(rng))
                }
            }
            _ => Op::Clear,
        }
    }
}

pub fn sequence(rng: &mut Rng, max_len: u64) -> Vec<Op> {
    let mut g = Gen::new(rng);
    let n = 1 + rng.below(max_len);
    (0..n).map(|_| g.op(rng)).collect()
}

fn corpus() -> Vec<Vec<Op>> {
    let one = 0x3f80_0000u32;
    let k = |kw, kh, aw, ah| Key { kw, kh, aw, ah };
    let wmin = k(Some(one), None, (1, 0), (0, 0)); // slot 2
    let wmax = k(Some(one), None, (1, 0), (1, 0)); // slot 1
    let eps = k(None, None, (2, one), (2, 0x3f80_0001));
    let nan = k(Some(NAN), None, (2, 0x7f80_0000), (2, NAN));
    vec![
        vec![],
        vec![Op::Clear, Op::Get(wmin, 1)],
        // width-known/min-content vs width-known/max-content land in different slots: both stay retrievable
        vec![Op::Store(wmin, 1, one, one, 1), Op::Store(wmax, 1, 0x42c8_0000, one, 2), Op::Get(wmin, 1), Op::Get(wmax, 1)],
        // exactly EPSILON apart is not roughly equal; 1 vs 1 is
        vec![Op::Store(eps, 0, one, one, 1), Op::Get(k(None, None, (2, one), (2, one)), 0), Op::Get(eps, 0), Op::Get(k(None, None, (2, 0x3f80_0001), (2, 0x3f80_0001)), 0)],
        // one ulp apart at magnitude 1000 (2^-14) and 100 (2^-17) is far more than EPSILON: not roughly equal, either way round
        vec![
            Op::Store(k(None, None, (2, 0x447a_0000), (1, 0)), 0, one, one, 1),
            Op::Get(k(None, None, (2, 0x447a_0001), (1, 0)), 0),
            Op::Store(k(None, None, (0, 0), (2, 0x42c8_0001)), 1, one, one, 2),
            Op::Get(k(None, None, (0, 0), (2, 0x42c8_0000)), 1),
            Op::Get(k(None, None, (0, 0), (2, 0x42c8_0001)), 1),
        ],
        // NaN known dimension / infinite available space: the key does not even match itself
        vec![Op::Store(nan, 0, one, one, 1), Op::Get(nan, 0), Op::Store(nan, 1, one, one, 2), Op::Get(nan, 1), Op::Clear, Op::Clear],
        // hidden layouts are never cached
        vec![Op::Store(wmin, 2, one, one, 1), Op::Get(wmin, 2), Op::Get(wmin, 0), Op::Get(wmin, 1), Op::Clear],
        // known dimension equal to the cached size
        vec![Op::Store(k(None, None, (1, 0), (1, 0)), 1, 0x42c8_0000, 0, 1), Op::Get(k(Some(0x42c8_0000), Some(0x8000_0000), (0, 0), (0, 0)), 1)],
    ]
}

/// all operations over the sub-domain of the given level (payloads are assigned per position by the caller)
fn small_ops(level: u64) -> Vec<Op> {
    let one = 0x3f80_0000u32;
    let hundred = 0x42c8_0000u32;
    let kds: Vec<Option<u32>> = if level == 0 { vec![None, Some(one)] } else { vec![None, Some(one), Some(hundred)] };
    let avs: Vec<(u64, u32)> = if level == 0 { vec![(0, 0), (2, one)] } else { vec![(0, 0), (1, 0), (2, one)] };
    let mut ops = vec![Op::Clear];
    for kw in &kds {
        for kh in &kds {
            for aw in &avs {
                for ah in &avs {
                    for m in 0..3u64 {
                        let k = Key { kw: *kw, kh: *kh, aw: *aw, ah: *ah };
                        ops.push(Op::Get(k, m));
                        // stored size (1, 100): a query with known width 1 matches the cached width, known height 1 does not
                        ops.push(Op::Store(k, m, one, hundred, 0));
                    }
                }
            }
        }
    }
    ops
}

fn with_payload(op: Op, p: u64) -> Op {
    match op {
        Op::Store(k, m, w, h, _) => Op::Store(k, m, w, h, p),
        o => o,
    }
}

// ------------------------------------------------------------------------------------------------ direct oracle

/// the documented slot classes (doc comment of compute_cache_slot), written independently of the implementation
fn doc_slot(k: &Key) -> u64 {
    let min = |a: (u64, u32)| a.0 == 0;
    match (k.kw.is_some(), k.kh.is_some()) {
        (true, true) => 0,
        (true, false) => {
            if min(k.ah) {
                2
            } else {
                1
            }
        }
        (false, true) => {
            if min(k.aw) {
                4
            } else {
                3
            }
        }
        (false, false) => match (min(k.aw), min(k.ah)) {
            (false, false) => 5,
            (false, true) => 6,
            (true, false) => 7,
            (true, true) => 8,
        },
    }
}

fn spec_roughly(a: (u64, u32), b: (u64, u32)) -> bool {
    match (a.0, b.0) {
        (2, 2) => (f(a.1) - f(b.1)).abs() < f32::EPSILON,
        (x, y) => x == y,
    }
}

/// "stored under the same known dimension (or the queried known dimension equals the stored size on that axis) and, on
/// an axis with no known dimension, under the same available-space constraint"
fn spec_compat(q: &Key, s: &Key, sw: u32, sh: u32) -> bool {
    let dim = |q: Option<u32>, s: Option<u32>, cached: u32| q.map(f) == s.map(f) || q.map(f) == Some(f(cached));
    dim(q.kw, s.kw, sw) && dim(q.kh, s.kh, sh) && (q.kw.is_some() || spec_roughly(s.aw, q.aw)) && (q.kh.is_some() || spec_roughly(s.ah, q.ah))
}

/// the key matches itself: known dimensions are not NaN; on an axis without known dimension a definite available space is finite
fn refl_key(k: &Key) -> bool {
    let dim = |d: Option<u32>| d.map_or(true, |b| !f(b).is_nan());
    let av = |d: Option<u32>, a: (u64, u32)| d.is_some() || a.0 != 2 || f(a.1).is_finite();
    dim(k.kw) && dim(k.kh) && av(k.kw, k.aw) && av(k.kh, k.ah)
}

struct Rec {
    key: Key,
    mode: u64,
    w: u32,
    h: u32,
    payload: u64,
}

/// The property as executable predicates over the real Cache.  Returns the failures as (op index, message).
pub fn oracle(ops: &[Op], extra_probes: &[Key]) -> Vec<(usize, String)> {
    let mut fails = vec![];
    let mut c = Cache::new();
    let mut shadow: Vec<Rec> = vec![]; // non-hidden stores since the last clear, in order
    let mut seen: Vec<Key> = extra_probes.to_vec(); // every key that ever occurred (probed after each clear)
    if !c.is_empty() {
        fails.push((0, "a new cache does not report empty".to_string()));
    }
    let check_get = |c: &Cache, shadow: &[Rec], k: &Key, m: u64, i: usize, fails: &mut Vec<(usize, String)>| {
        let g = do_get(c, k, m);
        if g.hit {
            if m == 2 {
                fails.push((i, "a hidden-layout lookup hit".to_string()));
                return;
            }
            let expected_payload = |r: &Rec| if m == 0 { r.payload } else { 0 };
            let from_mode = shadow.iter().any(|r| r.mode == m && r.w == g.w && r.h == g.h && expected_payload(r) == g.payload);
            let ok = shadow.iter().any(|r| r.mode == m && r.w == g.w && r.h == g.h && expected_payload(r) == g.payload && spec_compat(k, &r.key, r.w, r.h));
            if !ok {
                let why = if !from_mode {
                    "that no store of this run mode since the last clear produced"
                } else {
                    "stored under an incompatible key (different known dimension / available space)"
                };
                fails.push((i, format!("lookup returned size ({:#x}, {:#x}) payload {} {}", g.w, g.h, g.payload, why)));
            }
        } else if m != 2 && refl_key(k) {
            // a store under exactly this key and mode, not displaced since
            let pos = shadow.iter().rposition(|r| r.mode == m && r.key == *k);
            if let Some(p) = pos {
                let displaced = shadow[p + 1..].iter().any(|r| r.mode == m && (m == 0 || doc_slot(&r.key) == doc_slot(k)));
                if !displaced {
                    fails.push((i, format!("lookup under the key of stored result #{} misses although no clear / same-slot store displaced it", shadow[p].payload)));
                }
            }
        }
    };
    for (i, op) in ops.iter().enumerate() {
        match op {
            Op::Get(k, m) => {
                seen.push(*k);
                check_get(&c, &shadow, k, *m, i, &mut fails);
            }
            Op::Store(k, m, w, h, p) => {
                seen.push(*k);
                let empty_before = c.is_empty();
                c.store(k.kd(), k.av(), mode(*m), output(*w, *h, *p));
                if *m == 2 {
                    if c.is_empty() != empty_before {
                        fails.push((i, "a hidden-layout store changed is_empty()".to_string()));
                    }
                } else {
                    shadow.push(Rec { key: *k, mode: *m, w: *w, h: *h, payload: *p });
                    if c.is_empty() {
                        fails.push((i, "the cache reports empty right after a store".to_string()));
                    }
                }
                // get right after store (hit when the key matches itself; never for hidden; sound in any case)
                check_get(&c, &shadow, k, *m, i, &mut fails);
            }
            Op::Clear => {
                let empty_before = c.is_empty();
                let cleared = do_clear(&mut c);
                if cleared == empty_before {
                    fails.push((
                        i,
                        format!(
                            "is_empty flag out of step with the entries: clear() reported {} on a cache whose is_empty() was {}",
                            if cleared { "Cleared" } else { "AlreadyEmpty" },
                            empty_before
                        ),
                    ));
                }
                shadow.clear();
                if !c.is_empty() {
                    fails.push((i, "the cache does not report empty after clear()".to_string()));
                }
                for k in &seen {
                    for m in 0..3 {
                        if do_get(&c, k, m).hit {
                            fails.push((i, "a lookup hits right after clear()".to_string()));
                        }
                    }
                }
            }
        }
        if fails.len() > 3 {
            break;
        }
    }
    fails
}

/// greedy shrink: drop operations while the oracle still fails; then end the sequence at the failing operation
fn minimise(ops: &[Op]) -> Vec<Op> {
    let mut cur = ops.to_vec();
    let fails_at = |o: &[Op]| oracle(o, &[]).first().map(|f| f.0);
    if let Some(i) = fails_at(&cur) {
        cur.truncate(i + 1);
    }
    loop {
        let mut changed = false;
        let mut i = 0;
        while i < cur.len() {
            let mut t = cur.clone();
            t.remove(i);
            if fails_at(&t).is_some() {
                cur = t;
                changed = true;
            } else {
                i += 1;
            }
        }
        if !changed {
            break;
        }
    }
    if let Some(i) = fails_at(&cur) {
        cur.truncate(i + 1);
    }
    cur
}

fn report(ops: &[Op]) -> bool {
    let fl = oracle(ops, &[]);
    if fl.is_empty() {
        return false;
    }
    let min = minimise(ops);
    let msg = oracle(&min, &[]).first().map(|f| format!("op {}: {}", f.0, f.1)).unwrap_or_default();
    println!("FAIL {} | {}", line(&encode(&min)), msg);
    true
}

pub fn main(args: &[String]) {
    match args[0].as_str() {
        "nanwitness" => {
            // a key with a NaN known dimension, or an infinite definite available space, does not match itself
            let out = LayoutOutput::from_outer_size(Size { width: 1.0, height: 1.0 });
            let none = Size { width: None, height: None };
            let mc = Size { width: AvailableSpace::MaxContent, height: AvailableSpace::MaxContent };
            let mut c = Cache::new();
            let kd = Size { width: Some(f32::NAN), height: None };
            c.store(kd, mc, RunMode::ComputeSize, out);
            println!("NANKEY hit={}", c.get(kd, mc, RunMode::ComputeSize).is_some());
            let mut c = Cache::new();
            let av = Size { width: AvailableSpace::Definite(f32::INFINITY), height: AvailableSpace::MaxContent };
            c.store(none, av, RunMode::PerformLayout, out);
            println!("INFKEY hit={}", c.get(none, av, RunMode::PerformLayout).is_some());
            let mut c = Cache::new();
            let av = Size { width: AvailableSpace::Definite(100.0), height: AvailableSpace::MaxContent };
            c.store(none, av, RunMode::PerformLayout, out);
            println!("FINITEKEY hit={}", c.get(none, av, RunMode::PerformLayout).is_some());
        }
        "cases" => {
            let seed: u64 = args[1].parse().unwrap();
            let n: u64 = args[2].parse().unwrap();
            let mut rng = Rng::new(seed ^ 0xC02);
            for ops in corpus() {
                print_case(&ops);
            }
            for _ in 0..n {
                let ops = sequence(&mut rng, 20);
                print_case(&ops);
            }
        }
        "exhaustive" => {
            let level: u64 = args[1].parse().unwrap();
            let ops = small_ops(level);
            for a in &ops {
                print_case(&[with_payload(*a, 1)]);
                for b in &ops {
                    print_case(&[with_payload(*a, 1), with_payload(*b, 2)]);
                }
            }
        }
        "oracle" => {
            let seed: u64 = args[1].parse().unwrap();
            let n: u64 = args[2].parse().unwrap();
            let mut rng = Rng::new(seed ^ 0x0C02_0C02);
            let mut nfail = 0;
            let mut total_ops = 0usize;
            let mut seqs: Vec<Vec<Op>> = corpus();
            // all sequences of length <= 2 over the larger sub-domain, directly on the implementation
            let ops = small_ops(1);
            for a in &ops {
                for b in &ops {
                    seqs.push(vec![with_payload(*a, 1), with_payload(*b, 2), with_payload(*a, 3)]);
                }
            }
            let nfixed = seqs.len() as u64;
            for i in 0..nfixed + n {
                let ops = if i < nfixed { seqs[i as usize].clone() } else { sequence(&mut rng, 60) };
                total_ops += ops.len();
                if report(&ops) {
                    nfail += 1;
                    if nfail >= 5 {
                        break;
                    }
                }
            }
            println!("ORACLE sequences {} ops {}", nfixed + n, total_ops);
        }
        "one" => {
            let v: Vec<u64> = args[1..].iter().map(|s| s.parse().unwrap()).collect();
            let ops = decode(&v);
            print_case(&ops);
            for (i, m) in oracle(&ops, &[]) {
                println!("FAIL {} | op {}: {}", line(&encode(&ops)), i, m);
            }
        }
        _ => {
            eprintln!("c02: unknown command");
            std::process::exit(2);
        }
    }
}
