(* GENERATED on every run by translator/gen_abspos.py from src/compute/{block,flexbox}.rs, src/compute/grid/{alignment,mod}.rs,
   src/util/math.rs and src/geometry.rs -- do not edit. *)
From Coq Require Import ZArith NArith QArith Bool List.
From TV Require Import Num.Num Gen.AbsPosEnums Model.AbsPosBase.
Section AbsPosGen.
Context {T : Type} `{Num T}.

Definition maybe_min_OO (self : (option T)) (rhs : (option T)) : (option T) :=
    ((match (self, rhs) with
      | ((Some l), (Some r)) => (Some (fmin l r))
      | ((Some _), None) => self
      | (None, (Some _)) => None
      | (None, None) => None
      end)).

Definition maybe_max_OO (self : (option T)) (rhs : (option T)) : (option T) :=
    ((match (self, rhs) with
      | ((Some l), (Some r)) => (Some (fmax l r))
      | ((Some _), None) => self
      | (None, (Some _)) => None
      | (None, None) => None
      end)).

Definition maybe_clamp_OOO (self : (option T)) (v_min : (option T)) (v_max : (option T)) : (option T) :=
    ((match (self, v_min, v_max) with
      | ((Some base), (Some v_min), (Some v_max)) => (Some (fmax (fmin base v_max) v_min))
      | ((Some base), None, (Some v_max)) => (Some (fmin base v_max))
      | ((Some base), (Some v_min), None) => (Some (fmax base v_min))
      | ((Some _), None, None) => self
      | (None, _, _) => None
      end)).

Definition maybe_add_OO (self : (option T)) (rhs : (option T)) : (option T) :=
    ((match (self, rhs) with
      | ((Some l), (Some r)) => (Some (add l r))
      | ((Some _), None) => self
      | (None, (Some _)) => None
      | (None, None) => None
      end)).

Definition maybe_sub_OO (self : (option T)) (rhs : (option T)) : (option T) :=
    ((match (self, rhs) with
      | ((Some l), (Some r)) => (Some (sub l r))
      | ((Some _), None) => self
      | (None, (Some _)) => None
      | (None, None) => None
      end)).

Definition maybe_min_OF (self : (option T)) (rhs : T) : (option T) :=
    ((option_map (fun val => (fmin val rhs)) self)).

Definition maybe_max_OF (self : (option T)) (rhs : T) : (option T) :=
    ((option_map (fun val => (fmax val rhs)) self)).

Definition maybe_clamp_OFF (self : (option T)) (v_min : T) (v_max : T) : (option T) :=
    ((option_map (fun val => (fmax (fmin val v_max) v_min)) self)).

Definition maybe_add_OF (self : (option T)) (rhs : T) : (option T) :=
    ((option_map (fun val => (add val rhs)) self)).

Definition maybe_sub_OF (self : (option T)) (rhs : T) : (option T) :=
    ((option_map (fun val => (sub val rhs)) self)).

Definition maybe_min_FO (self : T) (rhs : (option T)) : T :=
    ((match rhs with
      | (Some val) => (fmin self val)
      | None => self
      end)).

Definition maybe_max_FO (self : T) (rhs : (option T)) : T :=
    ((match rhs with
      | (Some val) => (fmax self val)
      | None => self
      end)).

Definition maybe_clamp_FOO (self : T) (v_min : (option T)) (v_max : (option T)) : T :=
    ((match (v_min, v_max) with
      | ((Some v_min), (Some v_max)) => (fmax (fmin self v_max) v_min)
      | (None, (Some v_max)) => (fmin self v_max)
      | ((Some v_min), None) => (fmax self v_min)
      | (None, None) => self
      end)).

Definition maybe_add_FO (self : T) (rhs : (option T)) : T :=
    ((match rhs with
      | (Some val) => (add self val)
      | None => self
      end)).

Definition maybe_sub_FO (self : T) (rhs : (option T)) : T :=
    ((match rhs with
      | (Some val) => (sub self val)
      | None => self
      end)).

Definition size_maybe_apply_aspect_ratio (self : (Size (option T))) (aspect_ratio : (option T)) : (Size (option T)) :=
    ((match aspect_ratio with
      | (Some ratio) => (match ((s_width self), (s_height self)) with
      | ((Some v_width), None) => (mkSize (Some v_width) (Some (div v_width ratio)))
      | (None, (Some v_height)) => (mkSize (Some (mul v_height ratio)) (Some v_height))
      | _ => self
      end)
      | None => self
      end)).

Definition rect_main_start (self : (Rect T)) (direction : FlexDirection) : T :=
    ((if (fd_is_row direction) then ((r_left self)) else ((r_top self)))).

Definition rect_main_end (self : (Rect T)) (direction : FlexDirection) : T :=
    ((if (fd_is_row direction) then ((r_right self)) else ((r_bottom self)))).

Definition rect_cross_start (self : (Rect T)) (direction : FlexDirection) : T :=
    ((if (fd_is_row direction) then ((r_top self)) else ((r_left self)))).

Definition rect_cross_end (self : (Rect T)) (direction : FlexDirection) : T :=
    ((if (fd_is_row direction) then ((r_bottom self)) else ((r_right self)))).

Definition size_main (self : (Size T)) (direction : FlexDirection) : T :=
    ((if (fd_is_row direction) then ((s_width self)) else ((s_height self)))).

Definition size_cross (self : (Size T)) (direction : FlexDirection) : T :=
    ((if (fd_is_row direction) then ((s_height self)) else ((s_width self)))).

Definition point_main (self : (Point T)) (direction : FlexDirection) : T :=
    ((if (fd_is_row direction) then ((p_x self)) else ((p_y self)))).

Definition point_cross (self : (Point T)) (direction : FlexDirection) : T :=
    ((if (fd_is_row direction) then ((p_y self)) else ((p_x self)))).

Definition block_scrollbar_gutter (offsets : (Point T)) : (Rect T) :=
    (mkRect zero (p_x offsets) zero (p_y offsets)).

Definition block_abs_area (final_outer_size : (Size T)) (resolved_border : (Rect T)) (offsets : (Point T)) : (Size T * Point T) :=
    let absolute_position_inset := (rect_add resolved_border (block_scrollbar_gutter offsets)) in
    let absolute_position_area := (size_sub final_outer_size (rect_sum_axes absolute_position_inset)) in
    let absolute_position_offset := (mkPoint (r_left absolute_position_inset) (r_top absolute_position_inset)) in
    (absolute_position_area, absolute_position_offset).

Definition block_resolve (area_size : (Size T)) (area_offset : (Point T)) (st : (AbsStyle T)) : (AbsIn T) :=
    let area_width := (s_width area_size) in
    let area_height := (s_height area_size) in
    let aspect_ratio := (st_aspect_ratio st) in
    let v_margin := (rect_map (fun v_margin => (dim_resolve_to_option v_margin area_width)) (st_margin st)) in
    let v_padding := (rect_map (fun d => dim_resolve_or_zero d (Some area_width)) (st_padding st)) in
    let v_border := (rect_map (fun d => dim_resolve_or_zero d (Some area_width)) (st_border st)) in
    let padding_border_sum := (rect_sum_axes (rect_add v_padding v_border)) in
    let box_sizing_adjustment := (if (BoxSizing_eqb (st_box_sizing st) BS_ContentBox) then (padding_border_sum) else (size_zero)) in
    let v_left := (dim_maybe_resolve (r_left (st_inset st)) (Some area_width)) in
    let v_right := (dim_maybe_resolve (r_right (st_inset st)) (Some area_width)) in
    let v_top := (dim_maybe_resolve (r_top (st_inset st)) (Some area_height)) in
    let v_bottom := (dim_maybe_resolve (r_bottom (st_inset st)) (Some area_height)) in
    let size0 := (size_zip2 maybe_add_OF (size_maybe_apply_aspect_ratio (size_zip2 (fun d c => dim_maybe_resolve d (Some c)) (st_size st) area_size) aspect_ratio) box_sizing_adjustment) in
    let min0 := (size_zip2 maybe_add_OF (size_maybe_apply_aspect_ratio (size_zip2 (fun d c => dim_maybe_resolve d (Some c)) (st_min_size st) area_size) aspect_ratio) box_sizing_adjustment) in
    let max0 := (size_zip2 maybe_add_OF (size_maybe_apply_aspect_ratio (size_zip2 (fun d c => dim_maybe_resolve d (Some c)) (st_max_size st) area_size) aspect_ratio) box_sizing_adjustment) in
    (mkAbsIn aspect_ratio v_margin (mkRect v_left v_right v_top v_bottom) v_padding v_border padding_border_sum size0 min0 max0 (st_align_self st) (st_justify_self st) (st_position st)).

Definition block_known (area_size : (Size T)) (area_offset : (Point T)) (static_position : (Point T)) (i : (AbsIn T)) : (Size (option T)) :=
    let area_width := (s_width area_size) in
    let area_height := (s_height area_size) in
    let style_size := (ai_size i) in
    let min_size := (size_zip2 maybe_max_OF (size_or (ai_min0 i) (size_map Some (ai_pb_sum i))) (ai_pb_sum i)) in
    let max_size := (ai_max i) in
    let known_dimensions := (size_zip3 maybe_clamp_OOO style_size min_size max_size) in
    let known_dimensions := (match ((s_width known_dimensions), (r_left (ai_inset i)), (r_right (ai_inset i))) with (None, (Some v_left), (Some v_right)) => (let new_width_raw := (sub (sub (maybe_sub_FO (maybe_sub_FO area_width (r_left (ai_margin i))) (r_right (ai_margin i))) v_left) v_right) in
    let known_dimensions := (size_set_width known_dimensions (Some (fmax new_width_raw zero))) in
    let known_dimensions := (size_zip3 maybe_clamp_OOO (size_maybe_apply_aspect_ratio known_dimensions (ai_aspect_ratio i)) min_size max_size) in
    known_dimensions) | _ => known_dimensions end) in
    let known_dimensions := (match ((s_height known_dimensions), (r_top (ai_inset i)), (r_bottom (ai_inset i))) with (None, (Some v_top), (Some v_bottom)) => (let new_height_raw := (sub (sub (maybe_sub_FO (maybe_sub_FO area_height (r_top (ai_margin i))) (r_bottom (ai_margin i))) v_top) v_bottom) in
    let known_dimensions := (size_set_height known_dimensions (Some (fmax new_height_raw zero))) in
    let known_dimensions := (size_zip3 maybe_clamp_OOO (size_maybe_apply_aspect_ratio known_dimensions (ai_aspect_ratio i)) min_size max_size) in
    known_dimensions) | _ => known_dimensions end) in
    known_dimensions.

Definition block_final_size (area_size : (Size T)) (area_offset : (Point T)) (static_position : (Point T)) (i : (AbsIn T)) (measured : (Size T)) : (Size T) :=
    let area_width := (s_width area_size) in
    let area_height := (s_height area_size) in
    let style_size := (ai_size i) in
    let min_size := (size_zip2 maybe_max_OF (size_or (ai_min0 i) (size_map Some (ai_pb_sum i))) (ai_pb_sum i)) in
    let max_size := (ai_max i) in
    let known_dimensions := (size_zip3 maybe_clamp_OOO style_size min_size max_size) in
    let known_dimensions := (match ((s_width known_dimensions), (r_left (ai_inset i)), (r_right (ai_inset i))) with (None, (Some v_left), (Some v_right)) => (let new_width_raw := (sub (sub (maybe_sub_FO (maybe_sub_FO area_width (r_left (ai_margin i))) (r_right (ai_margin i))) v_left) v_right) in
    let known_dimensions := (size_set_width known_dimensions (Some (fmax new_width_raw zero))) in
    let known_dimensions := (size_zip3 maybe_clamp_OOO (size_maybe_apply_aspect_ratio known_dimensions (ai_aspect_ratio i)) min_size max_size) in
    known_dimensions) | _ => known_dimensions end) in
    let known_dimensions := (match ((s_height known_dimensions), (r_top (ai_inset i)), (r_bottom (ai_inset i))) with (None, (Some v_top), (Some v_bottom)) => (let new_height_raw := (sub (sub (maybe_sub_FO (maybe_sub_FO area_height (r_top (ai_margin i))) (r_bottom (ai_margin i))) v_top) v_bottom) in
    let known_dimensions := (size_set_height known_dimensions (Some (fmax new_height_raw zero))) in
    let known_dimensions := (size_zip3 maybe_clamp_OOO (size_maybe_apply_aspect_ratio known_dimensions (ai_aspect_ratio i)) min_size max_size) in
    known_dimensions) | _ => known_dimensions end) in
    let layout_output_size := measured in
    let measured_size := layout_output_size in
    let final_size := (size_zip3 maybe_clamp_FOO (size_unwrap_or known_dimensions measured_size) min_size max_size) in
    final_size.

Definition block_place (area_size : (Size T)) (area_offset : (Point T)) (static_position : (Point T)) (i : (AbsIn T)) (measured : (Size T)) : (AbsOut T) :=
    let area_width := (s_width area_size) in
    let area_height := (s_height area_size) in
    let style_size := (ai_size i) in
    let min_size := (size_zip2 maybe_max_OF (size_or (ai_min0 i) (size_map Some (ai_pb_sum i))) (ai_pb_sum i)) in
    let max_size := (ai_max i) in
    let known_dimensions := (size_zip3 maybe_clamp_OOO style_size min_size max_size) in
    let known_dimensions := (match ((s_width known_dimensions), (r_left (ai_inset i)), (r_right (ai_inset i))) with (None, (Some v_left), (Some v_right)) => (let new_width_raw := (sub (sub (maybe_sub_FO (maybe_sub_FO area_width (r_left (ai_margin i))) (r_right (ai_margin i))) v_left) v_right) in
    let known_dimensions := (size_set_width known_dimensions (Some (fmax new_width_raw zero))) in
    let known_dimensions := (size_zip3 maybe_clamp_OOO (size_maybe_apply_aspect_ratio known_dimensions (ai_aspect_ratio i)) min_size max_size) in
    known_dimensions) | _ => known_dimensions end) in
    let known_dimensions := (match ((s_height known_dimensions), (r_top (ai_inset i)), (r_bottom (ai_inset i))) with (None, (Some v_top), (Some v_bottom)) => (let new_height_raw := (sub (sub (maybe_sub_FO (maybe_sub_FO area_height (r_top (ai_margin i))) (r_bottom (ai_margin i))) v_top) v_bottom) in
    let known_dimensions := (size_set_height known_dimensions (Some (fmax new_height_raw zero))) in
    let known_dimensions := (size_zip3 maybe_clamp_OOO (size_maybe_apply_aspect_ratio known_dimensions (ai_aspect_ratio i)) min_size max_size) in
    known_dimensions) | _ => known_dimensions end) in
    let layout_output_size := measured in
    let measured_size := layout_output_size in
    let final_size := (block_final_size area_size area_offset static_position i measured) in
    let non_auto_margin := (mkRect (if (opt_is_some (r_left (ai_inset i))) then ((opt_unwrap_or (r_left (ai_margin i)) zero)) else (zero)) (if (opt_is_some (r_right (ai_inset i))) then ((opt_unwrap_or (r_right (ai_margin i)) zero)) else (zero)) (if (opt_is_some (r_top (ai_inset i))) then ((opt_unwrap_or (r_top (ai_margin i)) zero)) else (zero)) (if (opt_is_some (r_bottom (ai_inset i))) then ((opt_unwrap_or (r_bottom (ai_margin i)) zero)) else (zero))) in
    let auto_margin := (let absolute_auto_margin_space := (mkPoint (opt_unwrap_or (option_map (fun v_right => (sub (sub (s_width area_size) v_right) (opt_unwrap_or (r_left (ai_inset i)) zero))) (r_right (ai_inset i))) (s_width final_size)) (opt_unwrap_or (option_map (fun v_bottom => (sub (sub (s_height area_size) v_bottom) (opt_unwrap_or (r_top (ai_inset i)) zero))) (r_bottom (ai_inset i))) (s_height final_size))) in
    let free_space := (mkSize (sub (sub (p_x absolute_auto_margin_space) (s_width final_size)) (rect_horizontal_axis_sum non_auto_margin)) (sub (sub (p_y absolute_auto_margin_space) (s_height final_size)) (rect_vertical_axis_sum non_auto_margin))) in
    let auto_margin_size := (mkSize (let auto_margin_count := (N.add (b2n (opt_is_none (r_left (ai_margin i)))) (b2n (opt_is_none (r_right (ai_margin i))))) in
    (if (andb (N.eqb auto_margin_count 2%N) (match (s_width style_size) with None => true | Some unwrapped1 => (geb unwrapped1 (s_width free_space)) end)) then (zero) else (if (N.ltb 0%N auto_margin_count) then ((div (s_width free_space) (u8_as_f32 auto_margin_count))) else (zero)))) (let auto_margin_count := (N.add (b2n (opt_is_none (r_top (ai_margin i)))) (b2n (opt_is_none (r_bottom (ai_margin i))))) in
    (if (andb (N.eqb auto_margin_count 2%N) (match (s_height style_size) with None => true | Some unwrapped1 => (geb unwrapped1 (s_height free_space)) end)) then (zero) else (if (N.ltb 0%N auto_margin_count) then ((div (s_height free_space) (u8_as_f32 auto_margin_count))) else (zero))))) in
    (mkRect (opt_unwrap_or (option_map (fun _ => zero) (r_left (ai_margin i))) (s_width auto_margin_size)) (opt_unwrap_or (option_map (fun _ => zero) (r_right (ai_margin i))) (s_width auto_margin_size)) (opt_unwrap_or (option_map (fun _ => zero) (r_top (ai_margin i))) (s_height auto_margin_size)) (opt_unwrap_or (option_map (fun _ => zero) (r_bottom (ai_margin i))) (s_height auto_margin_size)))) in
    let resolved_margin := (mkRect (opt_unwrap_or (r_left (ai_margin i)) (r_left auto_margin)) (opt_unwrap_or (r_right (ai_margin i)) (r_right auto_margin)) (opt_unwrap_or (r_top (ai_margin i)) (r_top auto_margin)) (opt_unwrap_or (r_bottom (ai_margin i)) (r_bottom auto_margin))) in
    let location := (mkPoint (opt_unwrap_or (maybe_add_OF (opt_or (option_map (fun v_left => (add v_left (r_left resolved_margin))) (r_left (ai_inset i))) (option_map (fun v_right => (sub (sub (sub (s_width area_size) (s_width final_size)) v_right) (r_right resolved_margin))) (r_right (ai_inset i)))) (p_x area_offset)) (add (p_x static_position) (r_left resolved_margin))) (opt_unwrap_or (maybe_add_OF (opt_or (option_map (fun v_top => (add v_top (r_top resolved_margin))) (r_top (ai_inset i))) (option_map (fun v_bottom => (sub (sub (sub (s_height area_size) (s_height final_size)) v_bottom) (r_bottom resolved_margin))) (r_bottom (ai_inset i)))) (p_y area_offset)) (add (p_y static_position) (r_top resolved_margin)))) in
    (mkAbsOut location final_size resolved_margin).

Definition block_child (area_size : (Size T)) (area_offset : (Point T)) (static_position : (Point T)) (i : (AbsIn T)) (measure : (Size (option T) -> Size T)) : (AbsOut T) :=
    block_place area_size area_offset static_position i (measure (block_known area_size area_offset static_position i)).

Definition flex_inset_relative_size (c : (FlexConstants T)) : (Size T) :=
    let container_width := (s_width (fc_container_size c)) in
    let container_height := (s_height (fc_container_size c)) in
    let inset_relative_size := (size_sub (size_sub (fc_container_size c) (rect_sum_axes (fc_border c))) (point_to_size (fc_scrollbar_gutter c))) in
    inset_relative_size.

Definition flex_resolve (c : (FlexConstants T)) (st : (AbsStyle T)) : (AbsIn T) :=
    let container_width := (s_width (fc_container_size c)) in
    let container_height := (s_height (fc_container_size c)) in
    let inset_relative_size := (size_sub (size_sub (fc_container_size c) (rect_sum_axes (fc_border c))) (point_to_size (fc_scrollbar_gutter c))) in
    let aspect_ratio := (st_aspect_ratio st) in
    let v_margin := (rect_map (fun v_margin => (dim_resolve_to_option v_margin (s_width inset_relative_size))) (st_margin st)) in
    let v_padding := (rect_map (fun d => dim_resolve_or_zero d (Some (s_width inset_relative_size))) (st_padding st)) in
    let v_border := (rect_map (fun d => dim_resolve_or_zero d (Some (s_width inset_relative_size))) (st_border st)) in
    let padding_border_sum := (rect_sum_axes (rect_add v_padding v_border)) in
    let box_sizing_adjustment := (if (BoxSizing_eqb (st_box_sizing st) BS_ContentBox) then (padding_border_sum) else (size_zero)) in
    let v_left := (dim_maybe_resolve (r_left (st_inset st)) (Some (s_width inset_relative_size))) in
    let v_right := (dim_maybe_resolve (r_right (st_inset st)) (Some (s_width inset_relative_size))) in
    let v_top := (dim_maybe_resolve (r_top (st_inset st)) (Some (s_height inset_relative_size))) in
    let v_bottom := (dim_maybe_resolve (r_bottom (st_inset st)) (Some (s_height inset_relative_size))) in
    let size0 := (size_zip2 maybe_add_OF (size_maybe_apply_aspect_ratio (size_zip2 (fun d c => dim_maybe_resolve d (Some c)) (st_size st) inset_relative_size) aspect_ratio) box_sizing_adjustment) in
    let min0 := (size_zip2 maybe_add_OF (size_maybe_apply_aspect_ratio (size_zip2 (fun d c => dim_maybe_resolve d (Some c)) (st_min_size st) inset_relative_size) aspect_ratio) box_sizing_adjustment) in
    let max0 := (size_zip2 maybe_add_OF (size_maybe_apply_aspect_ratio (size_zip2 (fun d c => dim_maybe_resolve d (Some c)) (st_max_size st) inset_relative_size) aspect_ratio) box_sizing_adjustment) in
    (mkAbsIn aspect_ratio v_margin (mkRect v_left v_right v_top v_bottom) v_padding v_border padding_border_sum size0 min0 max0 (st_align_self st) (st_justify_self st) (st_position st)).

Definition flex_known (c : (FlexConstants T)) (i : (AbsIn T)) : (Size (option T)) :=
    let container_width := (s_width (fc_container_size c)) in
    let container_height := (s_height (fc_container_size c)) in
    let inset_relative_size := (size_sub (size_sub (fc_container_size c) (rect_sum_axes (fc_border c))) (point_to_size (fc_scrollbar_gutter c))) in
    let align_self := (opt_unwrap_or (ai_align_self i) (fc_align_items c)) in
    let style_size := (ai_size i) in
    let min_size := (size_zip2 maybe_max_OF (size_or (ai_min0 i) (size_map Some (ai_pb_sum i))) (ai_pb_sum i)) in
    let max_size := (ai_max i) in
    let known_dimensions := (size_zip3 maybe_clamp_OOO style_size min_size max_size) in
    let known_dimensions := (match ((s_width known_dimensions), (r_left (ai_inset i)), (r_right (ai_inset i))) with (None, (Some v_left), (Some v_right)) => (let new_width_raw := (sub (sub (maybe_sub_FO (maybe_sub_FO (s_width inset_relative_size) (r_left (ai_margin i))) (r_right (ai_margin i))) v_left) v_right) in
    let known_dimensions := (size_set_width known_dimensions (Some (fmax new_width_raw zero))) in
    let known_dimensions := (size_zip3 maybe_clamp_OOO (size_maybe_apply_aspect_ratio known_dimensions (ai_aspect_ratio i)) min_size max_size) in
    known_dimensions) | _ => known_dimensions end) in
    let known_dimensions := (match ((s_height known_dimensions), (r_top (ai_inset i)), (r_bottom (ai_inset i))) with (None, (Some v_top), (Some v_bottom)) => (let new_height_raw := (sub (sub (maybe_sub_FO (maybe_sub_FO (s_height inset_relative_size) (r_top (ai_margin i))) (r_bottom (ai_margin i))) v_top) v_bottom) in
    let known_dimensions := (size_set_height known_dimensions (Some (fmax new_height_raw zero))) in
    let known_dimensions := (size_zip3 maybe_clamp_OOO (size_maybe_apply_aspect_ratio known_dimensions (ai_aspect_ratio i)) min_size max_size) in
    known_dimensions) | _ => known_dimensions end) in
    known_dimensions.

Definition flex_final_size (c : (FlexConstants T)) (i : (AbsIn T)) (measured : (Size T)) : (Size T) :=
    let container_width := (s_width (fc_container_size c)) in
    let container_height := (s_height (fc_container_size c)) in
    let inset_relative_size := (size_sub (size_sub (fc_container_size c) (rect_sum_axes (fc_border c))) (point_to_size (fc_scrollbar_gutter c))) in
    let align_self := (opt_unwrap_or (ai_align_self i) (fc_align_items c)) in
    let style_size := (ai_size i) in
    let min_size := (size_zip2 maybe_max_OF (size_or (ai_min0 i) (size_map Some (ai_pb_sum i))) (ai_pb_sum i)) in
    let max_size := (ai_max i) in
    let known_dimensions := (size_zip3 maybe_clamp_OOO style_size min_size max_size) in
    let known_dimensions := (match ((s_width known_dimensions), (r_left (ai_inset i)), (r_right (ai_inset i))) with (None, (Some v_left), (Some v_right)) => (let new_width_raw := (sub (sub (maybe_sub_FO (maybe_sub_FO (s_width inset_relative_size) (r_left (ai_margin i))) (r_right (ai_margin i))) v_left) v_right) in
    let known_dimensions := (size_set_width known_dimensions (Some (fmax new_width_raw zero))) in
    let known_dimensions := (size_zip3 maybe_clamp_OOO (size_maybe_apply_aspect_ratio known_dimensions (ai_aspect_ratio i)) min_size max_size) in
    known_dimensions) | _ => known_dimensions end) in
    let known_dimensions := (match ((s_height known_dimensions), (r_top (ai_inset i)), (r_bottom (ai_inset i))) with (None, (Some v_top), (Some v_bottom)) => (let new_height_raw := (sub (sub (maybe_sub_FO (maybe_sub_FO (s_height inset_relative_size) (r_top (ai_margin i))) (r_bottom (ai_margin i))) v_top) v_bottom) in
    let known_dimensions := (size_set_height known_dimensions (Some (fmax new_height_raw zero))) in
    let known_dimensions := (size_zip3 maybe_clamp_OOO (size_maybe_apply_aspect_ratio known_dimensions (ai_aspect_ratio i)) min_size max_size) in
    known_dimensions) | _ => known_dimensions end) in
    let layout_output_size := measured in
    let measured_size := layout_output_size in
    let final_size := (size_zip3 maybe_clamp_FOO (size_unwrap_or known_dimensions measured_size) min_size max_size) in
    final_size.

Definition flex_place (c : (FlexConstants T)) (i : (AbsIn T)) (measured : (Size T)) : (AbsOut T) :=
    let container_width := (s_width (fc_container_size c)) in
    let container_height := (s_height (fc_container_size c)) in
    let inset_relative_size := (size_sub (size_sub (fc_container_size c) (rect_sum_axes (fc_border c))) (point_to_size (fc_scrollbar_gutter c))) in
    let align_self := (opt_unwrap_or (ai_align_self i) (fc_align_items c)) in
    let style_size := (ai_size i) in
    let min_size := (size_zip2 maybe_max_OF (size_or (ai_min0 i) (size_map Some (ai_pb_sum i))) (ai_pb_sum i)) in
    let max_size := (ai_max i) in
    let known_dimensions := (size_zip3 maybe_clamp_OOO style_size min_size max_size) in
    let known_dimensions := (match ((s_width known_dimensions), (r_left (ai_inset i)), (r_right (ai_inset i))) with (None, (Some v_left), (Some v_right)) => (let new_width_raw := (sub (sub (maybe_sub_FO (maybe_sub_FO (s_width inset_relative_size) (r_left (ai_margin i))) (r_right (ai_margin i))) v_left) v_right) in
    let known_dimensions := (size_set_width known_dimensions (Some (fmax new_width_raw zero))) in
    let known_dimensions := (size_zip3 maybe_clamp_OOO (size_maybe_apply_aspect_ratio known_dimensions (ai_aspect_ratio i)) min_size max_size) in
    known_dimensions) | _ => known_dimensions end) in
    let known_dimensions := (match ((s_height known_dimensions), (r_top (ai_inset i)), (r_bottom (ai_inset i))) with (None, (Some v_top), (Some v_bottom)) => (let new_height_raw := (sub (sub (maybe_sub_FO (maybe_sub_FO (s_height inset_relative_size) (r_top (ai_margin i))) (r_bottom (ai_margin i))) v_top) v_bottom) in
    let known_dimensions := (size_set_height known_dimensions (Some (fmax new_height_raw zero))) in
    let known_dimensions := (size_zip3 maybe_clamp_OOO (size_maybe_apply_aspect_ratio known_dimensions (ai_aspect_ratio i)) min_size max_size) in
    known_dimensions) | _ => known_dimensions end) in
    let layout_output_size := measured in
    let measured_size := layout_output_size in
    let final_size := (flex_final_size c i measured) in
    let non_auto_margin := (rect_map (fun m => (opt_unwrap_or m zero)) (ai_margin i)) in
    let free_space := (size_f32_max (mkSize (sub (sub (s_width (fc_container_size c)) (s_width final_size)) (rect_horizontal_axis_sum non_auto_margin)) (sub (sub (s_height (fc_container_size c)) (s_height final_size)) (rect_vertical_axis_sum non_auto_margin))) size_zero) in
    let resolved_margin := (let auto_margin_size := (mkSize (let auto_margin_count := (N.add (b2n (opt_is_none (r_left (ai_margin i)))) (b2n (opt_is_none (r_right (ai_margin i))))) in
    (if (N.ltb 0%N auto_margin_count) then ((div (s_width free_space) (u8_as_f32 auto_margin_count))) else (zero))) (let auto_margin_count := (N.add (b2n (opt_is_none (r_top (ai_margin i)))) (b2n (opt_is_none (r_bottom (ai_margin i))))) in
    (if (N.ltb 0%N auto_margin_count) then ((div (s_height free_space) (u8_as_f32 auto_margin_count))) else (zero)))) in
    (mkRect (opt_unwrap_or (r_left (ai_margin i)) (s_width auto_margin_size)) (opt_unwrap_or (r_right (ai_margin i)) (s_width auto_margin_size)) (opt_unwrap_or (r_top (ai_margin i)) (s_height auto_margin_size)) (opt_unwrap_or (r_bottom (ai_margin i)) (s_height auto_margin_size)))) in
    let '(start_main, end_main) := (if (fc_is_row c) then (((r_left (ai_inset i)), (r_right (ai_inset i)))) else (((r_top (ai_inset i)), (r_bottom (ai_inset i))))) in
    let '(start_cross, end_cross) := (if (fc_is_row c) then (((r_top (ai_inset i)), (r_bottom (ai_inset i)))) else (((r_left (ai_inset i)), (r_right (ai_inset i))))) in
    let offset_main := (match start_main with (Some v_start) => ((add (add v_start (rect_main_start (fc_border c) (fc_dir c))) (rect_main_start resolved_margin (fc_dir c)))) | _ => (match end_main with (Some v_end) => ((sub (sub (sub (sub (sub (size_main (fc_container_size c) (fc_dir c)) (rect_main_end (fc_border c) (fc_dir c))) (point_main (fc_scrollbar_gutter c) (fc_dir c))) (size_main final_size (fc_dir c))) v_end) (rect_main_end resolved_margin (fc_dir c)))) | _ => ((match ((opt_unwrap_or (fc_justify_content c) AC_Start), (fc_is_wrap_reverse c)) with
      | (AC_SpaceBetween, _) | (AC_Start, _) | (AC_Stretch, false) | (AC_FlexStart, false) | (AC_FlexEnd, true) => ((add (rect_main_start (fc_content_box_inset c) (fc_dir c)) (rect_main_start resolved_margin (fc_dir c))))
      | (AC_End, _) | (AC_FlexEnd, false) | (AC_FlexStart, true) | (AC_Stretch, true) => ((sub (sub (sub (size_main (fc_container_size c) (fc_dir c)) (rect_main_end (fc_content_box_inset c) (fc_dir c))) (size_main final_size (fc_dir c))) (rect_main_end resolved_margin (fc_dir c))))
      | (AC_SpaceEvenly, _) | (AC_SpaceAround, _) | (AC_Center, _) => ((div (sub (add (sub (sub (add (size_main (fc_container_size c) (fc_dir c)) (rect_main_start (fc_content_box_inset c) (fc_dir c))) (rect_main_end (fc_content_box_inset c) (fc_dir c))) (size_main final_size (fc_dir c))) (rect_main_start resolved_margin (fc_dir c))) (rect_main_end resolved_margin (fc_dir c))) (of_Z 2)))
      end)) end) end) in
    let offset_cross := (match start_cross with (Some v_start) => ((add (add v_start (rect_cross_start (fc_border c) (fc_dir c))) (rect_cross_start resolved_margin (fc_dir c)))) | _ => (match end_cross with (Some v_end) => ((sub (sub (sub (sub (sub (size_cross (fc_container_size c) (fc_dir c)) (rect_cross_end (fc_border c) (fc_dir c))) (point_cross (fc_scrollbar_gutter c) (fc_dir c))) (size_cross final_size (fc_dir c))) v_end) (rect_cross_end resolved_margin (fc_dir c)))) | _ => ((match (align_self, (fc_is_wrap_reverse c)) with
      | (AI_Start, _) | ((AI_Baseline | AI_Stretch | AI_FlexStart), false) | (AI_FlexEnd, true) => ((add (rect_cross_start (fc_content_box_inset c) (fc_dir c)) (rect_cross_start resolved_margin (fc_dir c))))
      | (AI_End, _) | ((AI_Baseline | AI_Stretch | AI_FlexStart), true) | (AI_FlexEnd, false) => ((sub (sub (sub (size_cross (fc_container_size c) (fc_dir c)) (rect_cross_end (fc_content_box_inset c) (fc_dir c))) (size_cross final_size (fc_dir c))) (rect_cross_end resolved_margin (fc_dir c))))
      | (AI_Center, _) => ((div (sub (add (sub (sub (add (size_cross (fc_container_size c) (fc_dir c)) (rect_cross_start (fc_content_box_inset c) (fc_dir c))) (rect_cross_end (fc_content_box_inset c) (fc_dir c))) (size_cross final_size (fc_dir c))) (rect_cross_start resolved_margin (fc_dir c))) (rect_cross_end resolved_margin (fc_dir c))) (of_Z 2)))
      end)) end) end) in
    let location := (match (fc_is_row c) with
      | true => (mkPoint offset_main offset_cross)
      | false => (mkPoint offset_cross offset_main)
      end) in
    (mkAbsOut location final_size resolved_margin).

Definition flex_child (c : (FlexConstants T)) (i : (AbsIn T)) (measure : (Size (option T) -> Size T)) : (AbsOut T) :=
    flex_place c i (measure (flex_known c i)).

Definition grid_align_item_within_area (grid_area : (Line T)) (alignment_style : AlignItems) (resolved_size : T) (v_position : Position) (inset : (Line (option T))) (v_margin : (Line (option T))) (baseline_shim : T) : (T * (Line T)) :=
    (let non_auto_margin := (mkLine (add (opt_unwrap_or (l_start v_margin) zero) baseline_shim) (opt_unwrap_or (l_end v_margin) zero)) in
    let grid_area_size := (fmax (sub (l_end grid_area) (l_start grid_area)) zero) in
    let free_space := (fmax (sub (sub grid_area_size resolved_size) (line_sum non_auto_margin)) zero) in
    let auto_margin_count := (N.add (b2n (opt_is_none (l_start v_margin))) (b2n (opt_is_none (l_end v_margin)))) in
    let auto_margin_size := (if (N.ltb 0%N auto_margin_count) then ((div free_space (u8_as_f32 auto_margin_count))) else (zero)) in
    let resolved_margin := (mkLine (add (opt_unwrap_or (l_start v_margin) auto_margin_size) baseline_shim) (opt_unwrap_or (l_end v_margin) auto_margin_size)) in
    let alignment_based_offset := (match alignment_style with
      | AI_Start | AI_FlexStart => (l_start resolved_margin)
      | AI_End | AI_FlexEnd => (sub (sub grid_area_size resolved_size) (l_end resolved_margin))
      | AI_Center => (div (sub (add (sub grid_area_size resolved_size) (l_start resolved_margin)) (l_end resolved_margin)) (of_Z 2))
      | AI_Baseline => (l_start resolved_margin)
      | AI_Stretch => (l_start resolved_margin)
      end) in
    let offset_within_area := (if (Position_eqb v_position Pos_Absolute) then ((match (l_start inset) with (Some v_start) => ((add v_start (l_start non_auto_margin))) | _ => (match (l_end inset) with (Some v_end) => ((sub (sub (sub grid_area_size v_end) resolved_size) (l_end non_auto_margin))) | _ => (alignment_based_offset) end) end)) else (alignment_based_offset)) in
    let v_start := (add (l_start grid_area) offset_within_area) in
    let v_start := (if (Position_eqb v_position Pos_Relative) then (let v_start := (add v_start (opt_unwrap_or (opt_or (l_start inset) (option_map (fun pos => (neg pos)) (l_end inset))) zero)) in
    v_start) else v_start) in
    (v_start, resolved_margin)).

Definition grid_resolve (grid_area : (Rect T)) (st : (AbsStyle T)) : (AbsIn T) :=
    let grid_area_size := (mkSize (sub (r_right grid_area) (r_left grid_area)) (sub (r_bottom grid_area) (r_top grid_area))) in
    let aspect_ratio := (st_aspect_ratio st) in
    let justify_self := (st_justify_self st) in
    let align_self := (st_align_self st) in
    let v_position := (st_position st) in
    let inset_horizontal := (line_map (fun v_size => (dim_resolve_to_option v_size (s_width grid_area_size))) (rect_horizontal_components (st_inset st))) in
    let inset_vertical := (line_map (fun v_size => (dim_resolve_to_option v_size (s_height grid_area_size))) (rect_vertical_components (st_inset st))) in
    let v_padding := (rect_map (fun p => (dim_resolve_or_zero p (Some (s_width grid_area_size)))) (st_padding st)) in
    let v_border := (rect_map (fun p => (dim_resolve_or_zero p (Some (s_width grid_area_size)))) (st_border st)) in
    let padding_border_size := (rect_sum_axes (rect_add v_padding v_border)) in
    let box_sizing_adjustment := (if (BoxSizing_eqb (st_box_sizing st) BS_ContentBox) then (padding_border_size) else (size_zero)) in
    let size0 := (size_zip2 maybe_add_OF (size_maybe_apply_aspect_ratio (size_zip2 (fun d c => dim_maybe_resolve d (Some c)) (st_size st) grid_area_size) aspect_ratio) box_sizing_adjustment) in
    let min0 := (size_zip2 maybe_add_OF (size_zip2 (fun d c => dim_maybe_resolve d (Some c)) (st_min_size st) grid_area_size) box_sizing_adjustment) in
    let max0 := (size_zip2 maybe_add_OF (size_maybe_apply_aspect_ratio (size_zip2 (fun d c => dim_maybe_resolve d (Some c)) (st_max_size st) grid_area_size) aspect_ratio) box_sizing_adjustment) in
    let v_margin := (rect_map (fun v_margin => (dim_resolve_to_option v_margin (s_width grid_area_size))) (st_margin st)) in
    (mkAbsIn aspect_ratio v_margin (mkRect (l_start inset_horizontal) (l_end inset_horizontal) (l_start inset_vertical) (l_end inset_vertical)) v_padding v_border padding_border_size size0 min0 max0 align_self justify_self v_position).

Definition grid_known (grid_area : (Rect T)) (container_alignment_styles : (InBoth (option AlignItems))) (baseline_shim : T) (i : (AbsIn T)) : (Size (option T)) :=
    let grid_area_size := (mkSize (sub (r_right grid_area) (r_left grid_area)) (sub (r_bottom grid_area) (r_top grid_area))) in
    let inherent_size := (ai_size i) in
    let min_size := (size_maybe_apply_aspect_ratio (size_zip2 maybe_max_OF (size_or (ai_min0 i) (size_map Some (ai_pb_sum i))) (ai_pb_sum i)) (ai_aspect_ratio i)) in
    let max_size := (ai_max i) in
    let alignment_styles := (mkInBoth (opt_unwrap_or (opt_or (ai_justify_self i) (ib_horizontal container_alignment_styles)) ((if (opt_is_some (s_width inherent_size)) then (AI_Start) else (AI_Stretch)))) (opt_unwrap_or (opt_or (ai_align_self i) (ib_vertical container_alignment_styles)) ((if (orb (opt_is_some (s_height inherent_size)) (opt_is_some (ai_aspect_ratio i))) then (AI_Start) else (AI_Stretch))))) in
    let grid_area_minus_item_margins_size := (mkSize (maybe_sub_FO (maybe_sub_FO (s_width grid_area_size) (r_left (ai_margin i))) (r_right (ai_margin i))) (sub (maybe_sub_FO (maybe_sub_FO (s_height grid_area_size) (r_top (ai_margin i))) (r_bottom (ai_margin i))) baseline_shim)) in
    let v_width := (opt_or (s_width inherent_size) (let k2 := (let k1 := None in if (andb (andb (andb (opt_is_some (r_left (ai_margin i))) (opt_is_some (r_right (ai_margin i)))) (AlignItems_eqb (ib_horizontal alignment_styles) AI_Stretch)) (negb (Position_eqb (ai_position i) Pos_Absolute))) then (Some (s_width grid_area_minus_item_margins_size)) else k1) in if (Position_eqb (ai_position i) Pos_Absolute) then (let k3 := k2 in match ((l_start (rect_horizontal_components (ai_inset i))), (l_end (rect_horizontal_components (ai_inset i)))) with ((Some v_left), (Some v_right)) => (Some (fmax (sub (sub (s_width grid_area_minus_item_margins_size) v_left) v_right) zero)) | _ => k3 end) else k2)) in
    let '(mkSize v_width v_height) := (size_maybe_apply_aspect_ratio (mkSize v_width (s_height inherent_size)) (ai_aspect_ratio i)) in
    let v_height := (opt_or v_height (let k5 := (let k4 := None in if (andb (andb (andb (opt_is_some (r_top (ai_margin i))) (opt_is_some (r_bottom (ai_margin i)))) (AlignItems_eqb (ib_vertical alignment_styles) AI_Stretch)) (negb (Position_eqb (ai_position i) Pos_Absolute))) then (Some (s_height grid_area_minus_item_margins_size)) else k4) in if (Position_eqb (ai_position i) Pos_Absolute) then (let k6 := k5 in match ((l_start (rect_vertical_components (ai_inset i))), (l_end (rect_vertical_components (ai_inset i)))) with ((Some v_top), (Some v_bottom)) => (Some (fmax (sub (sub (s_height grid_area_minus_item_margins_size) v_top) v_bottom) zero)) | _ => k6 end) else k5)) in
    let '(mkSize v_width v_height) := (size_maybe_apply_aspect_ratio (mkSize v_width v_height) (ai_aspect_ratio i)) in
    let '(mkSize v_width v_height) := (size_zip3 maybe_clamp_OOO (mkSize v_width v_height) min_size max_size) in
    (mkSize v_width v_height).

Definition grid_final_size (grid_area : (Rect T)) (container_alignment_styles : (InBoth (option AlignItems))) (baseline_shim : T) (i : (AbsIn T)) (measured : (Size T)) : (Size T) :=
    let grid_area_size := (mkSize (sub (r_right grid_area) (r_left grid_area)) (sub (r_bottom grid_area) (r_top grid_area))) in
    let inherent_size := (ai_size i) in
    let min_size := (size_maybe_apply_aspect_ratio (size_zip2 maybe_max_OF (size_or (ai_min0 i) (size_map Some (ai_pb_sum i))) (ai_pb_sum i)) (ai_aspect_ratio i)) in
    let max_size := (ai_max i) in
    let alignment_styles := (mkInBoth (opt_unwrap_or (opt_or (ai_justify_self i) (ib_horizontal container_alignment_styles)) ((if (opt_is_some (s_width inherent_size)) then (AI_Start) else (AI_Stretch)))) (opt_unwrap_or (opt_or (ai_align_self i) (ib_vertical container_alignment_styles)) ((if (orb (opt_is_some (s_height inherent_size)) (opt_is_some (ai_aspect_ratio i))) then (AI_Start) else (AI_Stretch))))) in
    let grid_area_minus_item_margins_size := (mkSize (maybe_sub_FO (maybe_sub_FO (s_width grid_area_size) (r_left (ai_margin i))) (r_right (ai_margin i))) (sub (maybe_sub_FO (maybe_sub_FO (s_height grid_area_size) (r_top (ai_margin i))) (r_bottom (ai_margin i))) baseline_shim)) in
    let v_width := (opt_or (s_width inherent_size) (let k2 := (let k1 := None in if (andb (andb (andb (opt_is_some (r_left (ai_margin i))) (opt_is_some (r_right (ai_margin i)))) (AlignItems_eqb (ib_horizontal alignment_styles) AI_Stretch)) (negb (Position_eqb (ai_position i) Pos_Absolute))) then (Some (s_width grid_area_minus_item_margins_size)) else k1) in if (Position_eqb (ai_position i) Pos_Absolute) then (let k3 := k2 in match ((l_start (rect_horizontal_components (ai_inset i))), (l_end (rect_horizontal_components (ai_inset i)))) with ((Some v_left), (Some v_right)) => (Some (fmax (sub (sub (s_width grid_area_minus_item_margins_size) v_left) v_right) zero)) | _ => k3 end) else k2)) in
    let '(mkSize v_width v_height) := (size_maybe_apply_aspect_ratio (mkSize v_width (s_height inherent_size)) (ai_aspect_ratio i)) in
    let v_height := (opt_or v_height (let k5 := (let k4 := None in if (andb (andb (andb (opt_is_some (r_top (ai_margin i))) (opt_is_some (r_bottom (ai_margin i)))) (AlignItems_eqb (ib_vertical alignment_styles) AI_Stretch)) (negb (Position_eqb (ai_position i) Pos_Absolute))) then (Some (s_height grid_area_minus_item_margins_size)) else k4) in if (Position_eqb (ai_position i) Pos_Absolute) then (let k6 := k5 in match ((l_start (rect_vertical_components (ai_inset i))), (l_end (rect_vertical_components (ai_inset i)))) with ((Some v_top), (Some v_bottom)) => (Some (fmax (sub (sub (s_height grid_area_minus_item_margins_size) v_top) v_bottom) zero)) | _ => k6 end) else k5)) in
    let '(mkSize v_width v_height) := (size_maybe_apply_aspect_ratio (mkSize v_width v_height) (ai_aspect_ratio i)) in
    let '(mkSize v_width v_height) := (size_zip3 maybe_clamp_OOO (mkSize v_width v_height) min_size max_size) in
    let layout_output_size := measured in
    let '(mkSize v_width v_height) := (size_zip3 maybe_clamp_FOO (size_unwrap_or (mkSize v_width v_height) layout_output_size) min_size max_size) in
    (mkSize v_width v_height).

Definition grid_place (grid_area : (Rect T)) (container_alignment_styles : (InBoth (option AlignItems))) (baseline_shim : T) (i : (AbsIn T)) (measured : (Size T)) : (AbsOut T) :=
    let grid_area_size := (mkSize (sub (r_right grid_area) (r_left grid_area)) (sub (r_bottom grid_area) (r_top grid_area))) in
    let inherent_size := (ai_size i) in
    let min_size := (size_maybe_apply_aspect_ratio (size_zip2 maybe_max_OF (size_or (ai_min0 i) (size_map Some (ai_pb_sum i))) (ai_pb_sum i)) (ai_aspect_ratio i)) in
    let max_size := (ai_max i) in
    let alignment_styles := (mkInBoth (opt_unwrap_or (opt_or (ai_justify_self i) (ib_horizontal container_alignment_styles)) ((if (opt_is_some (s_width inherent_size)) then (AI_Start) else (AI_Stretch)))) (opt_unwrap_or (opt_or (ai_align_self i) (ib_vertical container_alignment_styles)) ((if (orb (opt_is_some (s_height inherent_size)) (opt_is_some (ai_aspect_ratio i))) then (AI_Start) else (AI_Stretch))))) in
    let grid_area_minus_item_margins_size := (mkSize (maybe_sub_FO (maybe_sub_FO (s_width grid_area_size) (r_left (ai_margin i))) (r_right (ai_margin i))) (sub (maybe_sub_FO (maybe_sub_FO (s_height grid_area_size) (r_top (ai_margin i))) (r_bottom (ai_margin i))) baseline_shim)) in
    let v_width := (opt_or (s_width inherent_size) (let k2 := (let k1 := None in if (andb (andb (andb (opt_is_some (r_left (ai_margin i))) (opt_is_some (r_right (ai_margin i)))) (AlignItems_eqb (ib_horizontal alignment_styles) AI_Stretch)) (negb (Position_eqb (ai_position i) Pos_Absolute))) then (Some (s_width grid_area_minus_item_margins_size)) else k1) in if (Position_eqb (ai_position i) Pos_Absolute) then (let k3 := k2 in match ((l_start (rect_horizontal_components (ai_inset i))), (l_end (rect_horizontal_components (ai_inset i)))) with ((Some v_left), (Some v_right)) => (Some (fmax (sub (sub (s_width grid_area_minus_item_margins_size) v_left) v_right) zero)) | _ => k3 end) else k2)) in
    let '(mkSize v_width v_height) := (size_maybe_apply_aspect_ratio (mkSize v_width (s_height inherent_size)) (ai_aspect_ratio i)) in
    let v_height := (opt_or v_height (let k5 := (let k4 := None in if (andb (andb (andb (opt_is_some (r_top (ai_margin i))) (opt_is_some (r_bottom (ai_margin i)))) (AlignItems_eqb (ib_vertical alignment_styles) AI_Stretch)) (negb (Position_eqb (ai_position i) Pos_Absolute))) then (Some (s_height grid_area_minus_item_margins_size)) else k4) in if (Position_eqb (ai_position i) Pos_Absolute) then (let k6 := k5 in match ((l_start (rect_vertical_components (ai_inset i))), (l_end (rect_vertical_components (ai_inset i)))) with ((Some v_top), (Some v_bottom)) => (Some (fmax (sub (sub (s_height grid_area_minus_item_margins_size) v_top) v_bottom) zero)) | _ => k6 end) else k5)) in
    let '(mkSize v_width v_height) := (size_maybe_apply_aspect_ratio (mkSize v_width v_height) (ai_aspect_ratio i)) in
    let '(mkSize v_width v_height) := (size_zip3 maybe_clamp_OOO (mkSize v_width v_height) min_size max_size) in
    let layout_output_size := measured in
    let '(mkSize v_width v_height) := (grid_final_size grid_area container_alignment_styles baseline_shim i measured) in
    let '(v_x, x_margin) := (grid_align_item_within_area (mkLine (r_left grid_area) (r_right grid_area)) (opt_unwrap_or (ai_justify_self i) (ib_horizontal alignment_styles)) v_width (ai_position i) (rect_horizontal_components (ai_inset i)) (rect_horizontal_components (ai_margin i)) zero) in
    let '(v_y, y_margin) := (grid_align_item_within_area (mkLine (r_top grid_area) (r_bottom grid_area)) (opt_unwrap_or (ai_align_self i) (ib_vertical alignment_styles)) v_height (ai_position i) (rect_vertical_components (ai_inset i)) (rect_vertical_components (ai_margin i)) baseline_shim) in
    let resolved_margin := (mkRect (l_start x_margin) (l_end x_margin) (l_start y_margin) (l_end y_margin)) in
    (mkAbsOut (mkPoint v_x v_y) (mkSize v_width v_height) resolved_margin).

Definition grid_child (grid_area : (Rect T)) (container_alignment_styles : (InBoth (option AlignItems))) (baseline_shim : T) (i : (AbsIn T)) (measure : (Size (option T) -> Size T)) : (AbsOut T) :=
    grid_place grid_area container_alignment_styles baseline_shim i (measure (grid_known grid_area container_alignment_styles baseline_shim i)).

Definition grid_abs_area (container_border_box : (Size T)) (border : (Rect T)) (scrollbar_gutter : (Point T)) : (Rect T) :=
    (mkRect (r_left border) (sub (sub (s_width container_border_box) (r_right border)) (p_x scrollbar_gutter)) (r_top border) (sub (sub (s_height container_border_box) (r_bottom border)) (p_y scrollbar_gutter))).

End AbsPosGen.
